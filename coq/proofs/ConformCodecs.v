(* ConformCodecs.v — C06 for top-level messages owned by ONE field codec: nullable, int64_encoding = NUMBER,
   bytes_encoding, timestamp_format, empty_behavior.  The JSON the server sends (Codec.encode, which is the
   documented form Mapping.to_json by the conforms theorems of proofs/XConforms.v) validates against the component schema the
   OpenAPI document publishes for the message, and carries no property that schema does not describe.

     part 1  field classes, the schema convertField publishes for each class (read back as keywords)
     part 2  one populated field of each class: validity and "nothing undescribed"
     part 3  the documented form of a whole message, entry by entry; the object schema
     part 4  the generic theorem on Mapping.to_json (any mix of the five annotations)
     part 5  the five codecs (Codec.encode through the conforms theorems)
     part 6  witnesses: non-vacuity, needed side conditions, and the repaired finding (nullable enum) *)
From Coq Require Import Lia ZArith List.
From Sebuf Require Import Conform.
From SebufProofs Require Import JsonSchemaFacts RulesFacts OpenApiFacts TextFacts CodecTextFacts ProtoJsonFacts CodecExamples MappingFacts ConformFacts.
From SebufProofs Require Import NullableFacts NullableConforms Int64Facts Int64Conforms BytesFacts BytesConforms.
From SebufProofs Require Import TimestampFacts TimestampConforms EmptyFacts EmptyConforms.
Import ListNotations.

(* ================================================================================================ *)
(*  Part 1: field classes and their schemas                                                          *)
(* ================================================================================================ *)
(* the field without any sebuf annotation *)
Definition strip (f : field) : field :=
  {| f_name := f_name f; f_number := f_number f; f_kind := f_kind f; f_card := f_card f; f_oneof := f_oneof f; f_query := f_query f;
     f_unwrap := false; f_int64 := None; f_enumenc := None; f_nullable := None; f_empty := None; f_tsfmt := None;
     f_bytesenc := None; f_oneof_value := None; f_flatten := None; f_flatten_prefix := None |}.

Lemma strip_plain f : MappingFacts.plain_field (strip f) = true.
Proof. reflexivity. Qed.
Lemma strip_wt_entry sc f x : wt_entry sc (strip f) x = wt_entry sc f x.
Proof. reflexivity. Qed.

Definition singularish (f : field) : bool := match f_card f with Singular | Optional => true | _ => false end.
Definition empty_null (f : field) : bool := match f_empty f with Some EBNull => true | _ => false end.

(* no annotation that changes the rendering of the field's own scalars / Timestamps is in force *)
Definition sc_plainish (f : field) : bool :=
  negb (ProtoJson.is_int64_kind (f_kind f) && i64_number f) && is_none (f_enumenc f) && is_none (f_bytesenc f) && is_none (f_tsfmt f).

(* kinds nullable = true may sit on: every kind but a message (nullable.go:60-67) - enums included since the repair
   of nullable-enum-null-not-in-enum *)
Definition nullable_kind (k : kind) : bool := negb (is_msgk k).
(* the enum of an enum kind declares a value (protoc and protodesc refuse an enum without values): what puts a
   non-empty `enum` keyword into the schema for makeNullableSchema to extend *)
Definition enum_inhabited (sc : schema) (k : kind) : bool :=
  match k with
  | KEnum tn => match find_enum (all_enums sc) tn with
                | Some e => match e_values e with [] => false | _ => true end
                | None => true end
  | _ => true
  end.
Definition nullable_enums_inhabited (sc : schema) (md : message) : bool :=
  forallb (fun f => negb (is_nullable f) || enum_inhabited sc (f_kind f)) (m_fields md).

(* the four classes of fields the theorems cover *)
Definition c6_class_plain (f : field) : bool :=
  sc_plainish f && (negb (is_nullable f) || (singularish f && nullable_kind (f_kind f))).
Definition c6_class_i64 (f : field) : bool :=
  ProtoJson.is_int64_kind (f_kind f) && i64_number f && negb (Codec.is_map f) && negb (is_nullable f).
Definition c6_class_bytes (f : field) : bool :=
  kind_eqb (f_kind f) KBytes && negb (Codec.is_map f) && negb (is_nullable f).
Definition c6_class_ts (f : field) : bool :=
  match tsfmt_of f with Some _ => true | None => false end && singularish f && negb (is_nullable f) && negb (empty_null f).
Definition c6_field_ok (f : field) : bool :=
  negb (is_flatten f) && (c6_class_plain f || c6_class_i64 f || c6_class_bytes f || c6_class_ts f).

(* the message: covered fields, no configured oneof, not a root unwrap *)
Definition c6_msg_ok (md : message) : bool :=
  forallb c6_field_ok (m_fields md) && negb (existsb oneof_cfg (m_oneofs md)) && negb (is_root_unwrap md).

(* every child value is un-annotated (for an annotated scalar / Timestamp field this says nothing) *)
Definition kids_plain (sc : schema) (md : message) (m : mval) : bool :=
  forallb (fun e => match find_field (m_fields md) (fst e) with
                    | Some f => plain_in sc (f_kind f) (snd e)
                    | None => false end) m.

(* formats and the one pattern the codec schemas add; like the wire formats they are annotations for the
   validator (P06, the parameters of the correspondence run, satisfies both) *)
Definition codec_formats : list str := [s "hex"; s "base64url"; s "date"; s "unix-timestamp"; s "unix-timestamp-ms"].
Definition codec_formats_are_annotations (P : vparams) : Prop :=
  forall name x, mem_str name codec_formats = true -> vp_format P name x = true.
Definition hex_pattern_matches_hex (P : vparams) : Prop :=
  forall x, forallb is_hex_char x = true -> vp_regex P hex_pattern x = true.

Lemma P06_codec_formats : codec_formats_are_annotations P06.
Proof. intros name x _. reflexivity. Qed.
Lemma P06_hex : hex_pattern_matches_hex P06.
Proof. intros x H. cbn. exact H. Qed.

Lemma hex_char_is_hex x : is_hex_char (hex_char x) = true.
Proof. destruct x as [[[[|] [|]] [|]] [|]]; reflexivity. Qed.
Lemma hex_enc_is_hex b : forallb is_hex_char (hex_enc b) = true.
Proof.
  induction b as [|[b0 b1 b2 b3 b4 b5 b6 b7] r IH]; [reflexivity|].
  cbn [hex_enc forallb]. now rewrite !hex_char_is_hex, IH.
Qed.

(* ---- convertScalarField / convertField on the classes ------------------------------------------------ *)
Lemma sc_plainish_facts f : sc_plainish f = true ->
  (ProtoJson.is_int64_kind (f_kind f) && i64_number f) = false /\ f_enumenc f = None /\ f_bytesenc f = None /\ f_tsfmt f = None.
Proof.
  unfold sc_plainish. intros H. repeat (apply andb_prop in H; destruct H as [H ?]).
  apply Bool.negb_true_iff in H.
  repeat match goal with
         | Hx : is_none ?o = true |- _ => destruct o; [discriminate Hx|clear Hx]
         end.
  repeat split; auto.
Qed.

Lemma convert_scalar_plainish sc mn f : sc_plainish f = true -> convert_scalar sc no_side mn f = elem_node sc (f_kind f).
Proof.
  intros Hp. destruct (sc_plainish_facts f Hp) as [Hi [He [Hb Ht]]].
  unfold elem_node, convert_scalar. cbn [f_kind OpenApi.plain_field f_name].
  unfold side_rules, side_examples. cbn [sd_rules sd_examples no_side find].
  rewrite !constraint_entries_none.
  destruct (f_kind f) eqn:Ek; cbn [example_entries app ProtoJson.is_int64_kind andb] in *;
    unfold bytes_entries; cbn [f_int64 f_bytesenc OpenApi.plain_field]; rewrite ?Hi, ?Hb; try reflexivity.
  - unfold enum_schema. cbn [f_enumenc OpenApi.plain_field]. now rewrite He.
  - unfold timestamp_schema. cbn [f_tsfmt OpenApi.plain_field f_kind]. rewrite Ht. reflexivity.
Qed.

Lemma strip_plainish f : sc_plainish (strip f) = true.
Proof. unfold sc_plainish, i64_number. cbn [strip f_int64 f_enumenc f_bytesenc f_tsfmt f_kind]. now rewrite Bool.andb_false_r. Qed.

(* what convertField publishes for a field of the plain class *)
Lemma convert_field_plainish sc mn f : sc_plainish f = true ->
  convert_field sc no_side mn f =
  match f_card f with
  | Repeated | MapOf _ => convert_field sc no_side mn (strip f)
  | _ => if is_nullable f then make_nullable (elem_node sc (f_kind f))
         else if OpenApi.is_msg_kind (f_kind f) && empty_null f
              then YMap [(s "oneOf", YSeq [elem_node sc (f_kind f); YMap [(s "type", ystr "null")]])]
              else convert_field sc no_side mn (strip f)
  end.
Proof.
  intros Hp. unfold convert_field.
  rewrite (convert_scalar_plainish sc mn f Hp), (convert_scalar_plainish sc mn (strip f) (strip_plainish f)).
  cbn [strip f_card f_kind f_name f_nullable f_empty].
  unfold is_nullable, empty_null.
  destruct (f_card f); try reflexivity.
  - destruct (f_nullable f) as [[|]|]; try reflexivity; rewrite Bool.andb_false_r; destruct (OpenApi.is_msg_kind (f_kind f) && _); reflexivity.
  - destruct (f_nullable f) as [[|]|]; try reflexivity; rewrite Bool.andb_false_r; destruct (OpenApi.is_msg_kind (f_kind f) && _); reflexivity.
Qed.

Lemma convert_field_plainish_sing sc mn f : sc_plainish f = true -> singularish f = true ->
  convert_field sc no_side mn f =
  if is_nullable f then make_nullable (elem_node sc (f_kind f))
  else if OpenApi.is_msg_kind (f_kind f) && empty_null f
       then YMap [(s "oneOf", YSeq [elem_node sc (f_kind f); YMap [(s "type", ystr "null")]])]
       else convert_field sc no_side mn (strip f).
Proof.
  intros Hp Hs. rewrite (convert_field_plainish sc mn f Hp). unfold singularish in Hs.
  destruct (f_card f); try discriminate Hs; reflexivity.
Qed.
Lemma convert_field_plainish_multi sc mn f : sc_plainish f = true -> singularish f = false ->
  convert_field sc no_side mn f = convert_field sc no_side mn (strip f).
Proof.
  intros Hp Hs. rewrite (convert_field_plainish sc mn f Hp). unfold singularish in Hs.
  destruct (f_card f); try discriminate Hs; reflexivity.
Qed.

(* reading the schemas back *)
Definition null_kws (k : kind) : list keyword :=
  match scalar_kws k with KwType ts :: r => KwType (ts ++ [TNull]) :: r | l => l end.
Lemma rd_nullable_node sc fu k : is_scalar_kind k = true -> rd fu (make_nullable (elem_node sc k)) = SObj (null_kws k).
Proof. destruct k; try discriminate; intros _; reflexivity. Qed.

(* an enum kind: the strings convertEnumField lists (custom enum_value, else the name) *)
Definition enum_strs (e : enum) : list str :=
  map (fun v => match ev_custom v with
                | Some c => match c with [] => ev_name v | _ :: _ => c end
                | None => ev_name v end) (e_values e).
Definition enum_node_kws (names : list str) : list keyword :=
  [KwType [TString]; KwEnum (map (rd_plain reader12) names)].
Definition null_enum_kws (names : list str) : list keyword :=
  [KwType [TString; TNull]; KwEnum (map (rd_plain reader12) names ++ [JVNull])].

Lemma rd_enum_node sc fu tn e : find_enum (all_enums sc) tn = Some e ->
  rd fu (elem_node sc (KEnum tn)) = SObj (enum_node_kws (enum_strs e)).
Proof.
  intros He. unfold elem_node, convert_scalar. cbn [f_kind OpenApi.plain_field]. unfold enum_schema.
  cbn [f_enumenc OpenApi.plain_field]. rewrite He.
  change (map (fun v => YPlain (match ev_custom v with
                                | Some c => match c with [] => ev_name v | _ :: _ => c end
                                | None => ev_name v end)) (e_values e))
    with (map (fun v => YPlain ((fun v0 => match ev_custom v0 with
                                | Some c => match c with [] => ev_name v0 | _ :: _ => c end
                                | None => ev_name v0 end) v)) (e_values e)).
  rewrite <- (map_map _ YPlain). fold (enum_strs e).
  rewrite rd_ymap. cbn [map]. rewrite kw_type_string, kw_enum. reflexivity.
Qed.

(* the repaired makeNullableSchema on an enum field: `null` joins the type list AND the enum list *)
Lemma rd_nullable_enum_node sc fu tn e : find_enum (all_enums sc) tn = Some e -> enum_inhabited sc (KEnum tn) = true ->
  rd fu (make_nullable (elem_node sc (KEnum tn))) = SObj (null_enum_kws (enum_strs e)).
Proof.
  intros He Hin. cbn [enum_inhabited] in Hin. rewrite He in Hin.
  unfold elem_node, convert_scalar. cbn [f_kind OpenApi.plain_field]. unfold enum_schema.
  cbn [f_enumenc OpenApi.plain_field]. rewrite He.
  change (map (fun v => YPlain (match ev_custom v with
                                | Some c => match c with [] => ev_name v | _ :: _ => c end
                                | None => ev_name v end)) (e_values e))
    with (map (fun v => YPlain ((fun v0 => match ev_custom v0 with
                                | Some c => match c with [] => ev_name v0 | _ :: _ => c end
                                | None => ev_name v0 end) v)) (e_values e)).
  rewrite <- (map_map _ YPlain). fold (enum_strs e).
  assert (Hne : exists a l, enum_strs e = a :: l).
  { unfold enum_strs. destruct (e_values e) as [|v r]; [discriminate Hin|]. cbn [map]. eexists. eexists. reflexivity. }
  destruct Hne as [a [l Hal]]. rewrite Hal.
  change (make_nullable (YMap [(s "type", ystr "string"); (s "enum", YSeq (map YPlain (a :: l)))]))
    with (YMap [(s "type", YSeq [YGoStr (s "string"); YGoStr (s "null")]); (s "enum", YSeq (map YPlain (a :: l) ++ [YNull]))]).
  rewrite rd_ymap. cbn [map]. unfold null_enum_kws. f_equal. f_equal.
  unfold kw12. cbn [fst snd denote]. f_equal. f_equal.
  change (YPlain a :: map YPlain l) with (map YPlain (a :: l)).
  rewrite map_app, map_map. reflexivity.
Qed.
Lemma rd_nullable_enum_missing sc fu tn : find_enum (all_enums sc) tn = None ->
  rd fu (make_nullable (elem_node sc (KEnum tn))) = SObj (null_kws KString).
Proof.
  intros He. unfold elem_node, convert_scalar. cbn [f_kind OpenApi.plain_field]. unfold enum_schema. rewrite He. reflexivity.
Qed.
Lemma rd_enum_missing sc fu tn : find_enum (all_enums sc) tn = None ->
  rd fu (elem_node sc (KEnum tn)) = SObj (scalar_kws KString).
Proof.
  intros He. unfold elem_node, convert_scalar. cbn [f_kind OpenApi.plain_field]. unfold enum_schema. rewrite He. reflexivity.
Qed.

Lemma rd_oneof_null fu base :
  rd (S fu) (YMap [(s "oneOf", YSeq [base; YMap [(s "type", ystr "null")]])]) = SObj [KwOneOf [rd fu base; SObj [KwType [TNull]]]].
Proof. reflexivity. Qed.

Definition i64_kws (k : kind) : list keyword :=
  match k with
  | KUint64 | KFixed64 => [KwType [TInteger]; KwFormat (s "uint64"); KwMinimum (dec_of_Z 0)]
  | _ => [KwType [TInteger]; KwFormat (s "int64")]
  end.
Lemma rd_i64_node sc fu mn f : ProtoJson.is_int64_kind (f_kind f) = true -> i64_number f = true ->
  rd fu (convert_scalar sc no_side mn f) = SObj (i64_kws (f_kind f)).
Proof.
  intros Hk Hi. unfold convert_scalar, side_rules, side_examples. cbn [sd_rules sd_examples no_side find].
  rewrite Hi. destruct (f_kind f); try discriminate Hk; rewrite constraint_entries_none; reflexivity.
Qed.

Definition bytes_kws (f : field) : list keyword :=
  match f_bytesenc f with
  | Some BEHex => [KwType [TString]; KwFormat (s "hex"); KwPattern hex_pattern]
  | Some BEBase64Url | Some BEBase64UrlRaw => [KwType [TString]; KwFormat (s "base64url")]
  | _ => [KwType [TString]; KwFormat (s "byte")]
  end.
Lemma rd_bytes_node sc fu mn f : f_kind f = KBytes -> rd fu (convert_scalar sc no_side mn f) = SObj (bytes_kws f).
Proof.
  intros Hk. unfold convert_scalar, side_rules, side_examples. cbn [sd_rules sd_examples no_side find].
  rewrite Hk, constraint_entries_none. unfold bytes_entries, bytes_kws.
  destruct (f_bytesenc f) as [[| | | | |]|]; reflexivity.
Qed.

Definition ts_kws (t : ts_fmt) : list keyword :=
  match t with
  | TFUnixSeconds => [KwType [TInteger]; KwFormat (s "unix-timestamp")]
  | TFUnixMillis => [KwType [TInteger]; KwFormat (s "unix-timestamp-ms")]
  | TFDate => [KwType [TString]; KwFormat (s "date")]
  | _ => [KwType [TString]; KwFormat (s "date-time")]
  end.
Lemma tsfmt_of_facts f t : tsfmt_of f = Some t ->
  is_timestamp (f_kind f) = true /\ Codec.is_map f = false /\ f_tsfmt f = Some t /\
  (t = TFUnixSeconds \/ t = TFUnixMillis \/ t = TFDate).
Proof.
  unfold tsfmt_of. destruct (is_timestamp (f_kind f)); [|discriminate]. destruct (Codec.is_map f); [discriminate|].
  cbn [negb andb]. destruct (f_tsfmt f) as [[| | | |]|]; try discriminate; intros H; injection H as <-; repeat split; auto.
Qed.
Lemma rd_ts_node sc fu mn f t : tsfmt_of f = Some t -> rd fu (convert_scalar sc no_side mn f) = SObj (ts_kws t).
Proof.
  intros H. destruct (tsfmt_of_facts f t H) as [Hk [_ [Ht Hc]]].
  unfold convert_scalar. destruct (f_kind f) eqn:Ek; try discriminate Hk. rewrite Hk.
  unfold timestamp_schema. rewrite Ht. destruct Hc as [->|[->| ->]]; reflexivity.
Qed.

(* ================================================================================================ *)
(*  Part 2: one populated field                                                                      *)
(* ================================================================================================ *)
Lemma vall_cons_inv r l : vall (r :: l) = VOk true -> r = VOk true /\ vall l = VOk true.
Proof.
  unfold vall. cbn [fold_right]. fold (vall l).
  destruct r as [[|]| | |]; cbn [vand]; try discriminate; destruct (vall l) as [[|]| | |]; try discriminate; auto.
Qed.

Lemma validates_add_null P cst n ts r v :
  validates P cst (S n) (SObj (KwType ts :: r)) v = VOk true ->
  validates P cst (S n) (SObj (KwType (ts ++ [TNull]) :: r)) v = VOk true.
Proof.
  rewrite !validates_S. cbn [map declared_props flat_map app check_kw]. intros H.
  apply vall_cons_inv in H as [H1 H2]. apply vall_cons_true; [|exact H2].
  injection H1 as H1. f_equal. rewrite existsb_app, H1. reflexivity.
Qed.

Lemma null_kws_valid P cst n k v : is_scalar_kind k = true ->
  validates P cst (S n) (SObj (scalar_kws k)) v = VOk true -> validates P cst (S n) (SObj (null_kws k)) v = VOk true.
Proof. destruct k; try discriminate; intros _; apply validates_add_null. Qed.
Lemma null_kws_null P cst n k : is_scalar_kind k = true -> validates P cst (S n) (SObj (null_kws k)) JVNull = VOk true.
Proof. destruct k; try discriminate; intros _; reflexivity. Qed.

(* nullable enum: every value the enum schema admits is still admitted, and so is null *)
Lemma null_enum_kws_valid P cst n names v :
  validates P cst (S n) (SObj (enum_node_kws names)) v = VOk true ->
  validates P cst (S n) (SObj (null_enum_kws names)) v = VOk true.
Proof.
  unfold enum_node_kws, null_enum_kws. rewrite !validates_S. cbn [map declared_props flat_map app check_kw]. intros H.
  apply vall_cons_inv in H as [H1 H2]. apply vall_cons_inv in H2 as [H2 _].
  injection H1 as H1. injection H2 as H2.
  apply vall_cons_true; [|apply vall_cons_true; [|reflexivity]].
  - destruct v; try discriminate H1; reflexivity.
  - f_equal. rewrite existsb_app. apply Bool.orb_true_iff. left. exact H2.
Qed.
Lemma null_enum_kws_null P cst n names : validates P cst (S n) (SObj (null_enum_kws names)) JVNull = VOk true.
Proof.
  unfold null_enum_kws. rewrite validates_S. cbn [map declared_props flat_map app check_kw].
  apply vall_cons_true; [reflexivity|]. apply vall_cons_true; [|reflexivity].
  f_equal. rewrite existsb_app. cbn [existsb jv_eqb]. now rewrite Bool.orb_true_r.
Qed.

(* a leaf, or an array of leaves: no object anywhere, so nothing can be undescribed *)
Definition is_flat (v : jv) : bool := match v with JVObj _ => false | JVArr l => forallb is_leaf l | _ => true end.
Lemma leaf_flat v : is_leaf v = true -> is_flat v = true.
Proof. destruct v; try discriminate; reflexivity. Qed.
Lemma und_flat P cst uf vf sch v : is_flat v = true -> und P cst uf vf sch v = 0.
Proof.
  intros H. destruct uf as [|uf]; [reflexivity|]. destruct v as [| | | |l|kv]; try discriminate H; try reflexivity.
  cbn [und]. destruct (first_some _ _) as [t|]; [|reflexivity].
  apply (fold_sum_zero (fun x => und P cst uf vf t x)). intros a Ha. apply und_leaf.
  cbn [is_flat] in H. rewrite forallb_forall in H. now apply H.
Qed.

Lemma wire_obj_not_null kv : has_type TNull (wire_jv (JObj kv)) = false.
Proof.
  destruct kv as [|[k x] [|e r]]; try reflexivity; destruct x; try reflexivity.
  change (wire_jv (JObj [(k, JNum z)])) with (if str_eqb k fmark then JVNum (f64_dec z) else JVObj [(k, wire_jv (JNum z))]).
  destruct (str_eqb k fmark); reflexivity.
Qed.

(* the oneOf [T, null] wrapper of empty_behavior = NULL does not change what the reference walk sees below T *)
Lemma und_oneof_null P cst u vf a kv :
  validates P cst vf a (JVObj kv) = VOk true ->
  kw_oneof (resolve0 cst a) = [] ->
  und P cst (S u) vf (SObj [KwOneOf [a; SObj [KwType [TNull]]]]) (JVObj kv) = und P cst (S u) vf a (JVObj kv).
Proof.
  intros Hv Hno. cbn [und].
  change (resolve0 cst (SObj [KwOneOf [a; SObj [KwType [TNull]]]])) with [KwOneOf [a; SObj [KwType [TNull]]]].
  assert (Hb : validates P cst vf (SObj [KwType [TNull]]) (JVObj kv) <> VOk true).
  { destruct vf; [discriminate|]. discriminate. }
  set (ra := resolve0 cst a) in *.
  assert (HbO : branches P cst vf [KwOneOf [a; SObj [KwType [TNull]]]] (JVObj kv)
                = [KwOneOf [a; SObj [KwType [TNull]]]] :: ra :: map (resolve0 cst) (kw_allof ra)).
  { unfold branches. cbn [kw_allof kw_oneof flat_map map app].
    rewrite Hv. fold ra.
    destruct (validates P cst vf (SObj [KwType [TNull]]) (JVObj kv)) as [[|]| | |]; try (now rewrite app_nil_r). }
  assert (HbA : branches P cst vf ra (JVObj kv) = ra :: map (resolve0 cst) (kw_allof ra)).
  { unfold branches. rewrite Hno. cbn [flat_map]. now rewrite app_nil_r. }
  rewrite HbO, HbA.
  assert (Hd : forall k, describe ([KwOneOf [a; SObj [KwType [TNull]]]] :: ra :: map (resolve0 cst) (kw_allof ra)) k
                         = describe (ra :: map (resolve0 cst) (kw_allof ra)) k).
  { intros k. unfold describe. cbn [first_some kw_props flat_map find_comp find kw_addl]. reflexivity. }
  clear Hv Hb HbO HbA.
  induction kv as [|e r IH]; [reflexivity|]. cbn [fold_right]. now rewrite Hd, IH.
Qed.

Lemma wt_nonmsg_scalar sc k y : is_msgk k = false -> wt sc k y = true -> exists sy, y = FS sy /\ wt_scalar sc k sy = true.
Proof.
  intros Hk Hwt. destruct y as [sy|cm|l|kv]; try discriminate Hwt.
  - cbn [wt] in Hwt. apply andb_prop in Hwt as [_ Hwt]. now exists sy.
  - destruct k; try discriminate Hwt. discriminate Hk.
Qed.

Section Fields.
Variable E : ExtLib.
Hypothesis EL : fprint_is_number E.
Variable sc : schema.
Variable P : vparams.
Hypothesis Hfmt : wire_formats_are_annotations P.
Hypothesis Hfmt2 : codec_formats_are_annotations P.
Hypothesis Hre : hex_pattern_matches_hex P.
Variable cs : list (str * ynode).
Hypothesis Hts : find_message (all_messages sc) ts_name = None.
Let cst := doc_components reader12 cs.

(* ---- a scalar-kind field whose elements are rendered by mp_scalar under the field's annotations ---------- *)
Lemma lift_list f (Q : jv -> Prop) :
  is_msgk (f_kind f) = false ->
  (forall sx js, wt_scalar sc (f_kind f) sx = true -> mp_scalar E sc (Some f) (f_kind f) sx = ROk js -> Q (wire_jv js)) ->
  forall l js,
    (fix all (l : list fval) : bool := match l with [] => true | y :: t => wt sc (f_kind f) y && all t end) l = true ->
    mp_list E sc (Some f) (f_kind f) l = ROk js -> forall w, In w (map wire_jv js) -> Q w.
Proof.
  intros Hk HQ. induction l as [|y r IH]; intros js Hall Hm w Hin.
  - cbn in Hm. injection Hm as <-. destruct Hin.
  - cbn [mp_list] in Hm. apply rbind_ok in Hm as [j [Hj Hm]]. apply rbind_ok in Hm as [t [Ht Hm]]. injection Hm as <-.
    apply andb_prop in Hall as [Hy Hr].
    destruct (wt_nonmsg_scalar sc _ y Hk Hy) as [sy [-> Hsy]]. rewrite mp_fval_FS in Hj.
    destruct Hin as [<-|Hin]; [now apply (HQ sy)|now apply (IH t)].
Qed.

Lemma lift_scalar mn f :
  is_msgk (f_kind f) = false -> is_nullable f = false -> Codec.is_map f = false ->
  (forall fu sx js n, wt_scalar sc (f_kind f) sx = true -> mp_scalar E sc (Some f) (f_kind f) sx = ROk js ->
      validates P cst (S n) (rd fu (convert_scalar sc no_side mn f)) (wire_jv js) = VOk true /\ is_leaf (wire_jv js) = true) ->
  forall fu x j n, wt_entry sc f x = true -> mp_fval E sc (Some f) (f_kind f) x = ROk j -> 1 <= n ->
    validates P cst (S n) (rd (S fu) (convert_field sc no_side mn f)) (wire_jv j) = VOk true /\ is_flat (wire_jv j) = true.
Proof.
  intros Hk Hnn Hnm Hsc fu x j n Hwt Hj Hn.
  assert (Hmk : OpenApi.is_msg_kind (f_kind f) = false) by (destruct (f_kind f); try reflexivity; discriminate Hk).
  assert (Hsing : singularish f = true -> convert_field sc no_side mn f = convert_scalar sc no_side mn f).
  { unfold singularish, convert_field, is_nullable in *. rewrite Hmk. cbn [andb].
    destruct (f_card f); try discriminate; intros _; destruct (f_nullable f) as [[|]|]; try reflexivity; discriminate Hnn. }
  unfold wt_entry in Hwt. destruct x as [sx|cm|l|kv].
  - assert (Hc : (wt sc (f_kind f) (FS sx) && populated f (FS sx)) = true /\ singularish f = true).
    { unfold singularish. destruct (f_card f); try discriminate; split; auto. }
    destruct Hc as [Hw' Hcard]. apply andb_prop in Hw' as [Hwt' _]. cbn [wt] in Hwt'. apply andb_prop in Hwt' as [_ Hws].
    rewrite (Hsing Hcard). rewrite mp_fval_FS in Hj. destruct (Hsc (S fu) sx j n Hws Hj) as [H1 H2].
    split; [exact H1|now apply leaf_flat].
  - exfalso. assert (Hc : wt sc (f_kind f) (FM cm) = true) by (destruct (f_card f); try discriminate; exact Hwt).
    destruct (f_kind f); try discriminate Hc. discriminate Hk.
  - destruct l as [|e l]; [destruct (f_card f); discriminate|].
    assert (Hc : f_card f = Repeated) by (destruct (f_card f); try discriminate; reflexivity).
    rewrite Hc in Hwt. unfold convert_field. rewrite Hc.
    unfold side_rules. cbn [sd_rules no_side find]. rewrite constraint_entries_none, app_nil_r.
    rewrite rd_ymap. cbn [map]. rewrite kw_type_array, kw12_items.
    rewrite mp_fval_FL in Hj. apply rbind_ok in Hj as [js [Hjs Hj]]. injection Hj as <-.
    change (wire_jv (JArr js)) with (JVArr (map wire_jv js)).
    destruct n as [|n]; [lia|].
    pose proof (lift_list f (fun w => validates P cst (S n) (rd fu (convert_scalar sc no_side mn f)) w = VOk true /\ is_leaf w = true)
                  Hk (fun sx js0 Hws Hm => Hsc fu sx js0 n Hws Hm) (e :: l) js Hwt Hjs) as Hall.
    split.
    + rewrite validates_S. cbn [map check_kw declared_props flat_map has_type existsb orb].
      apply vall_cons_true; [reflexivity|]. apply vall_cons_true; [|reflexivity].
      apply vall_all_true. intros w Hw. now apply Hall.
    + cbn [is_flat]. apply forallb_forall. intros w Hw. now apply Hall.
  - exfalso. unfold Codec.is_map in Hnm. destruct (f_card f); discriminate.
Qed.

(* int64_encoding = NUMBER on a 64-bit integer field: a JSON integer against type integer (minimum 0 when unsigned) *)
Lemma i64_scalar mn f : ProtoJson.is_int64_kind (f_kind f) = true -> i64_number f = true ->
  forall fu sx js n, wt_scalar sc (f_kind f) sx = true -> mp_scalar E sc (Some f) (f_kind f) sx = ROk js ->
    validates P cst (S n) (rd fu (convert_scalar sc no_side mn f)) (wire_jv js) = VOk true /\ is_leaf (wire_jv js) = true.
Proof.
  intros Hk Hi fu sx js n Hwt Hj. rewrite (rd_i64_node sc fu mn f Hk Hi).
  unfold i64_number in Hi. destruct (f_int64 f) as [[| |]|] eqn:Ei; try discriminate Hi.
  destruct (f_kind f) eqn:Ek; try discriminate Hk; destruct sx; cbn in Hwt; try discriminate Hwt;
    cbn [mp_scalar ProtoJson.is_int64_kind andb] in Hj; rewrite Ei in Hj; injection Hj as <-; (split; [|reflexivity]);
    rewrite validates_S; cbn [i64_kws map check_kw declared_props flat_map app wire_jv]; try reflexivity.
  all: unfold in_int_range in Hwt; apply andb_prop in Hwt as [Hlo _]; apply Z.leb_le in Hlo; cbn in Hlo;
       unfold vall; cbn [fold_right has_type existsb orb]; rewrite (dec_leb_0 z Hlo); reflexivity.
Qed.

(* bytes_encoding on a bytes field: text against type string; hex text against the hex pattern *)
Lemma bytes_scalar mn f : f_kind f = KBytes ->
  forall fu sx js n, wt_scalar sc (f_kind f) sx = true -> mp_scalar E sc (Some f) (f_kind f) sx = ROk js ->
    validates P cst (S n) (rd fu (convert_scalar sc no_side mn f)) (wire_jv js) = VOk true /\ is_leaf (wire_jv js) = true.
Proof.
  intros Hk fu sx js n Hwt Hj. rewrite (rd_bytes_node sc fu mn f Hk). rewrite Hk in *.
  destruct sx; cbn in Hwt; try discriminate Hwt. cbn [mp_scalar] in Hj. unfold bytes_kws.
  destruct (f_bytesenc f) as [[| | | | |]|]; cbn in Hj; injection Hj as <-; (split; [|reflexivity]);
    rewrite validates_S; cbn [map check_kw declared_props flat_map app wire_jv];
    rewrite ?Hfmt by reflexivity; rewrite ?Hfmt2 by reflexivity; try reflexivity.
  rewrite (Hre _ (hex_enc_is_hex x)). reflexivity.
Qed.

(* timestamp_format on a singular Timestamp field *)
Lemma ts_entry mn f t x j n fu :
  tsfmt_of f = Some t -> singularish f = true -> is_nullable f = false -> empty_null f = false ->
  wt_entry sc f x = true -> mp_fval E sc (Some f) (f_kind f) x = ROk j ->
  validates P cst (S n) (rd fu (convert_field sc no_side mn f)) (wire_jv j) = VOk true /\ is_leaf (wire_jv j) = true.
Proof.
  intros Ht Hs Hnn Hen Hwt Hj. destruct (tsfmt_of_facts f t Ht) as [Hk [_ [Hf Hc]]].
  assert (Hcf : convert_field sc no_side mn f = convert_scalar sc no_side mn f).
  { unfold singularish, convert_field, is_nullable, empty_null in *.
    destruct (f_card f); try discriminate; destruct (f_nullable f) as [[|]|]; try discriminate Hnn;
      destruct (f_empty f) as [[| | |]|]; try discriminate Hen; rewrite ?Bool.andb_false_r; reflexivity. }
  rewrite Hcf, (rd_ts_node sc fu mn f t Ht).
  destruct (f_kind f) as [| | | | | | | | | | | | | | | tn0 | tn] eqn:Ek; try discriminate Hk.
  cbn [is_timestamp] in Hk. change (s "google.protobuf.Timestamp") with ts_name in Hk.
  unfold wt_entry in Hwt. rewrite Ek in Hwt.
  destruct x as [sx|tm|l|kv]; try (unfold singularish in Hs; destruct (f_card f); discriminate).
  rewrite mp_fval_FM, Hk in Hj. unfold mp_timestamp in Hj.
  destruct (ts_in_range _ _); [|discriminate Hj]. cbn [negb] in Hj. rewrite Hf in Hj.
  destruct Hc as [->|[->| ->]]; injection Hj as <-; (split; [|reflexivity]);
    rewrite validates_S; cbn [ts_kws map check_kw declared_props flat_map app wire_jv];
    rewrite ?Hfmt2 by reflexivity; reflexivity.
Qed.
End Fields.

(* ---- fields of the plain class: un-annotated rendering; nullable widens the type list, empty_behavior = NULL
        wraps the schema in oneOf [T, null] ------------------------------------------------------------------- *)
Section PlainClass.
Variable E : ExtLib.
Hypothesis EL : fprint_is_number E.
Variable sc : schema.
Variable P : vparams.
Hypothesis Hfmt : wire_formats_are_annotations P.
Variable cs : list (str * ynode).
Hypothesis Hts : find_message (all_messages sc) ts_name = None.
Let cst := doc_components reader12 cs.

Lemma plainish_pj f x j : sc_plainish f = true -> plain_in sc (f_kind f) x = true ->
  mp_fval E sc (Some f) (f_kind f) x = ROk j -> pj_fval E sc (f_kind f) x = ROk j.
Proof.
  intros Hp Hpl Hj. destruct (sc_plainish_facts f Hp) as [Hi [He [Hb Ht]]].
  rewrite <- (mapping_plain64 E sc x (Some f) (f_kind f)); [exact Hj| |exact Hpl].
  cbn [ctx_ok64]. unfold i64_number in Hi. repeat split; assumption.
Qed.

(* the component of an un-annotated child message *)
Lemma child_component ctn cm :
  str_eqb ctn ts_name = false -> wt sc (KMessage ctn) (FM cm) = true -> plain_in sc (KMessage ctn) (FM cm) = true ->
  walk sc no_side cs (KMessage ctn) (FM cm) = [] ->
  exists cmd, find_message (all_messages sc) ctn = Some cmd /\ plain_msg cmd = true /\
              find_comp cst (short_name ctn) = Some (typed (plain_object_schema sc no_side cmd)).
Proof.
  intros Ets Hwt Hpl Hw. rewrite wt_FM, Ets in Hwt. rewrite plain_in_FM, Ets in Hpl. rewrite walk_FM, Ets in Hw.
  apply andb_prop in Hwt as [_ Hwt]. destruct (find_message (all_messages sc) ctn) as [cmd|] eqn:Efm; [|discriminate Hwt].
  apply andb_prop in Hpl as [Hpm _]. apply app_eq_nil in Hw as [Hmi _].
  destruct (msg_issues_nil _ _ _ _ _ Hmi) as [Hcomp _].
  pose proof (find_message_name _ _ _ Efm) as Hname.
  unfold comp_ok in Hcomp. rewrite Hname in Hcomp. unfold OpenApi.lookup_message in Hcomp. rewrite Efm in Hcomp.
  destruct (find_comp cs (short_name ctn)) as [n0|] eqn:Efc; [|discriminate Hcomp].
  apply ynode_eqb_eq in Hcomp. subst n0.
  exists cmd. repeat split; auto.
  unfold cst. change (doc_components reader12 cs) with (map (fun e : str * ynode => (fst e, typed (snd e))) cs).
  rewrite (find_comp_map typed cs (short_name ctn)), Efc. cbn [option_map]. now rewrite (plain_msg_object sc no_side cmd Hpm).
Qed.

(* the keywords of a plain object component: type, properties — no $ref, no allOf / oneOf *)
Lemma plain_object_kws cmd : exists kws,
  typed (plain_object_schema sc no_side cmd) = SObj (KwType [TObject] :: kws) /\
  (kws = [] \/ exists ps, kws = [KwProperties ps]).
Proof.
  rewrite plain_object_no_side, typed_rd. unfold object_of. cbn [app].
  destruct (map _ (m_fields cmd)) as [|p0 props'].
  - rewrite rd_ymap. cbn [map]. rewrite kw_type_object. exists []. split; [reflexivity|now left].
  - rewrite rd_ymap. cbn [map app]. rewrite kw_type_object, kw_properties. eexists. split; [reflexivity|]. right. eexists. reflexivity.
Qed.

Lemma plain_object_rejects_null cmd n : validates P cst (S n) (typed (plain_object_schema sc no_side cmd)) JVNull = VOk false.
Proof.
  destruct (plain_object_kws cmd) as [kws [-> [->|[ps ->]]]]; reflexivity.
Qed.

Lemma plain_entry mn f x j n :
  c6_class_plain f = true -> wt_entry sc f x = true -> plain_in sc (f_kind f) x = true ->
  walk sc no_side cs (f_kind f) x = [] -> mp_fval E sc (Some f) (f_kind f) x = ROk j -> need x <= n ->
  validates P cst (S n) (rd 6 (convert_field sc no_side mn f)) (wire_jv j) = VOk true.
Proof.
  intros Hc Hwt Hpl Hw Hj Hn. unfold c6_class_plain in Hc. apply andb_prop in Hc as [Hp Hnl].
  pose proof (plainish_pj f x j Hp Hpl Hj) as Hpj.
  assert (Hstrip : validates P cst (S n) (rd 6 (convert_field sc no_side mn (strip f))) (wire_jv j) = VOk true).
  { apply (field_valid E sc P cs mn (strip f) x j 5 n EL Hfmt Hts (strip_plain f) Hn); assumption. }
  rewrite (convert_field_plainish sc mn f Hp).
  destruct (singularish f) eqn:Es; [|unfold singularish in Es; destruct (f_card f); try discriminate Es; exact Hstrip].
  assert (Hcf : match f_card f with
                | Repeated | MapOf _ => convert_field sc no_side mn (strip f)
                | _ => if is_nullable f then make_nullable (elem_node sc (f_kind f))
                       else if OpenApi.is_msg_kind (f_kind f) && empty_null f
                            then YMap [(s "oneOf", YSeq [elem_node sc (f_kind f); YMap [(s "type", ystr "null")]])]
                            else convert_field sc no_side mn (strip f)
                end = if is_nullable f then make_nullable (elem_node sc (f_kind f))
                      else if OpenApi.is_msg_kind (f_kind f) && empty_null f
                           then YMap [(s "oneOf", YSeq [elem_node sc (f_kind f); YMap [(s "type", ystr "null")]])]
                           else convert_field sc no_side mn (strip f)).
  { unfold singularish in Es. destruct (f_card f); try discriminate Es; reflexivity. }
  rewrite Hcf. clear Hcf.
  destruct (is_nullable f) eqn:En.
  - (* nullable: type [T, null]; for an enum also enum [names..., null] *)
    cbn [negb orb andb] in Hnl. unfold nullable_kind in Hnl. apply Bool.negb_true_iff in Hnl.
    assert (Hx : exists sx, x = FS sx /\ wt_scalar sc (f_kind f) sx = true).
    { apply (wt_nonmsg_scalar sc (f_kind f) x); [exact Hnl|].
      unfold wt_entry in Hwt. unfold singularish in Es.
      destruct (f_card f); try discriminate Es; destruct x; try discriminate Hwt; try exact Hwt; now apply andb_prop in Hwt as [Hwt _]. }
    destruct Hx as [sx [-> Hws]]. rewrite pj_fval_FS in Hpj. cbn [walk] in Hw. cbn [plain_in] in Hpl.
    destruct (is_scalar_kind (f_kind f)) eqn:Hsk.
    + rewrite (rd_nullable_node sc 6 _ Hsk).
      apply (null_kws_valid P cst n _ _ Hsk). rewrite <- (rd_scalar_node sc 6 _ Hsk).
      now apply (scalar_valid E EL sc P Hfmt cst (f_kind f) sx j 6 n).
    + destruct (f_kind f) as [| | | | | | | | | | | | | | | tn0 | ctn] eqn:Ek; try discriminate Hsk; [|discriminate Hnl].
      destruct sx; try discriminate Hws.
      pose proof (enum_valid E sc P cst tn0 n0 j 6 n Hws Hw Hpl Hpj) as Hev.
      destruct (find_enum (all_enums sc) tn0) as [e|] eqn:He.
      * assert (Hin : enum_inhabited sc (KEnum tn0) = true).
        { cbn [enum_inhabited]. rewrite He. destruct (e_values e) as [|v0 vs] eqn:Hvs; [|reflexivity].
          cbn [scalar_issues] in Hw. rewrite He, Hvs in Hw. discriminate Hw. }
        rewrite (rd_nullable_enum_node sc 6 tn0 e He Hin). apply null_enum_kws_valid.
        now rewrite <- (rd_enum_node sc 6 tn0 e He).
      * rewrite (rd_nullable_enum_missing sc 6 tn0 He). apply (null_kws_valid P cst n KString _ eq_refl).
        now rewrite <- (rd_enum_missing sc 6 tn0 He).
  - destruct (OpenApi.is_msg_kind (f_kind f) && empty_null f) eqn:Eo; [|exact Hstrip].
    (* empty_behavior = NULL on a message field with a non-empty value: exactly the first branch of oneOf [T, null] *)
    apply andb_prop in Eo as [Hmk _].
    destruct (f_kind f) as [| | | | | | | | | | | | | | | tn0 | ctn] eqn:Ek; try discriminate Hmk.
    assert (Hx : exists cm, x = FM cm /\ wt sc (KMessage ctn) (FM cm) = true).
    { unfold wt_entry in Hwt. rewrite Ek in Hwt. unfold singularish in Es.
      destruct (f_card f); try discriminate Es; destruct x as [sx|cm|l|kv]; try discriminate Hwt; exists cm; split; auto. }
    destruct Hx as [cm [-> Hwc]].
    rewrite (rd_oneof_null 5). rewrite need_FM in Hn. destruct n as [|n]; [lia|].
    pose proof (value_valid E EL sc P Hfmt cs Hts (FM cm)) as HQ. cbn [PPe] in HQ.
    assert (H1 : validates P cst (S n) (rd 5 (elem_node sc (KMessage ctn))) (wire_jv j) = VOk true).
    { apply HQ; auto. }
    assert (H2 : validates P cst (S n) (SObj [KwType [TNull]]) (wire_jv j) = VOk false).
    { rewrite validates_S. cbn [map check_kw declared_props flat_map existsb orb].
      assert (Hnn : has_type TNull (wire_jv j) = false).
      { rewrite pj_fval_FM in Hpj. destruct (str_eqb ctn ts_name).
        - unfold pj_timestamp in Hpj. destruct (ts_in_range _ _); [|discriminate Hpj]. injection Hpj as <-. reflexivity.
        - destruct (is_wkt_other ctn); [discriminate Hpj|]. destruct (find_message (all_messages sc) ctn); [|discriminate Hpj].
          apply rbind_ok in Hpj as [es [_ Hpj]]. injection Hpj as <-. apply wire_obj_not_null. }
      rewrite Hnn. reflexivity. }
    rewrite validates_S. cbn [map check_kw declared_props flat_map vcount fold_right]. rewrite H1, H2. reflexivity.
Qed.

(* the null of empty_behavior = NULL: exactly the second branch of oneOf [T, null] *)
Lemma empty_null_entry mn f n :
  c6_class_plain f = true -> empty_null f = true -> wt_entry sc f (FM []) = true -> plain_in sc (f_kind f) (FM []) = true ->
  walk sc no_side cs (f_kind f) (FM []) = [] -> 3 <= n ->
  validates P cst (S n) (rd 6 (convert_field sc no_side mn f)) JVNull = VOk true.
Proof.
  intros Hc Hen Hwt Hpl Hw Hn. unfold c6_class_plain in Hc. apply andb_prop in Hc as [Hp Hnl].
  assert (Hk : exists ctn, f_kind f = KMessage ctn /\ wt sc (KMessage ctn) (FM []) = true /\ singularish f = true).
  { unfold wt_entry in Hwt. unfold singularish. destruct (f_kind f) eqn:Ek; destruct (f_card f); try discriminate Hwt; eexists; repeat split; eauto. }
  destruct Hk as [ctn [Ek [Hwc Es]]].
  assert (En : is_nullable f = false).
  { destruct (is_nullable f); [|reflexivity]. cbn [negb orb] in Hnl. rewrite Ek, Bool.andb_false_r in Hnl. discriminate Hnl. }
  rewrite (convert_field_plainish sc mn f Hp), En, Hen, Ek. cbn [OpenApi.is_msg_kind andb].
  assert (Hcf : match f_card f with
                | Repeated | MapOf _ => convert_field sc no_side mn (strip f)
                | _ => YMap [(s "oneOf", YSeq [elem_node sc (KMessage ctn); YMap [(s "type", ystr "null")]])]
                end = YMap [(s "oneOf", YSeq [elem_node sc (KMessage ctn); YMap [(s "type", ystr "null")]])]).
  { unfold singularish in Es. destruct (f_card f); try discriminate Es; reflexivity. }
  rewrite Hcf, (rd_oneof_null 5). clear Hcf. rewrite Ek in Hpl, Hw.
  destruct n as [|[|[|n]]]; try lia.
  assert (H1 : validates P cst (S (S (S n))) (rd 5 (elem_node sc (KMessage ctn))) JVNull = VOk false).
  { destruct (str_eqb ctn ts_name) eqn:Ets.
    - apply str_eqb_eq in Ets. subst ctn. reflexivity.
    - rewrite (elem_node_message sc 5 ctn Ets).
      destruct (child_component ctn [] Ets Hwc Hpl Hw) as [cmd [_ [_ Hfc]]].
      rewrite (validates_ref P cst _ _ _ _ Hfc), plain_object_rejects_null. reflexivity. }
  rewrite validates_S. cbn [map check_kw declared_props flat_map vcount fold_right]. rewrite H1. reflexivity.
Qed.

(* the null of an unset nullable field *)
Lemma nullable_null_entry mn f n :
  c6_class_plain f = true -> is_nullable f = true -> enum_inhabited sc (f_kind f) = true ->
  validates P cst (S n) (rd 6 (convert_field sc no_side mn f)) JVNull = VOk true.
Proof.
  intros Hc En Hinh. unfold c6_class_plain in Hc. apply andb_prop in Hc as [Hp Hnl].
  rewrite En in Hnl. cbn [negb orb] in Hnl. apply andb_prop in Hnl as [Es Hk].
  rewrite (convert_field_plainish_sing sc mn f Hp Es), En.
  unfold nullable_kind in Hk. apply Bool.negb_true_iff in Hk.
  destruct (is_scalar_kind (f_kind f)) eqn:Hsk.
  - rewrite (rd_nullable_node sc 6 _ Hsk). now apply null_kws_null.
  - destruct (f_kind f) as [| | | | | | | | | | | | | | | tn0 | ctn] eqn:Ek; try discriminate Hsk; [|discriminate Hk].
    destruct (find_enum (all_enums sc) tn0) as [e|] eqn:He.
    + rewrite (rd_nullable_enum_node sc 6 tn0 e He Hinh). apply null_enum_kws_null.
    + rewrite (rd_nullable_enum_missing sc 6 tn0 He). now apply null_kws_null.
Qed.
Lemma wire_obj_cases es : (exists d, wire_jv (JObj es) = JVNum d) \/ (exists kv, wire_jv (JObj es) = JVObj kv).
Proof.
  destruct es as [|[k x] [|e r]]; try (right; eexists; reflexivity); destruct x; try (right; eexists; reflexivity).
  change (wire_jv (JObj [(k, JNum z)])) with (if str_eqb k fmark then JVNum (f64_dec z) else JVObj [(k, wire_jv (JNum z))]).
  destruct (str_eqb k fmark); [left|right]; eexists; reflexivity.
Qed.

Lemma plain_entry_und mn f x j uf vf :
  c6_class_plain f = true -> wt_entry sc f x = true -> plain_in sc (f_kind f) x = true ->
  walk sc no_side cs (f_kind f) x = [] -> mp_fval E sc (Some f) (f_kind f) x = ROk j ->
  empty_null f = false \/ need x <= vf ->
  und P cst uf vf (rd 6 (convert_field sc no_side mn f)) (wire_jv j) = 0.
Proof.
  intros Hc Hwt Hpl Hw Hj Hn0. unfold c6_class_plain in Hc. apply andb_prop in Hc as [Hp Hnl].
  pose proof (plainish_pj f x j Hp Hpl Hj) as Hpj.
  assert (Hstrip : und P cst uf vf (rd 6 (convert_field sc no_side mn (strip f))) (wire_jv j) = 0).
  { apply (entry_und E sc P cs Hts mn (strip f) x j 5 uf vf (strip_plain f) (value_described E EL sc P cs Hts x)); assumption. }
  destruct (singularish f) eqn:Es; [|now rewrite (convert_field_plainish_multi sc mn f Hp Es)].
  rewrite (convert_field_plainish_sing sc mn f Hp Es).
  destruct (is_nullable f) eqn:En.
  - cbn [negb orb andb] in Hnl. unfold nullable_kind in Hnl. apply Bool.negb_true_iff in Hnl.
    assert (Hx : exists sx, x = FS sx /\ wt_scalar sc (f_kind f) sx = true).
    { apply (wt_nonmsg_scalar sc (f_kind f) x); [exact Hnl|].
      unfold wt_entry in Hwt. unfold singularish in Es.
      destruct (f_card f); try discriminate Es; destruct x; try discriminate Hwt; try exact Hwt; now apply andb_prop in Hwt as [Hwt _]. }
    destruct Hx as [sx [-> Hws]]. rewrite pj_fval_FS in Hpj. apply und_leaf. now apply (pj_scalar_leaf E EL sc (f_kind f) sx j).
  - destruct (OpenApi.is_msg_kind (f_kind f) && empty_null f) eqn:Eo; [|exact Hstrip].
    apply andb_prop in Eo as [Hmk Hen].
    assert (Hn : need x <= vf) by (destruct Hn0 as [Hn0|Hn0]; [congruence|exact Hn0]).
    destruct (f_kind f) as [| | | | | | | | | | | | | | | tn0 | ctn] eqn:Ek; try discriminate Hmk.
    assert (Hx : exists cm, x = FM cm /\ wt sc (KMessage ctn) (FM cm) = true).
    { unfold wt_entry in Hwt. rewrite Ek in Hwt. unfold singularish in Es.
      destruct (f_card f); try discriminate Es; destruct x as [sx|cm|l|kv]; try discriminate Hwt; exists cm; split; auto. }
    destruct Hx as [cm [-> Hwc]].
    rewrite (rd_oneof_null 5).
    destruct (str_eqb ctn ts_name) eqn:Ets.
    + rewrite pj_fval_FM, Ets in Hpj. unfold pj_timestamp in Hpj. destruct (ts_in_range _ _); [|discriminate Hpj].
      injection Hpj as <-. now apply und_leaf.
    + pose proof (value_valid E EL sc P Hfmt cs Hts (FM cm)) as HQ. cbn [PPe] in HQ.
      pose proof (HQ (KMessage ctn) j 5 vf Hn Hwc Hpl Hw Hpj) as H1.
      pose proof (value_described E EL sc P cs Hts (FM cm)) as HU. cbn [UUe] in HU.
      pose proof (HU (KMessage ctn) j 5 uf vf Hwc Hpl Hw Hpj) as H2.
      rewrite (elem_node_message sc 5 ctn Ets) in *.
      destruct (child_component ctn cm Ets Hwc Hpl Hw) as [cmd [_ [_ Hfc]]].
      rewrite pj_fval_FM, Ets in Hpj. destruct (is_wkt_other ctn); [discriminate Hpj|].
      destruct (find_message (all_messages sc) ctn); [|discriminate Hpj].
      apply rbind_ok in Hpj as [es [_ Hpj]]. injection Hpj as <-.
      destruct (wire_obj_cases es) as [[d Hd]|[kv Hkv]]; [rewrite Hd; now apply und_leaf|].
      rewrite Hkv in *. destruct uf as [|uf]; [reflexivity|].
      rewrite und_oneof_null; [exact H2|exact H1|].
      unfold body_schema, resolve0. cbn [resolve_kws first_ref find]. fold cst. rewrite Hfc.
      destruct (plain_object_kws cmd) as [kws [-> [->|[ps ->]]]]; reflexivity.
Qed.
End PlainClass.

(* ================================================================================================ *)
(*  Part 3: whole messages                                                                           *)
(* ================================================================================================ *)
Lemma wt_need sc k v : wt sc k v = true -> 1 <= need v.
Proof. destruct v; try discriminate; intros _; [cbn; lia|rewrite need_FM; lia]. Qed.
Lemma wt_entry_need sc f x : wt_entry sc f x = true -> 1 <= need x.
Proof.
  unfold wt_entry. destruct x as [sx|cm|l|kv]; intros H.
  - cbn. lia.
  - rewrite need_FM. lia.
  - destruct (f_card f); try discriminate H. destruct l as [|e l]; [discriminate H|].
    apply andb_prop in H as [H _]. apply wt_need in H. rewrite need_FL. cbn [need_list]. lia.
  - destruct (f_card f); try discriminate H. destruct kv as [|[key0 e] kv]; [discriminate H|].
    apply andb_prop in H as [_ H]. apply andb_prop in H as [H _]. apply andb_prop in H as [_ H].
    apply wt_need in H. rewrite need_FMap. cbn [need_map snd]. lia.
Qed.

Definition entries_of (ps : list piece) : list (str * json) :=
  flat_map (fun p => match p with
                     | PField k j => [(k, j)]
                     | PSpread pre kv => map (fun e => (pre ++ fst e, snd e)) kv
                     | PDisc k v => [(k, JStr v)]
                     end) ps.
Definition nulls_of_msg (md : message) (m : mval) : list (str * json) :=
  flat_map (fun f => match f_nullable f, mget m (f_name f) with
                     | Some true, None => [(json_name (f_name f), JNull)]
                     | _, _ => []
                     end) (m_fields md).

Section Messages.
Variable E : ExtLib.
Hypothesis EL : fprint_is_number E.
Variable sc : schema.
Variable P : vparams.
Hypothesis Hfmt : wire_formats_are_annotations P.
Variable cs : list (str * ynode).
Hypothesis Hts : find_message (all_messages sc) ts_name = None.
Let cst := doc_components reader12 cs.

(* the bytes_encoding and timestamp_format schemas carry formats (and one pattern) of their own *)
Definition codec_params (P0 : vparams) : Prop := codec_formats_are_annotations P0 /\ hex_pattern_matches_hex P0.
Definition plain_or_i64 (f : field) : bool := c6_class_plain f || c6_class_i64 f.

(* one populated field of a covered class, rendered by the documented mapping *)
Lemma spec_entry mn f x j n :
  c6_field_ok f = true -> plain_or_i64 f = true \/ codec_params P ->
  wt_entry sc f x = true -> plain_in sc (f_kind f) x = true ->
  walk sc no_side cs (f_kind f) x = [] -> mp_fval E sc (Some f) (f_kind f) x = ROk j -> need x <= n ->
  validates P cst (S n) (rd 6 (convert_field sc no_side mn f)) (wire_jv j) = VOk true /\
  (forall uf vf, empty_null f = false \/ need x <= vf ->
     und P cst uf vf (rd 6 (convert_field sc no_side mn f)) (wire_jv j) = 0).
Proof.
  intros Hok Hcp Hwt Hpl Hw Hj Hn. unfold c6_field_ok in Hok. apply andb_prop in Hok as [_ Hcl].
  pose proof (wt_entry_need sc f x Hwt) as Hn1.
  destruct (c6_class_plain f) eqn:Hpc; [|destruct (c6_class_i64 f) eqn:Hi].
  3: { destruct Hcp as [Hcp|[Hfmt2 Hre]]; [unfold plain_or_i64 in Hcp; rewrite Hpc, Hi in Hcp; discriminate Hcp|].
       cbn [orb] in Hcl. apply Bool.orb_true_iff in Hcl as [Hb|Hts4].
       - unfold c6_class_bytes in Hb. apply andb_prop in Hb as [Hb Hnn]. apply andb_prop in Hb as [Hk Hnm].
         apply Bool.negb_true_iff in Hnn, Hnm.
         assert (Hkb : f_kind f = KBytes) by (destruct (f_kind f); try discriminate Hk; reflexivity).
         assert (Hmk : is_msgk (f_kind f) = false) by (now rewrite Hkb).
         destruct (lift_scalar E sc P cs mn f Hmk Hnn Hnm (bytes_scalar E sc P Hfmt Hfmt2 Hre cs mn f Hkb) 5 x j n Hwt Hj) as [H1 H2]; [lia|].
         split; [exact H1|]. intros uf vf _. now apply und_flat.
       - unfold c6_class_ts in Hts4. apply andb_prop in Hts4 as [Ht Hen]. apply andb_prop in Ht as [Ht Hnn]. apply andb_prop in Ht as [Ht Hs].
         apply Bool.negb_true_iff in Hnn, Hen. destruct (tsfmt_of f) as [t|] eqn:Et; [|discriminate Ht].
         destruct (ts_entry E sc P Hfmt2 cs mn f t x j n 6 Et Hs Hnn Hen Hwt Hj) as [H1 H2].
         split; [exact H1|]. intros uf vf _. now apply und_leaf. }
  - split; [now apply (plain_entry E EL sc P Hfmt cs Hts mn f x j n)|].
    intros uf vf Hvf. now apply (plain_entry_und E EL sc P Hfmt cs Hts mn f x j uf vf).
  - unfold c6_class_i64 in Hi. apply andb_prop in Hi as [Hi Hnn]. apply andb_prop in Hi as [Hi Hnm]. apply andb_prop in Hi as [Hk Hi].
    apply Bool.negb_true_iff in Hnn, Hnm.
    assert (Hmk : is_msgk (f_kind f) = false) by (destruct (f_kind f); try reflexivity; discriminate Hk).
    destruct (lift_scalar E sc P cs mn f Hmk Hnn Hnm (i64_scalar E sc P cs mn f Hk Hi) 5 x j n Hwt Hj) as [H1 H2]; [lia|].
    split; [exact H1|]. intros uf vf _. now apply und_flat.
Qed.

(* ---- the documented form, entry by entry ------------------------------------------------------------ *)
Lemma mp_entry_cases md name f x ps :
  is_flatten f = false -> f_oneof f = None ->
  mp_entry E sc md name f x = ROk ps ->
  (ps = [PField (json_name name) JNull] /\ empty_null f = true /\ x = FM []) \/ ps = [] \/
  (exists j, mp_fval E sc (Some f) (f_kind f) x = ROk j /\ ps = [PField (json_name name) j]).
Proof.
  unfold mp_entry, is_flatten, empty_null, mp_oneof_of. intros Hfl Hoo. rewrite Hoo.
  destruct (f_flatten f) as [[|]|]; try discriminate Hfl;
    destruct (f_empty f) as [[| | |]|]; destruct x as [sx|[|e0 cm]|l|kv]; intros H;
    first [ injection H as <-; (left; now repeat split) || (right; now left)
          | right; right; apply rbind_ok in H as [j [Hj H]]; injection H as <-; exists j; now split ].
Qed.

Lemma mp_msg_entries md m : forall ps,
  (forall f, In f (m_fields md) -> is_flatten f = false /\ f_oneof f = None) ->
  mp_msg E sc md m = ROk ps ->
  forall k v, In (k, v) (entries_of ps) ->
  exists name x f, In (name, x) m /\ find_field (m_fields md) name = Some f /\ k = json_name name /\
     ((v = JNull /\ empty_null f = true /\ x = FM []) \/ mp_fval E sc (Some f) (f_kind f) x = ROk v).
Proof.
  induction m as [|[name x] r IH]; intros ps Hsimple Hm k v Hin.
  - cbn in Hm. injection Hm as <-. destruct Hin.
  - cbn [mp_msg] in Hm. destruct (find_field (m_fields md) name) as [f|] eqn:Ef; [|discriminate Hm].
    apply rbind_ok in Hm as [ps1 [H1 Hm]]. apply rbind_ok in Hm as [t [Ht Hm]]. injection Hm as <-.
    unfold entries_of in Hin. rewrite flat_map_app in Hin. apply in_app_or in Hin as [Hin|Hin].
    + destruct (Hsimple f (find_field_in _ _ _ Ef)) as [Hfl Hoo].
      destruct (mp_entry_cases md name f x ps1 Hfl Hoo H1) as [[-> [He ->]]|[->|[j [Hj ->]]]].
      * destruct Hin as [Hin|[]]. injection Hin as <- <-. exists name, (FM []), f. repeat split; auto. now left.
      * destruct Hin.
      * destruct Hin as [Hin|[]]. injection Hin as <- <-. exists name, x, f. repeat split; auto. now left.
    + destruct (IH t Hsimple Ht k v Hin) as [n' [x' [f' [Hi [Hf' [Hk Hc]]]]]].
      exists n', x', f'. repeat split; auto. now right.
Qed.

Lemma nulls_entries md (m : mval) k v : In (k, v) (nulls_of_msg md m) ->
  exists f, In f (m_fields md) /\ is_nullable f = true /\ k = jname f /\ v = JNull.
Proof.
  unfold nulls_of_msg. intros H. apply in_flat_map in H as [f [Hf H]]. exists f. unfold is_nullable, jname.
  destruct (f_nullable f) as [[|]|]; try destruct H. destruct (mget m (f_name f)); [destruct H|]. destruct H as [H|[]].
  injection H as <- <-. repeat split; auto.
Qed.

(* ---- the object component against an object whose entries each validate against their property ---------- *)
Lemma object_valid md es n :
  msg_ok md = true ->
  (forall key j, In (key, j) es -> exists f, In f (m_fields md) /\ key = jname f /\
      validates P cst n (rd 6 (convert_field sc no_side (m_name md) f)) (wire_jv j) = VOk true) ->
  is_jflt (JObj es) = false ->
  validates P cst (S n) (typed (plain_object_schema sc no_side md)) (wire_jv (JObj es)) = VOk true.
Proof.
  intros Hok Hes Hnf. rewrite plain_object_no_side, typed_rd, (wire_jv_obj es Hnf).
  unfold object_of. cbn [app].
  set (props := map (fun f => (jname f, convert_field sc no_side (m_name md) f)) (m_fields md)).
  assert (Hprops : forall p, In p (omap_of props) -> exists f, In f (m_fields md) /\ fst p = jname f /\
                                                          snd p = convert_field sc no_side (m_name md) f).
  { intros p Hp. apply omap_of_incl in Hp. unfold props in Hp. apply in_map_iff in Hp as [f [<- Hf]]. now exists f. }
  destruct props as [|p0 props'] eqn:Eprops.
  - rewrite rd_ymap. cbn [map]. rewrite kw_type_object. rewrite validates_S. reflexivity.
  - cbv iota. rewrite <- Eprops in *. clear Eprops p0 props'.
    rewrite rd_ymap. cbn [map app]. rewrite kw_type_object, kw_properties. rewrite validates_S.
    cbn [map check_kw declared_props flat_map has_type existsb orb app].
    apply vall_cons_true; [reflexivity|]. apply vall_cons_true; [|reflexivity].
    rewrite map_map. apply vall_all_true. intros p Hp. cbn [fst snd].
    destruct (Hprops p Hp) as [f [Hf [Hk Hs]]]. rewrite Hk, Hs.
    destruct (assoc_jv (jname f) _) as [xw|] eqn:Ea; [|reflexivity].
    destruct (assoc_jv_map_wire _ _ _ Ea) as [[key j'] [Hin [Hkey ->]]]. cbn [fst snd] in *.
    destruct (Hes key j' Hin) as [f' [Hf' [Hk' Hv]]].
    assert (f' = f) by (apply (msg_ok_jname_inj md f' f Hok Hf' Hf); unfold jname in *; congruence). subst f'.
    change (schema_of_jv 7 (denote reader12 (convert_field sc no_side (m_name md) f)))
      with (rd 6 (convert_field sc no_side (m_name md) f)).
    exact Hv.
Qed.

Lemma object_und md es uf vf short :
  msg_ok md = true ->
  (forall key j, In (key, j) es -> exists f, In f (m_fields md) /\ key = jname f /\
      und P cst uf vf (rd 6 (convert_field sc no_side (m_name md) f)) (wire_jv j) = 0) ->
  is_jflt (JObj es) = false ->
  find_comp cst short = Some (typed (plain_object_schema sc no_side md)) ->
  und P cst (S uf) vf (SObj [KwRef short]) (wire_jv (JObj es)) = 0.
Proof.
  intros Hok Hes Hnf Hfct. rewrite (wire_jv_obj es Hnf).
  cbn [und resolve0 resolve_kws first_ref find]. rewrite Hfct.
  rewrite plain_object_no_side, typed_rd.
  unfold object_of. cbn [app].
  set (props := map (fun f => (jname f, convert_field sc no_side (m_name md) f)) (m_fields md)).
  assert (Hprops : forall p, In p (omap_of props) -> exists f, In f (m_fields md) /\ fst p = jname f /\
                                                          snd p = convert_field sc no_side (m_name md) f).
  { intros p Hp. apply omap_of_incl in Hp. unfold props in Hp. apply in_map_iff in Hp as [f [<- Hf]]. now exists f. }
  assert (Hkeys : forall f, In f (m_fields md) -> In (jname f) (map fst (omap_of props))).
  { intros f Hf. apply omap_of_keys. unfold props. rewrite map_map. cbn [fst]. now apply (in_map jname). }
  apply fold_sum_zero. intros [key xw] Hin. cbn [fst snd].
  apply in_map_iff in Hin as [[key' j'] [Heq Hin]]. cbn [fst snd] in Heq. injection Heq as <- <-.
  destruct (Hes key' j' Hin) as [f [Hinf [Hk' Hu]]].
  assert (Hne : props <> []).
  { unfold props. destruct (m_fields md); [destruct Hinf|discriminate]. }
  destruct props as [|p0 props'] eqn:Eprops; [congruence|]. cbv iota. rewrite <- Eprops in *. clear Eprops p0 props' Hne.
  rewrite rd_ymap. cbn [map app]. rewrite kw_type_object, kw_properties.
  cbn [resolve_kws first_ref find branches kw_allof kw_oneof flat_map map app].
  unfold describe. cbn [branches kw_allof kw_oneof map first_some kw_props flat_map app].
  rewrite app_nil_r.
  rewrite (find_comp_map (fun n => schema_of_jv 7 (denote reader12 n)) (omap_of props) key').
  destruct (find_comp_some (omap_of props) key') as [node Hnode]; [rewrite Hk'; now apply Hkeys|].
  rewrite Hnode. cbn [option_map].
  destruct (Hprops (key', node) (find_comp_in _ _ _ Hnode)) as [f' [Hf' [Hk2 Hs2]]]. cbn [fst snd] in Hk2, Hs2.
  assert (f' = f) by (apply (msg_ok_jname_inj md f' f Hok Hf' Hinf); unfold jname in *; congruence). subst f' node.
  change (schema_of_jv 7 (denote reader12 (convert_field sc no_side (m_name md) f)))
    with (rd 6 (convert_field sc no_side (m_name md) f)).
  exact Hu.
Qed.
End Messages.

(* ================================================================================================ *)
(*  Part 4: the documented form of a covered message conforms to its component                       *)
(* ================================================================================================ *)
Lemma c6_msg_ok_facts md : c6_msg_ok md = true ->
  (forall f, In f (m_fields md) -> c6_field_ok f = true) /\ existsb oneof_cfg (m_oneofs md) = false /\ is_root_unwrap md = false.
Proof.
  unfold c6_msg_ok. intros H. apply andb_prop in H as [H H3]. apply andb_prop in H as [H1 H2].
  apply Bool.negb_true_iff in H2, H3. rewrite forallb_forall in H1. auto.
Qed.

(* the component of a covered message is the plain object schema (generator.go:175-220, last branch) *)
Lemma c6_object_schema sc md : c6_msg_ok md = true -> object_schema sc no_side md = plain_object_schema sc no_side md.
Proof.
  intros H. destruct (c6_msg_ok_facts md H) as [Hf [Ho Hr]].
  unfold object_schema, object_schema_sets.
  assert (H1 : root_unwrap_field md = None).
  { unfold root_unwrap_field. unfold is_root_unwrap, unwrap_field, unwrap_fields in Hr.
    destruct (m_fields md) as [|f [|g r]]; try reflexivity. cbn [filter] in Hr.
    destruct (f_unwrap f); [|reflexivity]. cbn [andb].
    unfold is_repeated, Codec.is_map in Hr. unfold OpenApi.is_map, is_list.
    destruct (f_card f); cbn in Hr |- *; try reflexivity; discriminate Hr. }
  assert (H2 : has_flatten_fields md = false).
  { unfold has_flatten_fields. apply existsb_none. intros f Hin. specialize (Hf f Hin).
    unfold c6_field_ok in Hf. apply andb_prop in Hf as [Hf _]. apply Bool.negb_true_iff in Hf. exact Hf. }
  assert (H3 : has_disc_oneof md = false).
  { unfold has_disc_oneof, disc_oneofs.
    assert (Hnil : filter discriminated (m_oneofs md) = []).
    { induction (m_oneofs md) as [|o r IH]; [reflexivity|]. cbn [existsb] in Ho. apply Bool.orb_false_iff in Ho as [Ho1 Ho2].
      cbn [filter]. change (discriminated o) with (oneof_cfg o). rewrite Ho1. now apply IH. }
    now rewrite Hnil. }
  now rewrite H1, H2, H3.
Qed.

Lemma field_ok_nullable_plain f : c6_field_ok f = true -> is_nullable f = true -> c6_class_plain f = true.
Proof.
  unfold c6_field_ok, c6_class_i64, c6_class_bytes, c6_class_ts. intros H Hn. rewrite Hn in H. cbn [negb] in H.
  rewrite !Bool.andb_false_r in H. cbn [andb] in H. rewrite !Bool.orb_false_r in H. now apply andb_prop in H as [_ H].
Qed.

Lemma field_ok_empty_null_plain sc f : c6_field_ok f = true -> empty_null f = true -> wt_entry sc f (FM []) = true ->
  c6_class_plain f = true.
Proof.
  unfold c6_field_ok. intros H He Hwt. apply andb_prop in H as [_ H].
  assert (Hk : exists tn, f_kind f = KMessage tn).
  { unfold wt_entry in Hwt. destruct (f_kind f); destruct (f_card f); try discriminate Hwt; eexists; reflexivity. }
  destruct Hk as [tn Hk].
  unfold c6_class_i64, c6_class_bytes, c6_class_ts in H. rewrite Hk, He in H. cbn [ProtoJson.is_int64_kind kind_eqb negb andb] in H.
  rewrite !Bool.andb_false_r in H. cbn [andb] in H. now rewrite !Bool.orb_false_r in H.
Qed.

Lemma msg_ok_no_oneof md f : msg_ok md = true -> In f (m_fields md) -> f_oneof f = None.
Proof.
  unfold msg_ok. intros H Hf. apply andb_prop in H as [_ H]. rewrite forallb_forall in H. specialize (H f Hf).
  apply andb_prop in H as [_ H]. destruct (f_oneof f); [discriminate H|reflexivity].
Qed.

Lemma kids_plain_in sc md m name x f :
  kids_plain sc md m = true -> In (name, x) m -> find_field (m_fields md) name = Some f -> plain_in sc (f_kind f) x = true.
Proof.
  unfold kids_plain. intros H Hin Hf. rewrite forallb_forall in H. specialize (H (name, x) Hin). cbn [fst snd] in H.
  now rewrite Hf in H.
Qed.

Theorem spec_message_conforms : forall (E : ExtLib) (sc : schema) (P : vparams) (cs : list (str * ynode))
    (tn : str) (md : message) (m : mval) (j : json),
  fprint_is_number E -> wire_formats_are_annotations P ->
  forallb plain_or_i64 (m_fields md) = true \/ codec_params P ->
  find_message (all_messages sc) ts_name = None -> str_eqb tn ts_name = false -> is_wkt_other tn = false ->
  find_message (all_messages sc) tn = Some md -> c6_msg_ok md = true -> nullable_enums_inhabited sc md = true ->
  wt sc (KMessage tn) (FM m) = true -> kids_plain sc md m = true ->
  defects_C06 sc no_side cs tn m = [] ->
  Mapping.to_json E sc tn m = ROk j ->
  (forall fuel, need (FM m) <= fuel ->
     validates P (doc_components reader12 cs) fuel (body_schema tn) (wire_jv j) = VOk true) /\
  (forall uf vf, existsb empty_null (m_fields md) = false \/ need (FM m) <= vf ->
     und P (doc_components reader12 cs) uf vf (body_schema tn) (wire_jv j) = 0).
Proof.
  intros E sc P cs tn md m j EL Hfmt Hcp Hts Htn Hwk Hfm Hmok Hinh Hwt Hkids Hd Hj.
  set (cst := doc_components reader12 cs).
  destruct (c6_msg_ok_facts md Hmok) as [Hfok [Hno Hnr]].
  rewrite wt_FM, Htn, Hwk, Hfm in Hwt. cbn [negb andb] in Hwt.
  apply andb_prop in Hwt as [Hwt Hwf]. apply andb_prop in Hwt as [Hok _].
  pose proof (defects_C06_nil_walk _ _ _ _ _ Hd) as Hw. rewrite walk_FM, Htn, Hfm in Hw.
  apply app_eq_nil in Hw as [Hmi Hwf']. destruct (msg_issues_nil _ _ _ _ _ Hmi) as [Hcomp Hmark].
  pose proof (find_message_name _ _ _ Hfm) as Hname.
  (* the component *)
  unfold comp_ok in Hcomp. rewrite Hname in Hcomp. unfold OpenApi.lookup_message in Hcomp. rewrite Hfm in Hcomp.
  destruct (find_comp cs (short_name tn)) as [n0|] eqn:Efc; [|discriminate Hcomp].
  apply ynode_eqb_eq in Hcomp. subst n0.
  assert (Hfct : find_comp cst (short_name tn) = Some (typed (plain_object_schema sc no_side md))).
  { unfold cst. change (doc_components reader12 cs) with (map (fun e : str * ynode => (fst e, typed (snd e))) cs).
    rewrite (find_comp_map typed cs (short_name tn)), Efc. cbn [option_map]. now rewrite (c6_object_schema sc md Hmok). }
  (* the documented form *)
  unfold Mapping.to_json in Hj. rewrite mp_fval_FM, Htn, Hwk, Hfm in Hj.
  apply rbind_ok in Hj as [ps [Hps Hj]]. unfold mp_finish in Hj. rewrite (no_root_unwrap md Hnr) in Hj.
  injection Hj as <-.
  change (JObj (entries_of ps ++ nulls_of_msg md m)) with (JObj (entries_of ps ++ nulls_of_msg md m)).
  set (es := _ ++ _).
  assert (Hes : es = entries_of ps ++ nulls_of_msg md m) by reflexivity. clearbody es.
  assert (Hsimple : forall f, In f (m_fields md) -> is_flatten f = false /\ f_oneof f = None).
  { intros f Hf. split; [|now apply (msg_ok_no_oneof md)].
    specialize (Hfok f Hf). unfold c6_field_ok in Hfok. apply andb_prop in Hfok as [Hfl _]. now apply Bool.negb_true_iff in Hfl. }
  (* every entry against its property, with the fuel the value needs *)
  assert (Hent : forall key v, In (key, v) es -> exists f, In f (m_fields md) /\ key = jname f /\
            forall n, need_fields m <= n ->
              validates P cst (S n) (rd 6 (convert_field sc no_side (m_name md) f)) (wire_jv v) = VOk true /\
              (forall uf vf, existsb empty_null (m_fields md) = false \/ need_fields m <= vf ->
                 und P cst uf vf (rd 6 (convert_field sc no_side (m_name md) f)) (wire_jv v) = 0)).
  { intros key v Hin. rewrite Hes in Hin. apply in_app_or in Hin as [Hin|Hin].
    - destruct (mp_msg_entries E sc md m ps Hsimple Hps key v Hin) as [name [x [f [Him [Hf [Hkey Hc]]]]]].
      destruct (find_field_spec _ _ _ Hf) as [Hinf Hfn].
      exists f. split; [exact Hinf|]. split; [unfold jname; now rewrite Hfn|].
      pose proof (need_fields_in m (name, x) Him) as Hnx. cbn [snd] in Hnx.
      pose proof (ConformFacts.wt_fields_in sc md m name x f Hwf Him Hf) as Hwe.
      pose proof (kids_plain_in sc md m name x f Hkids Him Hf) as Hpl.
      pose proof (walk_fields_in sc no_side cs md m name x f Hwf' Him Hf) as Hwk'.
      intros n Hn. destruct Hc as [[-> [Hen ->]]|Hmp].
      + split; [|intros uf vf _; now apply und_leaf].
        change (wire_jv JNull) with JVNull.
        apply (empty_null_entry sc P cs (m_name md) f n (field_ok_empty_null_plain sc f (Hfok f Hinf) Hen Hwe) Hen Hwe Hpl Hwk').
        rewrite need_FM in Hnx. lia.
      + assert (Hcpf : plain_or_i64 f = true \/ codec_params P).
        { destruct Hcp as [Hcp|Hcp]; [left|now right]. rewrite forallb_forall in Hcp. now apply Hcp. }
        destruct (spec_entry E EL sc P Hfmt cs Hts (m_name md) f x v n (Hfok f Hinf) Hcpf Hwe Hpl Hwk' Hmp) as [H1 H2]; [lia|].
        split; [exact H1|]. intros uf vf Hvf. apply H2. destruct Hvf as [Hvf|Hvf]; [left|right; lia].
        exact (existsb_false_in _ _ f Hvf Hinf).
    - destruct (nulls_entries md m key v Hin) as [f [Hinf [Hnl [Hkey ->]]]].
      exists f. split; [exact Hinf|]. split; [exact Hkey|]. intros n _.
      split; [|intros uf vf _; now apply und_leaf].
      change (wire_jv JNull) with JVNull.
      apply (nullable_null_entry sc P cs (m_name md) f n (field_ok_nullable_plain f (Hfok f Hinf) Hnl) Hnl).
      unfold nullable_enums_inhabited in Hinh. rewrite forallb_forall in Hinh. specialize (Hinh f Hinf).
      rewrite Hnl in Hinh. exact Hinh. }
  assert (Hnf : is_jflt (JObj es) = false).
  { destruct es as [|[key j0] r]; [reflexivity|]. apply is_jflt_not_marker.
    destruct (Hent key j0 (or_introl eq_refl)) as [f [Hinf [-> _]]].
    destruct (is_marker (jname f)) eqn:Em; [|reflexivity].
    assert (existsb (fun f0 => is_marker (json_name (f_name f0))) (m_fields md) = true)
      by (apply existsb_exists; now exists f). congruence. }
  split.
  - intros fuel Hfuel. rewrite need_FM in Hfuel. destruct fuel as [|[|[|n]]]; try lia.
    unfold body_schema. rewrite (validates_ref P cst _ _ _ _ Hfct). apply vand_true_r.
    apply (object_valid sc P cs md es (S n) Hok); [|exact Hnf].
    intros key v Hin. destruct (Hent key v Hin) as [f [Hinf [Hkey Hv]]]. exists f. repeat split; auto.
    apply Hv. lia.
  - intros uf vf Hvf. rewrite need_FM in Hvf. destruct uf as [|uf]; [reflexivity|].
    assert (Hvf' : existsb empty_null (m_fields md) = false \/ need_fields m <= vf) by (destruct Hvf; [now left|right; lia]).
    unfold body_schema. apply (object_und sc P cs md es uf vf (short_name tn) Hok); [|exact Hnf|exact Hfct].
    intros key v Hin. destruct (Hent key v Hin) as [f [Hinf [Hkey Hv]]]. exists f. repeat split; auto.
    now apply (Hv (need_fields m) (Nat.le_refl _)).
Qed.

(* ================================================================================================ *)
(*  Part 5: the five codecs                                                                          *)
(* ================================================================================================ *)
Lemma own_inv sc md ft : owner_of sc md = Own ft ->
  (ft <> FtUnwrapRoot -> is_root_unwrap md = false) /\
  (ft <> FtNullable -> existsb is_nullable (m_fields md) = false) /\
  (ft <> FtEmpty -> existsb (fun f => match empty_of f with Some _ => true | None => false end) (m_fields md) = false) /\
  (ft <> FtFlatten -> existsb is_flatten (m_fields md) = false) /\
  (ft <> FtOneof -> existsb oneof_cfg (m_oneofs md) = false).
Proof.
  unfold owner_of, features.
  destruct (is_root_unwrap md);
  destruct (existsb (fun f => match value_unwrap sc f with Some _ => true | None => false end) (m_fields md));
  destruct (existsb is_number_i64 (m_fields md));
  destruct (existsb is_nullable (m_fields md));
  destruct (existsb (fun f => match empty_of f with Some _ => true | None => false end) (m_fields md));
  destruct (existsb (fun f => match tsfmt_of f with Some _ => true | None => false end) (m_fields md));
  destruct (existsb (fun f => match bytesenc_of f with Some _ => true | None => false end) (m_fields md));
  destruct (existsb is_flatten (m_fields md));
  destruct (existsb oneof_cfg (m_oneofs md));
  cbn [app]; intros H; try discriminate H; injection H as <-;
  repeat split; intros Hne; try reflexivity; exfalso; apply Hne; reflexivity.
Qed.

Ltac split_andb H := repeat (let H' := fresh "Hb" in apply andb_prop in H as [H H']).
Ltac kill_none :=
  repeat match goal with
         | Hx : is_none ?o = true |- _ => destruct o; [discriminate Hx|clear Hx]
         end.

Lemma c6_msg_ok_intro sc md ft :
  owner_of sc md = Own ft -> ft <> FtUnwrapRoot -> ft <> FtOneof ->
  (forall f, In f (m_fields md) -> c6_field_ok f = true) -> c6_msg_ok md = true.
Proof.
  intros Hown H1 H2 Hf. destruct (own_inv sc md ft Hown) as [Hr [_ [_ [_ Ho]]]].
  unfold c6_msg_ok. rewrite (Hr H1), (Ho H2). cbn [negb]. rewrite !Bool.andb_true_r. now apply forallb_forall.
Qed.

(* a message without nullable fields (every owner but the nullable codec) *)
Lemma no_nullable_inhabited sc md : existsb is_nullable (m_fields md) = false -> nullable_enums_inhabited sc md = true.
Proof.
  intros H. unfold nullable_enums_inhabited. apply forallb_forall. intros f Hf.
  now rewrite (existsb_false_in _ _ f H Hf).
Qed.
Lemma own_not_nullable_inhabited sc md ft : owner_of sc md = Own ft -> ft <> FtNullable -> nullable_enums_inhabited sc md = true.
Proof.
  intros Hown Hne. destruct (own_inv sc md ft Hown) as [_ [Hn _]]. apply no_nullable_inhabited. now apply Hn.
Qed.

(* ---- nullable ------------------------------------------------------------------------------------------ *)
(* nullable = true sits on singular / optional fields of non-message kinds - what the generator admits
   (nullable.go:46-70: `optional` fields of every kind but a message, enums included; the schema of a nullable
   enum lists null among its values since the repair of nullable-enum-null-not-in-enum, see part 6) - and the
   enum of a nullable enum field declares a value (protoc refuses an enum without values; without one the
   model publishes `enum: []`, which makeNullableSchema leaves empty: message_conforms_nullable_needs_inhabited) *)
Definition nullable_shape (sc : schema) (md : message) : bool :=
  forallb (fun f => negb (is_nullable f) || (singularish f && nullable_kind (f_kind f) && enum_inhabited sc (f_kind f))) (m_fields md).

Lemma nulplain_c6 f : nulplain_field f = true ->
  negb (is_nullable f) || (singularish f && nullable_kind (f_kind f)) = true ->
  c6_field_ok f = true /\ plain_or_i64 f = true.
Proof.
  intros H Hs. unfold c6_field_ok, plain_or_i64, c6_class_plain, sc_plainish, is_flatten, i64_number. rewrite Hs.
  unfold nulplain_field in H. split_andb H. kill_none. cbn [is_none negb andb orb]. rewrite Bool.andb_false_r. split; reflexivity.
Qed.
Lemma nullable_shape_facts sc md : nullable_shape sc md = true ->
  (forall f, In f (m_fields md) -> negb (is_nullable f) || (singularish f && nullable_kind (f_kind f)) = true) /\
  nullable_enums_inhabited sc md = true.
Proof.
  unfold nullable_shape, nullable_enums_inhabited. intros H. rewrite forallb_forall in H. split.
  - intros f Hf. specialize (H f Hf). destruct (is_nullable f); [|reflexivity]. cbn [negb orb] in H |- *.
    now apply andb_prop in H as [H _].
  - apply forallb_forall. intros f Hf. specialize (H f Hf). destruct (is_nullable f); [|reflexivity]. cbn [negb orb] in H |- *.
    now apply andb_prop in H as [_ H].
Qed.

Theorem message_conforms_nullable : forall (E : ExtLib) (sc : schema) (P : vparams) (cs : list (str * ynode))
    (tn : str) (md : message) (m : mval) (j : json),
  fprint_is_number E -> wire_formats_are_annotations P ->
  find_message (all_messages sc) ts_name = None -> str_eqb tn ts_name = false -> is_wkt_other tn = false ->
  find_message (all_messages sc) tn = Some md -> owner_of sc md = Own FtNullable ->
  nodup_str (map jn (m_fields md)) = true -> nulplain_msg md = true -> nullable_shape sc md = true ->
  wt sc (KMessage tn) (FM m) = true -> kids_plain sc md m = true ->
  defects_C06 sc no_side cs tn m = [] ->
  (encode E sc tn m = ROk j \/ Mapping.to_json E sc tn m = ROk j) ->
  (forall fuel, need (FM m) <= fuel ->
     validates P (doc_components reader12 cs) fuel (body_schema tn) (wire_jv j) = VOk true) /\
  (forall uf vf, und P (doc_components reader12 cs) uf vf (body_schema tn) (wire_jv j) = 0).
Proof.
  intros E sc P cs tn md m j EL Hfmt Hts Htn Hwk Hfm Hown Hnd Hmd Hshape Hwt Hkids Hd Hj.
  assert (Henc : encode E sc tn m = Mapping.to_json E sc tn m)
    by (apply (conforms_nullable E sc tn md m Htn Hwk Hfm Hown Hnd Hmd); exact Hkids).
  assert (Hj' : Mapping.to_json E sc tn m = ROk j) by (destruct Hj as [Hj|Hj]; [now rewrite <- Henc|exact Hj]).
  unfold nulplain_msg in Hmd. apply andb_prop in Hmd as [Hf _]. rewrite forallb_forall in Hf.
  destruct (nullable_shape_facts sc md Hshape) as [Hshape' Hinh].
  assert (Hmok : c6_msg_ok md = true).
  { apply (c6_msg_ok_intro sc md FtNullable Hown); try discriminate. intros f Hin. now apply nulplain_c6; auto. }
  assert (Hcp : forallb plain_or_i64 (m_fields md) = true \/ codec_params P).
  { left. apply forallb_forall. intros f Hin. now apply nulplain_c6; auto. }
  assert (Hne : existsb empty_null (m_fields md) = false).
  { apply existsb_none. intros f Hin. specialize (Hf f Hin). unfold nulplain_field in Hf. unfold empty_null. split_andb Hf. kill_none. reflexivity. }
  destruct (spec_message_conforms E sc P cs tn md m j EL Hfmt Hcp Hts Htn Hwk Hfm Hmok Hinh Hwt Hkids Hd Hj') as [H1 H2].
  split; [exact H1|]. intros uf vf. apply H2. now left.
Qed.

(* ---- int64_encoding = NUMBER --------------------------------------------------------------------------- *)
Lemma i64plain_c6 f : i64plain_field f = true -> c6_field_ok f = true /\ plain_or_i64 f = true /\ empty_null f = false.
Proof.
  intros H. unfold c6_field_ok, plain_or_i64, c6_class_plain, c6_class_i64, sc_plainish, is_flatten, is_nullable, empty_null.
  unfold i64plain_field, i64_effective in H. fold (i64_number f) in H.
  apply andb_prop in H as [H Hlast]. split_andb H. kill_none. cbn [is_none negb andb orb].
  rewrite !Bool.andb_true_r.
  destruct (ProtoJson.is_int64_kind (f_kind f) && i64_number f) eqn:Eb; rewrite ?Eb in Hlast; cbn [negb orb andb] in *;
    rewrite ?Hlast; repeat split; reflexivity.
Qed.

Theorem message_conforms_int64 : forall (E : ExtLib) (sc : schema) (P : vparams) (cs : list (str * ynode))
    (tn : str) (md : message) (m : mval) (j : json),
  fprint_is_number E -> wire_formats_are_annotations P ->
  find_message (all_messages sc) ts_name = None -> str_eqb tn ts_name = false -> is_wkt_other tn = false ->
  find_message (all_messages sc) tn = Some md -> owner_of sc md = Own FtInt64 ->
  buildable sc FtInt64 md = true ->
  nodup_str (map jn (m_fields md)) = true -> i64plain_msg md = true ->
  wt sc (KMessage tn) (FM m) = true -> kids_plain sc md m = true ->
  defects_C06 sc no_side cs tn m = [] ->
  (encode E sc tn m = ROk j \/ Mapping.to_json E sc tn m = ROk j) ->
  (forall fuel, need (FM m) <= fuel ->
     validates P (doc_components reader12 cs) fuel (body_schema tn) (wire_jv j) = VOk true) /\
  (forall uf vf, und P (doc_components reader12 cs) uf vf (body_schema tn) (wire_jv j) = 0).
Proof.
  intros E sc P cs tn md m j EL Hfmt Hts Htn Hwk Hfm Hown Hb Hnd Hmd Hwt Hkids Hd Hj.
  assert (Henc : encode E sc tn m = Mapping.to_json E sc tn m)
    by (apply (conforms_int64 E sc tn md m Htn Hwk Hfm Hown Hb Hnd Hmd Hwt); exact Hkids).
  assert (Hj' : Mapping.to_json E sc tn m = ROk j) by (destruct Hj as [Hj|Hj]; [now rewrite <- Henc|exact Hj]).
  unfold i64plain_msg in Hmd. apply andb_prop in Hmd as [Hf _]. rewrite forallb_forall in Hf.
  assert (Hmok : c6_msg_ok md = true).
  { apply (c6_msg_ok_intro sc md FtInt64 Hown); try discriminate. intros f Hin. now apply i64plain_c6; auto. }
  assert (Hcp : forallb plain_or_i64 (m_fields md) = true \/ codec_params P).
  { left. apply forallb_forall. intros f Hin. now apply i64plain_c6; auto. }
  assert (Hne : existsb empty_null (m_fields md) = false).
  { apply existsb_none. intros f Hin. now apply i64plain_c6; auto. }
  destruct (spec_message_conforms E sc P cs tn md m j EL Hfmt Hcp Hts Htn Hwk Hfm Hmok (own_not_nullable_inhabited sc md _ Hown ltac:(discriminate)) Hwt Hkids Hd Hj') as [H1 H2].
  split; [exact H1|]. intros uf vf. apply H2. now left.
Qed.

(* ---- bytes_encoding ------------------------------------------------------------------------------------- *)
Lemma bytesplain_c6 f : bytesplain_field f = true -> c6_field_ok f = true /\ empty_null f = false.
Proof.
  intros H. unfold c6_field_ok, c6_class_plain, c6_class_bytes, sc_plainish, is_flatten, is_nullable, empty_null, i64_number.
  unfold bytesplain_field in H. apply andb_prop in H as [H Hlast]. split_andb H. kill_none. cbn [is_none negb andb orb].
  rewrite !Bool.andb_true_r, Bool.andb_false_r. cbn [negb andb].
  apply Bool.orb_true_iff in Hlast as [Hn|Hk].
  - destruct (f_bytesenc f); [discriminate Hn|]. split; reflexivity.
  - rewrite Hk. rewrite !Bool.orb_true_r. split; reflexivity.
Qed.

Lemma bytes_kids_plain sc md m : bytesplain_msg md = true -> forallb (bytes_value_ok sc md) m = true -> kids_plain sc md m = true.
Proof.
  intros Hmd H. unfold bytesplain_msg in Hmd. apply andb_prop in Hmd as [Hf _]. rewrite forallb_forall in Hf.
  unfold kids_plain. rewrite forallb_forall in *. intros e He. specialize (H e He). unfold bytes_value_ok in H.
  destruct (find_field (m_fields md) (fst e)) as [f|] eqn:Ef; [|discriminate H].
  destruct (is_none (f_bytesenc f)) eqn:En; [exact H|].
  specialize (Hf f (find_field_in _ _ _ Ef)). unfold bytesplain_field in Hf. apply andb_prop in Hf as [_ Hlast].
  rewrite En in Hlast. cbn [orb] in Hlast. apply andb_prop in Hlast as [Hk _].
  destruct (f_kind f); try discriminate Hk. destruct (snd e) as [[]| | |]; try discriminate H. reflexivity.
Qed.

Theorem message_conforms_bytes : forall (E : ExtLib) (sc : schema) (P : vparams) (cs : list (str * ynode))
    (tn : str) (md : message) (m : mval) (j : json),
  fprint_is_number E -> wire_formats_are_annotations P -> codec_params P ->
  find_message (all_messages sc) ts_name = None -> str_eqb tn ts_name = false -> is_wkt_other tn = false ->
  find_message (all_messages sc) tn = Some md -> owner_of sc md = Own FtBytes ->
  buildable sc FtBytes md = true ->
  nodup_str (map jn (m_fields md)) = true -> bytesplain_msg md = true ->
  wt sc (KMessage tn) (FM m) = true -> forallb (bytes_value_ok sc md) m = true ->
  defects_C06 sc no_side cs tn m = [] ->
  (encode E sc tn m = ROk j \/ Mapping.to_json E sc tn m = ROk j) ->
  (forall fuel, need (FM m) <= fuel ->
     validates P (doc_components reader12 cs) fuel (body_schema tn) (wire_jv j) = VOk true) /\
  (forall uf vf, und P (doc_components reader12 cs) uf vf (body_schema tn) (wire_jv j) = 0).
Proof.
  intros E sc P cs tn md m j EL Hfmt Hcpar Hts Htn Hwk Hfm Hown Hb Hnd Hmd Hwt Hval Hd Hj.
  assert (Hnames : nodup_str (map fst m) = true).
  { pose proof Hwt as Hwt'. rewrite wt_FM, Htn, Hwk, Hfm in Hwt'. cbn [negb andb] in Hwt'.
    apply andb_prop in Hwt' as [Hwt' _]. apply andb_prop in Hwt' as [_ Hsorted]. exact (sorted_names_nodup md m Hsorted). }
  assert (Henc : encode E sc tn m = Mapping.to_json E sc tn m)
    by (exact (conforms_bytes E sc tn md m Htn Hwk Hfm Hown Hb Hnd Hmd Hnames Hval)).
  assert (Hj' : Mapping.to_json E sc tn m = ROk j) by (destruct Hj as [Hj|Hj]; [now rewrite <- Henc|exact Hj]).
  pose proof (bytes_kids_plain sc md m Hmd Hval) as Hkids.
  unfold bytesplain_msg in Hmd. apply andb_prop in Hmd as [Hf _]. rewrite forallb_forall in Hf.
  assert (Hmok : c6_msg_ok md = true).
  { apply (c6_msg_ok_intro sc md FtBytes Hown); try discriminate. intros f Hin. now apply bytesplain_c6; auto. }
  assert (Hne : existsb empty_null (m_fields md) = false).
  { apply existsb_none. intros f Hin. now apply bytesplain_c6; auto. }
  destruct (spec_message_conforms E sc P cs tn md m j EL Hfmt (or_intror Hcpar) Hts Htn Hwk Hfm Hmok (own_not_nullable_inhabited sc md _ Hown ltac:(discriminate)) Hwt Hkids Hd Hj') as [H1 H2].
  split; [exact H1|]. intros uf vf. apply H2. now left.
Qed.

(* ---- timestamp_format ----------------------------------------------------------------------------------- *)
Lemma ts_c6 f : tsplain_field f = true ->
  match tsfmt_of f with Some _ => plain_singular f | None => true end = true ->
  is_nullable f = false -> empty_of f = None -> is_flatten f = false ->
  c6_field_ok f = true /\ empty_null f = false.
Proof.
  intros Hp Hb Hnn He Hfl.
  assert (Hen : empty_null f = false).
  { unfold empty_of in He. unfold empty_null. destruct (f_empty f) as [[| | |]|]; try discriminate He; reflexivity. }
  split; [|exact Hen]. unfold c6_field_ok. rewrite Hfl. cbn [negb andb].
  unfold tsplain_field in Hp. destruct (tsfmt_of f) as [t|] eqn:Et.
  - assert (Hs : singularish f = true).
    { unfold plain_singular in Hb. unfold singularish. destruct (f_card f); try discriminate Hb; reflexivity. }
    unfold c6_class_ts. rewrite Et, Hs, Hnn, Hen. cbn [negb andb]. now rewrite !Bool.orb_true_r.
  - destruct (ctx_field_ok_facts f Hp) as [Hi [Hee [Hbb Htt]]].
    unfold c6_class_plain, sc_plainish, i64_number. rewrite Hi, Hee, Hbb, Htt, Hnn. cbn [is_none negb andb orb].
    now rewrite Bool.andb_false_r.
Qed.

Lemma ts_kids_plain sc md m : forallb (ts_entry_ok sc md) m = true -> kids_plain sc md m = true.
Proof.
  intros H. unfold kids_plain. rewrite forallb_forall in *. intros e He. specialize (H e He). unfold ts_entry_ok in H.
  destruct (find_field (m_fields md) (fst e)) as [f|] eqn:Ef; [|discriminate H].
  destruct (tsfmt_of f) as [t|] eqn:Et; [|exact H].
  destruct (tsfmt_of_facts f t Et) as [Hk _].
  destruct (f_kind f) as [| | | | | | | | | | | | | | | tn0 | tn]; try discriminate Hk.
  destruct (snd e) as [|tm| |]; try discriminate H. rewrite plain_in_FM.
  cbn [is_timestamp] in Hk. change (s "google.protobuf.Timestamp") with ts_name in Hk. now rewrite Hk.
Qed.

Theorem message_conforms_ts : forall (E : ExtLib) (sc : schema) (P : vparams) (cs : list (str * ynode))
    (tn : str) (md : message) (m : mval) (j : json),
  fprint_is_number E -> wire_formats_are_annotations P -> codec_params P ->
  find_message (all_messages sc) ts_name = None -> str_eqb tn ts_name = false -> is_wkt_other tn = false ->
  find_message (all_messages sc) tn = Some md -> owner_of sc md = Own FtTs ->
  buildable sc FtTs md = true ->
  nodup_str (map jn (m_fields md)) = true -> forallb tsplain_field (m_fields md) = true ->
  wt sc (KMessage tn) (FM m) = true -> forallb (ts_entry_ok sc md) m = true ->
  defects_C06 sc no_side cs tn m = [] ->
  (encode E sc tn m = ROk j \/ Mapping.to_json E sc tn m = ROk j) ->
  (forall fuel, need (FM m) <= fuel ->
     validates P (doc_components reader12 cs) fuel (body_schema tn) (wire_jv j) = VOk true) /\
  (forall uf vf, und P (doc_components reader12 cs) uf vf (body_schema tn) (wire_jv j) = 0).
Proof.
  intros E sc P cs tn md m j EL Hfmt Hcpar Hts Htn Hwk Hfm Hown Hb Hnd Hmd Hwt Hval Hd Hj.
  assert (Hnames : nodup_str (map fst m) = true).
  { pose proof Hwt as Hwt'. rewrite wt_FM, Htn, Hwk, Hfm in Hwt'. cbn [negb andb] in Hwt'.
    apply andb_prop in Hwt' as [Hwt' _]. apply andb_prop in Hwt' as [_ Hsorted]. exact (sorted_names_nodup md m Hsorted). }
  assert (Henc : encode E sc tn m = Mapping.to_json E sc tn m)
    by (exact (conforms_ts E sc tn md m Htn Hwk Hfm Hown Hb Hnd Hmd Hnames Hval)).
  assert (Hj' : Mapping.to_json E sc tn m = ROk j) by (destruct Hj as [Hj|Hj]; [now rewrite <- Henc|exact Hj]).
  pose proof (ts_kids_plain sc md m Hval) as Hkids.
  destruct (own_inv sc md FtTs Hown) as [_ [Hnul [Hemp [Hflat _]]]].
  specialize (Hnul ltac:(discriminate)). specialize (Hemp ltac:(discriminate)). specialize (Hflat ltac:(discriminate)).
  rewrite forallb_forall in Hmd. unfold buildable in Hb. rewrite forallb_forall in Hb.
  assert (Hall : forall f, In f (m_fields md) -> c6_field_ok f = true /\ empty_null f = false).
  { intros f Hin. apply ts_c6; auto.
    - exact (existsb_false_in _ _ f Hnul Hin).
    - pose proof (existsb_false_in _ _ f Hemp Hin) as He. cbn beta in He. destruct (empty_of f); [discriminate He|reflexivity].
    - exact (existsb_false_in _ _ f Hflat Hin). }
  assert (Hmok : c6_msg_ok md = true).
  { apply (c6_msg_ok_intro sc md FtTs Hown); try discriminate. intros f Hin. now apply Hall. }
  assert (Hne : existsb empty_null (m_fields md) = false).
  { apply existsb_none. intros f Hin. now apply Hall. }
  destruct (spec_message_conforms E sc P cs tn md m j EL Hfmt (or_intror Hcpar) Hts Htn Hwk Hfm Hmok (own_not_nullable_inhabited sc md _ Hown ltac:(discriminate)) Hwt Hkids Hd Hj') as [H1 H2].
  split; [exact H1|]. intros uf vf. apply H2. now left.
Qed.

(* ---- empty_behavior -------------------------------------------------------------------------------------- *)
Lemma empplain_c6 f : empplain_field f = true -> c6_field_ok f = true /\ plain_or_i64 f = true.
Proof.
  intros H. unfold c6_field_ok, plain_or_i64, c6_class_plain, sc_plainish, is_flatten, is_nullable, i64_number.
  unfold empplain_field in H. split_andb H. kill_none. cbn [is_none negb andb orb]. rewrite Bool.andb_false_r. split; reflexivity.
Qed.

(* the reference walk looks below `oneOf [T, null]` only through the branches the value validates against:
   it needs the validation fuel of the value when a field carries empty_behavior = NULL *)
Theorem message_conforms_empty : forall (E : ExtLib) (sc : schema) (P : vparams) (cs : list (str * ynode))
    (tn : str) (md : message) (m : mval) (j : json),
  fprint_is_number E -> wire_formats_are_annotations P ->
  find_message (all_messages sc) ts_name = None -> str_eqb tn ts_name = false -> is_wkt_other tn = false ->
  find_message (all_messages sc) tn = Some md -> owner_of sc md = Own FtEmpty ->
  buildable sc FtEmpty md = true ->
  nodup_str (map jn (m_fields md)) = true -> empplain_msg md = true ->
  wt sc (KMessage tn) (FM m) = true -> kids_plain sc md m = true ->
  defects_C06 sc no_side cs tn m = [] ->
  (encode E sc tn m = ROk j \/ Mapping.to_json E sc tn m = ROk j) ->
  (forall fuel, need (FM m) <= fuel ->
     validates P (doc_components reader12 cs) fuel (body_schema tn) (wire_jv j) = VOk true) /\
  (forall uf vf, existsb empty_null (m_fields md) = false \/ need (FM m) <= vf ->
     und P (doc_components reader12 cs) uf vf (body_schema tn) (wire_jv j) = 0).
Proof.
  intros E sc P cs tn md m j EL Hfmt Hts Htn Hwk Hfm Hown Hb Hnd Hmd Hwt Hkids Hd Hj.
  assert (Henc : encode E sc tn m = Mapping.to_json E sc tn m)
    by (apply (conforms_empty E sc tn md m Htn Hwk Hfm Hown Hb Hnd Hmd Hwt); exact Hkids).
  assert (Hj' : Mapping.to_json E sc tn m = ROk j) by (destruct Hj as [Hj|Hj]; [now rewrite <- Henc|exact Hj]).
  unfold empplain_msg in Hmd. apply andb_prop in Hmd as [Hf _]. rewrite forallb_forall in Hf.
  assert (Hmok : c6_msg_ok md = true).
  { apply (c6_msg_ok_intro sc md FtEmpty Hown); try discriminate. intros f Hin. now apply empplain_c6; auto. }
  assert (Hcp : forallb plain_or_i64 (m_fields md) = true \/ codec_params P).
  { left. apply forallb_forall. intros f Hin. now apply empplain_c6; auto. }
  exact (spec_message_conforms E sc P cs tn md m j EL Hfmt Hcp Hts Htn Hwk Hfm Hmok (own_not_nullable_inhabited sc md _ Hown ltac:(discriminate)) Hwt Hkids Hd Hj').
Qed.

(* ================================================================================================ *)
(*  Part 6: witnesses                                                                                *)
(* ================================================================================================ *)
Open Scope Z_scope.
Definition k6q (n : string) : str := s "k.v1." ++ s n.
Definition K6 (n : string) : kind := KMessage (k6q n).
Definition k6msg (n : string) (fs : list field) : message :=
  {| m_name := k6q n; m_path := [s n]; m_fields := fs; m_oneofs := [] |}.
Definition k6rpc (n : string) : method :=
  {| md_name := s n; md_in := k6q n; md_out := k6q n; md_has_cfg := true; md_path := s "/" ++ s n; md_verb := Some 2%nat; md_headers := [] |}.
Definition k6_color : enum :=
  {| e_name := k6q "Color"; e_values := [ {| ev_name := s "COLOR_UNSPECIFIED"; ev_number := 0; ev_custom := None |};
                                          {| ev_name := s "COLOR_RED"; ev_number := 1; ev_custom := None |} ] |}.

(* an enum with enum_value custom strings, and one without values (refused by protoc; the corner the side
   condition enum_inhabited excludes) *)
Definition k6_shade : enum :=
  {| e_name := k6q "Shade"; e_values := [ {| ev_name := s "SHADE_UNSPECIFIED"; ev_number := 0; ev_custom := Some (s "none") |};
                                          {| ev_name := s "SHADE_DARK"; ev_number := 1; ev_custom := Some (s "dark") |} ] |}.
Definition k6_void : enum := {| e_name := k6q "Void"; e_values := [] |}.

Definition k6_leaf : message := k6msg "Leaf" [fld "a" 1 KString Singular; fld "n" 2 KInt64 Singular].
(* nullable: optional scalars of several kinds, next to un-annotated fields *)
Definition k6_nul : message :=
  k6msg "Nul" [set_nullable (fld "nick" 1 KString Optional); set_nullable (fld "age" 2 KUint32 Optional);
               set_nullable (fld "big" 3 KInt64 Optional); set_nullable (fld "ok" 4 KBool Optional);
               fld "id" 5 KString Singular; fld "leaf" 6 (K6 "Leaf") Singular; fld "tags" 7 KString Repeated].
(* int64 NUMBER: signed, unsigned, repeated, beside STRING-encoded and nested ones *)
Definition k6_nums : message :=
  k6msg "Nums" [set_i64 (fld "big" 1 KInt64 Singular); set_i64 (fld "ubig" 2 KUint64 Singular);
                set_i64 (fld "many" 3 KSint64 Repeated); fld "plain_big" 4 KInt64 Singular;
                fld "leaf" 5 (K6 "Leaf") Singular; fld "by_key" 6 (K6 "Leaf") (MapOf KString)].
(* bytes_encoding: the four encodings *)
Definition k6_blob : message :=
  k6msg "Blob" [set_bytes BEHex (fld "h" 1 KBytes Singular); set_bytes BEBase64Raw (fld "raw_b" 2 KBytes Optional);
                set_bytes BEBase64Url (fld "url_b" 3 KBytes Singular); set_bytes BEBase64UrlRaw (fld "url_raw" 4 KBytes Singular);
                fld "plain_b" 5 KBytes Singular; fld "id" 6 KString Singular; fld "leaf" 7 (K6 "Leaf") Singular].
(* timestamp_format: the three formats and an un-annotated Timestamp *)
Definition k6_times : message :=
  k6msg "Times" [set_ts TFUnixSeconds (fld "at_secs" 1 TS Singular); set_ts TFUnixMillis (fld "at_millis" 2 TS Singular);
                 set_ts TFDate (fld "on_day" 3 TS Singular); fld "plain_at" 4 TS Singular; fld "id" 5 KString Singular].
(* empty_behavior: the three behaviours, a Timestamp under NULL *)
Definition k6_emp : message :=
  k6msg "Emp" [set_empty EBPreserve (fld "keep_it" 1 (K6 "Leaf") Singular); set_empty EBNull (fld "nul_it" 2 (K6 "Leaf") Singular);
               set_empty EBNull (fld "nul_full" 3 (K6 "Leaf") Singular); set_empty EBOmit (fld "omit_it" 4 (K6 "Leaf") Singular);
               set_empty EBNull (fld "nul_at" 5 TS Singular); fld "id" 6 KString Singular].
(* nullable on an optional enum field: inside the nullable theorem since the repair of nullable-enum-null-not-in-enum *)
Definition k6_color_field : field := set_nullable (fld "color" 1 (KEnum (k6q "Color")) Optional).
Definition k6_nulenum : message := k6msg "NulEnum" [k6_color_field; fld "id" 2 KString Singular].
(* ... with enum_value custom strings, and with enum_encoding = NUMBER: the schemas makeNullableSchema extends likewise *)
Definition k6_shade_field : field := set_nullable (fld "shade" 1 (KEnum (k6q "Shade")) Optional).
Definition k6_colornum_field : field := set_nullable (set_enumnum (fld "color_num" 2 (KEnum (k6q "Color")) Optional)).
Definition k6_nulenum2 : message := k6msg "NulEnum2" [k6_shade_field; k6_colornum_field; fld "id" 3 KString Singular].
(* outside the side conditions of the nullable theorem *)
Definition k6_nulvoid : message :=
  k6msg "NulVoid" [set_nullable (fld "void" 1 (KEnum (k6q "Void")) Optional); fld "id" 2 KString Singular].
Definition k6_nulmsg : message := k6msg "NulMsg" [set_nullable (fld "leaf" 1 (K6 "Leaf") Optional); fld "id" 2 KString Singular].
Definition k6_nulrep : message := k6msg "NulRep" [set_nullable (fld "tags" 1 KString Repeated); fld "id" 2 KString Singular].
Definition k6_messages : list message :=
  [k6_leaf; k6_nul; k6_nums; k6_blob; k6_times; k6_emp; k6_nulenum; k6_nulmsg; k6_nulrep; k6_nulenum2; k6_nulvoid].

Definition k6_service : service :=
  {| sv_name := s "Svc"; sv_base := s "/k"; sv_headers := [];
     sv_methods := [k6rpc "Nul"; k6rpc "Nums"; k6rpc "Blob"; k6rpc "Times"; k6rpc "Emp"; k6rpc "NulEnum"; k6rpc "NulMsg"; k6rpc "NulRep";
                    k6rpc "NulEnum2"; k6rpc "NulVoid"] |}.
Definition k6s : schema :=
  [ {| fl_path := s "k/a.proto"; fl_package := s "k.v1"; fl_gopkg := s "k"; fl_generate := true;
       fl_messages := k6_messages; fl_enums := [k6_color; k6_shade; k6_void]; fl_services := [k6_service] |} ].
Definition k6doc : c06_doc := Eval vm_compute in prepare_C06 k6s no_side 0 0.

(* the hypotheses every codec theorem shares, on the document of service Svc *)
Definition k6_common (tn : str) (md : message) (m : mval) : Prop :=
  cd_ok k6doc = true /\ cd_tcs k6doc = doc_components reader12 (cd_cs k6doc) /\
  find_message (all_messages k6s) ts_name = None /\ str_eqb tn ts_name = false /\ is_wkt_other tn = false /\
  find_message (all_messages k6s) tn = Some md /\ nodup_str (map jn (m_fields md)) = true /\
  wt k6s (KMessage tn) (FM m) = true /\ defects_C06 k6s no_side (cd_cs k6doc) tn m = [].
(* what the model computes for the case (what predict_C06 evaluates) *)
Definition k6_verdict (tn : str) (m : mval) : res (json * vres * Z) :=
  match encode Ex k6s tn m with
  | ROk j => ROk (j, validates P06 (cd_tcs k6doc) c06_fuel (body_schema tn) (wire_jv j),
                  und_capped P06 (cd_tcs k6doc) (body_schema tn) (wire_jv j))
  | RErr e => RErr e
  | RUnm w => RUnm w
  end.

Lemma P06_codec_params : codec_params P06.
Proof. split; [exact P06_codec_formats|exact P06_hex]. Qed.

(* ---- nullable: one field set, three unset (sent as null), un-annotated neighbours ------------------------- *)
Definition nul_value : mval :=
  [(s "nick", vstr "n"); (s "id", vstr "i"); (s "leaf", FM [(s "a", vstr "x"); (s "n", vint 9)]); (s "tags", FL [vstr "t"])].
Definition nul_json : json :=
  JObj [(s "nick", JStr (s "n")); (s "id", JStr (s "i")); (s "leaf", JObj [(s "a", JStr (s "x")); (s "n", JStr (s "9"))]);
        (s "tags", JArr [JStr (s "t")]); (s "age", JNull); (s "big", JNull); (s "ok", JNull)].

Example message_conforms_nullable_nonvacuous :
  k6_common (k6q "Nul") k6_nul nul_value /\
  owner_of k6s k6_nul = Own FtNullable /\ nulplain_msg k6_nul = true /\ nullable_shape k6s k6_nul = true /\
  kids_plain k6s k6_nul nul_value = true /\
  encode Ex k6s (k6q "Nul") nul_value = ROk nul_json /\
  (forall fuel, (need (FM nul_value) <= fuel)%nat ->
     validates P06 (cd_tcs k6doc) fuel (body_schema (k6q "Nul")) (wire_jv nul_json) = VOk true) /\
  (forall uf vf, und P06 (cd_tcs k6doc) uf vf (body_schema (k6q "Nul")) (wire_jv nul_json) = 0%nat) /\
  k6_verdict (k6q "Nul") nul_value = ROk (nul_json, VOk true, 0).
Proof.
  assert (Hc : k6_common (k6q "Nul") k6_nul nul_value) by (vm_compute; repeat split; reflexivity).
  assert (Hown : owner_of k6s k6_nul = Own FtNullable) by (vm_compute; reflexivity).
  assert (Hpl : nulplain_msg k6_nul = true) by (vm_compute; reflexivity).
  assert (Hsh : nullable_shape k6s k6_nul = true) by (vm_compute; reflexivity).
  assert (Hk : kids_plain k6s k6_nul nul_value = true) by (vm_compute; reflexivity).
  assert (Henc : encode Ex k6s (k6q "Nul") nul_value = ROk nul_json) by (vm_compute; reflexivity).
  assert (Hv : k6_verdict (k6q "Nul") nul_value = ROk (nul_json, VOk true, 0)) by (vm_compute; reflexivity).
  repeat (split; [assumption|]). split; [|split; [|exact Hv]].
  all: destruct Hc as [_ [Htcs [Hts [Htn [Hwk [Hfm [Hnd [Hwt Hd]]]]]]]]; rewrite Htcs;
    destruct (message_conforms_nullable Ex k6s P06 (cd_cs k6doc) (k6q "Nul") k6_nul nul_value nul_json Ex_fprint_is_number P06_formats
                Hts Htn Hwk Hfm Hown Hnd Hpl Hsh Hwt Hk Hd (or_introl Henc)) as [H1 H2]; assumption.
Qed.

(* ---- int64_encoding = NUMBER: beyond 2^53, the largest uint64, a repeated field with a zero element ------------ *)
Definition nums_value : mval :=
  [(s "big", vint (-9007199254740993)); (s "ubig", vint 18446744073709551615); (s "many", FL [vint 0; vint (-5)]);
   (s "plain_big", vint 7); (s "leaf", FM [(s "n", vint 3)]); (s "by_key", FMap [(VStr (s "k"), FM [(s "a", vstr "x")])])].
Definition nums_json : json :=
  JObj [(s "big", JNum (-9007199254740993)); (s "ubig", JNum 18446744073709551615); (s "many", JArr [JNum 0; JNum (-5)]);
        (s "plainBig", JStr (s "7")); (s "leaf", JObj [(s "n", JStr (s "3"))]); (s "byKey", JObj [(s "k", JObj [(s "a", JStr (s "x"))])])].

Example message_conforms_int64_nonvacuous :
  k6_common (k6q "Nums") k6_nums nums_value /\
  owner_of k6s k6_nums = Own FtInt64 /\ buildable k6s FtInt64 k6_nums = true /\ i64plain_msg k6_nums = true /\
  kids_plain k6s k6_nums nums_value = true /\
  encode Ex k6s (k6q "Nums") nums_value = ROk nums_json /\
  (forall fuel, (need (FM nums_value) <= fuel)%nat ->
     validates P06 (cd_tcs k6doc) fuel (body_schema (k6q "Nums")) (wire_jv nums_json) = VOk true) /\
  (forall uf vf, und P06 (cd_tcs k6doc) uf vf (body_schema (k6q "Nums")) (wire_jv nums_json) = 0%nat) /\
  k6_verdict (k6q "Nums") nums_value = ROk (nums_json, VOk true, 0).
Proof.
  assert (Hc : k6_common (k6q "Nums") k6_nums nums_value) by (vm_compute; repeat split; reflexivity).
  assert (Hown : owner_of k6s k6_nums = Own FtInt64) by (vm_compute; reflexivity).
  assert (Hb : buildable k6s FtInt64 k6_nums = true) by (vm_compute; reflexivity).
  assert (Hpl : i64plain_msg k6_nums = true) by (vm_compute; reflexivity).
  assert (Hk : kids_plain k6s k6_nums nums_value = true) by (vm_compute; reflexivity).
  assert (Henc : encode Ex k6s (k6q "Nums") nums_value = ROk nums_json) by (vm_compute; reflexivity).
  assert (Hv : k6_verdict (k6q "Nums") nums_value = ROk (nums_json, VOk true, 0)) by (vm_compute; reflexivity).
  repeat (split; [assumption|]). split; [|split; [|exact Hv]].
  all: destruct Hc as [_ [Htcs [Hts [Htn [Hwk [Hfm [Hnd [Hwt Hd]]]]]]]]; rewrite Htcs;
    destruct (message_conforms_int64 Ex k6s P06 (cd_cs k6doc) (k6q "Nums") k6_nums nums_value nums_json Ex_fprint_is_number P06_formats
                Hts Htn Hwk Hfm Hown Hb Hnd Hpl Hwt Hk Hd (or_introl Henc)) as [H1 H2]; assumption.
Qed.

(* ---- bytes_encoding: hex, base64 raw, base64url, base64url raw, beside default base64 ----------------------------- *)
Definition blob_value : mval :=
  [(s "h", FS (VBytes [ch 105; ch 183])); (s "raw_b", FS (VBytes [ch 251])); (s "url_b", FS (VBytes [ch 251; ch 255; ch 254]));
   (s "url_raw", FS (VBytes [ch 251])); (s "plain_b", FS (VBytes [ch 255])); (s "id", vstr "i"); (s "leaf", FM [(s "a", vstr "x")])].
Definition blob_json : json :=
  JObj [(s "h", JStr (s "69b7")); (s "rawB", JStr (s "+w")); (s "urlB", JStr (s "-__-")); (s "urlRaw", JStr (s "-w"));
        (s "plainB", JStr (s "/w==")); (s "id", JStr (s "i")); (s "leaf", JObj [(s "a", JStr (s "x"))])].

Example message_conforms_bytes_nonvacuous :
  k6_common (k6q "Blob") k6_blob blob_value /\
  owner_of k6s k6_blob = Own FtBytes /\ buildable k6s FtBytes k6_blob = true /\ bytesplain_msg k6_blob = true /\
  forallb (bytes_value_ok k6s k6_blob) blob_value = true /\
  encode Ex k6s (k6q "Blob") blob_value = ROk blob_json /\
  (forall fuel, (need (FM blob_value) <= fuel)%nat ->
     validates P06 (cd_tcs k6doc) fuel (body_schema (k6q "Blob")) (wire_jv blob_json) = VOk true) /\
  (forall uf vf, und P06 (cd_tcs k6doc) uf vf (body_schema (k6q "Blob")) (wire_jv blob_json) = 0%nat) /\
  k6_verdict (k6q "Blob") blob_value = ROk (blob_json, VOk true, 0).
Proof.
  assert (Hc : k6_common (k6q "Blob") k6_blob blob_value) by (vm_compute; repeat split; reflexivity).
  assert (Hown : owner_of k6s k6_blob = Own FtBytes) by (vm_compute; reflexivity).
  assert (Hb : buildable k6s FtBytes k6_blob = true) by (vm_compute; reflexivity).
  assert (Hpl : bytesplain_msg k6_blob = true) by (vm_compute; reflexivity).
  assert (Hk : forallb (bytes_value_ok k6s k6_blob) blob_value = true) by (vm_compute; reflexivity).
  assert (Henc : encode Ex k6s (k6q "Blob") blob_value = ROk blob_json) by (vm_compute; reflexivity).
  assert (Hv : k6_verdict (k6q "Blob") blob_value = ROk (blob_json, VOk true, 0)) by (vm_compute; reflexivity).
  repeat (split; [assumption|]). split; [|split; [|exact Hv]].
  all: destruct Hc as [_ [Htcs [Hts [Htn [Hwk [Hfm [Hnd [Hwt Hd]]]]]]]]; rewrite Htcs;
    destruct (message_conforms_bytes Ex k6s P06 (cd_cs k6doc) (k6q "Blob") k6_blob blob_value blob_json Ex_fprint_is_number P06_formats
                P06_codec_params Hts Htn Hwk Hfm Hown Hb Hnd Hpl Hwt Hk Hd (or_introl Henc)) as [H1 H2]; assumption.
Qed.

(* ---- timestamp_format: negative seconds with nanos under each format --------------------------------------------------- *)
Definition times_value : mval :=
  [(s "at_secs", tsv (-5) 999999999); (s "at_millis", tsv (-2) 500999999); (s "on_day", tsv (-1) 7);
   (s "plain_at", tsv 1 5); (s "id", vstr "x")].
Definition times_json : json :=
  JObj [(s "atSecs", JNum (-5)); (s "atMillis", JNum (-1500)); (s "onDay", JStr (s "1969-12-31"));
        (s "plainAt", JStr (s "1970-01-01T00:00:01.000000005Z")); (s "id", JStr (s "x"))].

Example message_conforms_ts_nonvacuous :
  k6_common (k6q "Times") k6_times times_value /\
  owner_of k6s k6_times = Own FtTs /\ buildable k6s FtTs k6_times = true /\ forallb tsplain_field (m_fields k6_times) = true /\
  forallb (ts_entry_ok k6s k6_times) times_value = true /\
  encode Ex k6s (k6q "Times") times_value = ROk times_json /\
  (forall fuel, (need (FM times_value) <= fuel)%nat ->
     validates P06 (cd_tcs k6doc) fuel (body_schema (k6q "Times")) (wire_jv times_json) = VOk true) /\
  (forall uf vf, und P06 (cd_tcs k6doc) uf vf (body_schema (k6q "Times")) (wire_jv times_json) = 0%nat) /\
  k6_verdict (k6q "Times") times_value = ROk (times_json, VOk true, 0).
Proof.
  assert (Hc : k6_common (k6q "Times") k6_times times_value) by (vm_compute; repeat split; reflexivity).
  assert (Hown : owner_of k6s k6_times = Own FtTs) by (vm_compute; reflexivity).
  assert (Hb : buildable k6s FtTs k6_times = true) by (vm_compute; reflexivity).
  assert (Hpl : forallb tsplain_field (m_fields k6_times) = true) by (vm_compute; reflexivity).
  assert (Hk : forallb (ts_entry_ok k6s k6_times) times_value = true) by (vm_compute; reflexivity).
  assert (Henc : encode Ex k6s (k6q "Times") times_value = ROk times_json) by (vm_compute; reflexivity).
  assert (Hv : k6_verdict (k6q "Times") times_value = ROk (times_json, VOk true, 0)) by (vm_compute; reflexivity).
  repeat (split; [assumption|]). split; [|split; [|exact Hv]].
  all: destruct Hc as [_ [Htcs [Hts [Htn [Hwk [Hfm [Hnd [Hwt Hd]]]]]]]]; rewrite Htcs;
    destruct (message_conforms_ts Ex k6s P06 (cd_cs k6doc) (k6q "Times") k6_times times_value times_json Ex_fprint_is_number P06_formats
                P06_codec_params Hts Htn Hwk Hfm Hown Hb Hnd Hpl Hwt Hk Hd (or_introl Henc)) as [H1 H2]; assumption.
Qed.

(* ---- empty_behavior: PRESERVE / NULL / OMIT on empty children, NULL on a non-empty child and on a Timestamp ------------- *)
Definition emp_value : mval :=
  [(s "keep_it", FM []); (s "nul_it", FM []); (s "nul_full", FM [(s "a", vstr "f")]); (s "omit_it", FM []);
   (s "nul_at", tsv 5 0); (s "id", vstr "i")].
Definition emp_json : json :=
  JObj [(s "keepIt", JObj []); (s "nulIt", JNull); (s "nulFull", JObj [(s "a", JStr (s "f"))]);
        (s "nulAt", JStr (s "1970-01-01T00:00:05Z")); (s "id", JStr (s "i"))].

Example message_conforms_empty_nonvacuous :
  k6_common (k6q "Emp") k6_emp emp_value /\
  owner_of k6s k6_emp = Own FtEmpty /\ buildable k6s FtEmpty k6_emp = true /\ empplain_msg k6_emp = true /\
  kids_plain k6s k6_emp emp_value = true /\
  encode Ex k6s (k6q "Emp") emp_value = ROk emp_json /\
  (forall fuel, (need (FM emp_value) <= fuel)%nat ->
     validates P06 (cd_tcs k6doc) fuel (body_schema (k6q "Emp")) (wire_jv emp_json) = VOk true) /\
  (forall uf vf, (need (FM emp_value) <= vf)%nat -> und P06 (cd_tcs k6doc) uf vf (body_schema (k6q "Emp")) (wire_jv emp_json) = 0%nat) /\
  need (FM emp_value) = 7%nat /\
  k6_verdict (k6q "Emp") emp_value = ROk (emp_json, VOk true, 0).
Proof.
  assert (Hc : k6_common (k6q "Emp") k6_emp emp_value) by (vm_compute; repeat split; reflexivity).
  assert (Hown : owner_of k6s k6_emp = Own FtEmpty) by (vm_compute; reflexivity).
  assert (Hb : buildable k6s FtEmpty k6_emp = true) by (vm_compute; reflexivity).
  assert (Hpl : empplain_msg k6_emp = true) by (vm_compute; reflexivity).
  assert (Hk : kids_plain k6s k6_emp emp_value = true) by (vm_compute; reflexivity).
  assert (Henc : encode Ex k6s (k6q "Emp") emp_value = ROk emp_json) by (vm_compute; reflexivity).
  assert (Hv : k6_verdict (k6q "Emp") emp_value = ROk (emp_json, VOk true, 0)) by (vm_compute; reflexivity).
  repeat (split; [assumption|]). split; [|split; [|split; [reflexivity|exact Hv]]].
  all: destruct Hc as [_ [Htcs [Hts [Htn [Hwk [Hfm [Hnd [Hwt Hd]]]]]]]]; rewrite Htcs;
    destruct (message_conforms_empty Ex k6s P06 (cd_cs k6doc) (k6q "Emp") k6_emp emp_value emp_json Ex_fprint_is_number P06_formats
                Hts Htn Hwk Hfm Hown Hb Hnd Hpl Hwt Hk Hd (or_introl Henc)) as [H1 H2].
  - exact H1.
  - intros uf vf Hvf. apply H2. now right.
Qed.

(* ---- the repaired finding: nullable on an optional enum field ---------------------------------------------------------- *)
(* `optional Color color = 1 [(sebuf.http.nullable) = true]` passes annotations.ValidateNullableAnnotation
   (nullable.go:46-70 refuses only non-optional and message fields); httpgen/nullable.go:147-156 sends "color": null when
   the field is unset.  Before the repair openapiv3/types.go makeNullableSchema appended "null" to `type` and left `enum`
   as it was: {type: [string, null], enum: [COLOR_UNSPECIFIED, COLOR_RED]} rejected that null (FINDING
   nullable-enum-null-not-in-enum, found by the proof of message_conforms_nullable, whose side condition then excluded enum
   kinds).  The repaired builder (types.go:101-105) appends a !!null member to every non-empty `enum`; the side condition is
   gone and the message is an instance of the theorem, with the field unset and with it set. *)
Definition nulenum_unset : mval := [(s "id", vstr "x")].
Definition nulenum_unset_json : json := JObj [(s "id", JStr (s "x")); (s "color", JNull)].
Definition nulenum_set : mval := [(s "color", FS (VEnum 1)); (s "id", vstr "x")].
Definition nulenum_set_json : json := JObj [(s "color", JStr (s "COLOR_RED")); (s "id", JStr (s "x"))].

Example message_conforms_nullable_enum_nonvacuous :
  owner_of k6s k6_nulenum = Own FtNullable /\ nulplain_msg k6_nulenum = true /\ nullable_shape k6s k6_nulenum = true /\
  (k6_common (k6q "NulEnum") k6_nulenum nulenum_unset /\ kids_plain k6s k6_nulenum nulenum_unset = true /\
   encode Ex k6s (k6q "NulEnum") nulenum_unset = ROk nulenum_unset_json /\
   (forall fuel, (need (FM nulenum_unset) <= fuel)%nat ->
      validates P06 (cd_tcs k6doc) fuel (body_schema (k6q "NulEnum")) (wire_jv nulenum_unset_json) = VOk true) /\
   (forall uf vf, und P06 (cd_tcs k6doc) uf vf (body_schema (k6q "NulEnum")) (wire_jv nulenum_unset_json) = 0%nat) /\
   k6_verdict (k6q "NulEnum") nulenum_unset = ROk (nulenum_unset_json, VOk true, 0)) /\
  (k6_common (k6q "NulEnum") k6_nulenum nulenum_set /\ kids_plain k6s k6_nulenum nulenum_set = true /\
   encode Ex k6s (k6q "NulEnum") nulenum_set = ROk nulenum_set_json /\
   (forall fuel, (need (FM nulenum_set) <= fuel)%nat ->
      validates P06 (cd_tcs k6doc) fuel (body_schema (k6q "NulEnum")) (wire_jv nulenum_set_json) = VOk true) /\
   (forall uf vf, und P06 (cd_tcs k6doc) uf vf (body_schema (k6q "NulEnum")) (wire_jv nulenum_set_json) = 0%nat) /\
   k6_verdict (k6q "NulEnum") nulenum_set = ROk (nulenum_set_json, VOk true, 0)).
Proof.
  assert (Hown : owner_of k6s k6_nulenum = Own FtNullable) by (vm_compute; reflexivity).
  assert (Hpl : nulplain_msg k6_nulenum = true) by (vm_compute; reflexivity).
  assert (Hsh : nullable_shape k6s k6_nulenum = true) by (vm_compute; reflexivity).
  repeat (split; [assumption|]).
  assert (Hinst : forall m j, k6_common (k6q "NulEnum") k6_nulenum m -> kids_plain k6s k6_nulenum m = true ->
            encode Ex k6s (k6q "NulEnum") m = ROk j ->
            (forall fuel, (need (FM m) <= fuel)%nat ->
               validates P06 (cd_tcs k6doc) fuel (body_schema (k6q "NulEnum")) (wire_jv j) = VOk true) /\
            (forall uf vf, und P06 (cd_tcs k6doc) uf vf (body_schema (k6q "NulEnum")) (wire_jv j) = 0%nat)).
  { intros m j Hc Hk Henc. destruct Hc as [_ [Htcs [Hts [Htn [Hwk [Hfm [Hnd [Hwt Hd]]]]]]]]. rewrite Htcs.
    exact (message_conforms_nullable Ex k6s P06 (cd_cs k6doc) (k6q "NulEnum") k6_nulenum m j Ex_fprint_is_number P06_formats
             Hts Htn Hwk Hfm Hown Hnd Hpl Hsh Hwt Hk Hd (or_introl Henc)). }
  split.
  - assert (Hc : k6_common (k6q "NulEnum") k6_nulenum nulenum_unset) by (vm_compute; repeat split; reflexivity).
    assert (Hk : kids_plain k6s k6_nulenum nulenum_unset = true) by (vm_compute; reflexivity).
    assert (Henc : encode Ex k6s (k6q "NulEnum") nulenum_unset = ROk nulenum_unset_json) by (vm_compute; reflexivity).
    destruct (Hinst _ _ Hc Hk Henc) as [H1 H2].
    repeat (split; [assumption|]). vm_compute. reflexivity.
  - assert (Hc : k6_common (k6q "NulEnum") k6_nulenum nulenum_set) by (vm_compute; repeat split; reflexivity).
    assert (Hk : kids_plain k6s k6_nulenum nulenum_set = true) by (vm_compute; reflexivity).
    assert (Henc : encode Ex k6s (k6q "NulEnum") nulenum_set = ROk nulenum_set_json) by (vm_compute; reflexivity).
    destruct (Hinst _ _ Hc Hk Henc) as [H1 H2].
    repeat (split; [assumption|]). vm_compute. reflexivity.
Qed.

(* what is published and what it admits: {type: [string, null], enum: [names..., null]}; the null and each name validate,
   any other string does not.  Likewise with enum_value custom strings and with enum_encoding = NUMBER (a schema with an
   `enum` keyword whatever its members): null joins the list. *)
Example nullable_enum_null_validates :
  let sch := typed (convert_field k6s no_side (k6q "NulEnum") k6_color_field) in
  convert_field k6s no_side (k6q "NulEnum") k6_color_field
    = YMap [(s "type", YSeq [YGoStr (s "string"); YGoStr (s "null")]);
            (s "enum", YSeq [YPlain (s "COLOR_UNSPECIFIED"); YPlain (s "COLOR_RED"); YNull])] /\
  sch = SObj [KwType [TString; TNull]; KwEnum [JVStr (s "COLOR_UNSPECIFIED"); JVStr (s "COLOR_RED"); JVNull]] /\
  schema_of_jv schema_fuel (denote reader11 (convert_field k6s no_side (k6q "NulEnum") k6_color_field)) = sch /\
  validates P06 (cd_tcs k6doc) c06_fuel sch JVNull = VOk true /\
  validates P06 (cd_tcs k6doc) c06_fuel sch (JVStr (s "COLOR_UNSPECIFIED")) = VOk true /\
  validates P06 (cd_tcs k6doc) c06_fuel sch (JVStr (s "COLOR_RED")) = VOk true /\
  validates P06 (cd_tcs k6doc) c06_fuel sch (JVStr (s "COLOR_BLUE")) = VOk false /\
  defects_C06 k6s no_side (cd_cs k6doc) (k6q "NulEnum") nulenum_unset = [] /\
  validates P06 (cd_tcs k6doc) c06_fuel (body_schema (k6q "NulEnum")) (wire_jv nulenum_unset_json) = VOk true /\
  typed (convert_field k6s no_side (k6q "NulEnum2") k6_shade_field)
    = SObj [KwType [TString; TNull]; KwEnum [JVStr (s "none"); JVStr (s "dark"); JVNull]] /\
  typed (convert_field k6s no_side (k6q "NulEnum2") k6_colornum_field)
    = SObj [KwType [TInteger; TNull]; KwEnum [JVNum (dec_of_Z 0); JVNum (dec_of_Z 1); JVNull]] /\
  k6_verdict (k6q "NulEnum2") [(s "id", vstr "x")]
    = ROk (JObj [(s "id", JStr (s "x")); (s "shade", JNull); (s "colorNum", JNull)], VOk true, 0).
Proof. vm_compute. repeat split; reflexivity. Qed.

(* ---- side conditions that cannot be dropped --------------------------------------------------------------------------- *)
(* an enum WITHOUT values (protoc and protodesc refuse it: "enums must contain at least one value"; no real schema has
   one): the model publishes `enum: []`, makeNullableSchema extends only a non-empty list (types.go:103), and the null of
   the unset field matches no member.  Every other hypothesis of message_conforms_nullable holds. *)
Example message_conforms_nullable_needs_inhabited :
  let m := [(s "id", vstr "x")] in
  let j := JObj [(s "id", JStr (s "x")); (s "void", JNull)] in
  k6_common (k6q "NulVoid") k6_nulvoid m /\
  owner_of k6s k6_nulvoid = Own FtNullable /\ nulplain_msg k6_nulvoid = true /\ kids_plain k6s k6_nulvoid m = true /\
  nullable_shape k6s k6_nulvoid = false /\ nullable_enums_inhabited k6s k6_nulvoid = false /\
  forallb (fun f => negb (is_nullable f) || (singularish f && nullable_kind (f_kind f))) (m_fields k6_nulvoid) = true /\
  encode Ex k6s (k6q "NulVoid") m = ROk j /\
  typed (convert_field k6s no_side (k6q "NulVoid") (set_nullable (fld "void" 1 (KEnum (k6q "Void")) Optional)))
    = SObj [KwType [TString; TNull]; KwEnum []] /\
  validates P06 (cd_tcs k6doc) c06_fuel (body_schema (k6q "NulVoid")) (wire_jv j) = VOk false.
Proof. vm_compute. repeat split; reflexivity. Qed.

(* nullable on a message field: makeNullableSchema finds no `type` beside the $ref and changes nothing, null is rejected by
   the referenced object schema.  (The generator itself refuses this placement, nullable.go:60-67.) *)
Example message_conforms_nullable_needs_nonmessage :
  let m := [(s "id", vstr "x")] in
  let j := JObj [(s "id", JStr (s "x")); (s "leaf", JNull)] in
  k6_common (k6q "NulMsg") k6_nulmsg m /\
  owner_of k6s k6_nulmsg = Own FtNullable /\ nulplain_msg k6_nulmsg = true /\ kids_plain k6s k6_nulmsg m = true /\
  nullable_shape k6s k6_nulmsg = false /\
  encode Ex k6s (k6q "NulMsg") m = ROk j /\
  validates P06 (cd_tcs k6doc) c06_fuel (body_schema (k6q "NulMsg")) (wire_jv j) = VOk false.
Proof. vm_compute. repeat split; reflexivity. Qed.

(* nullable on a repeated field: convertField returns the array schema before it looks at nullable (types.go:30-45), the
   unset field is still sent as null.  (Refused by the generator as well: not an `optional` field.) *)
Example message_conforms_nullable_needs_singular :
  let m := [(s "id", vstr "x")] in
  let j := JObj [(s "id", JStr (s "x")); (s "tags", JNull)] in
  k6_common (k6q "NulRep") k6_nulrep m /\
  owner_of k6s k6_nulrep = Own FtNullable /\ nulplain_msg k6_nulrep = true /\ kids_plain k6s k6_nulrep m = true /\
  nullable_shape k6s k6_nulrep = false /\
  encode Ex k6s (k6q "NulRep") m = ROk j /\
  validates P06 (cd_tcs k6doc) c06_fuel (body_schema (k6q "NulRep")) (wire_jv j) = VOk false.
Proof. vm_compute. repeat split; reflexivity. Qed.

(* empty_behavior = NULL: the walk for undescribed properties enters `oneOf [T, null]` only through a branch the value
   validates against, so with too little validation fuel the keys of a non-empty child count as undescribed
   (the correspondence run uses c06_fuel = 120) *)
Example message_conforms_empty_needs_fuel :
  und P06 (cd_tcs k6doc) und_fuel 2 (body_schema (k6q "Emp")) (wire_jv emp_json) = 1%nat /\
  und P06 (cd_tcs k6doc) und_fuel 3 (body_schema (k6q "Emp")) (wire_jv emp_json) = 0%nat /\
  existsb empty_null (m_fields k6_emp) = true.
Proof. vm_compute. repeat split; reflexivity. Qed.

(* an epoch Timestamp under empty_behavior = NULL is sent as null and validates as well *)
Example message_conforms_empty_null_timestamp :
  k6_verdict (k6q "Emp") [(s "nul_at", FM []); (s "id", vstr "i")] = ROk (JObj [(s "nulAt", JNull); (s "id", JStr (s "i"))], VOk true, 0).
Proof. vm_compute. reflexivity. Qed.
Close Scope Z_scope.

