(* C05_conforms for the timestamp_format codec: a top-level message whose codec is the timestamp one
   (singular Timestamp fields annotated UNIX_SECONDS / UNIX_MILLIS / DATE), every other field
   un-annotated with un-annotated children: the server's JSON IS the documented mapping, for all
   values that name each field at most once — failures (Timestamp out of range) included. *)
From Coq Require Import Lia ZArith.
From Sebuf Require Import CodecCases.
From SebufProofs Require Import TextFacts CodecTextFacts ProtoJsonFacts NullableFacts.
From SebufProofs Require Import MappingFacts TimestampFacts.

Open Scope Z_scope.

(* a field is either an effective timestamp_format field or carries no annotation that changes the
   rendering of its own scalars / Timestamps (int64_encoding, enum_encoding, bytes_encoding,
   timestamp_format) *)
Definition tsplain_field (f : field) : bool :=
  match tsfmt_of f with Some _ => true | None => ctx_field_ok f end.

(* the value of an annotated field is one Timestamp; everything below an un-annotated field is un-annotated *)
Definition ts_entry_ok (sc : schema) (md : message) (e : str * fval) : bool :=
  match find_field (m_fields md) (fst e) with
  | Some f =>
      match tsfmt_of f with
      | Some _ => match snd e with FM _ => true | _ => false end
      | None => plain_in sc (f_kind f) (snd e)
      end
  | None => false
  end.

Section Conforms.
Variable E : ExtLib.
Variable sc : schema.

Lemma no_root_unwrap md : is_root_unwrap md = false -> mp_root_unwrap md = None.
Proof.
  unfold is_root_unwrap, unwrap_field, unwrap_fields, mp_root_unwrap, mp_unwrap_field.
  destruct (m_fields md) as [|a [|b r]]; try reflexivity.
  simpl. destruct (f_unwrap a); [|reflexivity].
  unfold is_repeated, is_map. destruct (f_card a); simpl; intros H; try reflexivity; discriminate H.
Qed.

Lemma no_nullable_nulls md (m : mval) : existsb is_nullable (m_fields md) = false ->
  flat_map (fun f => match f_nullable f, mget m (f_name f) with
                     | Some true, None => [(json_name (f_name f), JNull)]
                     | _, _ => []
                     end) (m_fields md) = [].
Proof.
  induction (m_fields md) as [|f r IH]; [reflexivity|]. simpl.
  intros H. apply Bool.orb_false_iff in H. destruct H as [Hf Hr]. rewrite (IH Hr), app_nil_r.
  unfold is_nullable in Hf. destruct (f_nullable f) as [[|]|]; try discriminate Hf; reflexivity.
Qed.

Lemma no_oneof_cfg md f : existsb oneof_cfg (m_oneofs md) = false -> mp_oneof_of md f = None.
Proof.
  unfold mp_oneof_of. intros H. destruct (f_oneof f) as [n|]; [|reflexivity].
  induction (m_oneofs md) as [|o r IH]; [reflexivity|]. simpl in H. simpl.
  apply Bool.orb_false_iff in H. destruct H as [Ho Hr].
  unfold oneof_cfg in Ho. rewrite <- Bool.andb_assoc, Ho, Bool.andb_false_r. apply IH. exact Hr.
Qed.

Lemma mp_entry_default md name f x :
  empty_of f = None -> is_flatten f = false -> mp_oneof_of md f = None ->
  mp_entry E sc md name f x = mp_fval E sc (Some f) (f_kind f) x >>= (fun j => ROk [PField (json_name name) j]).
Proof.
  unfold mp_entry, empty_of, is_flatten. intros Hem Hfl Hoo. rewrite Hoo.
  destruct (f_empty f) as [[| | |]|]; try discriminate Hem;
    destruct (f_flatten f) as [[|]|]; try discriminate Hfl; reflexivity.
Qed.

(* the documented mapping of the fields = protojson's entries with the annotated values rewritten *)
Lemma mp_msg_ts md (m : mval) :
  nodup_str (map jn (m_fields md)) = true ->
  (forall f, In f (m_fields md) -> empty_of f = None) ->
  (forall f, In f (m_fields md) -> is_flatten f = false) ->
  existsb oneof_cfg (m_oneofs md) = false ->
  forallb tsplain_field (m_fields md) = true ->
  forall m0,
  (forall e, In e m0 -> mget m (fst e) = Some (snd e)) ->
  forallb (ts_entry_ok sc md) m0 = true ->
  mp_msg E sc md m0 =
  m_msg E sc md m0 >>= (fun es =>
    ROk (map (fun e => PField (fst e) (snd e)) (map (gall (act_enc E m) (m_fields md)) es))).
Proof.
  intros Hnd Hem Hfl Hoo Htp. rewrite forallb_forall in Htp.
  induction m0 as [|[name x] r IH]; intros Hget Hch; [reflexivity|].
  simpl in Hch. apply andb_prop in Hch. destruct Hch as [Hc Hr].
  unfold ts_entry_ok in Hc. simpl fst in Hc. simpl snd in Hc.
  simpl mp_msg. simpl m_msg.
  destruct (find_field (m_fields md) name) as [f|] eqn:Hf; [|discriminate Hc].
  destruct (find_field_spec _ _ _ Hf) as [Hin Hname].
  assert (Hjn : json_name name = jn f) by (unfold jn; rewrite Hname; reflexivity).
  rewrite (mp_entry_default md name f x (Hem f Hin) (Hfl f Hin) (no_oneof_cfg md f Hoo)).
  specialize (IH (fun e He => Hget e (or_intror He)) Hr).
  pose proof (Hget (name, x) (or_introl eq_refl)) as Hmget. simpl in Hmget.
  destruct (tsfmt_of f) as [fmt|] eqn:Hfmt.
  - (* an annotated Timestamp *)
    destruct x as [sx|tm|l|kv]; try discriminate Hc.
    destruct (tsfmt_of_inv f fmt Hfmt) as [Hkind [_ [Htf Hcases]]].
    rewrite Hkind, mp_fval_FM, pj_fval_FM, str_eqb_refl.
    unfold mp_timestamp, pj_timestamp. rewrite Htf.
    destruct (ts_in_range (mget_int tm (s "seconds")) (mget_int tm (s "nanos"))); [|reflexivity].
    assert (Hae : exists v', act_enc E m f (JStr (x_ts_text E (mget_int tm (s "seconds")) (mget_int tm (s "nanos")))) = Some v' /\
                  match fmt with
                  | TFUnixSeconds => ROk (JNum (mget_int tm (s "seconds")))
                  | TFUnixMillis => ROk (JNum (mget_int tm (s "seconds") * 1000 + mget_int tm (s "nanos") / 1000000))
                  | TFDate => ROk (JStr (x_date_text E (mget_int tm (s "seconds"))))
                  | _ => ROk (JStr (x_ts_text E (mget_int tm (s "seconds")) (mget_int tm (s "nanos"))))
                  end = ROk v').
    { unfold act_enc. rewrite Hfmt, Hname, Hmget.
      destruct Hcases as [Hc'|[Hc'|Hc']]; subst fmt; eexists; split; reflexivity. }
    destruct Hae as [v' [Hae Hv']]. simpl negb. cbv iota. rewrite Hv'.
    remember (JStr (x_ts_text E (mget_int tm (s "seconds")) (mget_int tm (s "nanos")))) as txt eqn:Htxt.
    simpl rbind.
    rewrite IH. destruct (m_msg E sc md r) as [t|e|w]; simpl; try reflexivity.
    rewrite (gall_at_kv (act_enc E m) (m_fields md) f (json_name name) _ Hnd Hin Hjn).
    rewrite (gent_hit (act_enc E m) f (json_name name) txt v' Hjn Hae). reflexivity.
  - (* an un-annotated field with un-annotated children *)
    pose proof (Htp f Hin) as Hctx. unfold tsplain_field in Hctx. rewrite Hfmt in Hctx.
    rewrite (mapping_plain_fval E sc x (Some f) (f_kind f) Hctx Hc).
    destruct (pj_fval E sc (f_kind f) x) as [j|e|w]; simpl; try reflexivity.
    rewrite IH. destruct (m_msg E sc md r) as [t|e|w]; simpl; try reflexivity.
    rewrite (gall_at_kv (act_enc E m) (m_fields md) f (json_name name) _ Hnd Hin Hjn).
    assert (Hae : act_enc E m f j = None) by (unfold act_enc; rewrite Hfmt; reflexivity).
    rewrite (gent_none (act_enc E m) f (json_name name, j) Hae). reflexivity.
Qed.

Theorem conforms_ts : forall tn md m,
  str_eqb tn ts_name = false -> is_wkt_other tn = false ->
  find_message (all_messages sc) tn = Some md -> owner_of sc md = Own FtTs ->
  buildable sc FtTs md = true ->
  nodup_str (map jn (m_fields md)) = true ->
  forallb tsplain_field (m_fields md) = true ->
  nodup_str (map fst m) = true ->
  forallb (ts_entry_ok sc md) m = true ->
  encode E sc tn m = to_json E sc tn m.
Proof.
  intros tn md m Hts Hwk Hfm Hown Hb Hnd Htp Hnames Hch.
  assert (Hlk : lookup_message sc tn = Some md) by (unfold lookup_message; rewrite Hts; exact Hfm).
  assert (Howns : owns sc tn = true) by (unfold owns; rewrite Hlk, Hown; reflexivity).
  destruct (own_ts_inv sc md Hown) as [Hroot [Hnull [Hempty [Hflat Honeof]]]].
  assert (Hem : forall f, In f (m_fields md) -> empty_of f = None).
  { intros f Hin. pose proof (existsb_false_in _ _ f Hempty Hin) as He. simpl in He.
    destruct (empty_of f); [discriminate He|reflexivity]. }
  assert (Hfl : forall f, In f (m_fields md) -> is_flatten f = false).
  { intros f Hin. exact (existsb_false_in _ _ f Hflat Hin). }
  assert (Hdecl : forallb (fun e => match find_field (m_fields md) (fst e) with Some _ => true | None => false end) m = true).
  { clear -Hch. induction m as [|e r IH]; [reflexivity|]. simpl in *.
    apply andb_prop in Hch. destruct Hch as [He Hr]. unfold ts_entry_ok in He.
    destruct (find_field (m_fields md) (fst e)); [|discriminate He]. simpl. apply IH. exact Hr. }
  (* Impl *)
  unfold encode. rewrite Howns.
  rewrite (gj_fval_owned E sc tn md FtTs m Hwk Hlk Hown), (kids_ts E sc md m Hdecl). simpl rbind.
  unfold codec_body. rewrite Hb. simpl negb. cbv iota.
  unfold pj_marshal. rewrite pj_fval_FM, Hts, Hwk, Hfm.
  (* Spec *)
  unfold to_json. rewrite mp_fval_FM, Hts, Hwk, Hfm.
  rewrite (mp_msg_ts md m Hnd Hem Hfl Honeof Htp m
             (fun e He => mget_nodup m (fst e) (snd e) Hnames ltac:(destruct e; exact He)) Hch).
  destruct (m_msg E sc md m) as [es|e|w] eqn:Hes; simpl; try reflexivity.
  unfold mp_finish. rewrite (no_root_unwrap md Hroot), fields_of_pieces, (no_nullable_nulls md m Hnull), app_nil_r.
  pose proof (m_msg_keys E sc md m es Hes) as Hkeys.
  rewrite (enc_ts_map E md m es); [reflexivity| |].
  - rewrite Hkeys. apply (json_keys_nodup md m Hnd Hnames Hdecl).
  - intros f _ Hne. apply raw_has_keys. rewrite Hkeys.
    destruct (mget m (f_name f)) as [v|] eqn:Hg; [|exfalso; apply Hne; reflexivity].
    apply mget_some_in in Hg. apply in_map_iff in Hg. destruct Hg as [[n x] [Hn Hin]]. simpl in Hn. subst n.
    apply in_map_iff. exists (f_name f, x). split; [reflexivity|exact Hin].
Qed.
End Conforms.
Close Scope Z_scope.

(* ---- non-vacuity and necessity of the side conditions --------------------------------------------------- *)
From SebufProofs Require Import CodecExamples.
Open Scope Z_scope.

(* all three formats, an un-annotated Timestamp, a scalar and a repeated Timestamp next to them *)
Definition tss : schema :=
  [ {| fl_path := s "x/t.proto"; fl_package := s "x.v1"; fl_gopkg := s "x"; fl_generate := true;
       fl_messages :=
         [ msg "Stamps" [set_ts TFUnixSeconds (fld "at_secs" 1 TS Singular); set_ts TFUnixMillis (fld "at_millis" 2 TS Singular);
                         set_ts TFDate (fld "on_day" 3 TS Singular); fld "plain_at" 4 TS Singular;
                         fld "id" 5 KString Singular; fld "more" 6 TS Repeated] [];
           msg "StampMap" [set_ts TFUnixSeconds (fld "at" 1 TS Singular);
                           set_ts TFUnixSeconds (fld "by_k" 2 TS (MapOf KString))] [];
           msg "StampList" [set_ts TFUnixSeconds (fld "ats" 1 TS Repeated)] [] ];
       fl_enums := []; fl_services := [] |} ].

(* negative seconds with nanos on every annotated field: -5.999999999 s, -1.499000001 s (= -1500 ms
   after flooring to the millisecond below), one second before the epoch *)
Definition ts_sample : mval :=
  [(s "at_secs", tsv (-5) 999999999); (s "at_millis", tsv (-2) 500999999); (s "on_day", tsv (-1) 7);
   (s "plain_at", tsv 1 5); (s "id", vstr "x"); (s "more", FL [tsv 3 4])].

Example ts_nonvacuous :
  exists md,
    str_eqb (q "Stamps") ts_name = false /\ is_wkt_other (q "Stamps") = false /\
    find_message (all_messages tss) (q "Stamps") = Some md /\ owner_of tss md = Own FtTs /\
    buildable tss FtTs md = true /\ nodup_str (map jn (m_fields md)) = true /\
    forallb tsplain_field (m_fields md) = true /\
    wt tss (KMessage (q "Stamps")) (FM ts_sample) = true /\
    nodup_str (map fst ts_sample) = true /\ forallb (ts_entry_ok tss md) ts_sample = true /\
    encode Ex tss (q "Stamps") ts_sample =
      ROk (JObj [(s "atSecs", JNum (-5)); (s "atMillis", JNum (-1500)); (s "onDay", JStr (s "1969-12-31"));
                 (s "plainAt", JStr (s "1970-01-01T00:00:01.000000005Z")); (s "id", JStr (s "x"));
                 (s "more", JArr [JStr (s "1970-01-01T00:00:03.000000004Z")])]) /\
    to_json Ex tss (q "Stamps") ts_sample = encode Ex tss (q "Stamps") ts_sample /\
    norm tss (q "Stamps") ts_sample =
      [(s "at_secs", tsv (-5) 0); (s "at_millis", tsv (-2) 500000000); (s "on_day", tsv (-86400) 0);
       (s "plain_at", tsv 1 5); (s "id", vstr "x"); (s "more", FL [tsv 3 4])] /\
    (forall j, encode Ex tss (q "Stamps") ts_sample = ROk j ->
               decode Ex tss (q "Stamps") j = ROk (norm tss (q "Stamps") ts_sample)).
Proof.
  eexists. repeat (split; [vm_compute; reflexivity|]).
  intros j Hj. vm_compute in Hj. inversion Hj; subst j. vm_compute. reflexivity.
Qed.

(* floor, not truncation toward zero, on both sides: -1.499000001 s is written as -1500 ms and -1500 ms
   is read back as seconds = -2, nanos = 500000000 (Go: Time.UnixMilli() = sec*1e3 + nsec/1e6 on the
   normalised pair, time.UnixMilli(-1500) = Unix(-1, -500e6) normalised to (-2, 500e6)) *)
Example ts_negative_millis_floor :
  encode Ex tss (q "Stamps") [(s "at_millis", tsv (-2) 500999999)] = ROk (JObj [(s "atMillis", JNum (-1500))]) /\
  decode Ex tss (q "Stamps") (JObj [(s "atMillis", JNum (-1500))]) = ROk [(s "at_millis", tsv (-2) 500000000)] /\
  decode Ex tss (q "Stamps") (JObj [(s "atMillis", JNum (-1))]) = ROk [(s "at_millis", tsv (-1) 999000000)].
Proof. vm_compute. auto. Qed.

(* without "each field named at most once" (not a value a Go struct can hold): raw[k] is one slot *)
Example conforms_ts_needs_nodup_names :
  let m := [(s "at_secs", tsv 5 0); (s "at_secs", tsv 7 0)] in
  nodup_str (map fst m) = false /\
  encode Ex tss (q "Stamps") m = ROk (JObj [(s "atSecs", JNum 5); (s "atSecs", JNum 5)]) /\
  to_json Ex tss (q "Stamps") m = ROk (JObj [(s "atSecs", JNum 5); (s "atSecs", JNum 7)]).
Proof. vm_compute. auto. Qed.

(* without "the value of an annotated field is one Timestamp" (ill-typed: a list under a singular field) *)
Example conforms_ts_needs_message_shape :
  let m := [(s "at_secs", FL [tsv 5 0])] in
  encode Ex tss (q "Stamps") m = ROk (JObj [(s "atSecs", JArr [JStr (s "1970-01-01T00:00:05Z")])]) /\
  to_json Ex tss (q "Stamps") m = ROk (JObj [(s "atSecs", JArr [JNum 5])]).
Proof. vm_compute. auto. Qed.

(* without tsplain_field: timestamp_format on a map<string, Timestamp> is documented but not implemented
   (timestamp_format.go collects direct Timestamp fields only; a map field's kind is its entry message) *)
Example conforms_ts_needs_tsplain :
  let m := [(s "at", tsv 5 0); (s "by_k", FMap [(VStr (s "k"), tsv 7 0)])] in
  (exists md, find_message (all_messages tss) (q "StampMap") = Some md /\ owner_of tss md = Own FtTs /\
              buildable tss FtTs md = true /\ forallb tsplain_field (m_fields md) = false) /\
  encode Ex tss (q "StampMap") m = ROk (JObj [(s "at", JNum 5); (s "byK", JObj [(s "k", JStr (s "1970-01-01T00:00:07Z"))])]) /\
  to_json Ex tss (q "StampMap") m = ROk (JObj [(s "at", JNum 5); (s "byK", JObj [(s "k", JNum 7)])]).
Proof. vm_compute. split; [eexists; repeat split|auto]. Qed.

(* without buildable: timestamp_format on a repeated Timestamp makes the generator emit x.F.AsTime() on a
   slice, which does not compile (C13); the documented mapping has a value *)
Example conforms_ts_needs_buildable :
  let m := [(s "ats", FL [tsv 5 0])] in
  (exists md, find_message (all_messages tss) (q "StampList") = Some md /\ owner_of tss md = Own FtTs /\
              buildable tss FtTs md = false) /\
  (exists w, encode Ex tss (q "StampList") m = RUnm w) /\
  to_json Ex tss (q "StampList") m = ROk (JObj [(s "ats", JArr [JNum 5])]).
Proof. vm_compute. split; [eexists; repeat split|split; [eexists; reflexivity|reflexivity]]. Qed.
Close Scope Z_scope.
