(* UnwrapRootFacts.v — the root-unwrap codec (internal/httpgen/unwrap.go:783-982) in general:
   a message whose only field carries (sebuf.http.unwrap) is written as the bare array / object of that
   field and read back from it.  Round trip (C04) for every shape the generator accepts:
     root list of messages, root map<string, message>, root map<string, Wrapper> whose wrapper has a
     repeated unwrap field (the "combined" form: only the unwrap field of a wrapper survives, [norm]),
     root list / map of scalars (these go through encoding/json: NaN / Inf make MarshalJSON fail, a nil
     slice or map is written as null and null is read back as "nothing set").
   The only schema side condition concerns enums that own a MarshalJSON (enum_value annotations). *)
From Sebuf Require Import CodecCases.
From SebufProofs Require Import TextFacts CodecTextFacts ProtoJsonFacts NullableFacts Int64Facts EmptyFacts BytesFacts.
From Coq Require Import Lia ZArith.

Open Scope Z_scope.

(* ---- rall / map ------------------------------------------------------------------------------------------- *)
Lemma rall_map_rt {A A' B} (enc : A -> res B) (dec : B -> res A') (g : A -> A') (l : list A) :
  Forall (fun a => forall b, enc a = ROk b -> dec b = ROk (g a)) l ->
  forall js, rall (map enc l) = ROk js -> rall (map dec js) = ROk (map g l).
Proof.
  intros HF. induction HF as [|a r Ha _ IH]; intros js Hjs.
  - cbn [map rall] in Hjs. inversion Hjs; subst js. reflexivity.
  - cbn [map rall] in Hjs. apply rbind_ok in Hjs. destruct Hjs as [b [Hb Hjs]].
    apply rbind_ok in Hjs. destruct Hjs as [t [Ht Hjs]]. inversion Hjs; subst js.
    cbn [map rall]. rewrite (Ha b Hb). cbn [rbind]. rewrite (IH t Ht). reflexivity.
Qed.

Lemma rall_map_ext {A B} (f g : A -> res B) (l : list A) :
  (forall a, In a l -> f a = g a) -> rall (map f l) = rall (map g l).
Proof.
  induction l as [|a r IH]; intros H; [reflexivity|].
  cbn [map rall]. rewrite (H a (or_introl eq_refl)), IH; [reflexivity|].
  intros b Hb. apply H. right. exact Hb.
Qed.

Lemma rbind_of_eq {A B} (x : res A) (a : A) (F : A -> res B) (r : res B) : x = ROk a -> F a = r -> x >>= F = r.
Proof. intros Hx HF. rewrite Hx. exact HF. Qed.

Lemma map_id_ext {A} (g : A -> A) (l : list A) : (forall a, In a l -> g a = a) -> map g l = l.
Proof.
  induction l as [|a r IH]; intros H; [reflexivity|]. cbn [map].
  rewrite (H a (or_introl eq_refl)), IH; [reflexivity|]. intros b Hb. apply H. right. exact Hb.
Qed.

Lemma kind_eqb_string kk : kind_eqb kk KString = true -> kk = KString.
Proof. destruct kk; try discriminate; reflexivity. Qed.

(* ---- shape of well-typed entries ------------------------------------------------------------------------- *)
Section Shapes.
Variable sc : schema.

Lemma wt_all_list k l :
  (fix all (l : list fval) : bool := match l with [] => true | y :: t => wt sc k y && all t end) l = true ->
  Forall (fun y => wt sc k y = true) l.
Proof.
  induction l as [|y t IH]; intros H; constructor.
  - apply andb_prop in H. apply H.
  - apply IH. apply andb_prop in H. apply H.
Qed.

Lemma wt_all_map kk k kv :
  (fix all (kv : list (sval * fval)) : bool :=
     match kv with [] => true | (key, y) :: t => wt_key kk key && wt sc k y && all t end) kv = true ->
  Forall (fun e => wt_key kk (fst e) = true /\ wt sc k (snd e) = true) kv.
Proof.
  induction kv as [|[key y] t IH]; intros H; constructor.
  - apply andb_prop in H. destruct H as [H _]. apply andb_prop in H. exact H.
  - apply IH. apply andb_prop in H. apply H.
Qed.

Lemma wt_entry_repeated f x : f_card f = Repeated -> wt_entry sc f x = true ->
  exists e l, x = FL (e :: l) /\ Forall (fun y => wt sc (f_kind f) y = true) (e :: l).
Proof.
  intros Hc Hw. unfold wt_entry in Hw. rewrite Hc in Hw.
  destruct x as [sx|cm|l|kv]; try discriminate. destruct l as [|e l]; [discriminate|].
  exists e, l. split; [reflexivity|]. apply wt_all_list. exact Hw.
Qed.

Lemma wt_entry_map f kk x : f_card f = MapOf kk -> wt_entry sc f x = true ->
  exists e kv, x = FMap (e :: kv) /\ sorted_key (map fst (e :: kv)) = true /\
               Forall (fun p => wt_key kk (fst p) = true /\ wt sc (f_kind f) (snd p) = true) (e :: kv).
Proof.
  intros Hc Hw. unfold wt_entry in Hw. rewrite Hc in Hw.
  destruct x as [sx|cm|l|kv]; try discriminate. destruct kv as [|e kv]; [discriminate|].
  apply andb_prop in Hw. destruct Hw as [Hs Hw].
  exists e, kv. split; [reflexivity|]. split; [exact Hs|]. apply wt_all_map. exact Hw.
Qed.

(* a value of a message with a single declared field names that field at most once *)
Lemma wt_root_single tn md f m :
  str_eqb tn ts_name = false -> find_message (all_messages sc) tn = Some md -> m_fields md = [f] ->
  wt sc (KMessage tn) (FM m) = true ->
  msg_ok md = true /\ (m = [] \/ exists x, m = [(f_name f, x)] /\ wt_entry sc f x = true).
Proof.
  intros Hts Hfm Hf Hwt. rewrite wt_FM, Hts, Hfm in Hwt.
  apply andb_prop in Hwt. destruct Hwt as [_ Hwt].
  apply andb_prop in Hwt. destruct Hwt as [Hwt Hwf]. apply andb_prop in Hwt. destruct Hwt as [Hok Hs].
  split; [exact Hok|].
  destruct m as [|[n1 x1] r]; [left; reflexivity|right].
  cbn [wt_fields] in Hwf. rewrite Hf in Hwf. cbn [find_field] in Hwf.
  destruct (str_eqb (f_name f) n1) eqn:E1; [|discriminate].
  apply str_eqb_eq in E1. subst n1.
  apply andb_prop in Hwf. destruct Hwf as [Hw1 Hwr].
  exists x1. split; [|exact Hw1]. f_equal.
  destruct r as [|[n2 x2] r2]; [reflexivity|exfalso].
  cbn [wt_fields] in Hwr. rewrite Hf in Hwr. cbn [find_field] in Hwr.
  destruct (str_eqb (f_name f) n2) eqn:E2; [|discriminate].
  apply str_eqb_eq in E2. subst n2.
  cbn [map fst sorted_Z lt_all_Z] in Hs. apply andb_prop in Hs. destruct Hs as [Hs _].
  apply andb_prop in Hs. destruct Hs as [Hs _]. apply Z.ltb_lt in Hs. lia.
Qed.
End Shapes.

(* ---- the codec of a root-unwrap message, unfolded ------------------------------------------------------ *)
Section Unfold.
Variable E : ExtLib.
Variable sc : schema.

Definition list_un_n (n : nat) (ek : kind) (jv : json) : res (option fval) :=
  match jv with
  | JNull => ROk None
  | JArr l =>
      rall (map (fun x => gj_un E sc n ek x >>= (fun o =>
              match o with Some v => ROk v | None => RUnm (s "null element in an array") end)) l)
      >>= (fun vs => ROk (Some (FL vs)))
  | _ => RErr (s "json: cannot unmarshal into slice")
  end.
Definition map_un_n (n : nat) (kk ek : kind) (jv : json) : res (option fval) :=
  match jv with
  | JNull => ROk None
  | JObj kv =>
      if kind_eqb kk KBool then RErr (s "json: cannot unmarshal object into Go value of type map[bool]") else
      rall (map (fun e => key_of_text kk (fst e) >>= (fun key => gj_un E sc n ek (snd e) >>= (fun o =>
              match o with Some v => ROk (key, v) | None => RUnm (s "null map value") end))) kv)
      >>= (fun es => ROk (Some (FMap (sort_entries es))))
  | _ => RErr (s "json: cannot unmarshal into map")
  end.

(* the FtUnwrapRoot branch of gj_un for the single field f *)
Definition root_un (n : nat) (f : field) (j : json) : res (option fval) :=
  match f_card f with
  | Repeated =>
      (if is_msg_kind (f_kind f) then pj_elems E sc (f_kind f) j >>= (fun l => ROk (Some (FL l)))
       else list_un_n n (f_kind f) j)
      >>= (fun o => ROk (Some (FM (assemble (opt_list (option_map (fun v => (f, v)) o))))))
  | MapOf kk =>
      (match value_unwrap sc f with
       | Some uf => if is_repeated uf then unwrap_map_un E sc kk uf j >>= (fun v => ROk (Some v))
                    else RUnm (s "map value whose unwrap field is itself a map")
       | None =>
           if is_msg_kind (f_kind f) then
             match j with
             | JObj kv =>
                 rall (map (fun e => key_of_text kk (fst e) >>= (fun key =>
                             pj_elem E sc (f_kind f) (snd e) >>= (fun v => ROk (key, v)))) kv)
                 >>= (fun es => ROk (Some (FMap (sort_entries es))))
             | JNull => ROk (Some (FMap []))
             | _ => RErr (s "json: cannot unmarshal into map")
             end
           else map_un_n n kk (f_kind f) j
       end)
      >>= (fun o => ROk (Some (FM (assemble (opt_list (option_map (fun v => (f, v)) o))))))
  | _ => RUnm (s "unwrap on a singular field")
  end.

Lemma gj_un_unwrap_root n tn md f j :
  is_wkt_other tn = false -> lookup_message sc tn = Some md -> owner_of sc md = Own FtUnwrapRoot ->
  buildable sc FtUnwrapRoot md = true -> m_fields md = [f] -> j <> JNull ->
  gj_un E sc (S n) (KMessage tn) j = root_un n f j.
Proof.
  intros H1 H2 H3 H4 H5 H6.
  destruct j; try congruence; simpl; rewrite H1, H2, H3, H4, H5; reflexivity.
Qed.

Lemma gj_un_nonmsg n k j : is_msg_kind k = false ->
  gj_un E sc (S n) k j = gj_unscalar E sc k j >>= (fun o => ROk (option_map FS o)).
Proof. intros H. destruct k; try discriminate H; reflexivity. Qed.

Lemma decode_unwrap_root tn md f j :
  is_wkt_other tn = false -> lookup_message sc tn = Some md -> owner_of sc md = Own FtUnwrapRoot ->
  buildable sc FtUnwrapRoot md = true -> m_fields md = [f] -> j <> JNull ->
  decode E sc tn j =
  root_un (S (json_size j)) f j >>= (fun o => match o with
                                              | Some (FM m) => ROk m
                                              | None => ROk []
                                              | _ => RUnm (s "not a message")
                                              end).
Proof.
  intros H1 H2 H3 H4 H5 H6.
  assert (Howns : owns sc tn = true) by (unfold owns; rewrite H2, H3; reflexivity).
  unfold decode. rewrite Howns, H2. cbn [option_map]. rewrite H3.
  rewrite (gj_un_unwrap_root (S (json_size j)) tn md f j H1 H2 H3 H4 H5 H6).
  destruct j; try congruence; reflexivity.
Qed.

Lemma decode_null_root tn md :
  lookup_message sc tn = Some md -> owner_of sc md = Own FtUnwrapRoot -> decode E sc tn JNull = ROk [].
Proof.
  intros H2 H3.
  assert (Howns : owns sc tn = true) by (unfold owns; rewrite H2, H3; reflexivity).
  unfold decode. rewrite Howns, H2. cbn [option_map]. rewrite H3. reflexivity.
Qed.

(* MarshalJSON of the message: the children handed to encoding/json, then the body *)
Lemma kids_root_nil md : kids_loop E sc FtUnwrapRoot md [] = ROk [].
Proof. reflexivity. Qed.

Lemma kids_root_one md f x :
  m_fields md = [f] ->
  kids_loop E sc FtUnwrapRoot md [(f_name f, x)] =
  if negb (is_msg_kind (f_kind f))
  then match gj_fval E sc (f_kind f) x with
       | RUnm w => RUnm w
       | rj => ROk [(f_name f, rj)]
       end
  else ROk [].
Proof.
  intros Hf. cbn [kids_loop]. rewrite Hf. cbn [find_field]. rewrite str_eqb_refl.
  cbn [needs_gj]. destruct (negb (is_msg_kind (f_kind f))); [|reflexivity].
  destruct (gj_fval E sc (f_kind f) x); reflexivity.
Qed.

Lemma encode_root_body tn md m j :
  str_eqb tn ts_name = false -> is_wkt_other tn = false ->
  find_message (all_messages sc) tn = Some md -> owner_of sc md = Own FtUnwrapRoot ->
  encode E sc tn m = ROk j ->
  buildable sc FtUnwrapRoot md = true /\
  exists ks, kids_loop E sc FtUnwrapRoot md m = ROk ks /\ enc_unwrap_root E sc md m ks = ROk j.
Proof.
  intros Hts Hwk Hfm Hown Henc.
  assert (Hlk : lookup_message sc tn = Some md) by (unfold lookup_message; rewrite Hts; exact Hfm).
  assert (Howns : owns sc tn = true) by (unfold owns; rewrite Hlk, Hown; reflexivity).
  unfold encode in Henc. rewrite Howns in Henc.
  rewrite (gj_fval_owned E sc tn md FtUnwrapRoot m Hwk Hlk Hown) in Henc.
  apply rbind_ok in Henc. destruct Henc as [ks [Hks Hbody]].
  unfold codec_body in Hbody.
  destruct (buildable sc FtUnwrapRoot md) eqn:Hb; [|discriminate Hbody].
  split; [reflexivity|]. exists ks. split; [exact Hks|exact Hbody].
Qed.
End Unfold.
Close Scope Z_scope.

Open Scope Z_scope.

(* ---- encoding/json on scalars: Marshal then Unmarshal ------------------------------------------------------ *)
(* an enum type with an emitted MarshalJSON is read back by its JSON texts: every declared value must be
   found again under its own text (false only when two values share one enum_value text) *)
Definition enum_gj_ok (e : enum) : bool :=
  forallb (fun v : enum_value => match ev_by_json (e_values e) (ev_json v) with
                    | Some v' => ev_number v' =? ev_number v
                    | None => false
                    end) (e_values e).

Section Scalars.
Variable E : ExtLib.
Hypothesis EL : ExtLaws E.
Variable sc : schema.

Definition enum_elem_ok (k : kind) (x : sval) : bool :=
  match k, x with
  | KEnum tn, VEnum n =>
      match find_enum (all_enums sc) tn with
      | Some e => negb (enum_codec e) ||
                  (enum_gj_ok e && match ev_by_number (e_values e) n with Some _ => true | None => false end)
      | None => true
      end
  | _, _ => true
  end.
Definition elem_ok (k : kind) (y : fval) : bool := match y with FS x => enum_elem_ok k x | _ => true end.

Lemma ev_by_number_in vs n v : ev_by_number vs n = Some v -> In v vs /\ ev_number v = n.
Proof.
  induction vs as [|a r IH]; cbn [ev_by_number]; [discriminate|].
  destruct (ev_number a =? n) eqn:En; intros H.
  - inversion H; subst a. split; [left; reflexivity|]. apply Z.eqb_eq. exact En.
  - destruct (IH H) as [H1 H2]. split; [right; exact H1|exact H2].
Qed.

Lemma wt_nonmsg k y : is_msg_kind k = false -> wt sc k y = true -> exists x, y = FS x /\ wt_scalar sc k x = true.
Proof.
  intros Hk Hw. destruct y as [x|cm|l|kv].
  - exists x. split; [reflexivity|]. cbn [wt] in Hw. apply andb_prop in Hw. apply Hw.
  - destruct k; try discriminate Hw. discriminate Hk.
  - discriminate Hw.
  - discriminate Hw.
Qed.

Lemma gj_scalar_rt k x j :
  wt_scalar sc k x = true -> enum_elem_ok k x = true ->
  gj_scalar E sc k x = ROk j -> gj_unscalar E sc k j = ROk (Some x).
Proof.
  intros Hwt Hen Hj.
  destruct x as [z|b|x|x|b|n].
  - (* integers *)
    assert (Hw : (is_int32_kind k || is_int64_kind k) = true /\ in_int_range k z = true).
    { destruct k; try discriminate Hwt; apply andb_prop; exact Hwt. }
    destruct Hw as [Hw1 Hw2].
    destruct k; try discriminate Hw1; inversion Hj; subst j; unfold gj_unscalar; rewrite Hw2; reflexivity.
  - destruct k; try discriminate Hwt. inversion Hj; subst j. reflexivity.
  - destruct k; try discriminate Hwt. inversion Hj; subst j. reflexivity.
  - destruct k; try discriminate Hwt. inversion Hj; subst j. unfold gj_unscalar.
    rewrite (ncrlf_no_crlf _ (b64_enc_ncrlf false true x)), b64_roundtrip. reflexivity.
  - (* floats *)
    assert (Hf : exists is64 : bool, (k = if is64 then KDouble else KFloat) /\ float_ok is64 b = true).
    { destruct k; try discriminate Hwt; [exists true|exists false]; split; auto. }
    destruct Hf as [is64 [Hk Hok]].
    assert (Hp : fclassify is64 b = FFinite /\ x_fprint E is64 b = Some j).
    { destruct is64; subst k; cbn [gj_scalar] in Hj.
      - destruct (fclassify true b); try discriminate Hj.
        destruct (x_fprint E true b); [|discriminate Hj]. inversion Hj; subst. auto.
      - destruct (fclassify false b); try discriminate Hj.
        destruct (x_fprint E false b); [|discriminate Hj]. inversion Hj; subst. auto. }
    destruct Hp as [Hc Hp]. unfold float_ok in Hok. rewrite Hc in Hok. apply Z.leb_le in Hok.
    assert (Hnum : j <> JNull /\ is_jnumber j = true).
    { destruct (law_fprint_num E EL _ _ _ Hp) as [[z Hz]|[f Hf]]; subst j; split; try discriminate; reflexivity. }
    destruct Hnum as [Hnn Hnum].
    destruct is64; subst k; unfold gj_unscalar.
    + destruct (law_f64 E EL _ _ Hp) as [b32 Hs].
      destruct j; try (exfalso; apply Hnn; reflexivity); rewrite ?Hnum, Hs;
        destruct (Z.ltb_spec b 0); try lia; reflexivity.
    + destruct (law_f32 E EL _ _ Hp) as [b64 Hs].
      destruct j; try (exfalso; apply Hnn; reflexivity); rewrite ?Hnum, Hs;
        destruct (Z.ltb_spec b 0); try lia; reflexivity.
  - (* enums *)
    destruct k as [| | | | | | | | | | | | | | | tn | tn0]; try discriminate Hwt. cbn [wt_scalar] in Hwt. cbn [gj_scalar] in Hj. unfold gj_enum in Hj.
    cbn [enum_elem_ok] in Hen. unfold gj_unscalar.
    destruct (find_enum (all_enums sc) tn) as [e|]; [|discriminate Hwt].
    unfold enum_rt in Hwt. apply andb_prop in Hwt. destruct Hwt as [Hr _].
    destruct (enum_codec e).
    + cbn [negb orb] in Hen. apply andb_prop in Hen. destruct Hen as [Hok Hdef].
      destruct (ev_by_number (e_values e) n) as [v|] eqn:Ev; [|discriminate Hdef].
      inversion Hj; subst j.
      destruct (ev_by_number_in _ _ _ Ev) as [Hin Hn].
      unfold enum_gj_ok in Hok. rewrite forallb_forall in Hok. specialize (Hok v Hin).
      destruct (ev_by_json (e_values e) (ev_json v)) as [v'|]; [|discriminate Hok].
      apply Z.eqb_eq in Hok. rewrite Hok, Hn. reflexivity.
    + inversion Hj; subst j. rewrite Hr. reflexivity.
Qed.

Lemma gj_scalar_not_null k x j : gj_scalar E sc k x = ROk j -> j <> JNull.
Proof.
  intros H Hn. subst j.
  destruct x as [z|bb|sx|bx|bits|en], k as [| | | | | | | | | | | | | | | tn | tn0]; cbn [gj_scalar] in H; try discriminate H;
    try (destruct (is_int32_kind _ || is_int64_kind _); discriminate H).
  - destruct (fclassify true bits); try discriminate H. destruct (x_fprint E true bits) eqn:Ep; [|discriminate H].
    inversion H; subst. destruct (law_fprint_num E EL _ _ _ Ep) as [[? ?]|[? ?]]; discriminate.
  - destruct (fclassify false bits); try discriminate H. destruct (x_fprint E false bits) eqn:Ep; [|discriminate H].
    inversion H; subst. destruct (law_fprint_num E EL _ _ _ Ep) as [[? ?]|[? ?]]; discriminate.
  - unfold gj_enum in H. destruct (find_enum _ _); [|discriminate H].
    destruct (enum_codec _); [destruct (ev_by_number _ _)|]; discriminate H.
Qed.
End Scalars.
Close Scope Z_scope.

Open Scope Z_scope.

(* ---- what [norm] keeps of a wrapper --------------------------------------------------------------------------- *)
Definition sw (uf : field) (kvp : sval * fval) : sval * fval :=
  match snd kvp with
  | FM wm => (fst kvp, FM (filter (fun we => str_eqb (fst we) (f_name uf)) wm))
  | w => (fst kvp, w)
  end.
Lemma sw_fst uf p : fst (sw uf p) = fst p.
Proof. unfold sw. destruct (snd p); reflexivity. Qed.
Lemma sw_keys uf kv : map fst (map (sw uf) kv) = map fst kv.
Proof. rewrite map_map. apply map_ext. intros p. apply sw_fst. Qed.

Lemma strip_one sc md f x : m_fields md = [f] ->
  strip_wrappers sc md [(f_name f, x)] =
  match value_unwrap sc f, x with
  | Some uf, FMap kv => [(f_name f, FMap (map (sw uf) kv))]
  | _, _ => [(f_name f, x)]
  end.
Proof.
  intros Hf. unfold strip_wrappers. cbn [map fst snd]. rewrite Hf. cbn [find_field]. rewrite str_eqb_refl.
  destruct (value_unwrap sc f); [|reflexivity]. destruct x; reflexivity.
Qed.

Lemma assemble_one f v : assemble [(f, v)] = if populated f v then [(f_name f, v)] else [].
Proof. unfold assemble. cbn [fold_right fst snd]. destruct (populated f v); reflexivity. Qed.

Lemma filter_none {A} (p : A -> bool) l : (forall a, In a l -> p a = false) -> filter p l = [].
Proof.
  induction l as [|a r IH]; intros H; [reflexivity|]. cbn [filter].
  rewrite (H a (or_introl eq_refl)). apply IH. intros b Hb. apply H. right. exact Hb.
Qed.

Lemma filter_name (wm : mval) name : NoDup (map fst wm) ->
  filter (fun we => str_eqb (fst we) name) wm = match mget wm name with Some y => [(name, y)] | None => [] end.
Proof.
  induction wm as [|[k v] r IH]; intros Hnd; [reflexivity|].
  cbn [map fst] in Hnd. inversion Hnd as [|? ? Hnotin Hnd']; subst.
  cbn [filter mget fst]. rewrite (EmptyFacts.str_eqb_sym name k).
  destruct (str_eqb k name) eqn:Ek.
  - apply str_eqb_eq in Ek. subst k. f_equal. apply filter_none.
    intros [k' v'] Hin. cbn [fst]. destruct (str_eqb k' name) eqn:Ek'; [|reflexivity]. exfalso.
    apply str_eqb_eq in Ek'. subst k'. apply Hnotin. apply (in_map fst) in Hin. exact Hin.
  - apply IH. exact Hnd'.
Qed.

(* ---- owner = root unwrap: the message has exactly one field ------------------------------------------------- *)
Lemma owner_root_unwrap sc md : owner_of sc md = Own FtUnwrapRoot -> is_root_unwrap md = true.
Proof.
  intros H. apply EmptyFacts.owner_single in H.
  destruct (is_root_unwrap md) eqn:Er; [reflexivity|exfalso].
  assert (Hin : In FtUnwrapRoot (features sc md)) by (rewrite H; left; reflexivity).
  unfold features in Hin. rewrite Er in Hin.
  repeat (apply in_app_or in Hin; destruct Hin as [Hin|Hin]);
    repeat match type of Hin with In _ (if ?b then _ else _) => destruct b end;
    cbn [In] in Hin; repeat match type of Hin with _ \/ _ => destruct Hin as [Hin|Hin] end;
    try discriminate Hin; try contradiction.
Qed.

Lemma root_unwrap_fields md : is_root_unwrap md = true ->
  exists f, m_fields md = [f] /\ f_unwrap f = true /\ (is_repeated f || is_map f) = true.
Proof.
  unfold is_root_unwrap, unwrap_field, unwrap_fields. intros H.
  destruct (m_fields md) as [|f [|g r]] eqn:Ef.
  - discriminate H.
  - exists f. split; [reflexivity|]. cbn [filter] in H. destruct (f_unwrap f); [|discriminate H].
    split; [reflexivity|]. destruct (is_repeated f || is_map f); [reflexivity|discriminate H].
  - destruct (filter (fun f0 => f_unwrap f0) (f :: g :: r)) as [|u [|u' t]]; try discriminate H;
      destruct (is_repeated u || is_map u); discriminate H.
Qed.

Lemma value_unwrap_facts sc f uf : value_unwrap sc f = Some uf ->
  exists vtn vmd, f_kind f = KMessage vtn /\ str_eqb vtn ts_name = false /\
                  find_message (all_messages sc) vtn = Some vmd /\ In uf (m_fields vmd).
Proof.
  unfold value_unwrap. destruct (is_map f); [|discriminate].
  destruct (f_kind f) as [| | | | | | | | | | | | | | | tn0 | vtn]; try discriminate.
  unfold lookup_message. destruct (str_eqb vtn ts_name) eqn:Ets.
  - intros H. vm_compute in H. discriminate H.
  - destruct (find_message (all_messages sc) vtn) as [vmd|] eqn:Efm; [|discriminate].
    intros H. exists vtn, vmd. split; [reflexivity|]. split; [exact Ets|]. split; [exact Efm|].
    unfold unwrap_field, unwrap_fields in H.
    destruct (filter (fun f0 => f_unwrap f0) (m_fields vmd)) as [|u [|u' t]] eqn:Efl; try discriminate H.
    destruct (is_repeated u || is_map u); [|discriminate H]. inversion H; subst u.
    assert (Hin : In uf (filter (fun f0 => f_unwrap f0) (m_fields vmd))) by (rewrite Efl; left; reflexivity).
    apply filter_In in Hin. apply Hin.
Qed.

Lemma value_unwrap_scalar sc f : is_msg_kind (f_kind f) = false -> value_unwrap sc f = None.
Proof.
  intros H. unfold value_unwrap. destruct (is_map f); [|reflexivity].
  destruct (f_kind f); try reflexivity. discriminate H.
Qed.
Lemma value_unwrap_repeated sc f : f_card f = Repeated -> value_unwrap sc f = None.
Proof. intros H. unfold value_unwrap, is_map. rewrite H. reflexivity. Qed.
Close Scope Z_scope.

Open Scope Z_scope.

(* ---- the round trip, shape by shape ----------------------------------------------------------------------------- *)
Section RoundTrip.
Variable E : ExtLib.
Hypothesis EL : ExtLaws E.
Variable sc : schema.

Lemma elem_rt k y j : wt sc k y = true -> pj_fval E sc k y = ROk j -> pj_elem E sc k j = ROk y.
Proof. intros Hw Hj. exact (Q_of_PP E sc y (pj_roundtrip_fval E EL sc y) k j Hw Hj). Qed.

(* (A) array of messages through protojson *)
Lemma msg_list_rt k l j :
  Forall (fun y => wt sc k y = true) l -> pj_list E sc k (Some (FL l)) = ROk j -> pj_elems E sc k j = ROk l.
Proof.
  intros HF Hj. unfold pj_list in Hj. apply rbind_ok in Hj. destruct Hj as [js [Hjs Hj]]. inversion Hj; subst j.
  unfold pj_elems.
  assert (HF' : Forall (fun y => forall b, pj_fval E sc k y = ROk b -> pj_elem E sc k b = ROk ((fun y => y) y)) l).
  { eapply Forall_impl; [|exact HF]. intros y Hy b Hb. apply elem_rt; assumption. }
  rewrite (rall_map_rt _ _ _ l HF' js Hjs), map_id. reflexivity.
Qed.

(* (B) object of messages through protojson *)
Definition encB (kd : kind) (e : sval * fval) : res (str * json) :=
  key_text (fst e) >>= (fun k => pj_fval E sc kd (snd e) >>= (fun j => ROk (k, j))).
Definition decB (kk kd : kind) (e : str * json) : res (sval * fval) :=
  key_of_text kk (fst e) >>= (fun key => pj_elem E sc kd (snd e) >>= (fun v => ROk (key, v))).

Lemma entryB_rt kk kd e b :
  wt_key kk (fst e) = true -> wt sc kd (snd e) = true -> encB kd e = ROk b -> decB kk kd b = ROk e.
Proof.
  intros Hk Hv Hb. unfold encB in Hb. apply rbind_ok in Hb. destruct Hb as [kt [Hkt Hb]].
  apply rbind_ok in Hb. destruct Hb as [j [Hj Hb]]. inversion Hb; subst b.
  unfold decB. cbn [fst snd]. rewrite (key_rt kk (fst e) kt Hk Hkt). cbn [rbind].
  rewrite (elem_rt kd (snd e) j Hv Hj). cbn [rbind]. destruct e; reflexivity.
Qed.

Lemma msg_map_rt kk kd kv es :
  Forall (fun p => wt_key kk (fst p) = true /\ wt sc kd (snd p) = true) kv ->
  rall (map (encB kd) kv) = ROk es -> rall (map (decB kk kd) es) = ROk kv.
Proof.
  intros HF Hes.
  assert (HF' : Forall (fun e => forall b, encB kd e = ROk b -> decB kk kd b = ROk ((fun e => e) e)) kv).
  { eapply Forall_impl; [|exact HF]. intros e [H1 H2] b Hb. eapply entryB_rt; eauto. }
  rewrite (rall_map_rt _ _ _ kv HF' es Hes), map_id. reflexivity.
Qed.

(* scalars through encoding/json *)
Definition enc_sc (k : kind) (v : fval) : res json :=
  match v with FS x => gj_scalar E sc k x | _ => RUnm (s "ill-typed list") end.
Definition dec_sc (k : kind) (x : json) : res fval :=
  gj_unscalar E sc k x >>= (fun o => match o with Some v => ROk (FS v) | None => RUnm (s "null element in a scalar array") end).

Lemma scalar_elem_rt k y b :
  is_msg_kind k = false -> wt sc k y = true -> elem_ok sc k y = true ->
  gj_fval E sc k y = ROk b -> gj_unscalar E sc k b = ROk (Some (match y with FS x => x | _ => VInt 0 end)) /\ exists x, y = FS x.
Proof.
  intros Hk Hw Ho Hb. destruct (wt_nonmsg sc k y Hk Hw) as [x [Hy Hwx]]. subst y.
  split; [|exists x; reflexivity]. cbn [elem_ok] in Ho. cbn [gj_fval] in Hb.
  exact (gj_scalar_rt E EL sc k x b Hwx Ho Hb).
Qed.

Lemma scalar_list_rt k l j :
  is_msg_kind k = false -> Forall (fun y => wt sc k y = true) l -> Forall (fun y => elem_ok sc k y = true) l ->
  gj_scalar_list E sc k l = ROk j -> scalar_elems E sc k j = ROk l.
Proof.
  intros Hk HF HO Hj. unfold gj_scalar_list in Hj. apply rbind_ok in Hj. destruct Hj as [js [Hjs Hj]]. inversion Hj; subst j.
  unfold scalar_elems.
  assert (HF' : Forall (fun y => forall b, enc_sc k y = ROk b -> dec_sc k b = ROk ((fun y => y) y)) l).
  { apply Forall_forall. intros y Hy b Hb. rewrite Forall_forall in HF, HO.
    destruct (wt_nonmsg sc k y Hk (HF y Hy)) as [x [Hyx Hwx]]. subst y.
    unfold dec_sc. cbn [enc_sc] in Hb.
    rewrite (gj_scalar_rt E EL sc k x b Hwx (HO _ Hy) Hb). reflexivity. }
  pose proof (rall_map_rt _ _ _ l HF' js Hjs) as Hr. rewrite map_id in Hr. exact Hr.
Qed.

Lemma gj_fval_FL k l : gj_fval E sc k (FL l) = rall (map (gj_fval E sc k) l) >>= (fun js => ROk (JArr js)).
Proof.
  cbn [gj_fval]. f_equal. induction l as [|x r IH]; [reflexivity|].
  cbn [map rall]. rewrite IH. reflexivity.
Qed.
Definition enc_gm (k : kind) (e : sval * fval) : res (str * json) :=
  gj_key_text (fst e) >>= (fun kt => gj_fval E sc k (snd e) >>= (fun j => ROk (kt, j))).
Lemma gj_fval_FMap k kv : gj_fval E sc k (FMap kv) = rall (map (enc_gm k) kv) >>= (fun es => ROk (JObj es)).
Proof.
  cbn [gj_fval]. f_equal. induction kv as [|[key x] r IH]; [reflexivity|].
  cbn [map rall]. rewrite IH. unfold enc_gm. cbn [fst snd].
  destruct (gj_key_text key) as [kt|?|?]; cbn [rbind]; try reflexivity.
  destruct (gj_fval E sc k x) as [j|?|?]; cbn [rbind]; reflexivity.
Qed.

(* (D) array of scalars *)
Definition dec_ls (n : nat) (k : kind) (x : json) : res fval :=
  gj_un E sc n k x >>= (fun o => match o with Some v => ROk v | None => RUnm (s "null element in an array") end).
Definition dec_mp (n : nat) (kk k : kind) (e : str * json) : res (sval * fval) :=
  key_of_text kk (fst e) >>= (fun key => gj_un E sc n k (snd e) >>= (fun o =>
    match o with Some v => ROk (key, v) | None => RUnm (s "null map value") end)).
Lemma scalar_root_list_rt n k l j :
  is_msg_kind k = false -> Forall (fun y => wt sc k y = true) l -> Forall (fun y => elem_ok sc k y = true) l ->
  gj_fval E sc k (FL l) = ROk j -> j <> JNull /\ list_un_n E sc (S n) k j = ROk (Some (FL l)).
Proof.
  intros Hk HF HO Hj. rewrite gj_fval_FL in Hj. apply rbind_ok in Hj. destruct Hj as [js [Hjs Hj]]. inversion Hj; subst j.
  split; [discriminate|]. unfold list_un_n.
  assert (HF' : Forall (fun y => forall b, gj_fval E sc k y = ROk b -> dec_ls (S n) k b = ROk ((fun y => y) y)) l).
  { apply Forall_forall. intros y Hy b Hb. rewrite Forall_forall in HF, HO.
    destruct (scalar_elem_rt k y b Hk (HF y Hy) (HO y Hy) Hb) as [Hu [x Hx]]. subst y.
    unfold dec_ls. rewrite (gj_un_nonmsg E sc n k b Hk), Hu. reflexivity. }
  pose proof (rall_map_rt _ _ _ l HF' js Hjs) as Hr. rewrite map_id in Hr.
  eapply rbind_of_eq; [exact Hr|reflexivity].
Qed.

(* (E) object of scalars *)
Lemma scalar_root_map_rt n k kv j :
  is_msg_kind k = false ->
  Forall (fun p => wt_key KString (fst p) = true /\ wt sc k (snd p) = true) kv ->
  Forall (fun p => elem_ok sc k (snd p) = true) kv ->
  sorted_key (map fst kv) = true ->
  gj_fval E sc k (FMap kv) = ROk j -> j <> JNull /\ map_un_n E sc (S n) KString k j = ROk (Some (FMap kv)).
Proof.
  intros Hk HF HO Hs Hj. rewrite gj_fval_FMap in Hj. apply rbind_ok in Hj. destruct Hj as [es [Hes Hj]]. inversion Hj; subst j.
  split; [discriminate|]. unfold map_un_n.
  assert (HF' : Forall (fun e => forall b, enc_gm k e = ROk b -> dec_mp (S n) KString k b = ROk ((fun e => e) e)) kv).
  { apply Forall_forall. intros [key y] Hy b Hb. rewrite Forall_forall in HF, HO.
    destruct (HF _ Hy) as [Hwk Hwy]. specialize (HO _ Hy). cbn [fst snd] in Hwk, Hwy, HO.
    unfold enc_gm in Hb. cbn [fst snd] in Hb.
    apply rbind_ok in Hb. destruct Hb as [kt [Hkt Hb]]. apply rbind_ok in Hb. destruct Hb as [jv [Hjv Hb]]. inversion Hb; subst b.
    destruct (scalar_elem_rt k y jv Hk Hwy HO Hjv) as [Hu [x Hx]]. subst y.
    destruct key as [z|bb|kx|kx|bb|nn]; try discriminate Hwk. cbn [gj_key_text] in Hkt. inversion Hkt; subst kt.
    unfold dec_mp. cbn [fst snd key_of_text rbind]. rewrite (gj_un_nonmsg E sc n k jv Hk), Hu. reflexivity. }
  pose proof (rall_map_rt _ _ _ kv HF' es Hes) as Hr. rewrite map_id in Hr.
  eapply rbind_of_eq; [exact Hr|]. rewrite (sorted_key_sort kv Hs). reflexivity.
Qed.

(* (C) the combined form: object of wrappers, each written as the array of its unwrap field *)
Definition uf_ok (uf : field) : bool := is_msg_kind (f_kind uf) || negb (enum_with_codec sc (f_kind uf)).

Lemma no_codec_elem_ok k y : enum_with_codec sc k = false -> elem_ok sc k y = true.
Proof.
  intros H. destruct y as [x| | |]; try reflexivity. cbn [elem_ok]. unfold enum_elem_ok.
  destruct k as [| | | | | | | | | | | | | | | tn | tn0]; try reflexivity. destruct x as [z|bb|sx|bx|bits|en]; try reflexivity.
  cbn [enum_with_codec] in H. destruct (find_enum (all_enums sc) tn); [|reflexivity]. rewrite H. reflexivity.
Qed.

Lemma wrapper_rt f uf w a :
  value_unwrap sc f = Some uf -> is_repeated uf = true -> uf_ok uf = true ->
  wt sc (f_kind f) w = true -> unwrap_array E sc uf w = ROk a ->
  unwrap_items E sc uf a = ROk (snd (sw uf (VInt 0, w))).
Proof.
  intros Hvu Hrep Hok Hw Ha.
  destruct (value_unwrap_facts sc f uf Hvu) as [vtn [vmd [Hk [Hts [Hfm Hin]]]]].
  rewrite Hk in Hw.
  destruct w as [sx|wm|l0|kv0]; try discriminate Hw.
  rewrite wt_FM, Hts, Hfm in Hw. apply andb_prop in Hw. destruct Hw as [_ Hw].
  apply andb_prop in Hw. destruct Hw as [Hw Hwf]. apply andb_prop in Hw. destruct Hw as [Hmok Hsorted].
  assert (Hcard : f_card uf = Repeated) by (unfold is_repeated in Hrep; destruct (f_card uf); try discriminate Hrep; reflexivity).
  unfold sw. cbn [fst snd].
  rewrite (filter_name wm (f_name uf) (Int64Facts.sorted_names_nodup vmd wm Hsorted)).
  unfold unwrap_array in Ha. unfold unwrap_items.
  destruct (mget wm (f_name uf)) as [y|] eqn:Eg.
  - (* the unwrap field is populated: a non-empty well-typed list *)
    pose proof (Int64Facts.mget_pair wm (f_name uf) y Eg) as Hinw.
    destruct (Int64Facts.wt_fields_in sc vmd wm (f_name uf) y Hwf Hinw) as [g [Hg Hwe]].
    destruct (find_field_spec _ _ _ Hg) as [Hing Hname].
    assert (g = uf).
    { eapply nodup_jn_inj; eauto using Int64Facts.msg_ok_nodup_jn. unfold jn. rewrite Hname. reflexivity. }
    subst g.
    destruct (wt_entry_repeated sc uf y Hcard Hwe) as [e [l [Hy HF]]]. subst y.
    destruct (is_msg_kind (f_kind uf)) eqn:Emk.
    + rewrite (msg_list_rt (f_kind uf) (e :: l) a HF Ha). cbn [rbind]. unfold wrapper_of. rewrite assemble_one. reflexivity.
    + unfold uf_ok in Hok. rewrite Emk in Hok. cbn [orb] in Hok. apply Bool.negb_true_iff in Hok.
      rewrite (scalar_list_rt (f_kind uf) (e :: l) a Emk HF); [cbn [rbind]; unfold wrapper_of; rewrite assemble_one; reflexivity| |exact Ha].
      apply Forall_forall. intros y _. apply no_codec_elem_ok. exact Hok.
  - destruct (is_msg_kind (f_kind uf)).
    + cbn [pj_list] in Ha. inversion Ha; subst a. reflexivity.
    + inversion Ha; subst a. reflexivity.
Qed.

Definition encC (uf : field) (e : sval * fval) : res (str * json) :=
  key_text (fst e) >>= (fun k => unwrap_array E sc uf (snd e) >>= (fun a => ROk (k, a))).
Definition decC (kk : kind) (uf : field) (e : str * json) : res (sval * fval) :=
  key_of_text kk (fst e) >>= (fun k => unwrap_items E sc uf (snd e) >>= (fun w => ROk (k, w))).

Lemma sw_pair uf key w : sw uf (key, w) = (key, snd (sw uf (VInt 0, w))).
Proof. unfold sw. cbn [fst snd]. destruct w; reflexivity. Qed.

Lemma combined_rt f kk uf kv j :
  value_unwrap sc f = Some uf -> is_repeated uf = true -> uf_ok uf = true ->
  Forall (fun p => wt_key kk (fst p) = true /\ wt sc (f_kind f) (snd p) = true) kv ->
  sorted_key (map fst kv) = true ->
  unwrap_map_obj E sc uf kv = ROk j ->
  j <> JNull /\ unwrap_map_un E sc kk uf j = ROk (FMap (map (sw uf) kv)).
Proof.
  intros Hvu Hrep Hok HF Hs Hj. unfold unwrap_map_obj in Hj.
  apply rbind_ok in Hj. destruct Hj as [es [Hes Hj]]. inversion Hj; subst j.
  split; [discriminate|]. unfold unwrap_map_un.
  assert (HF' : Forall (fun e => forall b, encC uf e = ROk b -> decC kk uf b = ROk (sw uf e)) kv).
  { eapply Forall_impl; [|exact HF]. intros [key w] [H1 H2] b Hb. cbn [fst snd] in H1, H2.
    unfold encC in Hb. cbn [fst snd] in Hb.
    apply rbind_ok in Hb. destruct Hb as [kt [Hkt Hb]]. apply rbind_ok in Hb. destruct Hb as [a [Ha Hb]]. inversion Hb; subst b.
    unfold decC. cbn [fst snd]. rewrite (key_rt kk key kt H1 Hkt). cbn [rbind].
    rewrite (wrapper_rt f uf w a Hvu Hrep Hok H2 Ha). cbn [rbind]. rewrite (sw_pair uf key w). reflexivity. }
  pose proof (rall_map_rt _ _ _ kv HF' es Hes) as Hr.
  eapply rbind_of_eq; [exact Hr|].
  rewrite sorted_key_sort; [reflexivity|]. rewrite sw_keys. exact Hs.
Qed.
End RoundTrip.
Close Scope Z_scope.

Open Scope Z_scope.

(* ---- what "defects_C04 = []" says about a root list / map of scalars ------------------------------------------- *)
Lemma dedup4_nil l : dedup4 l = [] -> l = [].
Proof.
  induction l as [|d r IH]; [reflexivity|]. cbn [dedup4].
  destruct (existsb (fun e => str_eqb (c04_defect_str e) (c04_defect_str d)) r) eqn:Ex; [|discriminate].
  intros H. rewrite (IH H) in Ex. discriminate Ex.
Qed.

Lemma enum_nums_FL_in l y n : In y l -> In n (enum_nums y) -> In n (enum_nums (FL l)).
Proof.
  intros Hy Hn. cbn [enum_nums]. induction l as [|a r IH]; [destruct Hy|].
  apply in_or_app. destruct Hy as [Hy|Hy]; [left; subst a; exact Hn|right; apply IH; exact Hy].
Qed.
Lemma enum_nums_FMap_in (kv : list (sval * fval)) p n : In p kv -> In n (enum_nums (snd p)) -> In n (enum_nums (FMap kv)).
Proof.
  intros Hy Hn. cbn [enum_nums]. induction kv as [|[k a] r IH]; [destruct Hy|].
  apply in_or_app. destruct Hy as [Hy|Hy]; [left; subst p; exact Hn|right; apply IH; exact Hy].
Qed.

Section Main.
Variable E : ExtLib.
Hypothesis EL : ExtLaws E.
Variable sc : schema.

Definition kind_gj_ok (k : kind) : bool :=
  match k with
  | KEnum tn => match find_enum (all_enums sc) tn with
                | Some e => negb (enum_codec e) || enum_gj_ok e
                | None => true
                end
  | _ => true
  end.

(* the domain: nothing is asked of message elements; a scalar element type that is an enum with an emitted
   MarshalJSON must have distinct JSON texts (root list / map) or is excluded (inside a wrapper, where the
   defect classifier does not look) *)
Definition unwrap_root_dom (md : message) : bool :=
  match m_fields md with
  | [f] => match value_unwrap sc f with
           | Some uf => uf_ok sc uf
           | None => is_msg_kind (f_kind f) || kind_gj_ok (f_kind f)
           end
  | _ => true
  end.

Lemma elems_ok_of_defects k (vs : list fval) v :
  kind_gj_ok k = true -> enum_codec_unknown sc k v = false ->
  (forall y n, In y vs -> In n (enum_nums y) -> In n (enum_nums v)) ->
  Forall (fun y => elem_ok sc k y = true) vs.
Proof.
  intros Hk Hd Hin. apply Forall_forall. intros y Hy.
  destruct y as [x| | |]; try reflexivity. cbn [elem_ok]. unfold enum_elem_ok.
  destruct k as [| | | | | | | | | | | | | | | tn | tn0]; try reflexivity. destruct x as [| | | | |n]; try reflexivity.
  cbn [kind_gj_ok] in Hk. cbn [enum_codec_unknown] in Hd.
  destruct (find_enum (all_enums sc) tn) as [e|]; [|reflexivity].
  destruct (enum_codec e); [|reflexivity]. cbn [negb orb andb] in *. rewrite Hk. cbn [andb].
  destruct (ev_by_number (e_values e) n) eqn:Ev; [reflexivity|exfalso].
  assert (Hex : existsb (fun n0 => match ev_by_number (e_values e) n0 with Some _ => false | None => true end) (enum_nums v) = true).
  { apply existsb_exists. exists n. split; [|rewrite Ev; reflexivity].
    apply (Hin (FS (VEnum n)) n Hy). left. reflexivity. }
  congruence.
Qed.

Lemma defects_enum_defined tn md f x :
  lookup_message sc tn = Some md -> owner_of sc md = Own FtUnwrapRoot -> m_fields md = [f] ->
  is_msg_kind (f_kind f) = false ->
  defects_C04 sc tn [(f_name f, x)] = [] -> enum_codec_unknown sc (f_kind f) x = false.
Proof.
  intros Hlk Hown Hf Hk Hd.
  assert (Howns : owns sc tn = true) by (unfold owns; rewrite Hlk, Hown; reflexivity).
  unfold defects_C04 in Hd. rewrite Howns in Hd. apply dedup4_nil in Hd.
  cbn [gj_defects] in Hd. rewrite Hlk, Hown in Hd.
  apply app_eq_nil in Hd. destruct Hd as [_ Hd]. apply app_eq_nil in Hd. destruct Hd as [Hd _].
  rewrite Hf in Hd. cbn [existsb find_field fst snd] in Hd. rewrite str_eqb_refl in Hd.
  cbn [needs_gj] in Hd. rewrite Hk in Hd. cbn [negb andb orb] in Hd.
  destruct (enum_codec_unknown sc (f_kind f) x); [discriminate Hd|reflexivity].
Qed.

Definition fin (o : option fval) : res mval :=
  match o with Some (FM m) => ROk m | None => ROk [] | _ => RUnm (s "not a message") end.

Theorem unwrap_root_roundtrip : forall tn md m j,
  str_eqb tn ts_name = false -> is_wkt_other tn = false ->
  find_message (all_messages sc) tn = Some md -> owner_of sc md = Own FtUnwrapRoot ->
  unwrap_root_dom md = true ->
  wt sc (KMessage tn) (FM m) = true -> defects_C04 sc tn m = [] ->
  encode E sc tn m = ROk j -> decode E sc tn j = ROk (norm sc tn m).
Proof.
  intros tn md m j Hts Hwk Hfm Hown Hdom Hwt Hdef Henc.
  assert (Hlk : lookup_message sc tn = Some md) by (unfold lookup_message; rewrite Hts; exact Hfm).
  assert (Hnorm : norm sc tn m = strip_wrappers sc md m) by (unfold norm; rewrite Hlk, Hown; reflexivity).
  rewrite Hnorm.
  destruct (root_unwrap_fields md (owner_root_unwrap sc md Hown)) as [f [Hf _]].
  destruct (encode_root_body E sc tn md m j Hts Hwk Hfm Hown Henc) as [Hb [ks [Hks Hbody]]].
  destruct (wt_root_single sc tn md f m Hts Hfm Hf Hwt) as [Hmok [Hm|[x [Hm Hwe]]]]; subst m.
  - (* nothing set *)
    cbn [strip_wrappers map].
    unfold enc_unwrap_root in Hbody. rewrite Hf in Hbody. cbn [mget] in Hbody.
    destruct (f_card f) as [| | |kk] eqn:Hc; try discriminate Hbody.
    + destruct (is_msg_kind (f_kind f)) eqn:Emk.
      * cbn [pj_list] in Hbody. inversion Hbody; subst j.
        rewrite (decode_unwrap_root E sc tn md f _ Hwk Hlk Hown Hb Hf) by discriminate.
        unfold root_un. rewrite Hc, Emk. reflexivity.
      * inversion Hbody; subst j. apply (decode_null_root E sc tn md Hlk Hown).
    + destruct (value_unwrap sc f) as [uf|] eqn:Evu.
      * destruct (is_repeated uf) eqn:Erep; [|discriminate Hbody]. inversion Hbody; subst j.
        rewrite (decode_unwrap_root E sc tn md f _ Hwk Hlk Hown Hb Hf) by discriminate.
        unfold root_un. rewrite Hc, Evu, Erep. reflexivity.
      * destruct (is_msg_kind (f_kind f)) eqn:Emk.
        -- inversion Hbody; subst j.
           rewrite (decode_unwrap_root E sc tn md f _ Hwk Hlk Hown Hb Hf) by discriminate.
           unfold root_un. rewrite Hc, Evu, Emk. reflexivity.
        -- inversion Hbody; subst j. apply (decode_null_root E sc tn md Hlk Hown).
  - (* the field is populated *)
    rewrite (kids_root_one E sc md f x Hf) in Hks.
    unfold enc_unwrap_root in Hbody. rewrite Hf in Hbody. cbn [mget] in Hbody. rewrite str_eqb_refl in Hbody.
    rewrite (strip_one sc md f x Hf).
    unfold unwrap_root_dom in Hdom. rewrite Hf in Hdom.
    destruct (f_card f) as [| | |kk] eqn:Hc; try discriminate Hbody.
    + (* a list *)
      rewrite (value_unwrap_repeated sc f Hc). rewrite (value_unwrap_repeated sc f Hc) in Hdom.
      destruct (wt_entry_repeated sc f x Hc Hwe) as [e [l [Hx HF]]]. subst x.
      destruct (is_msg_kind (f_kind f)) eqn:Emk.
      * pose proof (msg_list_rt E EL sc (f_kind f) (e :: l) j HF Hbody) as Hel.
        assert (Hnn : j <> JNull).
        { unfold pj_list in Hbody. apply rbind_ok in Hbody. destruct Hbody as [js [_ Hb']]. inversion Hb'. discriminate. }
        rewrite (decode_unwrap_root E sc tn md f j Hwk Hlk Hown Hb Hf Hnn).
        unfold root_un. rewrite Hc, Emk, Hel. cbn [rbind option_map opt_list]. rewrite assemble_one. reflexivity.
      * cbn [negb] in Hks. cbn [orb] in Hdom.
        assert (Hgj : gj_fval E sc (f_kind f) (FL (e :: l)) = ROk j).
        { destruct (gj_fval E sc (f_kind f) (FL (e :: l))) as [j0|er|w]; inversion Hks; subst ks;
            cbn [kid] in Hbody; rewrite str_eqb_refl in Hbody; [exact Hbody|discriminate Hbody]. }
        pose proof (defects_enum_defined tn md f (FL (e :: l)) Hlk Hown Hf Emk Hdef) as Hu.
        assert (HO : Forall (fun y => elem_ok sc (f_kind f) y = true) (e :: l)).
        { apply (elems_ok_of_defects (f_kind f) (e :: l) (FL (e :: l)) Hdom Hu). intros y n. apply enum_nums_FL_in. }
        destruct (scalar_root_list_rt E EL sc (json_size j) (f_kind f) (e :: l) j Emk HF HO Hgj) as [Hnn Hun].
        rewrite (decode_unwrap_root E sc tn md f j Hwk Hlk Hown Hb Hf Hnn).
        unfold root_un. rewrite Hc, Emk, Hun. cbn [rbind option_map opt_list]. rewrite assemble_one. reflexivity.
    + (* a map *)
      assert (Hkk : kk = KString).
      { unfold buildable in Hb. rewrite Hf in Hb. cbn [forallb] in Hb. rewrite Hc in Hb.
        apply kind_eqb_string. destruct (kind_eqb kk KString); [reflexivity|discriminate Hb]. }
      subst kk.
      destruct (wt_entry_map sc f KString x Hc Hwe) as [e [kv [Hx [Hs HF]]]]. subst x.
      destruct (value_unwrap sc f) as [uf|] eqn:Evu.
      * destruct (is_repeated uf) eqn:Erep; [|discriminate Hbody].
        destruct (combined_rt E EL sc f KString uf (e :: kv) j Evu Erep Hdom HF Hs Hbody) as [Hnn Hun].
        rewrite (decode_unwrap_root E sc tn md f j Hwk Hlk Hown Hb Hf Hnn).
        unfold root_un. rewrite Hc, Evu, Erep, Hun. cbn [rbind option_map opt_list]. rewrite assemble_one. reflexivity.
      * destruct (is_msg_kind (f_kind f)) eqn:Emk.
        -- apply rbind_ok in Hbody. destruct Hbody as [es [Hes Hj]]. inversion Hj; subst j.
           pose proof (msg_map_rt E EL sc KString (f_kind f) (e :: kv) es HF Hes) as Hr.
           rewrite (decode_unwrap_root E sc tn md f _ Hwk Hlk Hown Hb Hf) by discriminate.
           unfold root_un. rewrite Hc, Evu, Emk.
           eapply rbind_of_eq; [eapply rbind_of_eq; [eapply rbind_of_eq; [exact Hr|reflexivity]|reflexivity]|].
           cbv beta. cbn [option_map opt_list]. rewrite (sorted_key_sort (e :: kv) Hs), assemble_one. reflexivity.
        -- cbn [negb] in Hks. cbn [orb] in Hdom.
           assert (Hgj : gj_fval E sc (f_kind f) (FMap (e :: kv)) = ROk j).
           { destruct (gj_fval E sc (f_kind f) (FMap (e :: kv))) as [j0|er|w]; inversion Hks; subst ks;
               cbn [kid] in Hbody; rewrite str_eqb_refl in Hbody; [exact Hbody|discriminate Hbody]. }
           pose proof (defects_enum_defined tn md f (FMap (e :: kv)) Hlk Hown Hf Emk Hdef) as Hu.
           assert (HO : Forall (fun p => elem_ok sc (f_kind f) (snd p) = true) (e :: kv)).
           { apply Forall_forall. intros p Hp.
             pose proof (elems_ok_of_defects (f_kind f) [snd p] (FMap (e :: kv)) Hdom Hu) as Hx.
             assert (Hall : Forall (fun y => elem_ok sc (f_kind f) y = true) [snd p]).
             { apply Hx. intros y n [Hy|[]] Hn. subst y. eapply enum_nums_FMap_in; eauto. }
             inversion Hall; assumption. }
           destruct (scalar_root_map_rt E EL sc (json_size j) (f_kind f) (e :: kv) j Emk HF HO Hs Hgj) as [Hnn Hun].
           rewrite (decode_unwrap_root E sc tn md f j Hwk Hlk Hown Hb Hf Hnn).
           unfold root_un. rewrite Hc, Evu, Emk, Hun. cbn [rbind option_map opt_list]. rewrite assemble_one. reflexivity.
Qed.
(* the shapes whose elements are messages (root list, root map, combined with message items): no side
   condition at all, and the defect classifier has nothing to say *)
Definition msg_elems (md : message) : bool :=
  match m_fields md with
  | [f] => is_msg_kind (f_kind f) &&
           match value_unwrap sc f with Some uf => is_msg_kind (f_kind uf) | None => true end
  | _ => false
  end.

Lemma defects_msg_shape tn md f m :
  lookup_message sc tn = Some md -> owner_of sc md = Own FtUnwrapRoot -> m_fields md = [f] ->
  is_msg_kind (f_kind f) = true -> (m = [] \/ exists x, m = [(f_name f, x)]) ->
  defects_C04 sc tn m = [].
Proof.
  intros Hlk Hown Hf Hk Hm.
  assert (Howns : owns sc tn = true) by (unfold owns; rewrite Hlk, Hown; reflexivity).
  unfold defects_C04. rewrite Howns.
  destruct Hm as [Hm|[x Hm]]; subst m; cbn [gj_defects]; rewrite Hlk, Hown; unfold local_defects; rewrite Hown.
  - reflexivity.
  - rewrite Hf. cbn [existsb find_field fst snd]. rewrite str_eqb_refl. cbn [needs_gj]. rewrite Hk. reflexivity.
Qed.

Theorem unwrap_root_roundtrip_messages : forall tn md m j,
  str_eqb tn ts_name = false -> is_wkt_other tn = false ->
  find_message (all_messages sc) tn = Some md -> owner_of sc md = Own FtUnwrapRoot ->
  msg_elems md = true ->
  wt sc (KMessage tn) (FM m) = true ->
  encode E sc tn m = ROk j -> decode E sc tn j = ROk (norm sc tn m).
Proof.
  intros tn md m j Hts Hwk Hfm Hown Hme Hwt Henc.
  assert (Hlk : lookup_message sc tn = Some md) by (unfold lookup_message; rewrite Hts; exact Hfm).
  destruct (root_unwrap_fields md (owner_root_unwrap sc md Hown)) as [f [Hf _]].
  unfold msg_elems in Hme. rewrite Hf in Hme. apply andb_prop in Hme. destruct Hme as [Hk Hu].
  apply (unwrap_root_roundtrip tn md m j Hts Hwk Hfm Hown); try assumption.
  - unfold unwrap_root_dom. rewrite Hf. destruct (value_unwrap sc f) as [uf|].
    + unfold uf_ok. rewrite Hu. reflexivity.
    + rewrite Hk. reflexivity.
  - apply (defects_msg_shape tn md f m Hlk Hown Hf Hk).
    destruct (wt_root_single sc tn md f m Hts Hfm Hf Hwt) as [_ [Hm|[x [Hm _]]]]; [left; exact Hm|right; exists x; exact Hm].
Qed.
End Main.
Close Scope Z_scope.
