(* MockFacts.v — facts about the mock model (Mock.v) used by props/C20.v *)
From Sebuf Require Import Text Json Schema Num Emit Mock.
From SebufProofs Require Import TextFacts EmitFacts.

Lemma gotype_eqb_refl t : gotype_eqb t t = true.
Proof.
  induction t; cbn; try reflexivity; try apply str_eqb_refl; auto.
  now rewrite IHt1, IHt2.
Qed.

Lemma mem_str_in x l : mem_str x l = true -> In x l.
Proof.
  unfold mem_str. intros H. apply existsb_exists in H as (y & Hy & E). apply str_eqb_eq in E. now subst.
Qed.

(* ---- a property of walks that is preserved by the traversal ----------------------------------- *)
Section Preserved.
  Variable P : walk -> Prop.
  Hypothesis P_empty : P w_empty.
  Hypothesis P_app : forall a b, P a -> P b -> P (w_app a b).

  Lemma walk_fields_preserves step fs :
    (forall f a, In f fs -> step f = Some a -> P a) ->
    forall w, walk_fields step fs = Some w -> P w.
  Proof.
    induction fs as [|f r IH]; intros Hs w; cbn.
    - intros H. inversion H. apply P_empty.
    - destruct (step f) as [a|] eqn:Ea; [|discriminate].
      destruct (walk_fields step r) as [b|] eqn:Eb; [|discriminate].
      intros H. inversion H. subst. apply P_app.
      + apply (Hs f); [now left|assumption].
      + apply IH; [|reflexivity]. intros g c Hg. apply Hs. now right.
  Qed.
End Preserved.

(* ---- C20_builds: no tag => every assignment type-checks --------------------------------------- *)
Definition builds_ok (w : walk) : Prop := w_tags w = [] -> all_ok (w_checks w) = true.

Lemma builds_ok_empty : builds_ok w_empty.
Proof. intros _. reflexivity. Qed.
Lemma builds_ok_app a b : builds_ok a -> builds_ok b -> builds_ok (w_app a b).
Proof.
  unfold builds_ok. cbn. intros Ha Hb H. apply app_eq_nil in H as [H1 H2].
  rewrite all_ok_app. now rewrite Ha, Hb.
Qed.

Lemma field_walk_builds onp sub fl ex ft m p f a :
  (forall n p' w, sub n p' = Some w -> builds_ok w) ->
  field_walk onp sub fl ex ft m p f = Some a -> builds_ok a.
Proof.
  intros Hsub. unfold field_walk.
  set (own := {| w_checks := []; w_leaves := []; w_present := []; w_tags := shape_tags f ++ example_tags fl ex ft m f |}).
  assert (Hown : forall b, (shape_tags f = [] -> builds_ok b) -> builds_ok (w_app own b)).
  { intros b Hb. unfold builds_ok. cbn. intros H. apply app_eq_nil in H as [H1 H2].
    apply app_eq_nil in H1 as [H1 _]. now apply Hb. }
  destruct (f_card f) as [| | |kk] eqn:Ec.
  - (* singular *)
    destruct (f_kind f) eqn:Ek;
      try (cbn [mock_kind]; intros H; inversion H; subst; clear H;
           first [ apply Hown; intros Hs; intros _; unfold shape_tags in Hs; rewrite Ec, Ek in Hs; cbn in Hs;
                   unfold all_ok; cbn [forallb w_checks ck_ok]; unfold assign_check, go_field_type; rewrite Ec, Ek;
                   unfold in_real_oneof in Hs; destruct (f_oneof f); cbn in *; try discriminate; reflexivity
                 | intros Hs; reflexivity ]).
    destruct (onp tn); [intros H; inversion H; intros _; reflexivity|].
    destruct (sub tn (join_path p (f_name f))) as [w|] eqn:Es; [|discriminate].
    intros H. inversion H. subst. clear H. apply Hown. intros Hs.
    apply builds_ok_app; [|destruct (in_real_oneof f); [intros _; reflexivity|now apply (Hsub _ _ _ Es)]].
    intros _. unfold shape_tags in Hs. rewrite Ec, Ek in Hs. apply tag_if_nil in Hs.
    unfold all_ok. cbn [forallb w_checks ck_ok]. unfold assign_check, go_field_type. rewrite Ec, Ek.
    unfold in_real_oneof in Hs. destruct (f_oneof f); [discriminate|]. cbn. now rewrite str_eqb_refl.
  - (* optional *)
    destruct (f_kind f) eqn:Ek;
      try (cbn [mock_kind]; intros H; inversion H; subst; clear H;
           first [ apply Hown; intros Hs; exfalso; unfold shape_tags in Hs; rewrite Ec, Ek in Hs; cbn in Hs;
                   destruct (in_real_oneof f); cbn in Hs; discriminate
                 | intros Hs; reflexivity ]).
    destruct (onp tn); [intros H; inversion H; intros _; reflexivity|].
    destruct (sub tn (join_path p (f_name f))) as [w|] eqn:Es; [|discriminate].
    intros H. inversion H. subst. clear H. apply Hown. intros Hs.
    apply builds_ok_app; [|destruct (in_real_oneof f); [intros _; reflexivity|now apply (Hsub _ _ _ Es)]].
    intros _. unfold all_ok. cbn [forallb w_checks ck_ok]. unfold assign_check, go_field_type. rewrite Ec, Ek. cbn.
    now rewrite str_eqb_refl.
  - (* repeated *)
    destruct (f_kind f) eqn:Ek;
      try (cbn [mock_kind]; intros H; inversion H; subst; clear H;
           first [ apply Hown; intros Hs; exfalso; unfold shape_tags in Hs; rewrite Ec, Ek in Hs; cbn in Hs;
                   destruct (in_real_oneof f); cbn in Hs; discriminate
                 | intros Hs; reflexivity ]).
  - (* map *)
    destruct (f_kind f) eqn:Ek;
      try (intros H; inversion H; subst; clear H; apply Hown; intros Hs; intros _;
           unfold shape_tags in Hs; rewrite Ec, Ek in Hs; apply tag_if_nil in Hs; apply negb_false_iff in Hs;
           unfold all_ok; cbn [forallb w_checks ck_ok mk]; rewrite andb_true_r; exact Hs).
    destruct (onp tn); [intros H; inversion H; intros _; reflexivity|].
    destruct (sub tn _) as [w|] eqn:Es; [|discriminate].
    intros H. inversion H. subst. clear H. apply Hown. intros Hs. apply builds_ok_app; [|now apply (Hsub _ _ _ Es)].
    intros _. reflexivity.
Qed.

Lemma mock_walk_preserves (P : walk -> Prop) sc fl ex ft :
  P w_empty -> (forall a b, P a -> P b -> P (w_app a b)) ->
  (forall p, P (timestamp_walk p)) ->
  (forall onp sub m p f a, (forall n p' w, sub n p' = Some w -> P w) -> field_walk onp sub fl ex ft m p f = Some a -> P a) ->
  forall fuel path m p w, mock_walk fuel sc fl ex ft path m p = Some w -> P w.
Proof.
  intros He Ha Ht Hf. induction fuel as [|fu IH]; intros path m p w; cbn [mock_walk]; [discriminate|].
  apply walk_fields_preserves; [exact He|exact Ha|].
  intros f a _ Hfa. eapply Hf; [|exact Hfa].
  intros n p' w' Hs. cbn beta in Hs.
  destruct (str_eqb n (s "google.protobuf.Timestamp")).
  - inversion Hs. apply Ht.
  - destruct (find_message (all_messages sc) n) as [t|]; [|discriminate]. now apply (IH (m_name m :: path) t p').
Qed.

Lemma mock_walk_builds sc fl ex ft fuel path m p w :
  mock_walk fuel sc fl ex ft path m p = Some w -> builds_ok w.
Proof.
  apply (mock_walk_preserves builds_ok).
  - apply builds_ok_empty.
  - apply builds_ok_app.
  - intros q H. cbn in H. discriminate.
  - intros onp sub m' p' f a Hs. now apply field_walk_builds.
Qed.

Lemma opt_all_in {A} (l : list (option A)) ws : opt_all l = Some ws -> forall x, In x ws -> In (Some x) l.
Proof.
  revert ws; induction l as [|o r IH]; intros ws; cbn.
  - intros H. inversion H. contradiction.
  - destruct o as [a|]; [|discriminate]. destruct (opt_all r) as [y|]; [|discriminate].
    intros H. inversion H. subst. intros x [->|Hx]; [now left|]. right. now apply (IH y).
Qed.

Lemma rpc_walks_in sc ex ft ws : rpc_walks sc ex ft = Some ws ->
  forall x, In x ws -> exists fl md, rpc_walk sc ex ft fl md = Some (snd x).
Proof.
  unfold rpc_walks. intros H x Hx. pose proof (opt_all_in _ _ H x Hx) as Hin.
  apply in_flat_map in Hin as (fl & _ & Hin). apply in_flat_map in Hin as (sv & _ & Hin).
  apply in_map_iff in Hin as (md & Hmd & _). exists fl, md.
  destruct (rpc_walk sc ex ft fl md); cbn in Hmd; [|discriminate]. inversion Hmd. reflexivity.
Qed.

Theorem mock_builds_lemma : forall sc ex ft ws,
  accepted sc = true -> rpc_walks sc ex ft = Some ws -> defects_C20 sc ws = [] -> mock_builds sc ws = true.
Proof.
  intros sc ex ft ws Hacc Hw Hd. unfold defects_C20 in Hd. apply dedup_nil in Hd. apply app_eq_nil in Hd as [Hg Hm].
  unfold mock_builds. apply andb_true_iff. split.
  - apply (go_builds_and_vets sc Both Hacc). unfold defects_go. now rewrite Hg.
  - unfold mock_checks. rewrite all_ok_flat_map. apply forallb_in. intros x Hx.
    destruct (rpc_walks_in _ _ _ _ Hw x Hx) as (fl & md & Hr).
    unfold rpc_walk in Hr. destruct (output_msg sc md); [|discriminate].
    apply (mock_walk_builds _ _ _ _ _ _ _ _ _ Hr). now apply (flat_map_nil _ _ Hm).
Qed.

(* ---- C20_examples_used ------------------------------------------------------------------------- *)
Definition leaf_ok (ft : ftab) (l : leaf) : Prop :=
  lf_decl l <> [] -> lf_values l <> [] /\
  forall v, In v (lf_values l) -> exists e, In e (lf_decl l) /\ parse_as ft (lf_kind l) e = Some v.
Definition examples_ok (ft : ftab) (w : walk) : Prop := w_tags w = [] -> forall l, In l (w_leaves w) -> leaf_ok ft l.

Lemma examples_ok_app ft a b : examples_ok ft a -> examples_ok ft b -> examples_ok ft (w_app a b).
Proof.
  unfold examples_ok. cbn. intros Ha Hb H l Hl. apply app_eq_nil in H as [H1 H2].
  apply in_app_or in Hl as [Hl|Hl]; auto.
Qed.

Lemma sel_values_parsed ft mkd stored decl fname :
  decl <> [] -> same_examples stored decl = true ->
  existsb (fun x => match parse_as ft mkd x with Some _ => false | None => true end) decl = false ->
  let vals := match mkd with
              | MStr => sel_string stored fname | MInt => sel_int stored
              | MBool => sel_bool stored | MFloat => sel_float ft stored end in
  vals <> [] /\ forall v, In v vals -> exists e, In e decl /\ parse_as ft mkd e = Some v.
Proof.
  intros Hne Hsame Hpar. unfold same_examples in Hsame. apply andb_true_iff in Hsame as [Hlen Hsub].
  apply Nat.eqb_eq in Hlen.
  assert (Hst : stored <> []) by (destruct stored, decl; cbn in *; congruence).
  assert (Hin : forall x, In x stored -> In x decl /\ exists v, parse_as ft mkd x = Some v).
  { intros x Hx. pose proof (proj1 (forallb_forall _ _) Hsub x Hx) as Hm. apply mem_str_in in Hm. split; [assumption|].
    pose proof (existsb_false _ _ Hpar x Hm) as Hp. cbn beta in Hp. destruct (parse_as ft mkd x); [eauto|discriminate]. }
  destruct mkd; cbn [parse_as] in *.
  - unfold sel_string. destruct stored as [|x r]; [congruence|]. split; [discriminate|].
    intros v Hv. exists v. split; [now apply Hin|reflexivity].
  - unfold sel_int. destruct stored as [|x r] eqn:E; [congruence|]. rewrite <- E in *. clear E x r. split.
    + destruct stored as [|x r]; [congruence|]. cbn. destruct (parse_int 64 x); discriminate.
    + intros v Hv. apply in_flat_map in Hv as (x & Hx & Hv). destruct (Hin x Hx) as (Hd & v' & Hp).
      exists x. split; [assumption|]. destruct (parse_int 64 x); cbn in *; [|discriminate].
      destruct Hv as [<-|[]]. reflexivity.
  - unfold sel_bool. destruct stored as [|x r] eqn:E; [congruence|]. rewrite <- E in *. clear E x r. split.
    + destruct stored as [|x r]; [congruence|]. cbn. destruct (parse_bool x); discriminate.
    + intros v Hv. apply in_flat_map in Hv as (x & Hx & Hv). destruct (Hin x Hx) as (Hd & v' & Hp).
      exists x. split; [assumption|]. destruct (parse_bool x); cbn in *; [|discriminate].
      destruct Hv as [<-|[]]. reflexivity.
  - unfold sel_float. destruct stored as [|x r] eqn:E; [congruence|]. rewrite <- E in *. clear E x r. split.
    + destruct stored as [|x r]; [congruence|]. cbn. destruct (ft_lookup ft x); discriminate.
    + intros v Hv. apply in_flat_map in Hv as (x & Hx & Hv). destruct (Hin x Hx) as (Hd & v' & Hp).
      exists x. split; [assumption|]. destruct (ft_lookup ft x); cbn in *; [|discriminate].
      destruct Hv as [<-|[]]. reflexivity.
Qed.

Lemma scalar_leaf_ok fl ex ft m f mkd q :
  mock_kind (f_kind f) = Some mkd -> is_map f = false -> example_tags fl ex ft m f = [] ->
  leaf_ok ft {| lf_path := q; lf_values := values_of fl ex ft m f mkd; lf_kind := mkd; lf_decl := declared_examples ex m f |}.
Proof.
  intros Hk Hm Het. unfold leaf_ok. cbn [lf_decl lf_values lf_kind]. intros Hd.
  unfold example_tags, handled in Het. rewrite Hk, Hm in Het. cbn [negb andb] in Het.
  destruct (declared_examples ex m f) as [|d0 dr] eqn:Ed; [congruence|].
  destruct (same_examples (stored_examples fl ex m f) (d0 :: dr)) eqn:Es; cbn [negb] in Het; [|discriminate].
  apply tag_if_nil in Het. unfold values_of.
  pose proof (sel_values_parsed ft mkd (stored_examples fl ex m f) (d0 :: dr) (f_name f) Hd Es Het) as H.
  destruct mkd; exact H.
Qed.

Lemma field_walk_examples onp sub fl ex ft m p f a :
  (forall n p' w, sub n p' = Some w -> examples_ok ft w) ->
  field_walk onp sub fl ex ft m p f = Some a -> examples_ok ft a.
Proof.
  intros Hsub. unfold field_walk.
  set (own := {| w_checks := []; w_leaves := []; w_present := []; w_tags := shape_tags f ++ example_tags fl ex ft m f |}).
  assert (Hown : forall b, (example_tags fl ex ft m f = [] -> examples_ok ft b) -> examples_ok ft (w_app own b)).
  { intros b Hb. unfold examples_ok. cbn. intros H l Hl. apply app_eq_nil in H as [H1 H2].
    apply app_eq_nil in H1 as [_ H1]. now apply (Hb H1 H2). }
  assert (Hnone : examples_ok ft own) by (intros _ l []).
  assert (Hleaf : forall mkd q c, mock_kind (f_kind f) = Some mkd -> is_map f = false ->
            examples_ok ft (w_app own {| w_checks := c;
               w_leaves := [ {| lf_path := q; lf_values := values_of fl ex ft m f mkd; lf_kind := mkd; lf_decl := declared_examples ex m f |} ];
               w_present := []; w_tags := [] |})).
  { intros mkd q c Hk Hm. apply Hown. intros Het _ l [<-|[]]. now apply scalar_leaf_ok. }
  assert (Hsubw : forall n q c pr w (b : bool), sub n q = Some w ->
            examples_ok ft (w_app own (w_app {| w_checks := c; w_leaves := []; w_present := pr; w_tags := [] |} (if b then w_mute w else w)))).
  { intros n q c pr w b Es. apply Hown. intros _. apply examples_ok_app; [intros _ l []|].
    destruct b; [|now apply (Hsub _ _ _ Es)]. exact (Hsub _ _ _ Es). }
  destruct (f_card f) as [| | |kk] eqn:Ec.
  4: { destruct (f_kind f) eqn:Ek;
         try (intros H; inversion H; subst; clear H; apply Hown; intros _ _ l [<-|[]]; intros Hd; now cbn in Hd).
       destruct (onp tn); [intros H; inversion H; intros _ l []|].
       destruct (sub tn _) as [w|] eqn:Es; [|discriminate]. intros H. inversion H. subst. clear H. exact (Hsubw _ _ _ _ _ false Es). }
  all: assert (Hm : is_map f = false) by (unfold is_map; now rewrite Ec).
  all: destruct (f_kind f) eqn:Ek; cbn [mock_kind].
  all: try solve [intros H; inversion H; subst; clear H; exact Hnone].
  all: try solve [intros H; inversion H; subst; clear H; exact (Hleaf _ _ _ eq_refl Hm)].
  all: try solve [destruct (onp tn); [intros H; inversion H; intros _ l []|];
                  destruct (sub tn (join_path p (f_name f))) as [w|] eqn:Es; [|discriminate]; intros H; inversion H; subst; clear H;
                  exact (Hsubw _ _ _ _ _ _ Es)].
Qed.

Lemma mock_walk_examples sc fl ex ft fuel path m p w :
  mock_walk fuel sc fl ex ft path m p = Some w -> examples_ok ft w.
Proof.
  apply (mock_walk_preserves (examples_ok ft)).
  - intros _ l [].
  - apply examples_ok_app.
  - intros q H. cbn in H. discriminate.
  - intros onp sub m' p' f a Hs. now apply field_walk_examples.
Qed.

Theorem examples_used_lemma : forall sc ex ft ws,
  rpc_walks sc ex ft = Some ws -> mock_tags ws = [] ->
  forall rpc w l, In (rpc, w) ws -> In l (w_leaves w) -> lf_decl l <> [] ->
  lf_values l <> [] /\ forall v, In v (lf_values l) -> exists e, In e (lf_decl l) /\ parse_as ft (lf_kind l) e = Some v.
Proof.
  intros sc ex ft ws Hw Ht rpc w l Hin Hl Hd.
  destruct (rpc_walks_in _ _ _ _ Hw _ Hin) as (fl & md & Hr). cbn [snd] in Hr.
  unfold rpc_walk in Hr. destruct (output_msg sc md); [|discriminate].
  apply (mock_walk_examples _ _ _ _ _ _ _ _ _ Hr); auto.
  now apply (flat_map_nil _ _ Ht (rpc, w)).
Qed.

(* ---- the guarded walk terminates on every closed schema, recursive or not (1e0a1c9) ---------------- *)
Definition msg_names (sc : schema) : list str := map m_name (all_messages sc).
(* every message-typed field refers to Timestamp or to a message of the schema *)
Definition closed (sc : schema) : Prop :=
  forall m f n, In m (all_messages sc) -> In f (m_fields m) -> f_kind f = KMessage n ->
    n = s "google.protobuf.Timestamp" \/ exists t, find_message (all_messages sc) n = Some t.

Lemma find_message_some ms n t : find_message ms n = Some t -> In t ms /\ m_name t = n.
Proof.
  induction ms as [|a r IH]; cbn; [discriminate|]. destruct (str_eqb (m_name a) n) eqn:E.
  - intros H. inversion H. subst. split; [now left|now apply str_eqb_eq].
  - intros H. destruct (IH H). split; [now right|assumption].
Qed.

Lemma mem_str_false x l : mem_str x l = false -> ~ In x l.
Proof.
  unfold mem_str. intros H Hin. pose proof (existsb_false _ _ H x Hin) as E. cbn beta in E.
  now rewrite str_eqb_refl in E.
Qed.

Lemma walk_fields_some step fs : (forall f, In f fs -> step f <> None) -> walk_fields step fs <> None.
Proof.
  induction fs as [|f r IH]; cbn; intros H; [discriminate|].
  destruct (step f) eqn:E; [|exfalso; apply (H f); [now left|assumption]].
  destruct (walk_fields step r) eqn:Er; [discriminate|]. exfalso. exact (IH (fun g Hg => H g (or_intror Hg)) eq_refl).
Qed.

Lemma field_walk_some onp sub fl ex ft m p f :
  (forall n p', f_kind f = KMessage n -> onp n = false -> sub n p' <> None) ->
  field_walk onp sub fl ex ft m p f <> None.
Proof.
  intros H. unfold field_walk.
  destruct (f_card f); destruct (f_kind f) as [| | | | | | | | | | | | | | |en|tn] eqn:Ek; cbn [mock_kind]; try discriminate.
  all: destruct (onp tn) eqn:Eo; [discriminate|].
  all: destruct (sub tn _) as [w|] eqn:Es; [discriminate|exfalso; exact (H _ _ eq_refl Eo Es)].
Qed.

Theorem mock_walk_terminates sc fl ex ft : closed sc ->
  forall fuel path m p, In m (all_messages sc) -> NoDup path -> incl path (msg_names sc) -> ~ In (m_name m) path ->
    List.length (msg_names sc) < fuel + List.length path ->
    mock_walk fuel sc fl ex ft path m p <> None.
Proof.
  intros Hc. induction fuel as [|fu IH]; intros path m p Hm Hnd Hincl Hnin Hlen.
  - exfalso. assert (Hn : NoDup (m_name m :: path)) by now constructor.
    assert (Hi : incl (m_name m :: path) (msg_names sc)).
    { intros x [<-|Hx]; [unfold msg_names; now apply in_map|now apply Hincl]. }
    pose proof (NoDup_incl_length Hn Hi) as Hle. cbn in *. lia.
  - cbn [mock_walk]. apply walk_fields_some. intros f Hf. apply field_walk_some. intros n p' Hk Honp. cbn beta.
    destruct (str_eqb n (s "google.protobuf.Timestamp")) eqn:Et; [discriminate|].
    destruct (Hc m f n Hm Hf Hk) as [->|(t & Ht)]; [now rewrite str_eqb_refl in Et|].
    rewrite Ht. destruct (find_message_some _ _ _ Ht) as [Hint Hname].
    apply IH.
    + assumption.
    + now constructor.
    + intros x [<-|Hx]; [unfold msg_names; now apply in_map|now apply Hincl].
    + rewrite Hname. now apply mem_str_false.
    + cbn [List.length]. lia.
Qed.

Theorem rpc_walk_terminates sc ex ft fl md m : closed sc -> output_msg sc md = Some m -> rpc_walk sc ex ft fl md <> None.
Proof.
  intros Hc Ho. unfold rpc_walk. rewrite Ho. unfold output_msg in Ho. destruct (find_message_some _ _ _ Ho) as [Hin _].
  apply mock_walk_terminates; try assumption.
  - constructor.
  - intros x [].
  - intros [].
  - unfold walk_fuel, msg_names. rewrite map_length. cbn. lia.
Qed.

(* ---- witnesses ----------------------------------------------------------------------------------- *)
Local Open Scope string_scope.
Definition mock_file (ms : list message) (out : string) : schema :=
  [file_of "a.proto" (msg "Req" [fld "id" KString Singular None []] [] :: ms) [] [svc "S" [] [rpc "Get" "Req" out 2 "/get" []]]].
Definition exs (l : list (string * string * list string)) : extab :=
  map (fun t => (s ("p.v1." ++ fst (fst t)), s (snd (fst t)), map s (snd t))) l.
Definition nested (outer inner : string) (fs : list field) : message :=
  {| m_name := s ("p.v1." ++ outer ++ "." ++ inner); m_path := [s outer; s inner]; m_fields := fs; m_oneofs := [] |}.
Definition KN outer inner := KMessage (s ("p.v1." ++ outer ++ "." ++ inner)).

Definition good_mock : mcase :=
  (mock_file [msg "Inner" [fld "label" KString Singular None []; fld "hits" KInt64 Singular None []] [];
              msg "Resp" [fld "title" KString Singular None []; fld "count" KInt64 Singular None []; fld "ok" KBool Singular None [];
                          fld "ratio" KDouble Singular None []; fld "inner" (M "Inner") Singular None []; fld "maybe" (M "Inner") Optional None [];
                          fld "by_key" (M "Inner") (MapOf KString) None []; fld "counts" KInt64 (MapOf KInt32) None [];
                          fld "tags" (M "Inner") Repeated None []; fld "u" KUint32 Singular None []] []] "Resp",
   exs [("Resp", "title", ["first"; "second"]); ("Resp", "count", ["7"; "-3"]); ("Resp", "ok", ["t"; "0"]); ("Resp", "ratio", ["1.5"]);
        ("Inner", "label", ["alpha"])],
   [(s "1.5", Some (s "1.5"))]).

Definition case_walks (c : mcase) := let '(sc, ex, ft) := c in rpc_walks sc ex ft.
Definition case_defects (c : mcase) := let '(sc, ex, ft) := c in option_map (defects_C20 sc) (rpc_walks sc ex ft).
Definition case_builds (c : mcase) := let '(sc, ex, ft) := c in option_map (mock_builds sc) (rpc_walks sc ex ft).
Definition case_leaf (c : mcase) (path : string) : option (list str) :=
  match case_walks c with
  | Some [(_, w)] => option_map (fun l => sort_strs (dedup (lf_values l))) (find (fun l => str_eqb (lf_path l) (s path)) (w_leaves w))
  | _ => None
  end.

Lemma good_mock_facts :
  let '(sc, _, _) := good_mock in accepted sc = true /\
  case_defects good_mock = Some [] /\ case_builds good_mock = Some true /\
  case_leaf good_mock "title" = Some [s "first"; s "second"] /\
  case_leaf good_mock "count" = Some [s "-3"; s "7"] /\
  case_leaf good_mock "ok" = Some [s "false"; s "true"] /\
  case_leaf good_mock "ratio" = Some [s "1.5"] /\
  case_leaf good_mock "inner.label" = Some [s "alpha"] /\
  case_leaf good_mock "by_key[sample_key].hits" = Some [s "42"] /\
  case_leaf good_mock "counts[1]" = Some [s "42"].
Proof. vm_compute. repeat split; reflexivity. Qed.

Definition mock_one (f : field) : mcase := (mock_file [msg "Resp" [fld "title" KString Singular None []; f] []] "Resp", [], []).
Definition build_refuted (c : mcase) (tag : string) : Prop :=
  case_defects c = Some [s tag] /\ case_builds c = Some false.

Lemma w_mock_narrow_int32 : build_refuted (mock_one (fld "n" KInt32 Singular None [])) "mock-narrow-number".
Proof. vm_compute. split; reflexivity. Qed.
Lemma w_mock_narrow_float : build_refuted (mock_one (fld "x" KFloat Singular None [])) "mock-narrow-number".
Proof. vm_compute. split; reflexivity. Qed.
Lemma w_mock_timestamp : build_refuted (mock_one (fld "at" ts_kind Singular None [])) "mock-timestamp-nanos".
Proof. vm_compute. split; reflexivity. Qed.
Lemma w_mock_optional : build_refuted (mock_one (fld "nick" KString Optional None [])) "mock-optional-scalar".
Proof. vm_compute. split; reflexivity. Qed.
Lemma w_mock_repeated : build_refuted (mock_one (fld "names" KString Repeated None [])) "mock-repeated-scalar".
Proof. vm_compute. split; reflexivity. Qed.
Lemma w_mock_oneof : build_refuted (mock_file [msg "Resp" [fld "a" KString Singular (Some "c") []; fld "b" KUint32 Singular (Some "c") []] [plain_oneof "c"]] "Resp", [], [])
  "mock-oneof-member".
Proof. vm_compute. split; reflexivity. Qed.
Lemma w_mock_map_enum : build_refuted (mock_one (fld "m" (KEnum (s "p.v1.Color")) (MapOf KString) None [])) "mock-map-value-kind".
Proof. vm_compute. split; reflexivity. Qed.
Lemma w_mock_map_bytes : build_refuted (mock_one (fld "m" KBytes (MapOf KString) None [])) "mock-map-value-kind".
Proof. vm_compute. split; reflexivity. Qed.

(* examples: the package builds, the value a field takes is not one of its parsed examples *)
Definition nested_case : mcase :=
  (mock_file [msg "Resp" [fld "inner" (KN "Resp" "Inner") Singular None []] []; nested "Resp" "Inner" [fld "label" KString Singular None []]] "Resp",
   [(s "p.v1.Resp.Inner", s "label", [s "n1"; s "n2"])], []).
Lemma w_mock_examples_not_found :
  case_defects nested_case = Some [s "mock-examples-not-found"] /\ case_builds nested_case = Some true /\
  case_leaf nested_case "inner.label" = Some [s "example string"].
Proof. vm_compute. repeat split; reflexivity. Qed.

Definition homonym_case : mcase :=
  (mock_file [msg "Inner" [fld "label" KString Singular None []] [];
              msg "Resp" [fld "inner" (KN "Resp" "Inner") Singular None []] []; nested "Resp" "Inner" [fld "label" KString Singular None []]] "Resp",
   exs [("Inner", "label", ["top1"; "top2"])], []).
Lemma w_mock_examples_of_homonym :
  case_defects homonym_case = Some [s "mock-examples-of-homonym"] /\ case_builds homonym_case = Some true /\
  case_leaf homonym_case "inner.label" = Some [s "top1"; s "top2"].
Proof. vm_compute. repeat split; reflexivity. Qed.

Definition unparsable_case : mcase :=
  (mock_file [msg "Resp" [fld "count" KInt64 Singular None []] []] "Resp", exs [("Resp", "count", ["12"; "abc"; "1_000"; "9223372036854775808"])], []).
Lemma w_mock_unparsable :
  case_defects unparsable_case = Some [s "mock-unparsable-example"] /\ case_builds unparsable_case = Some true /\
  case_leaf unparsable_case "count" = Some [s "12"; s "42"].
Proof. vm_compute. repeat split; reflexivity. Qed.

Definition ignored_case : mcase :=
  (mock_file [msg "Resp" [fld "title" KString Singular None []; fld "u" KUint32 Singular None []] []] "Resp", exs [("Resp", "u", ["7"])], []).
Lemma w_mock_ignored :
  case_defects ignored_case = Some [s "mock-examples-ignored-kind"] /\ case_builds ignored_case = Some true /\
  case_leaf ignored_case "u" = None.
Proof. vm_compute. repeat split; reflexivity. Qed.

(* recursive response types (possible since 1e0a1c9): self-recursive through a singular field, a
   repeated field and a map value; mutually recursive *)
Definition self_recursive_case : mcase :=
  (mock_file [msg "Resp" [fld "v" KString Singular None []; fld "next" (M "Resp") Singular None []; fld "opt" (M "Resp") Optional None [];
                          fld "kids" (M "Resp") Repeated None []; fld "by" (M "Resp") (MapOf KString) None []; fld "n" KInt64 Singular None []] []] "Resp",
   exs [("Resp", "v", ["a"; "b"])], []).
Definition case_present (c : mcase) : option (list str) :=
  match case_walks c with Some [(_, w)] => Some (sort_strs (w_present w)) | _ => None end.
Lemma self_recursive_facts :
  case_defects self_recursive_case = Some [] /\ case_builds self_recursive_case = Some true /\
  case_present self_recursive_case = Some [] /\
  case_leaf self_recursive_case "v" = Some [s "a"; s "b"] /\ case_leaf self_recursive_case "n" = Some [s "42"] /\
  case_leaf self_recursive_case "next.v" = None /\ case_leaf self_recursive_case "by[sample_key].v" = None.
Proof. vm_compute. repeat split; reflexivity. Qed.

Definition mutual_case : mcase :=
  (mock_file [msg "Resp" [fld "b" (M "B") Singular None []; fld "title" KString Singular None []] [];
              msg "B" [fld "a" (M "Resp") Singular None []; fld "n" KInt64 Singular None []; fld "m" (M "Resp") (MapOf KInt32) None [];
                       fld "c" (M "C") Singular None []] [];
              msg "C" [fld "b" (M "B") Singular None []; fld "ok" KBool Singular None []; fld "self" (M "C") (MapOf KString) None []] []] "Resp",
   [], []).
Lemma mutual_facts :
  case_defects mutual_case = Some [] /\ case_builds mutual_case = Some true /\
  case_present mutual_case = Some [s "b"; s "b.c"] /\
  case_leaf mutual_case "b.n" = Some [s "42"] /\ case_leaf mutual_case "b.c.ok" = Some [s "true"] /\
  case_leaf mutual_case "b.a.title" = None.
Proof. vm_compute. repeat split; reflexivity. Qed.

(* ---- several RPCs / services answering with the same message -------------------------------------- *)
(* What the mock prints for an RPC depends on the file and the RESPONSE TYPE only, not on the service or
   the RPC: two RPCs (of one service or of two services of the file) that answer with the same message
   get the same assignments, obligations, value sets and defect tags. *)
Theorem same_response_same_walk sc ex ft fl md1 md2 :
  md_out md1 = md_out md2 -> rpc_walk sc ex ft fl md1 = rpc_walk sc ex ft fl md2.
Proof. unfold rpc_walk, output_msg. intros ->. reflexivity. Qed.

(* three services in one file; User is the response of four RPCs in three services, Empty of two *)
Definition shared_response_case : mcase :=
  ([file_of "a.proto"
      [msg "Req" [fld "id" KString Singular None []] [];
       msg "User" [fld "name" KString Singular None []; fld "age" KInt64 Singular None []; fld "next" (M "User") Singular None []] [];
       msg "Status" [fld "ok" KBool Singular None []; fld "user" (M "User") Singular None []; fld "by" (M "User") (MapOf KString) None []] [];
       msg "Empty" [] []] []
      [svc "UserService" ["X-Trace-ID"] [rpc "GetUser" "Req" "User" 2 "/g" []; rpc "FindUser" "Req" "User" 2 "/f" ["X-Trace-ID"]; rpc "PingUsers" "Req" "Empty" 2 "/p" []];
       svc "AdminService" ["X-Trace-ID"] [rpc "LookupUser" "Req" "User" 2 "/l" []; rpc "Stat" "Req" "Status" 2 "/s" []; rpc "PingAdmin" "Req" "Empty" 2 "/p" []];
       svc "AuditService" [] [rpc "LastUser" "Req" "User" 2 "/u" []; rpc "Audit" "Req" "Status" 2 "/a" []]]],
   exs [("User", "name", ["Ann"; "Bob"])], []).
Definition case_rpc_leaf (c : mcase) (rpc path : string) : option (list str) :=
  match case_walks c with
  | Some ws => match find (fun x => str_eqb (fst x) (s rpc)) ws with
               | Some (_, w) => option_map (fun l => sort_strs (dedup (lf_values l))) (find (fun l => str_eqb (lf_path l) (s path)) (w_leaves w))
               | None => None
               end
  | None => None
  end.
Lemma shared_response_facts :
  let '(sc, _, _) := shared_response_case in accepted sc = true /\
  case_defects shared_response_case = Some [] /\ case_builds shared_response_case = Some true /\
  option_map (@List.length _) (case_walks shared_response_case) = Some 8 /\
  case_rpc_leaf shared_response_case "UserService.GetUser" "name" = Some [s "Ann"; s "Bob"] /\
  case_rpc_leaf shared_response_case "UserService.FindUser" "name" = Some [s "Ann"; s "Bob"] /\
  case_rpc_leaf shared_response_case "AdminService.LookupUser" "name" = Some [s "Ann"; s "Bob"] /\
  case_rpc_leaf shared_response_case "AuditService.LastUser" "age" = Some [s "42"] /\
  case_rpc_leaf shared_response_case "AdminService.Stat" "user.name" = Some [s "Ann"; s "Bob"] /\
  case_rpc_leaf shared_response_case "AuditService.Audit" "by[sample_key].name" = Some [s "Ann"; s "Bob"].
Proof. vm_compute. repeat split; reflexivity. Qed.
