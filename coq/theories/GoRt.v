(* GoRt.v — behaviour of the emitted Go client and Go server for one call:
     client : internal/clientgen/generator.go generateURLBuilding / generateRPCMethodRequest /
              marshalRequest / unmarshalResponse / handleErrorResponse
     server : internal/httpgen/generator.go BindingMiddleware / bindPathParams / bindQueryParams /
              convertStringToFieldValue / bindDataBasedOnContentType / genericHandler / marshalResponse
   plus the parts of net/http they rely on (ServeMux matching of the registered patterns, clean-path
   redirect, url escaping).  Message bodies are carried as (format, value) pairs: the model says
   WHICH codec each side applies, not what the bytes are (that is C04/C05's subject). *)
From Sebuf Require Export Route Schema Value Num Url.

Inductive result (A : Type) := Ok (a : A) | Unmodelled (why : str).
Arguments Ok {A} a. Arguments Unmodelled {A} why.

(* ---- path templates ------------------------------------------------------------------------ *)
Inductive seg := SLit (x : str) | SVar (x : str).

Definition has_brace (x : str) : bool := in_chars lbrace x || in_chars rbrace x.

Definition seg_of (x : str) : option seg :=
  match x with
  | c :: r =>
      if Ascii.eqb c lbrace then
        match rev r with
        | d :: m => if Ascii.eqb d rbrace && negb (has_brace (rev m)) && negb (str_eqb (rev m) [])
                    then Some (SVar (rev m)) else None
        | [] => None
        end
      else if has_brace x then None else Some (SLit x)
  | [] => Some (SLit [])
  end.

Fixpoint all_some {A} (l : list (option A)) : option (list A) :=
  match l with
  | [] => Some []
  | Some a :: r => match all_some r with Some t => Some (a :: t) | None => None end
  | None :: _ => None
  end.

(* a template is modelled when it starts with '/', every brace belongs to a whole-segment variable *)
Definition tsegs (p : str) : option (list seg) :=
  match p with
  | c :: r => if Ascii.eqb c slash then all_some (map seg_of (split_on slash r)) else None
  | [] => None
  end.

Definition seg_vars (l : list seg) : list str :=
  flat_map (fun g => match g with SVar v => [v] | SLit _ => [] end) l.

(* ---- scalars on the URL --------------------------------------------------------------------- *)
Definition url_kind_ok (k : kind) : bool :=
  match k with
  | KString | KBool | KInt32 | KInt64 | KUint32 | KUint64 | KSint32 | KSint64
  | KFixed32 | KFixed64 | KSfixed32 | KSfixed64 => true
  | _ => false
  end.

(* fmt.Sprint of the Go field value *)
Definition sprint (v : sval) : str :=
  match v with
  | VInt z => show_int z
  | VBool b => show_bool b
  | VStr x => x
  | _ => []
  end.

Definition zero_of (k : kind) : sval :=
  match k with
  | KString => VStr []
  | KBool => VBool false
  | _ => VInt 0
  end.

Definition is_zero (v : sval) : bool :=
  match v with
  | VInt z => Z.eqb z 0
  | VBool b => negb b
  | VStr x => str_eqb x []
  | VBytes x => str_eqb x []
  | VFloat b => Z.eqb b 0
  | VEnum n => Z.eqb n 0
  end.

(* convertStringToFieldValue *)
Definition convert (k : kind) (x : str) : option sval :=
  match k with
  | KString => Some (VStr x)
  | KInt32 | KSint32 | KSfixed32 => option_map VInt (parse_int 32 x)
  | KInt64 | KSint64 | KSfixed64 => option_map VInt (parse_int 64 x)
  | KUint32 | KFixed32 => option_map VInt (parse_uint 32 x)
  | KUint64 | KFixed64 => option_map VInt (parse_uint 64 x)
  | KBool => option_map VBool (parse_bool x)
  | _ => None
  end.

Definition scalar_of (m : mval) (f : field) : sval :=
  match mget m (f_name f) with
  | Some (FS v) => v
  | _ => zero_of (f_kind f)
  end.

(* set a singular scalar field in a canonical value: populated iff non-zero; field-number order *)
Fixpoint field_num (fs : list field) (n : str) : Z :=
  match fs with
  | [] => 0
  | f :: r => if str_eqb (f_name f) n then f_number f else field_num r n
  end.
Fixpoint mremove (m : mval) (k : str) : mval :=
  match m with
  | [] => []
  | (k', v) :: r => if str_eqb k k' then mremove r k else (k', v) :: mremove r k
  end.
Fixpoint minsert (fs : list field) (m : mval) (k : str) (v : fval) : mval :=
  match m with
  | [] => [(k, v)]
  | (k', v') :: r => if (field_num fs k <? field_num fs k')%Z then (k, v) :: m else (k', v') :: minsert fs r k v
  end.
Definition mset_scalar (fs : list field) (m : mval) (f : field) (v : sval) : mval :=
  let m' := mremove m (f_name f) in
  if is_zero v then m' else minsert fs m' (f_name f) (FS v).

(* ---- content types -------------------------------------------------------------------------- *)
Inductive ctype := CtJSON | CtProto | CtOctet.
Inductive bfmt := BJson | BBin.

(* client marshalRequest / unmarshalResponse: "application/json" -> JSON, "application/x-protobuf" and
   "application/octet-stream" -> binary (as the server does) *)
Definition client_fmt (ct : ctype) : bfmt := match ct with CtJSON => BJson | _ => BBin end.
(* server bindDataBasedOnContentType / marshalResponse: octet-stream and x-protobuf -> binary *)
Definition server_fmt (ct : ctype) : bfmt := match ct with CtJSON => BJson | _ => BBin end.
Definition bfmt_eqb (a b : bfmt) : bool := match a, b with BJson, BJson | BBin, BBin => true | _, _ => false end.

(* ---- the client's request ------------------------------------------------------------------- *)
Record wire_req := {
  w_verb : verb;
  w_path : str;                      (* escaped path as written on the request line *)
  w_query : list (str * str);        (* pairs before escaping, in Encode() order *)
  w_body : option (bfmt * mval)
}.

Definition in_fields (sc : schema) (md : method) : list field :=
  match find_message (all_messages sc) (md_in md) with Some m => m_fields m | None => [] end.

Definition verb_of_nat (n : nat) : option verb :=
  match n with 1 => Some GET | 2 => Some POST | 3 => Some PUT | 4 => Some DELETE | 5 => Some PATCH | _ => None end.

Definition query_fields (fs : list field) : list field :=
  filter (fun f => match f_query f with Some _ => true | None => false end) fs.
Definition qname (f : field) : str := match f_query f with Some q => q_name q | None => f_name f end.
Definition qrequired (f : field) : bool := match f_query f with Some q => q_required q | None => false end.

Definition info_of (fl : file) (sv : service) (md : method) (fs : list field) : rpc_info :=
  {| ri_service := sv_name sv; ri_gopkg := fl_gopkg fl; ri_base := sv_base sv; ri_method := md_name md;
     ri_has_cfg := md_has_cfg md; ri_path := md_path md;
     ri_verb := match md_verb md with Some n => verb_of_nat n | None => None end;
     ri_query := map qname (query_fields fs) |}.

Definition fill_seg (fs : list field) (req : mval) (g : seg) : result str :=
  match g with
  | SLit x => Ok x
  | SVar v =>
      match find_field fs v with
      | Some f => if url_kind_ok (f_kind f) && match f_card f with Singular => true | _ => false end
                  then Ok (path_escape (sprint (scalar_of req f)))
                  else Unmodelled (s "path variable of unmodelled kind/cardinality")
      | None => Unmodelled (s "path variable without field")
      end
  end.

Fixpoint all_ok {A} (l : list (result A)) : result (list A) :=
  match l with
  | [] => Ok []
  | Ok a :: r => match all_ok r with Ok t => Ok (a :: t) | Unmodelled w => Unmodelled w end
  | Unmodelled w :: _ => Unmodelled w
  end.

Definition client_query (fs : list field) (req : mval) : result (list (str * str)) :=
  all_ok (flat_map (fun f =>
            if url_kind_ok (f_kind f) && match f_card f with Singular => true | _ => false end
            then (let v := scalar_of req f in if is_zero v then [] else [Ok (qname f, sprint v)])
            else [Unmodelled (s "query field of unmodelled kind/cardinality")])
          (query_fields fs)).

(* net/url validEncoded(s, encodePath): a path made of these bytes only is written on the wire as given;
   any other byte makes URL.EscapedPath() re-encode the decoded path (not modelled) *)
Definition url_path_byte_ok (c : ascii) : bool :=
  is_alnum c || in_chars c (s "-_.~") || in_chars c (s "!$&'()*+,;=:@[]") || Ascii.eqb c "%"%char.

(* the client replaces only the variables of the METHOD path; any other {variable} segment (from the
   service base path) stays literally in the URL, braces included *)
Definition client_template_plain (vars : list str) (segs : list seg) : bool :=
  forallb (fun g => match g with
                    | SLit x => forallb url_path_byte_ok x
                    | SVar v => existsb (str_eqb v) vars
                    end) segs.

Definition client_build (fl : file) (sv : service) (md : method) (fs : list field) (ct : ctype) (req : mval)
  : result wire_req :=
  let r := info_of fl sv md fs in
  let rt := go_client r in
  match tsegs (rt_path rt) with
  | None => Unmodelled (s "client path template not modelled")
  | Some segs =>
      if negb (client_template_plain (rt_pathvars rt) segs)
      then Unmodelled (s "client path needs net/url re-encoding") else
      match all_ok (map (fill_seg fs req) segs) with
      | Unmodelled w => Unmodelled w
      | Ok filled =>
          match (if rt_body rt then Ok [] else client_query fs req) with
          | Unmodelled w => Unmodelled w
          | Ok q =>
              Ok {| w_verb := rt_verb rt;
                    w_path := slash :: join_with [slash] filled;
                    w_query := sort_kv q;
                    w_body := if rt_body rt then Some (client_fmt ct, req) else None |}
          end
      end
  end.

(* ---- the server ----------------------------------------------------------------------------- *)
Inductive outcome :=
  | Delivered (saw : mval) (got : mval)
  | Rejected (field : str)          (* HTTP 400 with a violation naming [field]; handler not invoked *)
  | NotRouted                       (* no pattern of the service's mux accepts the request line *)
  | ClientDecodeError (saw : mval)  (* handler ran, the client could not decode the reply *)
  | RegistrationPanic.              (* ServeMux.Handle panics on one of the service's patterns *)

(* ServeMux: the request path must be clean, otherwise a redirect is answered *)
Definition dirty_seg (x : str) : bool := str_eqb x (s ".") || str_eqb x (s "..").
Fixpoint clean_segs (l : list str) : bool :=
  match l with
  | [] => true
  | [x] => negb (dirty_seg x)                 (* a trailing empty segment (trailing slash) is fine *)
  | x :: r => negb (dirty_seg x) && negb (str_eqb x []) && clean_segs r
  end.

(* match escaped request segments against a pattern; returns the variable bindings *)
(* routing_tree.go: segments are unescaped "if possible" (a malformed escape is kept as is) *)
Definition seg_unescape (e : str) : str := match path_unescape e with Some u => u | None => e end.

Fixpoint match_segs (pat : list seg) (segs : list str) : option (list (str * str)) :=
  match pat, segs with
  | [], [] => Some []
  | [SLit []], _ :: _ => Some []                  (* pattern ends in '/': subtree match *)
  | SLit x :: pr, e :: sr =>
      (* pattern.go parsePattern unescapes literal pattern segments at registration *)
      if str_eqb (seg_unescape e) (seg_unescape x) then match_segs pr sr else None
  | SVar v :: pr, e :: sr =>
      let u := seg_unescape e in
      (* a single wildcard matches neither an empty segment nor a segment that unescapes to "/"
         (matchPath treats it as a trailing slash) *)
      if str_eqb u [] || str_eqb u [slash] then None
      else match match_segs pr sr with Some b => Some ((v, u) :: b) | None => None end
  | _, _ => None
  end.

(* a pattern ending in '/' matches every path below it; [subtree_tail] recognises what is left of such a
   pattern once its last segment (the empty one) is reached *)
Definition subtree_tail (p : list seg) : bool := match p with [SLit []] => true | _ => false end.
Definition is_subtree (p : list seg) : bool := match rev p with SLit [] :: _ => true | _ => false end.

(* specificity: at the first position where two matching patterns differ,
   literal > single wildcard > subtree remainder (net/http routing_tree.go) *)
Fixpoint more_specific (a b : list seg) : bool :=
  if subtree_tail b then true
  else if subtree_tail a then false
  else
  match a, b with
  | SLit x :: ar, SLit y :: br => more_specific ar br
  | SLit _ :: _, SVar _ :: _ => true
  | SVar _ :: _, SLit _ :: _ => false
  | SVar _ :: ar, SVar _ :: br => more_specific ar br
  | _, _ => true
  end.

(* ServeMux.Handle refuses (panics on) a pattern whose path is not clean *)
Definition pat_seg_str (g : seg) : str := match g with SLit x => x | SVar _ => s "v" end.
Definition unclean_pattern (p : list seg) : bool := negb (clean_segs (map pat_seg_str p)).

(* what http.ServeMux.Handle makes of "<VERB> <pattern>" *)
Inductive spat := PatOk (p : list seg) | PatHost | PatPanic | PatUnmodelled.

Definition server_pattern (p : str) : spat :=
  match p with
  | c :: r =>
      if Ascii.eqb c slash then
        match tsegs p with
        | Some l => if unclean_pattern l then PatPanic else PatOk l
        | None => PatUnmodelled
        end
      else
        (* no leading slash: "host/path"; a pattern without any '/' is refused *)
        let '(host, rest) := cut_at slash p in
        match rest with
        | None => PatPanic
        | Some path =>
            if has_brace host then PatPanic else
            match tsegs (slash :: path) with
            | Some l => if unclean_pattern l then PatPanic else PatHost
            | None => PatUnmodelled
            end
        end
  | [] => PatPanic
  end.

Record sroute := { sr_md : method; sr_fields : list field; sr_route : route; sr_pat : list seg }.

(* routes that can match requests for our host; [None] when registration panics *)
Definition server_routes (sc : schema) (fl : file) (sv : service) : result (option (list sroute)) :=
  let items := map (fun md =>
      let fs := in_fields sc md in
      let rt := go_server (info_of fl sv md fs) in
      (md, fs, rt, server_pattern (rt_path rt))) (sv_methods sv) in
  if existsb (fun i => match snd i with PatUnmodelled => true | _ => false end) items
  then Unmodelled (s "server pattern not modelled")
  else if existsb (fun i => match snd i with PatPanic => true | _ => false end) items
  then Ok None
  else Ok (Some (flat_map (fun i =>
         match i with
         | (md, fs, rt, PatOk p) => [{| sr_md := md; sr_fields := fs; sr_route := rt; sr_pat := p |}]
         | _ => []
         end) items)).

Definition find_route (rs : list sroute) (v : verb) (segs : list str) : option (sroute * list (str * str)) :=
  fold_left (fun best r =>
      if verb_eqb (rt_verb (sr_route r)) v then
        match match_segs (sr_pat r) segs with
        | Some b =>
            match best with
            | Some (r0, b0) => if more_specific (sr_pat r0) (sr_pat r) then best else Some (r, b)
            | None => Some (r, b)
            end
        | None => best
        end
      else best) rs None.

(* bindPathParams: every configured path variable, in order *)
Fixpoint bind_path (fs : list field) (vars : list str) (b : list (str * str)) (m : mval) : mval + str :=
  match vars with
  | [] => inl m
  | v :: r =>
      match find_field fs v with
      | None => bind_path fs r b m          (* field not found: skipped *)
      | Some f =>
          let val := match find (fun p => str_eqb (fst p) v) b with Some p => snd p | None => [] end in
          if str_eqb val [] then inr v else
          match convert (f_kind f) val with
          | Some x => bind_path fs r b (mset_scalar fs m f x)
          | None => inr v
          end
      end
  end.

(* bindQueryParams: singular fields take the first occurrence *)
Fixpoint bind_query (fs : list field) (qfs : list field) (q : list (str * str)) (m : mval) : mval + str :=
  match qfs with
  | [] => inl m
  | f :: r =>
      match query_values q (qname f) with
      | [] => if qrequired f then inr (f_name f) else bind_query fs r q m
      | x :: _ =>
          match convert (f_kind f) x with
          | Some v => bind_query fs r q (mset_scalar fs m f v)
          | None => inr (f_name f)
          end
      end
  end.

Definition all_singular_url (fs : list field) (vars : list str) : bool :=
  forallb (fun v => match find_field fs v with
                    | Some f => url_kind_ok (f_kind f) && match f_card f with Singular => true | _ => false end
                    | None => true end) vars &&
  forallb (fun f => url_kind_ok (f_kind f) && match f_card f with Singular => true | _ => false end) (query_fields fs).

(* BindingMiddleware binds the body first (POST/PUT/PATCH only): the message the URL values are applied
   to is the decoded body, or the empty message when there is no body, an empty one, or a bodiless verb;
   a body in another format than the server reads is reported as field "body" *)
Definition body_start (has_body : bool) (ct : ctype) (body : option (bfmt * mval)) : mval + str :=
  if has_body then
    match body with
    | Some (f, v) => if bfmt_eqb f (server_fmt ct) then inl v else inr (s "body")
    | None => inl []
    end
  else inl [].

(* the mux answers 301 to path+"/" when the path has no exact match but path+"/" is exactly a registered
   subtree pattern for that verb (net/http matchOrRedirect) *)
Definition slash_redirect (rs : list sroute) (v : verb) (segs : list str) : bool :=
  existsb (fun r => is_subtree (sr_pat r) && verb_eqb (rt_verb (sr_route r)) v &&
                    Nat.eqb (List.length (sr_pat r)) (S (List.length segs)) &&
                    match match_segs (sr_pat r) (segs ++ [[]]) with Some _ => true | None => false end) rs.

(* the server's treatment of one request; [ct] is the request's Content-Type, [resp] the handler's reply *)
Definition server_handle (rs : list sroute) (w : wire_req) (ct : ctype) (resp : mval)
  : result (option (mval * (bfmt * mval)) + (str + unit)) :=
  match w_path w with
  | c :: p =>
      let segs := split_on slash p in
      if negb (clean_segs segs) then
        (* 301 to the cleaned path; http.Client follows it, and a subtree route may then serve it *)
        (if existsb (fun r => is_subtree (sr_pat r)) rs
         then Unmodelled (s "redirect into a subtree route") else Ok (inr (inr tt)))
      else
      match find_route rs (w_verb w) segs with
      | None => if slash_redirect rs (w_verb w) segs
                then Unmodelled (s "redirect into a subtree route") else Ok (inr (inr tt))
      | Some (r, b) =>
          (* a subtree route is not an exact match for a path without trailing slash *)
          if is_subtree (sr_pat r) && slash_redirect rs (w_verb w) segs
          then Unmodelled (s "redirect into a subtree route") else
          if negb (all_singular_url (sr_fields r) (rt_pathvars (sr_route r)))
          then Unmodelled (s "URL-bound field of unmodelled kind/cardinality") else
          match body_start (rt_body (sr_route r)) ct (w_body w) with
          | inr f => Ok (inr (inl f))
          | inl m0 =>
              (* path then query values are applied on top of what the body said *)
              match bind_path (sr_fields r) (rt_pathvars (sr_route r)) b m0 with
              | inr f => Ok (inr (inl f))
              | inl m1 =>
                  match bind_query (sr_fields r) (query_fields (sr_fields r)) (w_query w) m1 with
                  | inr f => Ok (inr (inl f))
                  | inl m2 => Ok (inl (Some (m2, (server_fmt ct, resp))))
                  end
              end
          end
      end
  | [] => Ok (inr (inr tt))
  end.

Definition go_call (sc : schema) (fl : file) (sv : service) (md : method) (ct : ctype) (req resp : mval)
  : result (wire_req * outcome) :=
  let fs := in_fields sc md in
  match client_build fl sv md fs ct req with
  | Unmodelled w => Unmodelled w
  | Ok w =>
      match server_routes sc fl sv with
      | Unmodelled why => Unmodelled why
      | Ok None => Ok (w, RegistrationPanic)
      | Ok (Some rs) =>
          match server_handle rs w ct resp with
          | Unmodelled why => Unmodelled why
          | Ok (inr (inr tt)) => Ok (w, NotRouted)
          | Ok (inr (inl f)) => Ok (w, Rejected f)
          | Ok (inl None) => Ok (w, NotRouted)
          | Ok (inl (Some (saw, (f, v)))) =>
              (* an empty reply body is left undecoded by the client (zero-length check) *)
              if bfmt_eqb f (client_fmt ct) || (match f, v with BBin, [] => true | _, _ => false end)
              then Ok (w, Delivered saw v) else Ok (w, ClientDecodeError saw)
          end
      end
  end.

(* ---- lookups, defect classes, prediction ------------------------------------------------------ *)
Fixpoint find_service (fs : list file) (n : str) : option (file * service) :=
  match fs with
  | [] => None
  | f :: r => match find (fun sv => str_eqb (sv_name sv) n) (fl_services f) with
              | Some sv => Some (f, sv)
              | None => find_service r n
              end
  end.
Definition find_method (sv : service) (n : str) : option method :=
  find (fun md => str_eqb (md_name md) n) (sv_methods sv).

Inductive c01_defect :=
  | C01Route (d : c03_defect)        (* client and server disagree on the route (see C03) *)
  | C01DotSegment                    (* a path value "." or ".." is swallowed by the mux's path cleaning *)
  | C01SlashValue                    (* a path value "/" (sent as %2F) is taken for a trailing slash by the mux *)
  | C01RequiredQueryOnBodyVerb       (* a required query parameter on POST/PUT/PATCH is never sent by the client *)
  | C01SiblingRoute                  (* the filled path is claimed by a more specific sibling pattern *)
  | C01UncleanPattern                (* a pattern ServeMux refuses (empty/dot segment, no '/' at all): registration panics *)
  | C01RequiredQueryZeroElided       (* GET/DELETE: a required query parameter holding the zero value is not sent; the server answers 400 *)
  | C01BasePathVariable              (* the service base path holds a {variable}: the client replaces and the server binds only the method path's variables *)
  | C01DuplicateQueryName.           (* GET/DELETE: two query fields share a parameter name (url.Values.Set keeps one value, both fields read it) *)

Definition c01_defect_str (d : c01_defect) : str :=
  match d with
  | C01Route d => s "route:" ++ c03_defect_str d
  | C01DotSegment => s "dot-segment-path-value"
  | C01SlashValue => s "slash-path-value"
  | C01RequiredQueryOnBodyVerb => s "required-query-on-body-verb"
  | C01SiblingRoute => s "sibling-route-claims-path"
  | C01UncleanPattern => s "pattern-registration-panic"
  | C01RequiredQueryZeroElided => s "required-query-zero-value-elided"
  | C01BasePathVariable => s "base-path-variable-unbound"
  | C01DuplicateQueryName => s "duplicate-query-name"
  end.

Definition route_defect (d : c03_defect) : bool :=
  match d with QueryOnBodyVerb => false | _ => true end.

Definition dispatched_to (rs : list sroute) (w : wire_req) : option str :=
  match w_path w with
  | c :: p => match find_route rs (w_verb w) (split_on slash p) with
              | Some (r, _) => Some (md_name (sr_md r))
              | None => None
              end
  | [] => None
  end.

Definition defects_C01 (sc : schema) (fl : file) (sv : service) (md : method) (ct : ctype) (req : mval)
  : list c01_defect :=
  let fs := in_fields sc md in
  let r := info_of fl sv md fs in
  map C01Route (filter route_defect (defects_C03 r)) ++
  (if existsb (fun v => match find_field fs v with
                        | Some f => dirty_seg (sprint (scalar_of req f))
                        | None => false end) (path_vars r) then [C01DotSegment] else []) ++
  (if existsb (fun v => match find_field fs v with
                        | Some f => str_eqb (sprint (scalar_of req f)) [slash]
                        | None => false end) (path_vars r) then [C01SlashValue] else []) ++
  (if verb_has_body (eff_verb r) && existsb qrequired (query_fields fs) then [C01RequiredQueryOnBodyVerb] else []) ++
  (match server_routes sc fl sv with
   | Ok None => [C01UncleanPattern]
   | _ => [] end) ++
  (match client_build fl sv md fs ct req, server_routes sc fl sv with
   | Ok w, Ok (Some rs) => match dispatched_to rs w with
                    | Some n => if str_eqb n (md_name md) then [] else [C01SiblingRoute]
                    | None => []
                    end
   | _, _ => []
   end) ++
  (if negb (verb_has_body (eff_verb r)) &&
      existsb (fun f => qrequired f && is_zero (scalar_of req f)) (query_fields fs)
   then [C01RequiredQueryZeroElided] else []) ++
  (if in_chars lbrace (ri_base r) then [C01BasePathVariable] else []) ++
  (if negb (verb_has_body (eff_verb r)) &&
      (fix dup (l : list str) : bool :=
         match l with [] => false | x :: t => existsb (str_eqb x) t || dup t end)
        (map qname (query_fields fs))
   then [C01DuplicateQueryName] else []).

Definition ctype_of_nat (n : nat) : ctype := match n with 0 => CtJSON | 1 => CtProto | _ => CtOctet end.

Definition fmt_json (f : bfmt) : json := JStr (match f with BJson => s "json" | BBin => s "proto" end).

Definition wire_json (w : wire_req) : json :=
  JObj [(s "method", JStr (verb_str (w_verb w))); (s "path", JStr (w_path w));
        (s "query", JArr (map (fun p => JArr [JStr (fst p); JStr (snd p)]) (w_query w)));
        (s "body", match w_body w with Some (f, _) => fmt_json f | None => JStr (s "none") end)].

Definition outcome_json (dispatched : option str) (o : outcome) : json :=
  match o with
  | Delivered saw got => JObj [(s "class", JStr (s "delivered"));
                               (s "dispatched", match dispatched with Some n => JStr n | None => JNull end);
                               (s "handler_saw", json_of_mval saw); (s "client_got", json_of_mval got)]
  | Rejected f => JObj [(s "class", JStr (s "rejected")); (s "field", JStr f)]
  | NotRouted => JObj [(s "class", JStr (s "not-routed"))]
  | RegistrationPanic => JObj [(s "class", JStr (s "panic"))]
  | ClientDecodeError saw => JObj [(s "class", JStr (s "client-decode-error"));
                                   (s "dispatched", match dispatched with Some n => JStr n | None => JNull end);
                                   (s "handler_saw", json_of_mval saw)]
  end.

(* case = (schema, (service, method), content type, request, response) *)
Definition c01_case := (schema * (str * str) * nat * mval * mval)%type.

Definition predict_C01 (c : c01_case) : json :=
  let '(sc, (svn, mdn), ctn, req, resp) := c in
  match find_service sc svn with
  | None => JObj [(s "unmodelled", JStr (s "no such service"))]
  | Some (fl, sv) =>
      match find_method sv mdn with
      | None => JObj [(s "unmodelled", JStr (s "no such method"))]
      | Some md =>
          let ct := ctype_of_nat ctn in
          match go_call sc fl sv md ct req resp with
          | Unmodelled why => JObj [(s "unmodelled", JStr why)]
          | Ok (w, o) =>
              let disp := match server_routes sc fl sv with Ok (Some rs) => dispatched_to rs w | _ => None end in
              JObj [(s "tags", jstrs (map c01_defect_str (defects_C01 sc fl sv md ct req)));
                    (s "request", match o with RegistrationPanic => JNull | _ => wire_json w end);
                    (s "outcome", outcome_json disp o)]
          end
      end
  end.
