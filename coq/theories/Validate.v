(* Validate.v — generation-time validation (C12).

   Impl: what protoc-gen-go-http / protoc-gen-go-client / protoc-gen-ts-server refuse, following
         the code's traversal and order:
           internal/annotations/{unwrap,nullable,empty_behavior,timestamp_format,bytes_encoding,
                                 flatten,oneof_discriminator,enum_encoding}.go   (the Validate.. and Get.. functions)
           internal/httpgen/generator.go:42-154     Generate / generateFile (order of the passes)
           internal/httpgen/unwrap.go:80-112        CollectGlobalUnwrapInfo (all generated files first)
           internal/httpgen/{enum_encoding.go:180-205, nullable.go:62-80, empty_behavior.go:73-91,
                             timestamp_format.go:74-92, bytes_encoding.go:75-93, flatten.go:69-144,
                             oneof_discriminator.go:57-137}
           internal/httpgen/validation.go:21-178    ValidateMethodConfig / ValidateService
           internal/clientgen/generator.go:27-95    (same passes minus unwrap and the HTTP checks)
           internal/tsservergen/generator.go:292-394
   Spec: the documented annotation rules as independent predicates over the schema.

   The schema lists a file's messages flat in declaration pre-order (a message, then its nested
   messages), which is the order in which every validator of the code walks them
   ("for msg in messages { check msg; recurse(msg.Messages) }").

   The synthetic "<Field>Entry" messages protoc adds to nested_type for map fields are NOT part of
   that list: their key/value fields cannot carry sebuf annotations, and on the current tree every
   validator recurses over ALL of msg.Messages, so neither the presence of an entry nor its position
   among the declared nested messages (protoc interleaves them in declaration order:
   nested_type = [LabelsEntry; Settings] when the map field is written before `message Settings`)
   influences the verdict.  That independence is an assumption of this abstraction about the code;
   it is tied to the source by the correspondence family "nested-map-order" (harness/lib/cat_c12.go:
   every rule x entry before / after / around / between the nested declarations, depth 1 and 2). *)
From Sebuf Require Export Schema.

(* ---- small helpers ------------------------------------------------------------------------ *)
Definition first_some {A B} (f : A -> option B) : list A -> option B :=
  fix go (l : list A) : option B :=
    match l with
    | [] => None
    | x :: r => match f x with Some b => Some b | None => go r end
    end.
Definition or_else {B} (a b : option B) : option B := match a with Some x => Some x | None => b end.
Definition mem_str (x : str) (l : list str) : bool := existsb (str_eqb x) l.
Definition opt_true (o : option bool) : bool := match o with Some true => true | _ => false end.
Definition nonempty {A} (l : list A) : bool := match l with [] => false | _ => true end.

Definition is_msg_kind (k : kind) : bool := match k with KMessage _ => true | _ => false end.
Definition is_enum_kind (k : kind) : bool := match k with KEnum _ => true | _ => false end.
Definition is_bytes_kind (k : kind) : bool := match k with KBytes => true | _ => false end.
Definition is_map (c : card) : bool := match c with MapOf _ => true | _ => false end.
Definition is_rep (c : card) : bool := match c with Repeated => true | _ => false end.
Definition is_opt (c : card) : bool := match c with Optional => true | _ => false end.
Definition is_int64_kind (k : kind) : bool :=
  match k with KInt64 | KSint64 | KSfixed64 | KUint64 | KFixed64 => true | _ => false end.

(* What protoreflect reports for a field: the Kind() of a map field is MessageKind (its entry type),
   field.Message of a map field is the entry, field.Enum is nil. *)
Definition desc_is_message (f : field) : bool := is_map (f_card f) || is_msg_kind (f_kind f).
Definition desc_is_enum (f : field) : bool := negb (is_map (f_card f)) && is_enum_kind (f_kind f).
Definition desc_is_bytes (f : field) : bool := negb (is_map (f_card f)) && is_bytes_kind (f_kind f).
Definition desc_is_int64 (f : field) : bool := negb (is_map (f_card f)) && is_int64_kind (f_kind f).
Definition is_timestamp_field (f : field) : bool := negb (is_map (f_card f)) && is_timestamp (f_kind f).

Definition short_name (m : message) : str := last (m_path m) (m_name m).

(* annotation readers (internal/annotations: the Is.., Has.., Get.. functions) *)
Definition is_nullable (f : field) : bool := opt_true (f_nullable f).
Definition has_empty (f : field) : bool :=
  match f_empty f with Some EBPreserve | Some EBNull | Some EBOmit => true | _ => false end.
Definition tsfmt_set (f : field) : bool :=
  match f_tsfmt f with None | Some TFUnspecified => false | _ => true end.
Definition tsfmt_nondefault (f : field) : bool :=      (* HasTimestampFormatAnnotation *)
  match f_tsfmt f with None | Some TFUnspecified | Some TFRfc3339 => false | _ => true end.
Definition bytesenc_set (f : field) : bool :=
  match f_bytesenc f with None | Some BEUnspecified => false | _ => true end.
Definition bytesenc_nondefault (f : field) : bool :=   (* HasBytesEncodingAnnotation *)
  match f_bytesenc f with None | Some BEUnspecified | Some BEBase64 => false | _ => true end.
Definition is_flatten (f : field) : bool := opt_true (f_flatten f).
Definition flatten_prefix (f : field) : str := match f_flatten_prefix f with Some p => p | None => [] end.
Definition i64_number (f : field) : bool :=
  desc_is_int64 f && match f_int64 f with Some I64Number => true | _ => false end.
Definition enum_number (f : field) : bool := match f_enumenc f with Some EENumber => true | _ => false end.
Definition has_query (f : field) : bool := match f_query f with Some _ => true | None => false end.

Definition enum_has_custom (sc : schema) (tn : str) : bool :=
  match find_enum (all_enums sc) tn with
  | Some e => existsb (fun v => match ev_custom v with Some (_ :: _) => true | _ => false end) (e_values e)
  | None => false
  end.
Definition field_enum_has_custom (sc : schema) (f : field) : bool :=
  match f_kind f with KEnum tn => enum_has_custom sc tn | _ => false end.

(* (proto name, JSON name) of the fields of a referenced message type; Timestamp is a library type *)
Definition child_names (sc : schema) (tn : str) : list (str * str) :=
  if str_eqb tn (s "google.protobuf.Timestamp") then [(s "seconds", s "seconds"); (s "nanos", s "nanos")]
  else match find_message (all_messages sc) tn with
       | Some m => map (fun f => (f_name f, json_name (f_name f))) (m_fields m)
       | None => []
       end.
Definition kind_children (sc : schema) (k : kind) : list (str * str) :=
  match k with KMessage tn => child_names sc tn | _ => [] end.

(* ---- errors ------------------------------------------------------------------------------- *)
Inductive err_class :=
  | EUnwrapNotRepeated | EUnwrapTwice | EUnwrapMapNotAlone
  | EEnumNumberCustom
  | ENullableNotOptional | ENullableMessage
  | EEmptyNotMessage | EEmptyRepeated | EEmptyMap
  | ETsFmtNotTimestamp | EBytesEncNotBytes
  | EFlattenPrefixAlone | EFlattenRepeated | EFlattenMap | EFlattenScalar | EFlattenOneof
  | EFlattenCollision | EFlattenMarshalConflict
  | EDiscCollision | EOneofFlatScalar | EOneofFlatChildCollision | EOneofMarshalConflict
  | EPathNoField | EPathNonScalar | EPathAndQuery | EBodilessUnbound
  | ETsPathNoField | ETsUncovered.

(* e_where: the message (or, for the HTTP checks, the RPC) the text names, if it names one;
   e_items: the fields / oneofs / path variables the text names. *)
Record gen_error := { e_class : err_class; e_where : option str; e_items : list str }.
Definition mk_err (c : err_class) (w : str) (items : list str) : gen_error :=
  {| e_class := c; e_where := Some w; e_items := items |}.

(* ---- unwrap (annotations.GetUnwrapField) --------------------------------------------------- *)
Fixpoint unwrap_scan (mn : str) (seen : option field) (fs : list field) : gen_error + option field :=
  match fs with
  | [] => inr seen
  | f :: r =>
      if f_unwrap f then
        if negb (is_rep (f_card f) || is_map (f_card f)) then inl (mk_err EUnwrapNotRepeated mn [f_name f])
        else match seen with
             | Some _ => inl (mk_err EUnwrapTwice mn [f_name f])
             | None => unwrap_scan mn (Some f) r
             end
      else unwrap_scan mn seen r
  end.

Record unwrap_info := { ui_field : field; ui_root : bool; ui_map : bool }.
Definition get_unwrap_field (m : message) : gen_error + option unwrap_info :=
  match unwrap_scan (short_name m) None (m_fields m) with
  | inl e => inl e
  | inr None => inr None
  | inr (Some f) =>
      let root := Nat.eqb (List.length (m_fields m)) 1 in
      if negb root && is_map (f_card f) then inl (mk_err EUnwrapMapNotAlone (short_name m) [f_name f])
      else inr (Some {| ui_field := f; ui_root := root; ui_map := is_map (f_card f) |})
  end.
Definition unwrap_check (m : message) : option gen_error :=
  match get_unwrap_field m with inl e => Some e | inr _ => None end.

(* ---- per-field checks ----------------------------------------------------------------------- *)
(* httpgen/enum_encoding.go:19-27,189-205: only fields whose Kind() is EnumKind; the text names the field only *)
Definition enum_check (sc : schema) (m : message) (f : field) : option gen_error :=
  if desc_is_enum f && enum_number f && field_enum_has_custom sc f
  then Some {| e_class := EEnumNumberCustom; e_where := None; e_items := [f_name f] |} else None.

Definition nullable_check (m : message) (f : field) : option gen_error :=
  if is_nullable f then
    if negb (is_opt (f_card f)) then Some (mk_err ENullableNotOptional (short_name m) [f_name f])
    else if desc_is_message f then Some (mk_err ENullableMessage (short_name m) [f_name f])
    else None
  else None.

Definition empty_check (m : message) (f : field) : option gen_error :=
  if has_empty f then
    if negb (desc_is_message f) then Some (mk_err EEmptyNotMessage (short_name m) [f_name f])
    else if is_rep (f_card f) then Some (mk_err EEmptyRepeated (short_name m) [f_name f])
    else if is_map (f_card f) then Some (mk_err EEmptyMap (short_name m) [f_name f])
    else None
  else None.

Definition tsfmt_check (m : message) (f : field) : option gen_error :=
  if tsfmt_set f && negb (is_timestamp_field f)
  then Some (mk_err ETsFmtNotTimestamp (short_name m) [f_name f]) else None.

Definition bytesenc_check (m : message) (f : field) : option gen_error :=
  if bytesenc_set f && negb (desc_is_bytes f)
  then Some (mk_err EBytesEncNotBytes (short_name m) [f_name f]) else None.

(* field.Oneof != nil also for proto3 optional fields (synthetic oneof) *)
Definition in_some_oneof (f : field) : bool :=
  match f_oneof f with Some _ => true | None => is_opt (f_card f) end.

Definition flatten_field_check (m : message) (f : field) : option gen_error :=
  if negb (is_flatten f) then
    if nonempty (flatten_prefix f) then Some (mk_err EFlattenPrefixAlone (short_name m) [f_name f]) else None
  else if is_rep (f_card f) then Some (mk_err EFlattenRepeated (short_name m) [f_name f])
  else if is_map (f_card f) then Some (mk_err EFlattenMap (short_name m) [f_name f])
  else if negb (is_msg_kind (f_kind f)) then Some (mk_err EFlattenScalar (short_name m) [f_name f])
  else if in_some_oneof f then Some (mk_err EFlattenOneof (short_name m) [f_name f])
  else None.

(* annotations.ValidateFlattenCollisions: a map of used JSON names, parents first, then each
   flattened child in order; the first name already present is the error *)
Definition has_flatten (m : message) : bool := existsb is_flatten (m_fields m).
Definition parent_json_names (m : message) : list str :=
  map (fun f => json_name (f_name f)) (filter (fun f => negb (is_flatten f)) (m_fields m)).
(* (flattened field, child proto name, resulting JSON name) of the given flattened fields.
   The code iterates over the fields with IsFlattenField && field.Message != nil; when it gets here
   every flatten field has passed ValidateFlattenField, so none of them is a map (whose
   field.Message would be the entry type — that path is unreachable and not modelled). *)
Definition names_of (sc : schema) (src : list field) : list (str * str * str) :=
  flat_map (fun f => map (fun c => (f_name f, fst c, flatten_prefix f ++ snd c)) (kind_children sc (f_kind f))) src.
Definition impl_flatten_sources (m : message) : list field :=
  filter (fun f => is_flatten f && desc_is_message f) (m_fields m).
Definition flattened_names (sc : schema) (m : message) : list (str * str * str) :=
  names_of sc (impl_flatten_sources m).
Fixpoint scan_used (used : list str) (ns : list (str * str * str)) : option (str * str * str) :=
  match ns with
  | [] => None
  | n :: r => if mem_str (snd n) used then Some n else scan_used (snd n :: used) r
  end.
Definition flatten_collision_check (sc : schema) (m : message) : option gen_error :=
  match scan_used (parent_json_names m) (flattened_names sc m) with
  | Some (fld, child, _) => Some (mk_err EFlattenCollision (short_name m) [fld; child])
  | None => None
  end.

(* httpgen/flatten.go:118-144 detectMarshalJSONConflicts (non-flatten fields only; no kind test for bytes/empty) *)
Definition flatten_conflict_field (f : field) : bool :=
  negb (is_flatten f) &&
  (i64_number f || is_nullable f || has_empty f || (is_timestamp_field f && tsfmt_nondefault f) || bytesenc_nondefault f).
Definition flatten_conflict_check (m : message) : option gen_error :=
  if existsb flatten_conflict_field (m_fields m)
  then Some {| e_class := EFlattenMarshalConflict; e_where := Some (short_name m); e_items := [] |} else None.

Definition flatten_msg_check (sc : schema) (m : message) : option gen_error :=
  or_else (first_some (flatten_field_check m) (m_fields m))
    (if has_flatten m then or_else (flatten_collision_check sc m) (flatten_conflict_check m) else None).

(* ---- discriminated oneofs (annotations.ValidateOneofDiscriminator) -------------------------- *)
Definition oneof_configured (o : oneof) : bool := o_has_cfg o && nonempty (o_discriminator o).
Definition in_oneof (o : oneof) (f : field) : bool :=
  match f_oneof f with Some n => str_eqb n (o_name o) | None => false end.
Definition outside_fields (m : message) (o : oneof) : list field := filter (fun f => negb (in_oneof o f)) (m_fields m).
Definition variants (m : message) (o : oneof) : list field := filter (in_oneof o) (m_fields m).

Definition disc_collision_check (m : message) (o : oneof) : option gen_error :=
  first_some (fun f => if str_eqb (json_name (f_name f)) (o_discriminator o)
                       then Some (mk_err EDiscCollision (short_name m) [o_name o; f_name f]) else None)
             (outside_fields m o).
Definition reserved_names (m : message) (o : oneof) : list str :=
  o_discriminator o :: map (fun f => json_name (f_name f)) (outside_fields m o).
Definition oneof_flatten_check (sc : schema) (m : message) (o : oneof) : option gen_error :=
  or_else
    (first_some (fun v => if negb (desc_is_message v) then Some (mk_err EOneofFlatScalar (short_name m) [o_name o; f_name v]) else None)
                (variants m o))
    (first_some (fun v =>
         first_some (fun c => if mem_str (snd c) (reserved_names m o)
                              then Some (mk_err EOneofFlatChildCollision (short_name m) [o_name o; f_name v; fst c]) else None)
                    (kind_children sc (f_kind v)))
       (variants m o)).
Definition oneof_check (sc : schema) (m : message) (o : oneof) : option gen_error :=
  if oneof_configured o then
    or_else (disc_collision_check m o) (if o_flatten o then oneof_flatten_check sc m o else None)
  else None.
Definition oneof_msg_check (sc : schema) (m : message) : option gen_error :=
  first_some (oneof_check sc m) (m_oneofs m).

(* httpgen/oneof_discriminator.go:83-113 checkMarshalJSONConflict, after the whole file validated *)
Definition has_oneof_discriminator (m : message) : bool := existsb oneof_configured (m_oneofs m).
Definition other_codec_on_message (m : message) : bool :=
  existsb (fun f => i64_number f || is_nullable f || has_empty f ||
                    (is_timestamp_field f && tsfmt_nondefault f) || (desc_is_bytes f && bytesenc_nondefault f)) (m_fields m).
Definition oneof_conflict_check (m : message) : option gen_error :=
  if has_oneof_discriminator m && other_codec_on_message m
  then Some {| e_class := EOneofMarshalConflict; e_where := Some (short_name m); e_items := [] |} else None.

(* ---- HTTP configuration (httpgen/validation.go) --------------------------------------------- *)
Definition path_compatible (f : field) : bool :=      (* isPathParamCompatible: Kind() only *)
  negb (is_map (f_card f)) &&
  match f_kind f with KEnum _ | KBytes | KMessage _ => false | _ => true end.
Definition verb_bodiless (v : option nat) : bool :=
  match v with Some 1 | Some 4 => true | _ => false end.   (* GET, DELETE; unspecified = POST *)

Definition input_fields (sc : schema) (md : method) : list field :=
  match find_message (all_messages sc) (md_in md) with Some m => m_fields m | None => [] end.

Definition method_check (sc : schema) (sv : service) (md : method) : option gen_error :=
  if negb (md_has_cfg md) then None else
  let fs := input_fields sc md in
  let params := extract_path_params (md_path md) in
  or_else
    (first_some (fun p => match find_field fs p with
                          | None => Some (mk_err EPathNoField (md_name md) [p])
                          | Some f => if path_compatible f then None else Some (mk_err EPathNonScalar (md_name md) [p])
                          end) params)
  (or_else
    (first_some (fun f => if has_query f && mem_str (f_name f) params
                          then Some (mk_err EPathAndQuery (md_name md) [f_name f]) else None) fs)
    (if verb_bodiless (md_verb md) then
       match filter (fun f => negb (mem_str (f_name f) params) && negb (has_query f)) fs with
       | [] => None
       | body => Some (mk_err EBodilessUnbound (md_name md) (map f_name body))
       end
     else None)).
Definition service_check (sc : schema) (sv : service) : option gen_error :=
  first_some (method_check sc sv) (sv_methods sv).

(* ---- the passes of one file, in the generators' order ---------------------------------------- *)
Definition per_field (chk : message -> field -> option gen_error) (f : file) : option gen_error :=
  first_some (fun m => first_some (chk m) (m_fields m)) (fl_messages f).

(* passes shared by both Go plugins (clientgen/generator.go:39-73 = httpgen minus unwrap/int64/enum files) *)
Definition codec_passes (sc : schema) (f : file) : option gen_error :=
  or_else (per_field (enum_check sc) f)
  (or_else (per_field nullable_check f)
  (or_else (per_field empty_check f)
  (or_else (per_field tsfmt_check f)
  (or_else (per_field bytesenc_check f)
  (or_else (first_some (flatten_msg_check sc) (fl_messages f))
  (or_else (first_some (oneof_msg_check sc) (fl_messages f))
           (first_some oneof_conflict_check (fl_messages f)))))))).

Definition http_file_check (sc : schema) (f : file) : option gen_error :=
  or_else (codec_passes sc f) (first_some (service_check sc) (fl_services f)).

Definition gen_files (sc : schema) : list file := filter fl_generate sc.

Definition go_http_accepts (sc : schema) : option gen_error :=
  or_else (first_some (fun f => first_some unwrap_check (fl_messages f)) (gen_files sc))
          (first_some (http_file_check sc) (gen_files sc)).

Definition go_client_accepts (sc : schema) : option gen_error :=
  first_some (codec_passes sc) (gen_files sc).

(* ---- TS server (tsservergen/generator.go:292-394,415-424) ------------------------------------ *)
Definition ts_method_check (sc : schema) (md : method) : option gen_error :=
  let fs := input_fields sc md in
  let params := if md_has_cfg md then extract_path_params (md_path md) else [] in
  let verb := if md_has_cfg md then md_verb md else None in
  or_else
    (first_some (fun p => match find_field fs p with
                          | None => Some (mk_err ETsPathNoField (md_name md) [p])
                          | Some _ => None end) params)
    (if verb_bodiless verb then
       match filter (fun f => negb (mem_str (f_name f) params) && negb (has_query f)) fs with
       | [] => None
       | un => Some (mk_err ETsUncovered (md_name md) (map f_name un))
       end
     else None).
Definition ts_server_accepts (sc : schema) : option gen_error :=
  first_some (fun f => first_some (fun sv => first_some (ts_method_check sc) (sv_methods sv)) (fl_services f)) (gen_files sc).

(* protoc-gen-ts-client and protoc-gen-openapiv3 have no refusing path for annotation misuse *)
Definition ts_client_accepts (sc : schema) : option gen_error := None.
Definition openapi_accepts (sc : schema) : option gen_error := None.

(* ================================================================================================
   Spec: the documented rules, each an independent predicate.
   ================================================================================================ *)
Inductive rule :=
  | RUnwrapNonRepeated | RUnwrapTwice | RUnwrapMapNotAlone
  | RNullableNonOptional | RNullableMessage
  | REmptyBehaviorWrongType | RTimestampFormatWrongType | RBytesEncodingWrongType
  | RFlattenRepeated | RFlattenMap | RFlattenScalar | RFlattenOneofMember | RFlattenCollision
  | RPrefixWithoutFlatten
  | RDiscriminatorCollision | ROneofFlattenScalarVariant | ROneofFlattenChildCollision
  | REnumNumberWithCustomValues
  | RPathVariableNoField | RPathVariableNonScalar | RPathAndQuery | RBodilessUnbound.

(* a violation: which rule, and the name of the offending field / oneof / path variable *)
Record violation := { v_rule : rule; v_item : str }.
Definition viol (r : rule) (item : str) : violation := {| v_rule := r; v_item := item |}.
Definition when (b : bool) (v : violation) : list violation := if b then [v] else [].

(* rules about one field in isolation *)
Definition field_violations (sc : schema) (f : field) : list violation :=
  when (f_unwrap f && negb (is_rep (f_card f) || is_map (f_card f))) (viol RUnwrapNonRepeated (f_name f)) ++
  when (is_nullable f && negb (is_opt (f_card f))) (viol RNullableNonOptional (f_name f)) ++
  when (is_nullable f && is_msg_kind (f_kind f)) (viol RNullableMessage (f_name f)) ++
  (* empty_behavior is for singular message fields *)
  when (has_empty f && negb (is_msg_kind (f_kind f) && negb (is_rep (f_card f)) && negb (is_map (f_card f))))
       (viol REmptyBehaviorWrongType (f_name f)) ++
  (* timestamp_format is for google.protobuf.Timestamp fields (a map is not one) *)
  when (tsfmt_set f && negb (is_timestamp (f_kind f) && negb (is_map (f_card f)))) (viol RTimestampFormatWrongType (f_name f)) ++
  when (bytesenc_set f && negb (is_bytes_kind (f_kind f) && negb (is_map (f_card f)))) (viol RBytesEncodingWrongType (f_name f)) ++
  when (is_flatten f && is_rep (f_card f)) (viol RFlattenRepeated (f_name f)) ++
  when (is_flatten f && is_map (f_card f)) (viol RFlattenMap (f_name f)) ++
  when (is_flatten f && negb (is_msg_kind (f_kind f))) (viol RFlattenScalar (f_name f)) ++
  when (is_flatten f && match f_oneof f with Some _ => true | None => false end) (viol RFlattenOneofMember (f_name f)) ++
  when (negb (is_flatten f) && nonempty (flatten_prefix f)) (viol RPrefixWithoutFlatten (f_name f)) ++
  when (enum_number f && field_enum_has_custom sc f) (viol REnumNumberWithCustomValues (f_name f)).

(* rules about a message as a whole *)
Definition count_unwrap (m : message) : nat := List.length (filter f_unwrap (m_fields m)).
Definition well_formed_flatten (f : field) : bool :=
  is_flatten f && is_msg_kind (f_kind f) && negb (is_rep (f_card f)) && negb (is_map (f_card f)).
(* the JSON names the children of the (well-formed) flattened fields of a message turn into *)
Definition spec_flattened (sc : schema) (m : message) : list (str * str * str) :=
  names_of sc (filter well_formed_flatten (m_fields m)).
Definition flat_json_names (sc : schema) (m : message) : list str := map snd (spec_flattened sc m).

Definition message_violations (sc : schema) (m : message) : list violation :=
  flat_map (field_violations sc) (m_fields m) ++
  (* more than one unwrap field: each of them offends *)
  flat_map (fun f => when (f_unwrap f && Nat.ltb 1 (count_unwrap m)) (viol RUnwrapTwice (f_name f))) (m_fields m) ++
  (* an unwrapped map must be the only field *)
  flat_map (fun f => when (f_unwrap f && is_map (f_card f) && negb (Nat.eqb (List.length (m_fields m)) 1))
                          (viol RUnwrapMapNotAlone (f_name f))) (m_fields m) ++
  (* flattened names must be distinct from each other and from the parent's own names *)
  flat_map (fun n => when (mem_str (snd n) (parent_json_names m) ||
                           Nat.ltb 1 (List.length (filter (str_eqb (snd n)) (flat_json_names sc m))))
                          (viol RFlattenCollision (fst (fst n)))) (spec_flattened sc m) ++
  (* discriminated oneofs *)
  flat_map (fun o =>
      if oneof_configured o then
        when (mem_str (o_discriminator o) (map (fun f => json_name (f_name f)) (outside_fields m o)))
             (viol RDiscriminatorCollision (o_name o)) ++
        (if o_flatten o then
           when (existsb (fun v => negb (is_msg_kind (f_kind v))) (variants m o)) (viol ROneofFlattenScalarVariant (o_name o)) ++
           when (existsb (fun v => existsb (fun c => mem_str (snd c) (reserved_names m o)) (kind_children sc (f_kind v))) (variants m o))
                (viol ROneofFlattenChildCollision (o_name o))
         else [])
      else []) (m_oneofs m).

(* rules about an RPC with an HTTP configuration *)
Definition is_scalar_field (f : field) : bool :=
  match f_card f with Singular | Optional => true | _ => false end &&
  match f_kind f with KEnum _ | KBytes | KMessage _ => false | _ => true end.
Definition method_violations (sc : schema) (md : method) : list violation :=
  if negb (md_has_cfg md) then [] else
  let fs := input_fields sc md in
  let params := extract_path_params (md_path md) in
  flat_map (fun p => match find_field fs p with
                     | None => [viol RPathVariableNoField p]
                     | Some f => when (negb (is_scalar_field f)) (viol RPathVariableNonScalar p)
                     end) params ++
  flat_map (fun f => when (has_query f && mem_str (f_name f) params) (viol RPathAndQuery (f_name f))) fs ++
  (if verb_bodiless (md_verb md)
   then flat_map (fun f => when (negb (mem_str (f_name f) params) && negb (has_query f)) (viol RBodilessUnbound (f_name f))) fs
   else []).

Definition file_violations (sc : schema) (f : file) : list violation :=
  flat_map (message_violations sc) (fl_messages f) ++
  flat_map (fun sv => flat_map (method_violations sc) (sv_methods sv)) (fl_services f).

Definition broken_rules (sc : schema) : list violation := flat_map (file_violations sc) sc.
Definition broken_generated (sc : schema) : list violation := flat_map (file_violations sc) (gen_files sc).
Definition broken_imported (sc : schema) : list violation :=
  flat_map (file_violations sc) (filter (fun f => negb (fl_generate f)) sc).

(* the JSON-mapping rules protoc-gen-go-client implements: all but unwrap and the HTTP rules *)
Definition client_rule (r : rule) : bool :=
  match r with
  | RUnwrapNonRepeated | RUnwrapTwice | RUnwrapMapNotAlone
  | RPathVariableNoField | RPathVariableNonScalar | RPathAndQuery | RBodilessUnbound => false
  | _ => true
  end.

(* ================================================================================================
   The known gaps between rule and implementation (defect classes of C12).
   ================================================================================================ *)
Inductive c12_defect :=
  | RepeatedFieldAsPathVariable        (* isPathParamCompatible looks at Kind() only *)
  | EnumConflictOnMapValueUnchecked    (* the enum check skips map fields (their Kind() is message) *)
  | RuleBrokenInImportedFile           (* only files with Generate are validated *)
  | FlattenMarshalJSONConflictRefused  (* flatten + another codec on one message: refused although no rule is broken *)
  | OneofMarshalJSONConflictRefused    (* oneof_config + another codec on one message: likewise *)
  | FlattenOnOptionalMessageRefused.   (* proto3 optional fields sit in a synthetic oneof *)

Definition msg_repeated_pathvar (sc : schema) (md : method) : bool :=
  md_has_cfg md &&
  existsb (fun p => match find_field (input_fields sc md) p with
                    | Some f => is_rep (f_card f) && path_compatible f
                    | None => false end) (extract_path_params (md_path md)).
Definition msg_enum_map_gap (sc : schema) (m : message) : bool :=
  existsb (fun f => is_map (f_card f) && enum_number f && field_enum_has_custom sc f) (m_fields m).
Definition msg_flatten_conflict (m : message) : bool :=
  has_flatten m && existsb flatten_conflict_field (m_fields m).
Definition msg_oneof_conflict (m : message) : bool := has_oneof_discriminator m && other_codec_on_message m.
Definition msg_flatten_optional (m : message) : bool :=
  existsb (fun f => is_flatten f && is_opt (f_card f) && is_msg_kind (f_kind f)) (m_fields m).

Definition gen_messages (sc : schema) : list message := flat_map fl_messages (gen_files sc).
Definition gen_methods (sc : schema) : list method :=
  flat_map (fun f => flat_map sv_methods (fl_services f)) (gen_files sc).

Definition defects_C12 (sc : schema) : list c12_defect :=
  (if existsb (msg_repeated_pathvar sc) (gen_methods sc) then [RepeatedFieldAsPathVariable] else []) ++
  (if existsb (msg_enum_map_gap sc) (gen_messages sc) then [EnumConflictOnMapValueUnchecked] else []) ++
  (if nonempty (broken_imported sc) then [RuleBrokenInImportedFile] else []) ++
  (if existsb msg_flatten_conflict (gen_messages sc) then [FlattenMarshalJSONConflictRefused] else []) ++
  (if existsb msg_oneof_conflict (gen_messages sc) then [OneofMarshalJSONConflictRefused] else []) ++
  (if existsb msg_flatten_optional (gen_messages sc) then [FlattenOnOptionalMessageRefused] else []).

(* Domain of the model: every message type a flatten annotation or a flattened oneof variant or an
   RPC with HTTP configuration refers to is in the schema (or is Timestamp). *)
Definition known_type (sc : schema) (k : kind) : bool :=
  match k with
  | KMessage tn => str_eqb tn (s "google.protobuf.Timestamp") ||
                   match find_message (all_messages sc) tn with Some _ => true | None => false end
  | _ => true
  end.
Definition dom_message (sc : schema) (m : message) : bool :=
  (* protoc: members of a declared oneof are singular *)
  forallb (fun f => match f_oneof f with Some _ => match f_card f with Singular => true | _ => false end | None => true end) (m_fields m) &&
  forallb (fun f => negb (is_flatten f) || known_type sc (f_kind f)) (m_fields m) &&
  forallb (fun o => negb (oneof_configured o && o_flatten o) || forallb (fun v => known_type sc (f_kind v)) (variants m o)) (m_oneofs m).
Definition dom_method (sc : schema) (md : method) : bool :=
  negb (md_has_cfg md) || match find_message (all_messages sc) (md_in md) with Some _ => true | None => false end.
Definition dom_C12 (sc : schema) : bool :=
  forallb (dom_message sc) (flat_map fl_messages sc) &&
  forallb (dom_method sc) (flat_map (fun f => flat_map sv_methods (fl_services f)) sc).

(* ================================================================================================
   Rendering for the correspondence check (glue).
   ================================================================================================ *)
From Sebuf Require Import Json.

Definition err_family (c : err_class) : str :=
  match c with
  | EUnwrapNotRepeated | EUnwrapTwice | EUnwrapMapNotAlone => s "unwrap"
  | EEnumNumberCustom => s "enum"
  | ENullableNotOptional | ENullableMessage => s "nullable"
  | EEmptyNotMessage | EEmptyRepeated | EEmptyMap => s "empty_behavior"
  | ETsFmtNotTimestamp => s "timestamp_format"
  | EBytesEncNotBytes => s "bytes_encoding"
  | EFlattenPrefixAlone | EFlattenRepeated | EFlattenMap | EFlattenScalar | EFlattenOneof
  | EFlattenCollision | EFlattenMarshalConflict => s "flatten"
  | EDiscCollision | EOneofFlatScalar | EOneofFlatChildCollision | EOneofMarshalConflict => s "oneof"
  | EPathNoField | EPathNonScalar | EPathAndQuery | EBodilessUnbound => s "http"
  | ETsPathNoField | ETsUncovered => s "ts-route"
  end.

Definition c12_defect_str (d : c12_defect) : str :=
  match d with
  | RepeatedFieldAsPathVariable => s "repeated-field-as-path-variable"
  | EnumConflictOnMapValueUnchecked => s "enum-conflict-on-map-value-unchecked"
  | RuleBrokenInImportedFile => s "rule-broken-in-imported-file"
  | FlattenMarshalJSONConflictRefused => s "flatten-marshaljson-conflict-refused"
  | OneofMarshalJSONConflictRefused => s "oneof-marshaljson-conflict-refused"
  | FlattenOnOptionalMessageRefused => s "flatten-on-optional-message-refused"
  end.

(* the case: the schema and the offenders (message-or-RPC name, item name) the harness looks for in the text *)
Definition names_where (e : gen_error) (off : list (str * str)) : bool :=
  match e_where e with Some w => existsb (fun o => str_eqb (fst o) w) off | None => false end.
Definition names_item (e : gen_error) (off : list (str * str)) : bool :=
  existsb (fun o => mem_str (snd o) (e_items e)) off.

Definition verdict_json (r : option gen_error) (off : list (str * str)) : json :=
  match r with
  | None => JObj [(s "refused", JBool false)]
  | Some e => JObj [(s "refused", JBool true); (s "family", JStr (err_family (e_class e)));
                    (s "names_where", JBool (names_where e off)); (s "names_item", JBool (names_item e off));
                    (s "partial_output", JBool false)]
  end.
Definition refused_json (r : option gen_error) : json :=
  JObj [(s "refused", JBool (match r with Some _ => true | None => false end))].

Definition predict_C12 (c : schema * list (str * str)) : json :=
  let '(sc, off) := c in
  if negb (dom_C12 sc) then JObj [(s "unmodelled", JStr (s "a flattened or HTTP-bound message type is outside the schema"))] else
  JObj [(s "tags", jstrs (map c12_defect_str (defects_C12 sc)));
        (s "go-http", verdict_json (go_http_accepts sc) off);
        (s "go-client", verdict_json (go_client_accepts sc) off);
        (s "ts-server", refused_json (ts_server_accepts sc));
        (s "ts-client", refused_json (ts_client_accepts sc));
        (s "openapiv3", refused_json (openapi_accepts sc))].
