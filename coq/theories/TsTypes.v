(* TsTypes.v — the TypeScript declarations protoc-gen-ts-client and protoc-gen-ts-server emit for the
   messages and enums of a file (C07), transcribing internal/tscommon/types.go:
     TSScalarType / TSScalarTypeForField (27-82), MessageSet / CollectServiceMessages (126-224),
     TSFieldType / TSElementType (226-298), RootUnwrapTSType (300-327), GenerateEnumType (329-358),
     GenerateInterface / GenerateOneofDiscriminatedUnionType / GenerateFlattenedOneofInterface /
     GenerateStandardInterface / GenerateFieldDeclaration / GenerateFlattenedFields / IsOptionalField (360-590),
     TSTimestampType (592-608);
   the inhabitation relation  JSON value : TypeScript type  (required property present, declared property
   type respected, a property the type does not declare = failure); and the proto3-JSON form of a message
   value (protojson.Marshal) for the plain fragment: integers, bool, string, bytes, enum, nested, repeated, map. *)
From Sebuf Require Export Schema Value Json Num.

Inductive result (A : Type) := Ok (a : A) | Unmodelled (why : str).
Arguments Ok {A} a. Arguments Unmodelled {A} why.

(* ---- TypeScript types of the emitted dialect ------------------------------------------------------- *)
Inductive tsty :=
  | YString | YNumber | YBoolean | YNull
  | YLit (x : str)
  | YRef (n : str)
  | YArray (t : tsty)
  | YRecord (t : tsty)                               (* Record<string, t> *)
  | YObject (props : list (str * (bool * tsty)))     (* { name[?]: type; ... }  (bool: optional) *)
  | YUnion (l : list tsty)
  | YInter (l : list tsty).

Definition prop := (str * (bool * tsty))%type.
Definition p_name (p : prop) : str := fst p.
Definition p_opt (p : prop) : bool := fst (snd p).
Definition p_ty (p : prop) : tsty := snd (snd p).

Inductive decl := DInterface (n : str) (props : list prop) | DAlias (n : str) (t : tsty).

(* ---- names ------------------------------------------------------------------------------------------- *)
Definition dot : ascii := "."%char.
Definition last_seg (full : str) : str := last (split_on dot full) [].
Definition short_of (m : message) : str := last (m_path m) [].

Definition is_64 (k : kind) : bool :=
  match k with KInt64 | KSint64 | KSfixed64 | KUint64 | KFixed64 => true | _ => false end.
Definition is_msg (k : kind) : bool := match k with KMessage _ => true | _ => false end.

(* ---- field types --------------------------------------------------------------------------------------- *)
(* TSScalarTypeForField *)
Definition scalar_ty (f : field) : tsty :=
  match f_kind f with
  | KString | KBytes | KEnum _ => YString
  | KBool => YBoolean
  | KInt32 | KSint32 | KSfixed32 | KUint32 | KFixed32 | KFloat | KDouble => YNumber
  | KInt64 | KSint64 | KSfixed64 | KUint64 | KFixed64 =>
      match f_int64 f with Some I64Number => YNumber | _ => YString end
  | KMessage _ => YRef (s "unknown")
  end.

(* TSTimestampType *)
Definition timestamp_ty (f : field) : tsty :=
  match f_tsfmt f with Some TFUnixSeconds | Some TFUnixMillis => YNumber | _ => YString end.

(* TSElementType *)
Definition elem_ty (f : field) : tsty :=
  match f_kind f with
  | KMessage tn => if is_timestamp (f_kind f) then timestamp_ty f else YRef (last_seg tn)
  | KEnum tn => match f_enumenc f with Some EENumber => YNumber | _ => YRef (last_seg tn) end
  | _ => scalar_ty f
  end.

(* the synthetic value field of a map entry: the map field's kind, no sebuf option *)
Definition value_field (f : field) : field :=
  {| f_name := s "value"; f_number := 2; f_kind := f_kind f; f_card := Singular; f_oneof := None; f_query := None;
     f_unwrap := false; f_int64 := None; f_enumenc := None; f_nullable := None; f_empty := None;
     f_tsfmt := None; f_bytesenc := None; f_oneof_value := None; f_flatten := None; f_flatten_prefix := None |}.

(* annotations.FindUnwrapField: the repeated field carrying unwrap = true *)
Definition find_unwrap_list (sc : schema) (tn : str) : option field :=
  match find_message (all_messages sc) tn with
  | Some m => find (fun u => f_unwrap u && match f_card u with Repeated => true | _ => false end) (m_fields m)
  | None => None
  end.

(* value type of a map / root map: collapses a value message that has an unwrap list field *)
Definition map_value_ty (sc : schema) (f : field) : tsty :=
  let vf := value_field f in
  match f_kind f with
  | KMessage tn =>
      if is_timestamp (f_kind f) then elem_ty vf else
      match find_unwrap_list sc tn with
      | Some u => YArray (elem_ty u)
      | None => elem_ty vf
      end
  | _ => elem_ty vf
  end.

(* TSFieldType *)
Definition field_ty (sc : schema) (f : field) : tsty :=
  match f_card f with
  | MapOf _ => YRecord (map_value_ty sc f)
  | Repeated => YArray (elem_ty f)
  | _ => elem_ty f
  end.

(* IsOptionalField: proto3 `optional`, or a singular message-typed field *)
Definition is_optional (f : field) : bool :=
  match f_card f with
  | Optional => true
  | Singular => is_msg (f_kind f)
  | _ => false
  end.

(* GenerateFieldDeclaration / the line format of GenerateFlattenedFields *)
Definition field_prop (sc : schema) (prefix : str) (f : field) : prop :=
  let n := prefix ++ json_name (f_name f) in
  let t := field_ty sc f in
  match f_nullable f with
  | Some true => (n, (false, YUnion [t; YNull]))
  | _ => (n, (is_optional f, t))
  end.

(* ---- discriminated oneofs -------------------------------------------------------------------------------- *)
Definition disc_oneofs (m : message) : list oneof :=
  filter (fun o => o_has_cfg o && negb (str_eqb (o_discriminator o) [])) (m_oneofs m).
Definition variants (m : message) (o : oneof) : list field :=
  filter (fun f => match f_oneof f with Some n => str_eqb n (o_name o) | None => false end) (m_fields m).
Definition in_disc_oneof (m : message) (f : field) : option oneof :=
  match f_oneof f with
  | Some n => find (fun o => str_eqb (o_name o) n) (disc_oneofs m)
  | None => None
  end.
Definition union_name (m : message) (o : oneof) : str := short_of m ++ snake_to_upper_camel (o_name o).
Definition variant_value (f : field) : str :=
  match f_oneof_value f with Some (c :: r) => c :: r | _ => f_name f end.

Definition variant_branch (sc : schema) (o : oneof) (f : field) : result tsty :=
  let d := (o_discriminator o, (false, YLit (variant_value f))) in
  match f_kind f with
  | KMessage tn =>
      if o_flatten o then
        match find_message (all_messages sc) tn with
        | Some cm => Ok (YObject (d :: map (fun c => (json_name (f_name c), (false, field_ty sc c))) (m_fields cm)))
        | None => Unmodelled (s "variant message outside the schema")
        end
      else Ok (YObject [d; (json_name (f_name f), (true, YRef (last_seg tn)))])
  | _ => Ok (YObject [d; (json_name (f_name f), (true, scalar_ty f))])
  end.

Fixpoint all_ok {A} (l : list (result A)) : result (list A) :=
  match l with
  | [] => Ok []
  | Ok a :: r => match all_ok r with Ok t => Ok (a :: t) | Unmodelled w => Unmodelled w end
  | Unmodelled w :: _ => Unmodelled w
  end.

Definition union_ty (l : list tsty) : tsty := match l with [t] => t | _ => YUnion l end.

Definition oneof_union_decl (sc : schema) (m : message) (o : oneof) : result decl :=
  match all_ok (map (variant_branch sc o) (variants m o)) with
  | Ok bs => Ok (DAlias (union_name m o) (union_ty bs))
  | Unmodelled w => Unmodelled w
  end.

(* ---- one message ------------------------------------------------------------------------------------------- *)
Definition flatten_child (sc : schema) (f : field) : option (result (list prop)) :=
  match f_flatten f, f_kind f with
  | Some true, KMessage tn =>
      Some (match find_message (all_messages sc) tn with
            | Some cm => Ok (map (field_prop sc (match f_flatten_prefix f with Some p => p | None => [] end)) (m_fields cm))
            | None => Unmodelled (s "flattened message outside the schema")
            end)
  | _, _ => None
  end.

(* the property lines of the interface body; [std]: a discriminated oneof shows as `<oneof>?: <Union>` at its
   first member (GenerateStandardInterface); otherwise its members are skipped (the ...Base interface) *)
Fixpoint body_props (sc : schema) (m : message) (std : bool) (emitted : list str) (fs : list field)
  : result (list prop) :=
  match fs with
  | [] => Ok []
  | f :: r =>
      match in_disc_oneof m f with
      | Some o =>
          if std && negb (existsb (str_eqb (o_name o)) emitted) then
            match body_props sc m std (o_name o :: emitted) r with
            | Ok t => Ok ((o_name o, (true, YRef (union_name m o))) :: t)
            | Unmodelled w => Unmodelled w
            end
          else body_props sc m std emitted r
      | None =>
          match flatten_child sc f with
          | Some (Unmodelled w) => Unmodelled w
          | Some (Ok ps) => match body_props sc m std emitted r with Ok t => Ok (ps ++ t) | Unmodelled w => Unmodelled w end
          | None => match body_props sc m std emitted r with Ok t => Ok (field_prop sc [] f :: t) | Unmodelled w => Unmodelled w end
          end
      end
  end.

Definition message_decls (sc : schema) (m : message) : result (list decl) :=
  let ds := disc_oneofs m in
  match all_ok (map (oneof_union_decl sc m) ds) with
  | Unmodelled w => Unmodelled w
  | Ok unions =>
      if existsb o_flatten ds then
        match body_props sc m false [] (m_fields m) with
        | Unmodelled w => Unmodelled w
        | Ok ps =>
            Ok (unions ++ [DInterface (short_of m ++ s "Base") ps;
                           DAlias (short_of m) (YInter (YRef (short_of m ++ s "Base") :: map (fun o => YRef (union_name m o)) ds))])
        end
      else
        match body_props sc m true [] (m_fields m) with
        | Unmodelled w => Unmodelled w
        | Ok ps => Ok (unions ++ [DInterface (short_of m) ps])
        end
  end.

(* GenerateEnumType *)
Definition enum_decl (e : enum) : decl :=
  DAlias (last_seg (e_name e))
         (match e_values e with
          | [] => YString
          | vs => union_ty (map (fun v => YLit (match ev_custom v with Some (c :: r) => c :: r | _ => ev_name v end)) vs)
          end).

(* ---- which messages and enums a file's module declares (MessageSet) --------------------------------------- *)
Definition timestamp_name : str := s "google.protobuf.Timestamp".

(* depth-first, first visit wins: AddMessage records the message, then walks its fields in order *)
Fixpoint collect (fuel : nat) (sc : schema) (todo : list str) (seen : list str) (enums : list str)
  : result (list str * list str) :=
  match fuel with
  | O => match todo with [] => Ok (rev seen, enums) | _ => Unmodelled (s "collect: out of fuel") end
  | S fuel' =>
      match todo with
      | [] => Ok (rev seen, enums)
      | tn :: rest =>
          if existsb (str_eqb tn) seen || str_eqb tn timestamp_name then collect fuel' sc rest seen enums
          else
            match find_message (all_messages sc) tn with
            | None => Unmodelled (s "message outside the schema (well-known type other than Timestamp)")
            | Some m =>
                let kids := flat_map (fun f => match f_kind f with KMessage c => [c] | _ => [] end) (m_fields m) in
                let es := flat_map (fun f => match f_kind f with KEnum c => [c] | _ => [] end) (m_fields m) in
                collect fuel' sc (kids ++ rest) (tn :: seen) (es ++ enums)
            end
      end
  end.

Definition has_suffix_str (suf x : str) : bool := has_suffix suf x.

Definition roots (fl : file) : list str :=
  flat_map (fun sv => flat_map (fun md => [md_in md; md_out md]) (sv_methods sv)) (fl_services fl) ++
  flat_map (fun m => match m_path m with
                     | [n] => if has_suffix_str (s "Error") n then [m_name m] else []
                     | _ => [] end) (fl_messages fl).

Definition schema_size (sc : schema) : nat :=
  List.length (all_messages sc) + fold_right (fun m a => List.length (m_fields m) + a)%nat 0%nat (all_messages sc).

(* sort.Strings over the enum full names, duplicates removed (a Go map) *)
Fixpoint str_leb (a b : str) : bool :=
  match a, b with
  | [], _ => true
  | _ :: _, [] => false
  | x :: a', y :: b' => if (code x <? code y)%N then true else if (code y <? code x)%N then false else str_leb a' b'
  end.
Fixpoint insert_str (x : str) (l : list str) : list str :=
  match l with
  | [] => [x]
  | h :: t => if str_eqb x h then l else if str_leb x h then x :: l else h :: insert_str x t
  end.
Definition sort_dedup (l : list str) : list str := fold_right insert_str [] l.

Definition ts_decls (sc : schema) (fl : file) : result (list decl) :=
  let rs := roots fl in
  match collect (List.length rs + schema_size sc + 1) sc rs [] [] with
  | Unmodelled w => Unmodelled w
  | Ok (msgs, enums) =>
      match all_ok (map (fun tn => match find_message (all_messages sc) tn with
                                   | Some m => message_decls sc m
                                   | None => Unmodelled (s "message outside the schema") end) msgs) with
      | Unmodelled w => Unmodelled w
      | Ok mds =>
          match all_ok (map (fun en => match find_enum (all_enums sc) en with
                                       | Some e => Ok (enum_decl e)
                                       | None => Unmodelled (s "enum outside the schema") end) (sort_dedup enums)) with
          | Unmodelled w => Unmodelled w
          | Ok eds => Ok (List.concat mds ++ eds)
          end
      end
  end.

(* both plugins print the declarations through these same functions (tsclientgen/types.go:11-28,
   tsservergen/generator.go:60-69) *)
Definition ts_client_decls := ts_decls.
Definition ts_server_decls := ts_decls.

(* ---- result types (resolveOutputType / RootUnwrapTSType) ---------------------------------------------------- *)
Definition root_unwrap_field (m : message) : option field :=
  match m_fields m with [f] => if f_unwrap f then Some f else None | _ => None end.

Definition result_ty (sc : schema) (tn : str) : result tsty :=
  match find_message (all_messages sc) tn with
  | None => Unmodelled (s "output message outside the schema")
  | Some m =>
      match root_unwrap_field m with
      | Some f =>
          match f_card f with
          | MapOf _ => Ok (YRecord (map_value_ty sc f))
          | Repeated => Ok (YArray (elem_ty f))
          | _ => Ok (field_ty sc f)
          end
      | None => Ok (YRef (short_of m))
      end
  end.

(* ---- inhabitation --------------------------------------------------------------------------------------------- *)
Definition env := list (str * tsty).
Fixpoint lookup (e : env) (n : str) : option tsty :=
  match e with [] => None | (k, t) :: r => if str_eqb k n then Some t else lookup r n end.

(* interface declarations with one name merge (TypeScript declaration merging); the first alias of a name wins *)
Definition env_add (e : env) (d : decl) : env :=
  match d with
  | DInterface n ps =>
      match lookup e n with
      | Some (YObject old) => map (fun kt => if str_eqb (fst kt) n then (n, YObject (old ++ ps)) else kt) e
      | Some _ => e
      | None => e ++ [(n, YObject ps)]
      end
  | DAlias n t => match lookup e n with Some _ => e | None => e ++ [(n, t)] end
  end.
Definition env_of (ds : list decl) : env := fold_left env_add ds [].

(* the object shapes a type denotes: union = alternatives, intersection = merged property lists *)
Fixpoint shapes (fuel : nat) (e : env) (t : tsty) : option (list (list prop)) :=
  match fuel with
  | O => None
  | S f =>
      match t with
      | YObject ps => Some [ps]
      | YRef n => match lookup e n with Some d => shapes f e d | None => None end
      | YUnion l =>
          fold_right (fun m acc => match shapes f e m, acc with
                                   | Some a, Some b => Some (a ++ b) | _, _ => None end) (Some []) l
      | YInter l =>
          fold_right (fun m acc => match shapes f e m, acc with
                                   | Some a, Some b => Some (flat_map (fun x => map (fun y => x ++ y) b) a)
                                   | _, _ => None end) (Some [[]]) l
      | _ => None
      end
  end.

Definition has_key (kv : list (str * json)) (k : str) : bool := existsb (fun e => str_eqb (fst e) k) kv.

Fixpoint inhabits (fuel : nat) (e : env) (t : tsty) (j : json) {struct fuel} : bool :=
  match fuel with
  | O => false
  | S f =>
      let shape_ok (ps : list prop) (kv : list (str * json)) : bool :=
        forallb (fun p => p_opt p || has_key kv (p_name p)) ps &&
        forallb (fun kvp => match filter (fun p => str_eqb (p_name p) (fst kvp)) ps with
                            | [] => false
                            | decls => forallb (fun p => inhabits f e (p_ty p) (snd kvp)) decls
                            end) kv in
      match t with
      | YString => match j with JStr _ => true | _ => false end
      | YNumber => match j with JNum _ => true | _ => false end
      | YBoolean => match j with JBool _ => true | _ => false end
      | YNull => match j with JNull => true | _ => false end
      | YLit x => match j with JStr y => str_eqb x y | _ => false end
      | YArray el => match j with JArr l => forallb (inhabits f e el) l | _ => false end
      | YRecord el => match j with JObj kv => forallb (fun kvp => inhabits f e el (snd kvp)) kv | _ => false end
      | _ =>
          match shapes fuel e t with
          | Some shs => match j with JObj kv => existsb (fun ps => shape_ok ps kv) shs | _ => false end
          | None =>
              match t with
              | YRef n => match lookup e n with Some d => inhabits f e d j | None => false end
              | YUnion l => existsb (fun m => inhabits f e m j) l
              | YInter l => forallb (fun m => inhabits f e m j) l
              | _ => false
              end
          end
      end
  end.

Definition inhabit_fuel : nat := 64.

(* ---- proto3 JSON (protojson.Marshal) for the plain fragment ----------------------------------------------------- *)
Definition b64c (n : N) : ascii :=
  if (n <? 26)%N then ch (65 + n) else if (n <? 52)%N then ch (71 + n) else if (n <? 62)%N then ch (n - 4)
  else if (n =? 62)%N then "+"%char else "/"%char.
Fixpoint base64 (x : str) : str :=
  match x with
  | [] => []
  | [a] => let n := code a in [b64c (n / 4); b64c ((n mod 4) * 16); "="%char; "="%char]
  | [a; b] => let n := code a in let m := code b in
              [b64c (n / 4); b64c ((n mod 4) * 16 + m / 16); b64c ((m mod 16) * 4); "="%char]
  | a :: b :: c :: r =>
      let n := code a in let m := code b in let k := code c in
      b64c (n / 4) :: b64c ((n mod 4) * 16 + m / 16) :: b64c ((m mod 16) * 4 + k / 64) :: b64c (k mod 64) :: base64 r
  end.

Definition enum_json (sc : schema) (tn : str) (n : Z) : json :=
  match find_enum (all_enums sc) tn with
  | Some e => match find (fun v => Z.eqb (ev_number v) n) (e_values e) with
              | Some v => JStr (ev_name v) | None => JNum n end
  | None => JNum n
  end.

Definition pj_scalar (sc : schema) (k : kind) (v : sval) : result json :=
  match v, k with
  | VInt z, _ => Ok (if is_64 k then JStr (show_int z) else JNum z)
  | VBool b, _ => Ok (JBool b)
  | VStr x, _ => Ok (JStr x)
  | VBytes x, _ => Ok (JStr (base64 x))
  | VEnum n, KEnum tn => Ok (enum_json sc tn n)
  | VEnum n, _ => Ok (JNum n)
  | VFloat _, _ => Unmodelled (s "float value (number text not modelled)")
  end.

Definition map_key_str (v : sval) : str :=
  match v with VInt z => show_int z | VBool b => show_bool b | VStr x => x | _ => [] end.

(* recursion on the value; the schema only supplies kinds and names *)
Fixpoint pj_val (fuel : nat) (sc : schema) (k : kind) (v : fval) {struct fuel} : result json :=
  match fuel with
  | O => Unmodelled (s "pj: out of fuel")
  | S f =>
      let pj_msg (tn : str) (m : list (str * fval)) : result json :=
        if str_eqb tn timestamp_name then Unmodelled (s "Timestamp value (RFC 3339 text not modelled)") else
        match find_message (all_messages sc) tn with
        | None => Unmodelled (s "message outside the schema")
        | Some md =>
            match all_ok (map (fun e => match find_field (m_fields md) (fst e) with
                                        | Some fd => match pj_val f sc (f_kind fd) (snd e) with
                                                     | Ok j => Ok (json_name (f_name fd), j)
                                                     | Unmodelled w => Unmodelled w end
                                        | None => Unmodelled (s "value names an undeclared field") end) m) with
            | Ok kv => Ok (JObj kv)
            | Unmodelled w => Unmodelled w
            end
        end in
      match v with
      | FS x => pj_scalar sc k x
      | FM m => match k with KMessage tn => pj_msg tn m | _ => Unmodelled (s "message value in a scalar field") end
      | FL l => match all_ok (map (pj_val f sc k) l) with Ok js => Ok (JArr js) | Unmodelled w => Unmodelled w end
      | FMap kv =>
          match all_ok (map (fun e => match pj_val f sc k (snd e) with
                                      | Ok j => Ok (map_key_str (fst e), j) | Unmodelled w => Unmodelled w end) kv) with
          | Ok o => Ok (JObj o)
          | Unmodelled w => Unmodelled w
          end
      end
  end.

Definition pj_of_mval (sc : schema) (tn : str) (m : mval) : result json := pj_val 32 sc (KMessage tn) (FM m).

(* ---- defect classes ------------------------------------------------------------------------------------------------ *)
(* the known ways a wire value fails to inhabit the declared type, recognised on (schema, message, value) *)
Inductive c07_defect :=
  | C07ImplicitPresenceOmitted      (* required TS property; the encoders omit a field holding its default value *)
  | C07PlainOneofMemberRequired     (* scalar member of a plain oneof: required TS property, absent unless chosen *)
  | C07DiscOneofShape               (* non-flattened discriminated oneof: TS nests the union under the oneof's name,
                                       the wire puts discriminator and variant at the message level *)
  | C07FlatOneofUnset               (* flattened discriminated oneof with no member set: the intersection type demands a branch *)
  | C07ShortNameMerge               (* two declared messages with one short name: their interfaces merge *)
  | C07OpenEnumNumber               (* an enum number without a name travels as a JSON number; the TS type is a string union *)
  | C07EnumNumberNotApplied         (* enum_encoding = NUMBER: TS says number, the Go server writes the name *)
  | C07EnumCustomNotApplied         (* enum_value: TS lists the custom strings, the Go server writes the proto names *)
  | C07NonFiniteFloat               (* NaN / Infinity travel as JSON strings; the TS type is number *)
  | C07NestedCodecNotApplied        (* int64 NUMBER / UNIX timestamp field of a nested message: TS says number, the parent's
                                       encoder writes the proto3-JSON string *)
  | C07RootUnwrapRequest            (* root-unwrap message as a request: the interface is an object, the accepted body the bare array/map *)
  | C07RootUnwrapNull               (* root-unwrap response with no element: the Go server writes null *)
  | C07UnwrapSiblingInt64           (* plain 64-bit field next to an unwrap map: written as a JSON number; TS says string *)
  | C07EmptyBehaviorNull            (* empty_behavior = NULL writes null into a property typed `Msg | undefined` *)
  | C07FlattenChildAbsent           (* flatten: the child's properties are inlined as required, the child message may be unset *)
  | C07FlattenChildGoJson           (* flatten: the child is written by encoding/json: snake_case keys, 64-bit numbers, {seconds,nanos} *)
  | C07FlatOneofVariantOptional     (* flattened discriminated oneof: the variant's fields are inlined into the branch as REQUIRED
                                       properties, proto3-optional ones included; the wire omits an unset optional field *)
  | C07FlatOneofVariantGoJson       (* flattened discriminated oneof: the variant is written by encoding/json (snake_case keys, 64-bit
                                       numbers, {seconds,nanos}); the TS branch declares lowerCamel names, string and string *)
  | C07FlattenChildOneof            (* flatten child that has a discriminated oneof of its own: the parent interface lists the child's
                                       fields one by one (oneof members as ordinary, required properties, no discriminator), the wire
                                       carries the child's codec form (discriminator + variant, or nothing when no member is set) *)
  | C07PathParamString.             (* TS server puts the path parameter string into a number/boolean property *)

Definition c07_defect_str (d : c07_defect) : str :=
  match d with
  | C07ImplicitPresenceOmitted => s "implicit-presence-omitted"
  | C07PlainOneofMemberRequired => s "plain-oneof-member-required"
  | C07DiscOneofShape => s "nested-disc-oneof-shape"
  | C07FlatOneofUnset => s "flat-oneof-unset"
  | C07ShortNameMerge => s "same-short-name-merge"
  | C07OpenEnumNumber => s "open-enum-number"
  | C07EnumNumberNotApplied => s "enum-number-encoding-not-applied"
  | C07EnumCustomNotApplied => s "enum-custom-value-not-applied"
  | C07NonFiniteFloat => s "non-finite-float-as-string"
  | C07NestedCodecNotApplied => s "nested-codec-not-applied"
  | C07RootUnwrapRequest => s "root-unwrap-request-interface"
  | C07RootUnwrapNull => s "root-unwrap-null"
  | C07UnwrapSiblingInt64 => s "unwrap-sibling-int64-number"
  | C07EmptyBehaviorNull => s "empty-behavior-null"
  | C07FlattenChildAbsent => s "flatten-child-absent"
  | C07FlattenChildGoJson => s "flatten-child-go-json"
  | C07FlatOneofVariantOptional => s "flat-oneof-variant-optional-required"
  | C07FlatOneofVariantGoJson => s "flat-oneof-variant-go-json"
  | C07FlattenChildOneof => s "flatten-child-discriminated-oneof-undeclared"
  | C07PathParamString => s "path-param-string-into-number"
  end.

Definition populated (m : list (str * fval)) (f : field) : bool :=
  match mget m (f_name f) with Some _ => true | None => false end.
Definition in_plain_oneof (M : message) (f : field) : bool :=
  match f_oneof f with
  | Some _ => match in_disc_oneof M f with Some _ => false | None => true end
  | None => false
  end.
(* a field whose TS property is required although the wire omits its default *)
Definition implicit_required (f : field) : bool :=
  match f_oneof f, f_card f with
  | Some _, _ => false
  | None, Singular => negb (is_msg (f_kind f))
  | None, Repeated => true
  | None, MapOf _ => true
  | None, Optional => false
  end.
Definition nonfinite (k : kind) (bits : Z) : bool :=
  match k with
  | KDouble => Z.eqb ((bits / 2 ^ 52) mod 2048) 2047
  | KFloat => Z.eqb ((bits / 2 ^ 23) mod 256) 255
  | _ => false
  end.
Definition enum_custom (sc : schema) (tn : str) (n : Z) : bool :=
  match find_enum (all_enums sc) tn with
  | Some e => match find (fun v => Z.eqb (ev_number v) n) (e_values e) with
              | Some v => match ev_custom v with Some (_ :: _) => true | _ => false end
              | None => false end
  | None => false
  end.
Definition enum_named (sc : schema) (tn : str) (n : Z) : bool :=
  match find_enum (all_enums sc) tn with
  | Some e => existsb (fun v => Z.eqb (ev_number v) n) (e_values e)
  | None => false
  end.
Definition number_typed_codec (f : field) : bool :=
  (is_64 (f_kind f) && match f_int64 f with Some I64Number => true | _ => false end) ||
  (is_timestamp (f_kind f) && match f_tsfmt f with Some TFUnixSeconds | Some TFUnixMillis => true | _ => false end).
Definition has_unwrap_map_value (sc : schema) (M : message) : bool :=
  existsb (fun f => match f_card f, f_kind f with
                    | MapOf _, KMessage tn => negb (f_unwrap f) && match find_unwrap_list sc tn with Some _ => true | None => false end
                    | _, _ => false end) (m_fields M).

Definition scalar_defects (sc : schema) (f : field) (v : sval) : list c07_defect :=
  match v, f_kind f with
  | VEnum n, KEnum tn =>
      (if enum_named sc tn n then [] else [C07OpenEnumNumber]) ++
      (match f_enumenc f with Some EENumber => [C07EnumNumberNotApplied] | _ => [] end) ++
      (if enum_custom sc tn n then [C07EnumCustomNotApplied] else [])
  | VFloat b, k => if nonfinite k b then [C07NonFiniteFloat] else []
  | _, _ => []
  end.

Fixpoint val_defects (fuel : nat) (sc : schema) (depth : nat) (tn : str) (m : list (str * fval)) {struct fuel}
  : list c07_defect :=
  match fuel with
  | O => []
  | S fu =>
      match find_message (all_messages sc) tn with
      | None => []
      | Some M =>
          let fs := m_fields M in
          let elem (f : field) (v : fval) : list c07_defect :=
            match v, f_kind f with
            | FS x, _ => scalar_defects sc f x
            | FM sub, KMessage c => val_defects fu sc (S depth) c sub
            | _, _ => []
            end in
          (if existsb (fun f => implicit_required f && negb (populated m f)) fs then [C07ImplicitPresenceOmitted] else []) ++
          (if existsb (fun f => in_plain_oneof M f && negb (is_msg (f_kind f)) && negb (populated m f)) fs
           then [C07PlainOneofMemberRequired] else []) ++
          (if existsb (fun o => negb (o_flatten o) && existsb (populated m) (variants M o)) (disc_oneofs M)
           then [C07DiscOneofShape] else []) ++
          (if existsb (fun o => o_flatten o && negb (existsb (populated m) (variants M o))) (disc_oneofs M)
           then [C07FlatOneofUnset] else []) ++
          (if existsb (fun f => (populated m f && number_typed_codec f) ||
                                (negb (populated m f) && match f_nullable f with Some true => true | _ => false end)) fs
              && Nat.ltb 0 depth
           then [C07NestedCodecNotApplied] else []) ++
          (* the same class for codecs that change the SHAPE of the object: below the top level the parent's encoder
             (protojson) writes the plain proto3 form of a message with a flatten field, a discriminated oneof or an
             unwrap map value, while the TS declaration of that message is the reshaped one *)
          (if Nat.ltb 0 depth &&
              (existsb (fun f => match f_flatten f with Some true => populated m f | _ => false end) fs ||
               existsb (fun o => existsb (populated m) (variants M o)) (disc_oneofs M) ||
               (has_unwrap_map_value sc M &&
                existsb (fun f => match f_card f, f_kind f with
                                  | MapOf _, KMessage tn => populated m f && match find_unwrap_list sc tn with Some _ => true | None => false end
                                  | _, _ => false end) fs))
           then [C07NestedCodecNotApplied] else []) ++
          (if existsb (fun f => negb (populated m f) &&
                                match f_flatten f, f_kind f with
                                | Some true, KMessage c =>
                                    match find_message (all_messages sc) c with
                                    | Some cm => existsb (fun g => negb (is_optional g)) (m_fields cm)
                                    | None => false end
                                | _, _ => false end) fs
           then [C07FlattenChildAbsent] else []) ++
          (if existsb (fun f => match f_flatten f, f_kind f, mget m (f_name f) with
                                | Some true, KMessage c, Some (FM sub) =>
                                    match find_message (all_messages sc) c with
                                    | Some cm => existsb (fun g => populated sub g &&
                                                                   (negb (str_eqb (json_name (f_name g)) (f_name g)) || is_64 (f_kind g) || is_timestamp (f_kind g)))
                                                         (m_fields cm)
                                    | None => false end
                                | _, _, _ => false end) fs
           then [C07FlattenChildGoJson] else []) ++
          (if existsb (fun o => o_flatten o &&
                                existsb (fun f => match f_kind f, mget m (f_name f) with
                                                  | KMessage c, Some (FM sub) =>
                                                      match find_message (all_messages sc) c with
                                                      | Some cm => existsb (fun g => is_optional g && negb (populated sub g)) (m_fields cm)
                                                      | None => false end
                                                  | _, _ => false end) (variants M o)) (disc_oneofs M)
           then [C07FlatOneofVariantOptional] else []) ++
          (if existsb (fun o => o_flatten o &&
                                existsb (fun f => match f_kind f, mget m (f_name f) with
                                                  | KMessage c, Some (FM sub) =>
                                                      match find_message (all_messages sc) c with
                                                      | Some cm => existsb (fun g => populated sub g &&
                                                                                     (negb (str_eqb (json_name (f_name g)) (f_name g)) || is_64 (f_kind g) || is_timestamp (f_kind g)))
                                                                           (m_fields cm)
                                                      | None => false end
                                                  | _, _ => false end) (variants M o)) (disc_oneofs M)
           then [C07FlatOneofVariantGoJson] else []) ++
          (if existsb (fun f => match f_flatten f, f_kind f, mget m (f_name f) with
                                | Some true, KMessage c, Some (FM sub) =>
                                    match find_message (all_messages sc) c with
                                    | Some cm => match disc_oneofs cm with [] => false | _ => true end
                                    | None => false end
                                | _, _, _ => false end) fs
           then [C07FlattenChildOneof] else []) ++
          (if has_unwrap_map_value sc M && existsb (fun f => populated m f && is_64 (f_kind f) && match f_card f with Singular | Optional => true | _ => false end) fs
           then [C07UnwrapSiblingInt64] else []) ++
          (if existsb (fun f => match f_empty f, mget m (f_name f) with Some EBNull, Some (FM []) => true | _, _ => false end) fs
           then [C07EmptyBehaviorNull] else []) ++
          flat_map (fun f => match mget m (f_name f) with
                             | None => []
                             | Some (FL l) => flat_map (elem f) l
                             | Some (FMap kv) => flat_map (fun e => elem f (snd e)) kv
                             | Some v => elem f v
                             end) fs
      end
  end.

Fixpoint dedup_defects (l : list c07_defect) (seen : list str) : list c07_defect :=
  match l with
  | [] => []
  | d :: r => if existsb (str_eqb (c07_defect_str d)) seen then dedup_defects r seen
              else d :: dedup_defects r (c07_defect_str d :: seen)
  end.

(* two messages declared by the file's module share a short name *)
Fixpoint has_dup (l : list str) : bool :=
  match l with [] => false | x :: r => existsb (str_eqb x) r || has_dup r end.
Definition short_name_clash (sc : schema) (fl : file) : bool :=
  let rs := roots fl in
  match collect (List.length rs + schema_size sc + 1) sc rs [] [] with
  | Ok (msgs, _) => has_dup (map last_seg msgs)
  | Unmodelled _ => false
  end.

(* family: "inh-response" | "inh-request" | "inh-handler-arg" *)
Definition defects_C07 (sc : schema) (fl : file) (fam : str) (tn : str) (pathfs : list str) (m : mval) : list c07_defect :=
  let M := find_message (all_messages sc) tn in
  let root_unwrap := match M with Some M => match root_unwrap_field M with Some _ => true | None => false end | None => false end in
  let is_req := negb (str_eqb fam (s "inh-response")) in
  dedup_defects (
    (if root_unwrap && is_req then [C07RootUnwrapRequest] else []) ++
    (* unwrap.go root unwrap: only a SCALAR list / map without elements is written as null (nil slice / map through
       encoding/json); message lists and message-valued maps are built element by element and give [] / {} *)
    (if root_unwrap && negb is_req && match m with [] => true | _ => false end &&
        match M with
        | Some M => match root_unwrap_field M with
                    | Some f => match f_kind f with KMessage _ => false | _ => true end
                    | None => false end
        | None => false end
     then [C07RootUnwrapNull] else []) ++
    (if short_name_clash sc fl then [C07ShortNameMerge] else []) ++
    (if str_eqb fam (s "inh-handler-arg") &&
        existsb (fun p => match M with
                          | Some M => match find_field (m_fields M) p with
                                      | Some f => match scalar_ty f with YString => false | _ => true end
                                      | None => false end
                          | None => false end) pathfs
     then [C07PathParamString] else []) ++
    (if root_unwrap && negb is_req then
       (* the wire value is the inner array / map: only its elements are looked at *)
       match M, m with
       | Some M, [(_, FL l)] => flat_map (fun v => match v, m_fields M with
                                                   | FM sub, [f] => match f_kind f with KMessage c => val_defects 32 sc 1 c sub | _ => [] end
                                                   | _, _ => [] end) l
       | Some M, [(_, FMap kv)] => flat_map (fun e => match snd e, m_fields M with
                                                      | FM sub, [f] => match f_kind f with KMessage c => val_defects 32 sc 1 c sub | _ => [] end
                                                      | _, _ => [] end) kv
       | _, _ => []
       end
     else val_defects 32 sc 0 tn m)) [].

(* ---- rendering (glue for the correspondence check) -------------------------------------------------------------------- *)
Fixpoint ty_json (t : tsty) : json :=
  let props_json (ps : list prop) : json :=
    JArr ((fix go (l : list prop) : list json :=
             match l with
             | [] => []
             | p :: r => JObj [(s "name", JStr (fst p)); (s "optional", JBool (fst (snd p))); (s "type", ty_json (snd (snd p)))] :: go r
             end) ps) in
  match t with
  | YString => JObj [(s "t", JStr (s "string"))]
  | YNumber => JObj [(s "t", JStr (s "number"))]
  | YBoolean => JObj [(s "t", JStr (s "boolean"))]
  | YNull => JObj [(s "t", JStr (s "null"))]
  | YLit x => JObj [(s "t", JStr (s "lit")); (s "value", JStr x)]
  | YRef n => JObj [(s "t", JStr (s "ref")); (s "name", JStr n)]
  | YArray e => JObj [(s "t", JStr (s "array")); (s "elem", ty_json e)]
  | YRecord e => JObj [(s "t", JStr (s "record")); (s "elem", ty_json e)]
  | YObject ps => JObj [(s "t", JStr (s "object")); (s "props", props_json ps)]
  | YUnion l => JObj [(s "t", JStr (s "union")); (s "members", JArr ((fix go (l : list tsty) := match l with [] => [] | x :: r => ty_json x :: go r end) l))]
  | YInter l => JObj [(s "t", JStr (s "inter")); (s "members", JArr ((fix go (l : list tsty) := match l with [] => [] | x :: r => ty_json x :: go r end) l))]
  end.

Definition decl_json (d : decl) : json :=
  match d with
  | DInterface n ps =>
      JObj [(s "kind", JStr (s "interface")); (s "name", JStr n);
            (s "props", JArr (map (fun p => JObj [(s "name", JStr (fst p)); (s "optional", JBool (fst (snd p))); (s "type", ty_json (snd (snd p)))]) ps))]
  | DAlias n t => JObj [(s "kind", JStr (s "type")); (s "name", JStr n); (s "type", ty_json t)]
  end.

Definition unmodelled (why : str) : json := JObj [(s "unmodelled", JStr why)].

(* declarations of a file + RPC signatures: case = (schema, file index) *)
Definition c07_decl_case := (schema * nat)%type.
Definition sig_json (sc : schema) (md : method) : result json :=
  match result_ty sc (md_out md) with
  | Ok t => Ok (JObj [(s "method", JStr (lower_first (md_name md))); (s "request", JStr (last_seg (md_in md))); (s "result", ty_json t)])
  | Unmodelled w => Unmodelled w
  end.
Definition predict_C07_decls (c : c07_decl_case) : json :=
  let '(sc, i) := c in
  match nth_error sc i with
  | None => unmodelled (s "no such file")
  | Some fl =>
      match ts_decls sc fl, all_ok (flat_map (fun sv => map (sig_json sc) (sv_methods sv)) (fl_services fl)) with
      | Ok ds, Ok sigs =>
          JObj [(s "tags", jstrs []); (s "decls", JArr (map decl_json ds)); (s "sigs", JArr sigs);
                (s "same", JBool true)]
      | Unmodelled w, _ => unmodelled w
      | _, Unmodelled w => unmodelled w
      end
  end.

(* inhabitation of a captured JSON value:
   case = (schema, file index, (as result type?, message), family, path-bound fields, value, captured JSON) *)
Definition c07_inh_case := (schema * nat * (bool * str) * str * list str * mval * json)%type.
Definition predict_C07_inh (c : c07_inh_case) : json :=
  let '(sc, i, (as_result, tn), fam, pathfs, m, j) := c in
  match nth_error sc i with
  | None => unmodelled (s "no such file")
  | Some fl =>
      match ts_decls sc fl, (if as_result then result_ty sc tn else Ok (YRef (last_seg tn))) with
      | Ok ds, Ok t => JObj [(s "tags", jstrs (map c07_defect_str (defects_C07 sc fl fam tn pathfs m)));
                             (s "inhabits", JBool (inhabits inhabit_fuel (env_of ds) t j))]
      | Unmodelled w, _ => unmodelled w
      | _, Unmodelled w => unmodelled w
      end
  end.

(* the proto3-JSON form of a value: case = (schema, message, value) *)
Definition c07_pj_case := (schema * str * mval)%type.
Definition predict_C07_pj (c : c07_pj_case) : json :=
  let '(sc, tn, m) := c in
  match pj_of_mval sc tn m with
  | Ok j => JObj [(s "tags", jstrs []); (s "json", j)]
  | Unmodelled w => unmodelled w
  end.
