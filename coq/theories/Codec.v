(* Codec.v — Impl: what the Go code emitted by protoc-gen-go-http / protoc-gen-go-client does when a
   message is turned into JSON or read back.  Three layers, each following its source:
     1. [gj_*]   encoding/json's reflection encoder/decoder on protoc-gen-go structs
                 (tags `json:"<proto_name>,omitempty"`, json.Marshaler/Unmarshaler honoured);
     2. [enc_* / dec_*]  the per-feature MarshalJSON / UnmarshalJSON bodies
                 (internal/httpgen/encoding.go, nullable.go, empty_behavior.go, timestamp_format.go,
                  bytes_encoding.go, flatten.go, oneof_discriminator.go, unwrap.go; the go-client copies
                  are byte-identical apart from the header line), including swallowed errors;
     3. [encode / decode]  marshalResponse / bindDataFromJSONRequest (generator.go:413-441,683-712):
                 json.Marshaler / json.Unmarshaler on the TOP-LEVEL message, else plain protojson.
   The model follows the code, wrong behaviour included; the defect classifiers are at the end. *)
From Sebuf Require Export ProtoJson.
From Sebuf Require Import Url.

Open Scope Z_scope.

(* ---- raw maps (map[string]json.RawMessage) -------------------------------------------------------- *)
Definition rawmap := list (str * json).
Definition raw_has (k : str) (r : rawmap) : bool := existsb (fun e => str_eqb (fst e) k) r.
Definition raw_del (k : str) (r : rawmap) : rawmap := filter (fun e => negb (str_eqb (fst e) k)) r.
Definition raw_set (k : str) (v : json) (r : rawmap) : rawmap :=
  if raw_has k r then map (fun e => if str_eqb (fst e) k then (k, v) else e) r else r ++ [(k, v)].
Definition raw_get (k : str) (r : rawmap) : option json := assoc_json k r.

(* ---- which feature emits MarshalJSON for a message ------------------------------------------------- *)
Inductive feature :=
  | FtUnwrapRoot | FtUnwrapMap | FtInt64 | FtNullable | FtEmpty | FtTs | FtBytes | FtFlatten | FtOneof.

Definition is_map (f : field) : bool := match f_card f with MapOf _ => true | _ => false end.
Definition is_repeated (f : field) : bool := match f_card f with Repeated => true | _ => false end.
Definition is_msg_kind (k : kind) : bool := match k with KMessage _ => true | _ => false end.
Definition msg_name (k : kind) : str := match k with KMessage tn => tn | _ => [] end.
Definition jn (f : field) : str := json_name (f_name f).

(* encoding.go:21-52 (direct fields; a map field's descriptor kind is message, so maps never qualify) *)
Definition is_number_i64 (f : field) : bool :=
  is_int64_kind (f_kind f) && negb (is_map f) &&
  match f_int64 f with Some I64Number => true | _ => false end.
Definition is_nullable (f : field) : bool := match f_nullable f with Some true => true | _ => false end.
Definition empty_of (f : field) : option empty_beh :=
  match f_empty f with Some EBUnspecified => None | x => x end.
Definition tsfmt_of (f : field) : option ts_fmt :=
  if is_timestamp (f_kind f) && negb (is_map f) then
    match f_tsfmt f with
    | Some TFUnixSeconds => Some TFUnixSeconds | Some TFUnixMillis => Some TFUnixMillis | Some TFDate => Some TFDate
    | _ => None
    end
  else None.
Definition bytesenc_of (f : field) : option bytes_enc :=
  match f_kind f with
  | KBytes => if is_map f then None else
      match f_bytesenc f with
      | Some BEBase64Raw => Some BEBase64Raw | Some BEBase64Url => Some BEBase64Url
      | Some BEBase64UrlRaw => Some BEBase64UrlRaw | Some BEHex => Some BEHex
      | _ => None
      end
  | _ => None
  end.
Definition is_flatten (f : field) : bool := match f_flatten f with Some true => true | _ => false end.
Definition flat_prefix (f : field) : str := match f_flatten_prefix f with Some p => p | None => [] end.
Definition oneof_cfg (o : oneof) : bool :=
  o_has_cfg o && match o_discriminator o with [] => false | _ => true end.
Definition unwrap_fields (md : message) : list field :=
  filter (fun f => f_unwrap f) (m_fields md).
(* annotations.GetUnwrapField: Some f when exactly one unwrap field on a repeated/map field *)
Definition unwrap_field (md : message) : option field :=
  match unwrap_fields md with
  | [f] => if is_repeated f || is_map f then Some f else None
  | _ => None
  end.
Definition is_root_unwrap (md : message) : bool :=
  match unwrap_field md, m_fields md with Some _, [_] => true | _, _ => false end.

Section Features.
Variable sc : schema.

(* the unwrap field of the message used as a map value (unwrap.go collectUnwrapMapFields) *)
Definition value_unwrap (f : field) : option field :=
  if is_map f then
    match f_kind f with
    | KMessage vtn => match lookup_message sc vtn with Some vmd => unwrap_field vmd | None => None end
    | _ => None
    end
  else None.

Definition features (md : message) : list feature :=
  (if is_root_unwrap md then [FtUnwrapRoot]
   else if existsb (fun f => match value_unwrap f with Some _ => true | None => false end) (m_fields md)
        then [FtUnwrapMap] else []) ++
  (if existsb is_number_i64 (m_fields md) then [FtInt64] else []) ++
  (if existsb is_nullable (m_fields md) then [FtNullable] else []) ++
  (if existsb (fun f => match empty_of f with Some _ => true | None => false end) (m_fields md) then [FtEmpty] else []) ++
  (if existsb (fun f => match tsfmt_of f with Some _ => true | None => false end) (m_fields md) then [FtTs] else []) ++
  (if existsb (fun f => match bytesenc_of f with Some _ => true | None => false end) (m_fields md) then [FtBytes] else []) ++
  (if existsb is_flatten (m_fields md) then [FtFlatten] else []) ++
  (if existsb oneof_cfg (m_oneofs md) then [FtOneof] else []).

Inductive owner := OwnNone | Own (ft : feature) | OwnMany.
Definition owner_of (md : message) : owner :=
  match features md with [] => OwnNone | [ft] => Own ft | _ => OwnMany end.
Definition owns (tn : str) : bool :=
  match lookup_message sc tn with
  | Some md => match owner_of md with OwnNone => false | _ => true end
  | None => false
  end.

(* shapes on which the emitted Go does not compile (C13's subject): the model declines *)
Definition plain_singular (f : field) : bool :=
  match f_card f, f_oneof f with Singular, None => true | _, _ => false end.
Definition buildable (ft : feature) (md : message) : bool :=
  match ft with
  | FtInt64 => forallb (fun f => negb (is_number_i64 f) || plain_singular f || is_repeated f) (m_fields md)
  | FtTs => forallb (fun f => match tsfmt_of f with Some _ => plain_singular f | None => true end) (m_fields md)
  | FtBytes => forallb (fun f => match bytesenc_of f with
                                 | Some _ => match f_card f, f_oneof f with
                                             | Singular, None | Optional, None => true | _, _ => false end
                                 | None => true end) (m_fields md)
  | FtEmpty => forallb (fun f => match empty_of f with Some _ => plain_singular f | None => true end) (m_fields md)
  | FtUnwrapMap => forallb (fun f => match f_card f, f_oneof f with
                                     | Optional, _ => false | _, Some _ => false
                                     | MapOf kk, _ => match value_unwrap f with Some _ => kind_eqb kk KString | None => true end
                                     | _, _ => true end) (m_fields md)
  | FtUnwrapRoot => forallb (fun f => match f_card f with MapOf kk => kind_eqb kk KString | _ => true end) (m_fields md)
  | _ => true
  end.
End Features.

(* ---- enums with an emitted MarshalJSON (enum_encoding.go:29-90: any value with enum_value) -------- *)
Definition ev_json (v : enum_value) : str :=
  match ev_custom v with Some (c :: r) => c :: r | _ => ev_name v end.
Definition enum_codec (e : enum) : bool :=
  existsb (fun v => match ev_custom v with Some (_ :: _) => true | _ => false end) (e_values e).
Fixpoint ev_by_json (vs : list enum_value) (x : str) : option enum_value :=
  match vs with [] => None | v :: r => if str_eqb (ev_json v) x then Some v else ev_by_json r x end.

Definition bytes_enc_text (e : bytes_enc) (b : str) : str :=
  match e with
  | BEHex => hex_enc b
  | BEBase64Raw => b64_enc false false b
  | BEBase64Url => b64_enc true true b
  | BEBase64UrlRaw => b64_enc true false b
  | _ => b64_enc false true b
  end.
Definition bytes_dec_text (e : bytes_enc) (x : str) : option str :=
  match e with
  | BEHex => hex_dec x
  | BEBase64Raw => b64_dec false false x
  | BEBase64Url => b64_dec true true x
  | BEBase64UrlRaw => b64_dec true false x
  | _ => b64_dec false true x
  end.

Definition disc_value (f : field) : str :=
  match f_oneof_value f with Some (c :: r) => c :: r | _ => f_name f end.

Definition fold_eq (a b : str) : bool := str_eqb (lower_str a) (lower_str b).

Section Codec.
Variable E : ExtLib.
Variable sc : schema.

Definition find_oneof_member (md : message) (m : mval) (o : oneof) : option field :=
  find (fun f => match f_oneof f with
                 | Some n => str_eqb n (o_name o) && match mget m (f_name f) with Some _ => true | None => false end
                 | None => false end) (m_fields md).
Definition real_oneof_set (md : message) (m : mval) : bool :=
  existsb (fun f => match f_oneof f, mget m (f_name f) with Some _, Some _ => true | _, _ => false end) (m_fields md).

(* ===================== encoding/json: scalars ===================== *)
Definition gj_enum (tn : str) (n : Z) : res json :=
  match find_enum (all_enums sc) tn with
  | None => RUnm (s "unknown enum type")
  | Some e =>
      if enum_codec e then
        match ev_by_number (e_values e) n with
        | Some v => ROk (JStr (ev_json v))
        | None => ROk (JStr (show_Z n))       (* x.String() of an undefined number *)
        end
      else ROk (JNum n)
  end.

Definition gj_scalar (k : kind) (v : sval) : res json :=
  match k, v with
  | KBool, VBool b => ROk (JBool b)
  | KString, VStr x => ROk (JStr x)
  | KBytes, VBytes x => ROk (JStr (b64_enc false true x))
  | KDouble, VFloat b =>
      match fclassify true b with
      | FFinite => match x_fprint E true b with Some j => ROk j | None => RUnm (s "float value missing from the print table") end
      | _ => RErr (s "json: unsupported value")
      end
  | KFloat, VFloat b =>
      match fclassify false b with
      | FFinite => match x_fprint E false b with Some j => ROk j | None => RUnm (s "float value missing from the print table") end
      | _ => RErr (s "json: unsupported value")
      end
  | KEnum tn, VEnum n => gj_enum tn n
  | _, VInt z => if is_int32_kind k || is_int64_kind k then ROk (JNum z) else RUnm (s "ill-typed value")
  | _, _ => RUnm (s "ill-typed value")
  end.

Definition gj_scalar_list (k : kind) (l : list fval) : res json :=
  rall (map (fun v => match v with FS x => gj_scalar k x | _ => RUnm (s "ill-typed list") end) l) >>= (fun js => ROk (JArr js)).

Definition gj_key_text (v : sval) : res str :=
  match v with
  | VStr x => ROk x
  | VInt z => ROk (show_Z z)
  | VBool _ => RErr (s "json: unsupported type: map[bool]")
  | _ => RUnm (s "ill-typed map key")
  end.

Definition pj_list (k : kind) (v : option fval) : res json :=
  match v with
  | None => ROk (JArr [])
  | Some (FL l) => rall (map (pj_fval E sc k) l) >>= (fun js => ROk (JArr js))
  | Some _ => RUnm (s "ill-typed list")
  end.

(* ===================== per-feature MarshalJSON bodies ===================== *)
(* [kids]: json.Marshal renderings of the children that the body passes to encoding/json, by field name *)
Definition kids_t := list (str * res json).
Fixpoint kid (ks : kids_t) (n : str) : res json :=
  match ks with
  | [] => RUnm (s "internal: child rendering missing")
  | (n', r) :: t => if str_eqb n n' then r else kid t n
  end.

(* encoding.go:124-166 *)
Definition enc_int64 (md : message) (m : mval) (raw : rawmap) : rawmap :=
  fold_left (fun raw f =>
    if is_number_i64 f then
      match f_card f with
      | Repeated => match mget m (f_name f) with
                    | Some (FL (x :: l)) =>
                        raw_set (jn f) (JArr (map (fun v => match v with FS (VInt z) => JNum z | _ => JNull end) (x :: l))) raw
                    | _ => raw
                    end
      | _ => match mget m (f_name f) with
             | Some (FS (VInt z)) => if z =? 0 then raw_del (jn f) raw else raw_set (jn f) (JNum z) raw
             | _ => raw_del (jn f) raw
             end
      end
    else raw) (m_fields md) raw.

(* nullable.go *)
Definition enc_nullable (md : message) (m : mval) (raw : rawmap) : rawmap :=
  fold_left (fun raw f =>
    if is_nullable f then match mget m (f_name f) with None => raw_set (jn f) JNull raw | Some _ => raw end
    else raw) (m_fields md) raw.

(* empty_behavior.go: proto.Size(x.F) == 0 iff the child has no populated field *)
Definition enc_empty (md : message) (m : mval) (raw : rawmap) : rawmap :=
  fold_left (fun raw f =>
    match empty_of f, mget m (f_name f) with
    | Some EBNull, Some (FM []) => raw_set (jn f) JNull raw
    | Some EBOmit, Some (FM []) => raw_del (jn f) raw
    | _, _ => raw
    end) (m_fields md) raw.

(* timestamp_format.go: t := x.F.AsTime(); Unix() / UnixMilli() / Format("2006-01-02") *)
Definition enc_ts (md : message) (m : mval) (raw : rawmap) : rawmap :=
  fold_left (fun raw f =>
    match tsfmt_of f, mget m (f_name f) with
    | Some fmt, Some (FM tm) =>
        let sec := mget_int tm (s "seconds") in
        let nanos := mget_int tm (s "nanos") in
        match fmt with
        | TFUnixSeconds => raw_set (jn f) (JNum sec) raw
        | TFUnixMillis => raw_set (jn f) (JNum (sec * 1000 + nanos / 1000000)) raw
        | TFDate => raw_set (jn f) (JStr (x_date_text E sec)) raw
        | _ => raw
        end
    | _, _ => raw
    end) (m_fields md) raw.

(* bytes_encoding.go: only when len(x.F) > 0 *)
Definition enc_bytes (md : message) (m : mval) (raw : rawmap) : rawmap :=
  fold_left (fun raw f =>
    match bytesenc_of f, mget m (f_name f) with
    | Some e, Some (FS (VBytes (c :: b))) => raw_set (jn f) (JStr (bytes_enc_text e (c :: b))) raw
    | _, _ => raw
    end) (m_fields md) raw.

(* flatten.go:224-251 *)
Definition enc_flatten (md : message) (m : mval) (ks : kids_t) (raw : rawmap) : res rawmap :=
  fold_left (fun acc f =>
    acc >>= (fun raw =>
    if is_flatten f then
      match mget m (f_name f) with
      | Some _ =>
          kid ks (f_name f) >>= (fun cj =>
          match cj with
          | JObj ckv => ROk (fold_left (fun r e => raw_set (flat_prefix f ++ fst e) (snd e) r) ckv (raw_del (jn f) raw))
          | JNull => ROk (raw_del (jn f) raw)
          | _ => RErr (s "flatten child is not a JSON object")
          end)
      | None => ROk raw
      end
    else ROk raw)) (m_fields md) (ROk raw).

(* oneof_discriminator.go:199-251: marshal errors of the variant are swallowed *)
Definition enc_oneof (md : message) (m : mval) (ks : kids_t) (raw : rawmap) : res rawmap :=
  fold_left (fun acc o =>
    acc >>= (fun raw =>
    if oneof_cfg o then
      match find_oneof_member md m o with
      | Some f =>
          let raw1 := raw_set (o_discriminator o) (JStr (disc_value f)) raw in
          if o_flatten o && is_msg_kind (f_kind f) then
            match kid ks (f_name f) with
            | ROk (JObj ckv) => ROk (raw_del (jn f) (fold_left (fun r e => raw_set (fst e) (snd e) r) ckv raw1))
            | RUnm w => RUnm w
            | _ => ROk (raw_del (jn f) raw1)
            end
          else ROk raw1
      | None => ROk raw
      end
    else ROk raw)) (m_oneofs md) (ROk raw).

(* unwrap.go: array of a wrapper's unwrap field (message elements through protojson, scalars through
   encoding/json; a nil scalar slice is "null") *)
Definition unwrap_array (uf : field) (wrapper : fval) : res json :=
  match wrapper with
  | FM wm =>
      if is_msg_kind (f_kind uf) then pj_list (f_kind uf) (mget wm (f_name uf))
      else match mget wm (f_name uf) with
           | Some (FL l) => gj_scalar_list (f_kind uf) l
           | None => ROk JNull
           | _ => RUnm (s "ill-typed wrapper")
           end
  | _ => RUnm (s "ill-typed wrapper")
  end.
Definition unwrap_map_obj (uf : field) (kv : list (sval * fval)) : res json :=
  rall (map (fun e => key_text (fst e) >>= (fun k => unwrap_array uf (snd e) >>= (fun a => ROk (k, a)))) kv)
  >>= (fun es => ROk (JObj es)).

(* unwrap.go:783-982 root unwrap *)
Definition enc_unwrap_root (md : message) (m : mval) (ks : kids_t) : res json :=
  match m_fields md with
  | [f] =>
      let v := mget m (f_name f) in
      match f_card f with
      | Repeated =>
          if is_msg_kind (f_kind f) then pj_list (f_kind f) v
          else match v with None => ROk JNull | Some _ => kid ks (f_name f) end
      | MapOf _ =>
          match value_unwrap sc f with
          | Some uf =>
              if is_repeated uf then
                match v with
                | None => ROk (JObj [])
                | Some (FMap kv) => unwrap_map_obj uf kv
                | _ => RUnm (s "ill-typed map")
                end
              else RUnm (s "map value whose unwrap field is itself a map")
          | None =>
              if is_msg_kind (f_kind f) then
                match v with
                | None => ROk (JObj [])
                | Some (FMap kv) =>
                    rall (map (fun e => key_text (fst e) >>= (fun k => pj_fval E sc (f_kind f) (snd e) >>= (fun j => ROk (k, j)))) kv)
                    >>= (fun es => ROk (JObj es))
                | _ => RUnm (s "ill-typed map")
                end
              else match v with None => ROk JNull | Some _ => kid ks (f_name f) end
          end
      | _ => RUnm (s "unwrap on a singular field")
      end
  | _ => RUnm (s "root unwrap with several fields")
  end.

(* Go's `x != 0` on a float: true for every populated value except -0.0 (which proto3 treats as set) *)
Definition go_zero (k : kind) (v : fval) : bool :=
  match k, v with
  | KDouble, FS (VFloat b) => b =? 2 ^ 63
  | KFloat, FS (VFloat b) => b =? 2 ^ 31
  | _, _ => false
  end.

(* unwrap.go:356-522 message containing a map whose values unwrap; siblings go through encoding/json *)
Definition enc_unwrap_map (md : message) (m : mval) (ks : kids_t) : res json :=
  fold_left (fun acc f =>
    acc >>= (fun out =>
    match mget m (f_name f) with
    | None => ROk out
    | Some v =>
        match f_card f with
        | MapOf _ =>
            match value_unwrap sc f with
            | Some uf =>
                if is_repeated uf then
                  match v with
                  | FMap kv => unwrap_map_obj uf kv >>= (fun j => ROk (out ++ [(jn f, j)]))
                  | _ => RUnm (s "ill-typed map")
                  end
                else RUnm (s "map value whose unwrap field is itself a map")
            | None => kid ks (f_name f) >>= (fun j => ROk (out ++ [(jn f, j)]))
            end
        | Repeated =>
            if is_msg_kind (f_kind f) then pj_list (f_kind f) (Some v) >>= (fun j => ROk (out ++ [(jn f, j)]))
            else kid ks (f_name f) >>= (fun j => ROk (out ++ [(jn f, j)]))
        | _ =>
            if is_msg_kind (f_kind f) then pj_fval E sc (f_kind f) v >>= (fun j => ROk (out ++ [(jn f, j)]))
            else if go_zero (f_kind f) v then ROk out      (* getZeroValueCheck: `x.F != 0` is false for -0.0 *)
            else kid ks (f_name f) >>= (fun j => ROk (out ++ [(jn f, j)]))
        end
    end)) (m_fields md) (ROk []) >>= (fun out => ROk (JObj out)).

(* which children a body hands to json.Marshal *)
Definition needs_gj (ft : feature) (md : message) (f : field) : bool :=
  match ft with
  | FtFlatten => is_flatten f
  | FtOneof => is_msg_kind (f_kind f) &&
               match f_oneof f with
               | Some n => existsb (fun o => str_eqb (o_name o) n && oneof_cfg o && o_flatten o) (m_oneofs md)
               | None => false
               end
  | FtUnwrapMap => match value_unwrap sc f with
                   | Some _ => false
                   | None => is_map f || negb (is_msg_kind (f_kind f))
                   end
  | FtUnwrapRoot => negb (is_msg_kind (f_kind f))
  | _ => false
  end.

Definition as_obj (j : json) : res rawmap :=
  match j with JObj kv => ROk kv | _ => RUnm (s "protojson output is not an object") end.

Definition codec_body (ft : feature) (tn : str) (md : message) (m : mval) (ks : kids_t) : res json :=
  if negb (buildable sc ft md) then RUnm (s "emitted codec does not compile for this field shape (C13)") else
  match ft with
  | FtUnwrapRoot => enc_unwrap_root md m ks
  | FtUnwrapMap => enc_unwrap_map md m ks
  | _ =>
      pj_marshal E sc tn m >>= as_obj >>= (fun raw =>
      match ft with
      | FtInt64 => ROk (JObj (enc_int64 md m raw))
      | FtNullable => ROk (JObj (enc_nullable md m raw))
      | FtEmpty => ROk (JObj (enc_empty md m raw))
      | FtTs => ROk (JObj (enc_ts md m raw))
      | FtBytes => ROk (JObj (enc_bytes md m raw))
      | FtFlatten => enc_flatten md m ks raw >>= (fun r => ROk (JObj r))
      | FtOneof => enc_oneof md m ks raw >>= (fun r => ROk (JObj r))
      | _ => RUnm (s "internal")
      end)
  end.

(* ===================== json.Marshal(v) for a Go value of kind k ===================== *)
Fixpoint gj_fval (k : kind) (v : fval) {struct v} : res json :=
  match v with
  | FS x => gj_scalar k x
  | FL l =>
      (fix go (l : list fval) : res (list json) :=
         match l with
         | [] => ROk []
         | x :: r => gj_fval k x >>= (fun j => go r >>= (fun t => ROk (j :: t)))
         end) l >>= (fun js => ROk (JArr js))
  | FMap kv =>
      (fix go (kv : list (sval * fval)) : res (list (str * json)) :=
         match kv with
         | [] => ROk []
         | (key, x) :: r => gj_key_text key >>= (fun kt => gj_fval k x >>= (fun j => go r >>= (fun t => ROk ((kt, j) :: t))))
         end) kv >>= (fun es => ROk (JObj es))
  | FM m =>
      match k with
      | KMessage tn =>
          if is_wkt_other tn then RUnm (s "well-known type other than Timestamp") else
          match lookup_message sc tn with
          | None => RUnm (s "unknown message type")
          | Some md =>
              match owner_of sc md with
              | OwnMany => RUnm (s "two MarshalJSON features on one message (does not compile, C13)")
              | OwnNone =>
                  (* reflection over the protoc-gen-go struct *)
                  if real_oneof_set md m then RUnm (s "encoding/json on a struct with a populated oneof") else
                  (fix go (m : list (str * fval)) : res (list (str * json)) :=
                     match m with
                     | [] => ROk []
                     | (name, x) :: r =>
                         match find_field (m_fields md) name with
                         | None => RUnm (s "value names an undeclared field")
                         | Some f =>
                             match x with
                             | FS (VBytes []) => go r     (* omitempty drops an empty slice even when present *)
                             | _ => gj_fval (f_kind f) x >>= (fun j => go r >>= (fun t => ROk ((name, j) :: t)))
                             end
                         end
                     end) m >>= (fun es => ROk (JObj es))
              | Own ft =>
                  (fix go (m0 : list (str * fval)) : res kids_t :=
                     match m0 with
                     | [] => ROk []
                     | (name, x) :: r =>
                         match find_field (m_fields md) name with
                         | None => RUnm (s "value names an undeclared field")
                         | Some f =>
                             if needs_gj ft md f
                             then match gj_fval (f_kind f) x with
                                  | RUnm w => RUnm w
                                  | rj => go r >>= (fun t => ROk ((name, rj) :: t))
                                  end
                             else go r
                         end
                     end) m >>= (fun ks => codec_body ft tn md m ks)
              end
          end
      | _ => RUnm (s "ill-typed value")
      end
  end.

(* marshalResponse (generator.go:683-712) and the client's request marshalling *)
Definition encode (tn : str) (m : mval) : res json :=
  if owns sc tn then gj_fval (KMessage tn) (FM m) else pj_marshal E sc tn m.

(* ===================== decoding ===================== *)
Definition unobj (j : json) : res rawmap :=
  match j with JObj kv => ROk kv | _ => RErr (s "json: cannot unmarshal into map") end.

(* json.Unmarshal(raw, &num) for var num int64 / uint64: integer literal in range, or null *)
Definition go_int (k : kind) (j : json) : option Z :=
  match j with
  | JNum z => if in_int_range k z then Some z else None
  | JNull => Some 0
  | _ => None
  end.
Fixpoint go_ints (k : kind) (l : list json) : option (list Z) :=
  match l with
  | [] => Some []
  | x :: r => match go_int k x, go_ints k r with Some z, Some t => Some (z :: t) | _, _ => None end
  end.

(* encoding.go:168-319 *)
Definition dec_int64 (md : message) (raw : rawmap) : rawmap :=
  fold_left (fun raw f =>
    if is_number_i64 f then
      match raw_get (jn f) raw with
      | Some v =>
          match f_card f with
          | Repeated =>
              match v with
              | JArr l => match go_ints (f_kind f) l with
                          | Some zs => raw_set (jn f) (JArr (map (fun z => JStr (show_Z z)) zs)) raw
                          | None => raw
                          end
              | JNull => raw_set (jn f) (JArr []) raw
              | _ => raw
              end
          | _ => match go_int (f_kind f) v with
                 | Some z => raw_set (jn f) (JStr (show_Z z)) raw
                 | None => raw
                 end
          end
      | None => raw
      end
    else raw) (m_fields md) raw.

Definition dec_nullable (md : message) (raw : rawmap) : rawmap :=
  fold_left (fun raw f =>
    if is_nullable f then match raw_get (jn f) raw with Some JNull => raw_del (jn f) raw | _ => raw end
    else raw) (m_fields md) raw.

Definition dec_empty (md : message) (raw : rawmap) : rawmap :=
  fold_left (fun raw f =>
    match empty_of f, raw_get (jn f) raw with
    | Some EBNull, Some JNull => raw_set (jn f) (JObj []) raw
    | _, _ => raw
    end) (m_fields md) raw.

(* t.Format(time.RFC3339Nano) of time.Unix / time.UnixMilli / time.Parse("2006-01-02"); a time outside
   years 1..9999 formats to a text protojson then rejects *)
Definition nano_text_or_bad (sec nanos : Z) : json :=
  if ts_in_range sec nanos then JStr (x_nano_text E sec nanos) else JStr (s "year-out-of-range").
Definition dec_ts (md : message) (raw : rawmap) : rawmap :=
  fold_left (fun raw f =>
    match tsfmt_of f, raw_get (jn f) raw with
    | Some TFUnixSeconds, Some v =>
        match go_int KInt64 v with Some n => raw_set (jn f) (nano_text_or_bad n 0) raw | None => raw end
    | Some TFUnixMillis, Some v =>
        match go_int KInt64 v with
        | Some n => raw_set (jn f) (nano_text_or_bad (n / 1000) ((n mod 1000) * 1000000)) raw
        | None => raw
        end
    | Some TFDate, Some (JStr x) =>
        match x_date_parse E x with Some sec => raw_set (jn f) (nano_text_or_bad sec 0) raw | None => raw end
    | _, _ => raw
    end) (m_fields md) raw.

(* bytes_encoding.go: a text the annotated decoder rejects is left as it is and protojson then reads
   it as base64 *)
Definition dec_bytes (md : message) (raw : rawmap) : res rawmap :=
  fold_left (fun acc f =>
    acc >>= (fun raw =>
    match bytesenc_of f, raw_get (jn f) raw with
    | Some e, Some (JStr x) =>
        if has_crlf x then RUnm (s "bytes text with CR/LF") else
        match bytes_dec_text e x with
        | Some b => ROk (raw_set (jn f) (JStr (b64_enc false true b)) raw)
        | None => ROk raw
        end
    | _, _ => ROk raw
    end)) (m_fields md) (ROk raw).

(* ---- encoding/json into Go scalars ---- *)
Definition gj_unscalar (k : kind) (j : json) : res (option sval) :=
  match k with
  | KEnum tn =>
      match find_enum (all_enums sc) tn with
      | None => RUnm (s "unknown enum type")
      | Some e =>
          if enum_codec e then
            match j with
            | JStr x => match ev_by_json (e_values e) x with
                        | Some v => ROk (Some (VEnum (ev_number v)))
                        | None => match ev_by_name (e_values e) x with
                                  | Some v => ROk (Some (VEnum (ev_number v)))
                                  | None => RErr (s "unknown enum value")
                                  end
                        end
            | JNum z => if (- 2 ^ 31 <=? z) && (z <=? 2 ^ 31 - 1) then ROk (Some (VEnum z)) else RErr (s "cannot unmarshal into enum")
            | _ => RErr (s "cannot unmarshal into enum")
            end
          else
            match j with
            | JNull => ROk None
            | JNum z => if (- 2 ^ 31 <=? z) && (z <=? 2 ^ 31 - 1) then ROk (Some (VEnum z)) else RErr (s "number out of range")
            | _ => RErr (s "cannot unmarshal into int32")
            end
      end
  | _ =>
      match j with
      | JNull => ROk None
      | _ =>
          match k with
          | KBool => match j with JBool b => ROk (Some (VBool b)) | _ => RErr (s "cannot unmarshal into bool") end
          | KString => match j with JStr x => ROk (Some (VStr x)) | _ => RErr (s "cannot unmarshal into string") end
          | KBytes => match j with
                      | JStr x => if has_crlf x then RUnm (s "base64 text with CR/LF") else
                                  match b64_dec false true x with
                                  | Some b => ROk (Some (VBytes b))
                                  | None => RErr (s "illegal base64 data")
                                  end
                      | _ => RErr (s "cannot unmarshal into []byte")
                      end
          | KDouble | KFloat =>
              if is_jnumber j then
                match x_fscan E j with
                | Some (b64, b32) =>
                    let b := match k with KDouble => b64 | _ => b32 end in
                    if b <? 0 then RErr (s "number out of range") else ROk (Some (VFloat b))
                | None => RUnm (s "number token missing from the scan table")
                end
              else RErr (s "cannot unmarshal into float")
          | KMessage _ => RUnm (s "ill-typed")
          | _ => match j with
                 | JNum z => if in_int_range k z then ROk (Some (VInt z)) else RErr (s "number out of range")
                 | _ => RErr (s "cannot unmarshal into integer")
                 end
          end
      end
  end.

Definition field_by_fold (md : message) (key : str) : option field :=
  match find_field (m_fields md) key with
  | Some f => Some f
  | None => find (fun f => fold_eq (f_name f) key) (m_fields md)
  end.

Definition has_real_oneof (md : message) : bool :=
  existsb (fun f => match f_oneof f with Some _ => true | None => false end) (m_fields md).

Definition opt_list {A} (o : option A) : list A := match o with Some a => [a] | None => [] end.

(* ---- two keys of one JSON object that address the same struct field ----------------------------------------
   encoding/json decode.go object(): every key is looked up (byExactName, else byFoldedName: the first field whose
   case-folded name matches) and its value is decoded into that field, in document order; a field addressed by two
   keys is assigned twice.  For a Go string / bool / number / enum field the later value overwrites the earlier one
   and null is a no-op.  Slices, maps, pointers and nested structs would be re-sliced, merged or reset by null: the
   model declines those. *)
Definition go_plain_scalar (f : field) : bool :=
  match f_card f with
  | Singular => negb (is_msg_kind (f_kind f)) && negb (kind_eqb (f_kind f) KBytes)
  | _ => false
  end.
Fixpoint clash_unm (fs : list field) : bool :=
  match fs with
  | [] => false
  | f :: r => (negb (go_plain_scalar f) && existsb (fun g => str_eqb (f_name g) (f_name f)) r) || clash_unm r
  end.
Fixpoint last_wins (l : list (field * fval)) : list (field * fval) :=
  match l with
  | [] => []
  | e :: r => if existsb (fun e' => str_eqb (f_name (fst e')) (f_name (fst e))) r then last_wins r else e :: last_wins r
  end.

(* json.Marshal of a map[string]json.RawMessage writes the keys in byte order (encode.go mapEncoder) *)
Fixpoint raw_insert (e : str * json) (r : rawmap) : rawmap :=
  match r with
  | [] => [e]
  | e' :: t => if str_leb (fst e) (fst e') then e :: r else e' :: raw_insert e t
  end.
Definition raw_sort (r : rawmap) : rawmap := fold_right raw_insert [] r.

(* one element / value decoded by protojson.Unmarshal(raw, &T{}) *)
Definition pj_elem (k : kind) (j : json) : res fval := pj_un E sc k j.

Definition pj_elems (k : kind) (j : json) : res (list fval) :=
  match j with
  | JArr l => rall (map (pj_elem k) l)
  | JNull => ROk []
  | _ => RErr (s "json: cannot unmarshal into []json.RawMessage")
  end.

Definition scalar_elems (k : kind) (j : json) : res (list fval) :=
  match j with
  | JArr l => rall (map (fun x => gj_unscalar k x >>= (fun o =>
                match o with Some v => ROk (FS v) | None => RUnm (s "null element in a scalar array") end)) l)
  | JNull => ROk []
  | _ => RErr (s "json: cannot unmarshal into slice")
  end.

(* the wrapper value &T{F: items} *)
Definition wrapper_of (uf : field) (items : list fval) : fval :=
  FM (assemble [(uf, FL items)]).
Definition unwrap_items (uf : field) (j : json) : res fval :=
  (if is_msg_kind (f_kind uf) then pj_elems (f_kind uf) j else scalar_elems (f_kind uf) j)
  >>= (fun items => ROk (wrapper_of uf items)).
Definition unwrap_map_un (kk : kind) (uf : field) (j : json) : res fval :=
  match j with
  | JObj kv =>
      rall (map (fun e => key_of_text kk (fst e) >>= (fun k => unwrap_items uf (snd e) >>= (fun w => ROk (k, w)))) kv)
      >>= (fun es => ROk (FMap (sort_entries es)))
  | JNull => ROk (FMap [])
  | _ => RErr (s "json: cannot unmarshal into map")
  end.

(* ===================== json.Unmarshal(data, &v) for a Go value of kind k ===================== *)
(* result None: JSON null left the target untouched *)
Fixpoint gj_un (fuel : nat) (k : kind) (j : json) {struct fuel} : res (option fval) :=
  match fuel with
  | O => RUnm (s "out of fuel")
  | S n =>
    let list_un (ek : kind) (jv : json) : res (option fval) :=
      match jv with
      | JNull => ROk None
      | JArr l =>
          rall (map (fun x => gj_un n ek x >>= (fun o =>
                  match o with Some v => ROk v | None => RUnm (s "null element in an array") end)) l)
          >>= (fun vs => ROk (Some (FL vs)))
      | _ => RErr (s "json: cannot unmarshal into slice")
      end in
    let map_un (kk ek : kind) (jv : json) : res (option fval) :=
      match jv with
      | JNull => ROk None
      | JObj kv =>
          (* encoding/json: map keys must be strings, integers or TextUnmarshalers; map[bool]T is refused *)
          if kind_eqb kk KBool then RErr (s "json: cannot unmarshal object into Go value of type map[bool]") else
          rall (map (fun e => key_of_text kk (fst e) >>= (fun key => gj_un n ek (snd e) >>= (fun o =>
                  match o with Some v => ROk (key, v) | None => RUnm (s "null map value") end))) kv)
          >>= (fun es => ROk (Some (FMap (sort_entries es))))
      | _ => RErr (s "json: cannot unmarshal into map")
      end in
    match k with
    | KMessage tn =>
        if is_wkt_other tn then RUnm (s "well-known type other than Timestamp") else
        match lookup_message sc tn with
        | None => RUnm (s "unknown message type")
        | Some md =>
            match j with
            | JNull => ROk None
            | _ =>
            match owner_of sc md with
            | OwnMany => RUnm (s "two MarshalJSON features on one message (does not compile, C13)")
            | OwnNone =>
                if has_real_oneof md then RUnm (s "encoding/json into a struct with a oneof") else
                match j with
                | JObj kv =>
                    if clash_unm (flat_map (fun e => opt_list (field_by_fold md (fst e))) kv)
                    then RUnm (s "two keys of one object address the same slice, map, pointer or struct field") else
                    rall (map (fun e =>
                      match field_by_fold md (fst e) with
                      | None => ROk None
                      | Some f =>
                          (match f_card f with
                           | Repeated => list_un (f_kind f) (snd e)
                           | MapOf kk => map_un kk (f_kind f) (snd e)
                           | _ => gj_un n (f_kind f) (snd e)
                           end) >>= (fun o => ROk (option_map (fun v => (f, v)) o))
                      end) kv)
                    >>= (fun ofs => ROk (Some (FM (assemble (last_wins (flat_map opt_list ofs))))))
                | _ => RErr (s "json: cannot unmarshal into struct")
                end
            | Own ft =>
                if negb (buildable sc ft md) then RUnm (s "emitted codec does not compile for this field shape (C13)") else
                let finish (raw : rawmap) : res (option fval) :=
                  pj_un E sc k (JObj raw) >>= (fun v => ROk (Some v)) in
                match ft with
                | FtInt64 => unobj j >>= (fun raw => finish (dec_int64 md raw))
                | FtNullable => unobj j >>= (fun raw => finish (dec_nullable md raw))
                | FtEmpty => unobj j >>= (fun raw => finish (dec_empty md raw))
                | FtTs => unobj j >>= (fun raw => finish (dec_ts md raw))
                | FtBytes => unobj j >>= (fun raw => dec_bytes md raw >>= finish)
                | FtFlatten =>
                    (* flatten.go:255-329: the child is extracted, decoded, assigned — and then
                       protojson.Unmarshal(remaining, x) resets x *)
                    unobj j >>= (fun raw =>
                    fold_left (fun acc f =>
                      acc >>= (fun raw =>
                      if is_flatten f then
                        match lookup_message sc (msg_name (f_kind f)) with
                        | None => RUnm (s "unknown message type")
                        | Some cmd =>
                            let child := flat_map (fun cf => match raw_get (flat_prefix f ++ jn cf) raw with
                                                             | Some v => [(jn cf, v)] | None => [] end) (m_fields cmd) in
                            let raw' := fold_left (fun r cf => raw_del (flat_prefix f ++ jn cf) r) (m_fields cmd) raw in
                            match child with
                            | [] => ROk raw'
                            (* (json.Marshal(childRaw) sorts the keys; the decoded child is dropped below, and whether
                               decoding fails does not depend on the order of the keys) *)
                            | _ => gj_un n (f_kind f) (JObj child) >>= (fun _ => ROk raw')
                            end
                        end
                      else ROk raw)) (m_fields md) (ROk raw) >>= finish)
                | FtOneof =>
                    (* oneof_discriminator.go:253-391 *)
                    unobj j >>= (fun raw =>
                    fold_left (fun acc o =>
                      acc >>= (fun raw =>
                      if oneof_cfg o then
                        match raw_get (o_discriminator o) raw with
                        | None => ROk raw
                        | Some dj =>
                            (match dj with
                             | JStr d => ROk d
                             | JNull => ROk []
                             | _ => RErr (s "invalid discriminator")
                             end) >>= (fun d =>
                            match find (fun f => match f_oneof f with
                                                 | Some on => str_eqb on (o_name o) && str_eqb (disc_value f) d
                                                 | None => false end) (m_fields md) with
                            | None => ROk raw
                            | Some f =>
                                if negb (is_msg_kind (f_kind f)) then ROk raw
                                else if o_flatten o then
                                  match lookup_message sc (msg_name (f_kind f)) with
                                  | None => RUnm (s "unknown message type")
                                  | Some cmd =>
                                      let vmap := flat_map (fun cf => match raw_get (jn cf) raw with
                                                                      | Some v => [(jn cf, v)] | None => [] end) (m_fields cmd) in
                                      let raw' := fold_left (fun r cf => raw_del (jn cf) r) (m_fields cmd) raw in
                                      (* variantData, _ := json.Marshal(variantMap): keys in byte order *)
                                      gj_un n (f_kind f) (JObj (raw_sort vmap)) >>= (fun ov =>
                                      let variant := match ov with Some v => v | None => FM [] end in
                                      match gj_fval (f_kind f) variant with
                                      | ROk vj => ROk (raw_set (jn f) vj raw')
                                      | RErr _ => ROk (raw_set (jn f) JNull raw')
                                      | RUnm w => RUnm w
                                      end)
                                  end
                                else
                                  match raw_get (jn f) raw with
                                  | Some vj => gj_un n (f_kind f) vj >>= (fun _ => ROk raw)
                                  | None => ROk raw
                                  end
                            end)
                        end
                      else ROk raw)) (m_oneofs md) (ROk raw)
                    >>= (fun raw =>
                    finish (fold_left (fun r o => if oneof_cfg o then raw_del (o_discriminator o) r else r) (m_oneofs md) raw)))
                | FtUnwrapRoot =>
                    match m_fields md with
                    | [f] =>
                        match f_card f with
                        | Repeated =>
                            (if is_msg_kind (f_kind f) then pj_elems (f_kind f) j >>= (fun l => ROk (Some (FL l)))
                             else list_un (f_kind f) j)
                            >>= (fun o => ROk (Some (FM (assemble (opt_list (option_map (fun v => (f, v)) o))))))
                        | MapOf kk =>
                            (match value_unwrap sc f with
                             | Some uf => if is_repeated uf then unwrap_map_un kk uf j >>= (fun v => ROk (Some v))
                                          else RUnm (s "map value whose unwrap field is itself a map")
                             | None =>
                                 if is_msg_kind (f_kind f) then
                                   match j with
                                   | JObj kv =>
                                       rall (map (fun e => key_of_text kk (fst e) >>= (fun key =>
                                                   pj_elem (f_kind f) (snd e) >>= (fun v => ROk (key, v)))) kv)
                                       >>= (fun es => ROk (Some (FMap (sort_entries es))))
                                   | JNull => ROk (Some (FMap []))
                                   | _ => RErr (s "json: cannot unmarshal into map")
                                   end
                                 else map_un kk (f_kind f) j
                             end)
                            >>= (fun o => ROk (Some (FM (assemble (opt_list (option_map (fun v => (f, v)) o))))))
                        | _ => RUnm (s "unwrap on a singular field")
                        end
                    | _ => RUnm (s "root unwrap with several fields")
                    end
                | FtUnwrapMap =>
                    unobj j >>= (fun raw =>
                    rall (map (fun f =>
                      match raw_get (jn f) raw with
                      | None => ROk None
                      | Some v =>
                          (match f_card f with
                           | MapOf kk =>
                               match value_unwrap sc f with
                               | Some uf => if is_repeated uf then unwrap_map_un kk uf v >>= (fun x => ROk (Some x))
                                            else RUnm (s "map value whose unwrap field is itself a map")
                               | None => map_un kk (f_kind f) v
                               end
                           | Repeated =>
                               if is_msg_kind (f_kind f) then pj_elems (f_kind f) v >>= (fun l => ROk (Some (FL l)))
                               else list_un (f_kind f) v
                           | _ =>
                               if is_msg_kind (f_kind f) then pj_elem (f_kind f) v >>= (fun x => ROk (Some x))
                               else gj_unscalar (f_kind f) v >>= (fun o => ROk (option_map FS o))
                           end) >>= (fun o => ROk (option_map (fun x => (f, x)) o))
                      end) (m_fields md))
                    >>= (fun ofs => ROk (Some (FM (assemble (flat_map opt_list ofs))))))
                end
            end
            end
        end
    | _ => gj_unscalar k j >>= (fun o => ROk (option_map FS o))
    end
  end.

Fixpoint json_size (j : json) : nat :=
  match j with
  | JArr l => S (fold_right (fun x acc => json_size x + acc)%nat O l)
  | JObj kv => S ((fix go (kv : list (str * json)) : nat :=
                     match kv with [] => O | (_, v) :: r => (json_size v + go r)%nat end) kv)
  | _ => 1%nat
  end.

(* bindDataFromJSONRequest (generator.go:413-441) and the client's response parsing.  A top-level
   JSON null reaches UnmarshalJSON itself: the unwrap decoders accept it (nothing is set), every
   other decoder re-marshals a nil map to "null", which protojson rejects. *)
Definition decode (tn : str) (j : json) : res mval :=
  if owns sc tn then
    match j, option_map (owner_of sc) (lookup_message sc tn) with
    | JNull, Some (Own FtUnwrapRoot) | JNull, Some (Own FtUnwrapMap) => ROk []
    | JNull, Some (Own _) => RErr (s "unexpected token null")
    | _, _ =>
      gj_un (S (S (json_size j))) (KMessage tn) j >>= (fun o =>
      match o with
      | Some (FM m) => ROk m
      | None => ROk []
      | _ => RUnm (s "not a message")
      end)
    end
  else pj_unmarshal E sc tn j.

End Codec.
Close Scope Z_scope.
