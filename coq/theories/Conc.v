(* Conc.v — the shared state of the emitted Go server and client under concurrent calls (C17).
     server : internal/httpgen/generator.go:1163-1197  validator singleton behind sync.Once
              internal/httpgen/generator.go:209-232    per-route headers/params passed BY VALUE to
                                                       BindingMiddleware at registration (the
                                                       `methodHeaders` variable is reassigned, the
                                                       closures never read it)
     client : internal/clientgen/generator.go:282-357,518-568  defaultHeaders written only by the
              constructor's options; every call builds its own callOptions record
   Threads are calls; a schedule is any interleaving of their atomic steps. *)
From Sebuf Require Export Text.

(* ---- sync.Once-guarded validator -------------------------------------------------------------- *)
(* shared cell: None = not yet built; Some v = built (v identifies the instance) *)
Record shared := { sh_validator : option nat; sh_next : nat (* instances built so far *) }.

Inductive tstate :=
  | TStart                      (* about to call getValidator *)
  | TGot (v : nat)              (* holds the validator it was given *)
  | TDone (result : nat * nat). (* (request id, validator used) *)

(* one atomic step of thread [t] on request [req]: sync.Once.Do is atomic w.r.t. other Do calls *)
Definition step (sh : shared) (req : nat) (ts : tstate) : shared * tstate :=
  match ts with
  | TStart =>
      match sh_validator sh with
      | Some v => (sh, TGot v)
      | None => ({| sh_validator := Some (sh_next sh); sh_next := S (sh_next sh) |}, TGot (sh_next sh))
      end
  | TGot v => (sh, TDone (req, v))
  | TDone r => (sh, TDone r)
  end.

Definition threads := list (nat * tstate).   (* request id, state *)

Fixpoint step_at (sh : shared) (ts : threads) (i : nat) : shared * threads :=
  match ts, i with
  | [], _ => (sh, [])
  | (req, st) :: r, O => let '(sh', st') := step sh req st in (sh', (req, st') :: r)
  | x :: r, S j => let '(sh', r') := step_at sh r j in (sh', x :: r')
  end.

Fixpoint run_sched (sh : shared) (ts : threads) (sched : list nat) : shared * threads :=
  match sched with
  | [] => (sh, ts)
  | i :: r => let '(sh', ts') := step_at sh ts i in run_sched sh' ts' r
  end.

Definition init_threads (reqs : list nat) : threads := map (fun r => (r, TStart)) reqs.
Definition init_shared : shared := {| sh_validator := None; sh_next := 0 |}.

(* ---- route registration: arguments are captured by value ---------------------------------------- *)
(* the registration loop reuses one variable; each middleware receives the variable's CURRENT value *)
Fixpoint register (var : str) (methods : list str) (get_headers : str -> str) (acc : list (str * str)) : list (str * str) :=
  match methods with
  | [] => rev acc
  | m :: r => let var' := get_headers m in register var' r get_headers ((m, var') :: acc)
  end.

(* ---- client: per-call options are local -------------------------------------------------------- *)
(* headers actually sent by a call: Content-Type, then default headers, then the call's own *)
Definition call_headers (defaults call : list (str * str)) (ct : str) : list (str * str) :=
  (s "Content-Type", ct) :: defaults ++ call.

(* ================================================================================================
   Sequences and sibling routes (seeded changes C17c / C17d).  Added below the concurrency model so
   that everything above is unchanged.
     server : internal/httpgen/generator.go:206-232   `serviceHeaders := get<Svc>Headers()` once,
              `methodHeaders = get<M>Headers()` per route; BindingMiddleware receives BOTH slices and
              only READS them (validateHeaders builds a fresh map per request, :1215-1241)
     client : internal/clientgen/generator.go:531-536  `callOpts := &<svc>CallOptions{}` - a fresh record per
              call, dropped at return on EVERY path (marshal failure :554-557, NewRequest failure :566-568,
              transport failure, >=400, undecodable body); the client struct is only read; the
              emitted package has no package-level variables besides constants
   ================================================================================================ *)
From Sebuf Require Import Headers.

(* ---- per-route configuration: what each registered route closes over ----------------------------- *)
Record route := { rt_name : str; rt_svc : list header; rt_mth : list header }.

(* the registration loop: [var] is the reused `methodHeaders` variable, [svc] the service slice *)
Fixpoint register_routes (svc var : list header) (methods : list (str * list header)) (acc : list route) : list route :=
  match methods with
  | [] => rev acc
  | (m, hs) :: r =>
      let var' := hs in
      register_routes svc var' r ({| rt_name := m; rt_svc := svc; rt_mth := var' |} :: acc)
  end.

Definition find_route (table : list route) (m : str) : option route :=
  find (fun r => str_eqb (rt_name r) m) table.

(* a request on route [m] of the registered service *)
Definition serve_route (table : list route) (m : str) (rq : hreq) (body_verb body_ok : bool) : option outcome :=
  match find_route table m with
  | Some r => Some (go_serve (rt_svc r) (rt_mth r) rq body_verb body_ok)
  | None => None
  end.

(* case = (service headers, [(method, its headers)] in registration order, method called, request header
   lines, body verb?) — the body is always well-formed in this family *)
Definition c17_route_case := (list header * list (str * list header) * str * hreq * bool)%type.

Inductive rpred := RUnmodelled (why : str) | RPred (tags : list str) (fields : list (str * json)).

Definition route_pred (c : c17_route_case) : rpred :=
  let '(svc, methods, m, rq, bv) := c in
  match find_route (register_routes svc [] methods []) m with
  | None => RUnmodelled (s "no such route")
  | Some r =>
      match c09_unmodelled (rt_svc r) (rt_mth r) rq with
      | Some why => RUnmodelled why
      | None =>
          let o := go_serve (rt_svc r) (rt_mth r) rq bv true in
          RPred (dedup_strs (map c09_defect_str (defects_C09 (rt_svc r) (rt_mth r) rq)))
                [(s "status", JNum (o_status o));
                 (s "violations", jstrs (sort_strs (o_violations o)));
                 (s "handler", JBool (o_handler o))]
      end
  end.

Definition predict_C17_route (c : c17_route_case) : json :=
  match route_pred c with
  | RUnmodelled why => JObj [(s "unmodelled", JStr why)]
  | RPred tags fields => JObj ((s "tags", jstrs tags) :: fields)
  end.

(* a SEQUENCE of requests on the routes of one registration: the server keeps no state between requests,
   every request is judged as if it were the only one *)
Definition c17_route_seq_case := (list header * list (str * list header) * list (str * hreq * bool))%type.

Fixpoint route_seq_preds (svc : list header) (methods : list (str * list header)) (steps : list (str * hreq * bool))
  : option str * list str * list json :=
  match steps with
  | [] => (None, [], [])
  | (m, rq, bv) :: r =>
      let '(u, tags, js) := route_seq_preds svc methods r in
      match route_pred (svc, methods, m, rq, bv) with
      | RUnmodelled why => (Some why, tags, js)
      | RPred t fields => (u, t ++ tags, JObj fields :: js)
      end
  end.

Definition predict_C17_route_seq (c : c17_route_seq_case) : json :=
  let '(svc, methods, steps) := c in
  match route_seq_preds svc methods steps with
  | (Some why, _, _) => JObj [(s "unmodelled", JStr why)]
  | (None, tags, js) => JObj [(s "tags", jstrs (dedup_strs tags)); (s "steps", JArr js)]
  end.

(* ---- client: a SEQUENCE of calls on shared client instances ---------------------------------------- *)
(* where a call stops: the request cannot be marshalled / cannot be created (nothing is sent); the
   transport fails; the server answers >=400; the answer cannot be decoded; success *)
Inductive cstage := StMarshal | StCreate | StTransport | St4xx | St5xx | StGarbage | StOk.

(* a constructed client: content type and default headers, written by the constructor's options only *)
Record cclient := { cl_ct : str; cl_defaults : list (str * str) }.
(* a call: the instance it is issued on, its per-call content type ("" = none) and headers, its fate *)
Record ccall := { cc_client : nat; cc_ct : str; cc_headers : list (str * str); cc_stage : cstage }.

Definition eff_ct (cl : cclient) (c : ccall) : str :=
  match cc_ct c with [] => cl_ct cl | ct => ct end.

(* http.Header.Set: one value per canonical name, the last Set wins (names kept in lower case) *)
Fixpoint hset (k v : str) (acc : list (str * str)) : list (str * str) :=
  match acc with
  | [] => [(lower_str k, v)]
  | (k', v') :: r => if str_eqb k' (lower_str k) then (k', v) :: r else (k', v') :: hset k v r
  end.
Definition hset_all (l : list (str * str)) : list (str * str) :=
  fold_left (fun acc kv => hset (fst kv) (snd kv) acc) l [].

Definition wire_headers (cl : cclient) (c : ccall) : list (str * str) :=
  hset_all (call_headers (cl_defaults cl) (cc_headers c) (eff_ct cl c)).

Record cobs := { co_sent : option (list (str * str)); co_ok : bool }.

Definition stage_sends (st : cstage) : bool := match st with StMarshal | StCreate => false | _ => true end.
Definition stage_ok (st : cstage) : bool := match st with StOk => true | _ => false end.

(* the world is the list of constructed client instances; a call reads its instance and writes nothing *)
Definition do_call (w : list cclient) (c : ccall) : list cclient * option cobs :=
  match nth_error w (cc_client c) with
  | None => (w, None)
  | Some cl =>
      (w, Some {| co_sent := if stage_sends (cc_stage c) then Some (wire_headers cl c) else None;
                  co_ok := stage_ok (cc_stage c) |})
  end.

Fixpoint run_calls (w : list cclient) (cs : list ccall) : list (option cobs) :=
  match cs with
  | [] => []
  | c :: r => let '(w', o) := do_call w c in o :: run_calls w' r
  end.

Definition cobs_json (o : option cobs) : json :=
  match o with
  | None => JObj [(s "sent", JBool false); (s "headers", JObj []); (s "ok", JBool false); (s "no_client", JBool true)]
  | Some o =>
      JObj [(s "sent", JBool (match co_sent o with Some _ => true | None => false end));
            (s "headers", JObj (map (fun kv => (fst kv, JStr (snd kv))) (match co_sent o with Some h => h | None => [] end)));
            (s "ok", JBool (co_ok o))]
  end.

Definition c17_seq_case := (list cclient * list ccall)%type.
Definition predict_C17_seq (c : c17_seq_case) : json :=
  JObj [(s "tags", JArr []); (s "steps", JArr (map cobs_json (run_calls (fst c) (snd c))))].

(* ================================================================================================
   Routes over a SHARED request message (seeded change C17e).  Added below; nothing above changes.
     server : internal/httpgen/generator.go:1536-1566  one `<method>PathParams` / `<method>QueryParams`
              package variable PER METHOD (path variables from the method's own template, query
              parameters from the input message's annotated fields)
              internal/httpgen/generator.go:209-232    each route's BindingMiddleware receives ITS OWN two
              slices at registration and only reads them
              internal/httpgen/generator.go:338-372    body first (POST/PUT/PATCH), then path values, then
              query values present in the URL; a path value "" or an absent required query parameter is
              answered 400 naming the field; bindPathParams / bindQueryParams keep nothing between
              requests (fields.ByName per request: :470-513, :515-585)
   Two RPCs that take the same request message are two routes with two configurations; what one of them
   binds is decided by its own template, whatever the other declares and whichever was called first.
   ================================================================================================ *)
Record sroute := { sr_name : str;
                   sr_body : bool;                       (* POST / PUT / PATCH: the body is decoded *)
                   sr_path : list str;                   (* path variables = field names, in template order *)
                   sr_query : list (str * str * bool) }. (* (query name, field name, required) *)
(* a request: the route it is addressed to, what r.PathValue answers (the mux fills it from the MATCHED
   route's template), the query multimap's first values, the decoded body fields *)
Record sreq := { sq_route : str; sq_path : list (str * str); sq_query : list (str * str); sq_body : list (str * str) }.

Fixpoint flookup (k : str) (m : list (str * str)) : option str :=
  match m with
  | [] => None
  | (k', v) :: r => if str_eqb k' k then Some v else flookup k r
  end.
Fixpoint fset (k v : str) (m : list (str * str)) : list (str * str) :=
  match m with
  | [] => [(k, v)]
  | (k', v') :: r => if str_eqb k' k then (k', v) :: r else (k', v') :: fset k v r
  end.

Inductive sres := SReject (field : str) | SDispatch (m : list (str * str)).

Fixpoint bind_path (params : list str) (pv m : list (str * str)) : sres :=
  match params with
  | [] => SDispatch m
  | p :: r =>
      match flookup p pv with
      | Some (c :: v) => bind_path r pv (fset p (c :: v) m)
      | _ => SReject p                                   (* PathValue answered "" *)
      end
  end.
Fixpoint bind_query (params : list (str * str * bool)) (qv m : list (str * str)) : sres :=
  match params with
  | [] => SDispatch m
  | (q, f, required) :: r =>
      match flookup q qv with
      | Some v => bind_query r qv (fset f v m)
      | None => if required then SReject f else bind_query r qv m
      end
  end.
Definition serve_shared (r : sroute) (rq : sreq) : sres :=
  let m0 := if sr_body r then fold_left (fun m kv => fset (fst kv) (snd kv) m) (sq_body rq) [] else [] in
  match bind_path (sr_path r) (sq_path rq) m0 with
  | SReject f => SReject f
  | SDispatch m1 => bind_query (sr_query r) (sq_query rq) m1
  end.

(* registration hands every route its own configuration (by value); a request is served by the route it
   is addressed to; the server keeps nothing between requests *)
Definition find_sroute (table : list sroute) (m : str) : option sroute :=
  find (fun r => str_eqb (sr_name r) m) table.
Definition serve_shared_in (table : list sroute) (rq : sreq) : option sres :=
  option_map (fun r => serve_shared r rq) (find_sroute table (sq_route rq)).
Definition run_shared (table : list sroute) (steps : list sreq) : list (option sres) :=
  map (serve_shared_in table) steps.

Definition sres_json (o : option sres) : json :=
  match o with
  | None => JObj [(s "status", JNum 404); (s "handler", JBool false); (s "violations", JArr []); (s "fields", JObj [])]
  | Some (SReject f) => JObj [(s "status", JNum 400); (s "handler", JBool false); (s "violations", jstrs [f]); (s "fields", JObj [])]
  | Some (SDispatch m) =>
      JObj [(s "status", JNum 200); (s "handler", JBool true); (s "violations", JArr []);
            (s "fields", JObj (map (fun kv => (fst kv, JStr (snd kv))) (filter (fun kv => nonempty (snd kv)) m)))]
  end.

Definition c17_shared_case := (list sroute * list sreq)%type.
Definition predict_C17_shared (c : c17_shared_case) : json :=
  JObj [(s "tags", JArr []); (s "steps", JArr (map sres_json (run_shared (fst c) (snd c))))].

(* ================================================================================================
   Registration HISTORIES (seeded change C17g).  Added below; nothing above changes.
     server : internal/httpgen/generator.go:784-801   getDefaultConfiguration() allocates a NEW
              serverConfiguration{mux: http.DefaultServeMux, withMux: false} on every call;
              getConfiguration(options...) applies the options of THIS Register call to it, in order
              internal/httpgen/generator.go:803-820   WithMux writes c.mux / c.withMux, WithErrorHandler
              writes c.errorHandler — on the configuration they are handed, nothing else
              Register<Service>Server mounts every route of the service on config.mux and hands
              config.errorHandler to the route's closures
   The world after a history of Register calls is the list of mounted services; registration k's entry is
   computed from ITS OWN options; a request is served by the entry mounted under (mux, service).
   ================================================================================================ *)
Inductive sopt := OMux (m : str) | OHook (id : str) (status : Z).
(* sc_mux = "" : http.DefaultServeMux *)
Record scfg := { sc_mux : str; sc_hook : option (str * Z) }.
Definition default_scfg : scfg := {| sc_mux := []; sc_hook := None |}.
Definition apply_sopt (c : scfg) (o : sopt) : scfg :=
  match o with
  | OMux m => {| sc_mux := m; sc_hook := sc_hook c |}
  | OHook id st => {| sc_mux := sc_mux c; sc_hook := Some (id, st) |}
  end.
Definition get_configuration (opts : list sopt) : scfg := fold_left apply_sopt opts default_scfg.

Record mounted := { mt_reg : nat; mt_mux : str; mt_svc : str; mt_hook : option (str * Z) }.
Definition reg_call := (str * list sopt)%type.
Definition mount (k : nat) (r : reg_call) : mounted :=
  let c := get_configuration (snd r) in
  {| mt_reg := k; mt_mux := sc_mux c; mt_svc := fst r; mt_hook := sc_hook c |}.
Fixpoint register_all (k : nat) (regs : list reg_call) : list mounted :=
  match regs with
  | [] => []
  | r :: t => mount k r :: register_all (S k) t
  end.

Definition mkey (m : mounted) : str * str := (mt_mux m, mt_svc m).
Definition key_eqb (a b : str * str) : bool := str_eqb (fst a) (fst b) && str_eqb (snd a) (snd b).
Definition find_mounted (t : list mounted) (k : str * str) : option mounted :=
  find (fun m => key_eqb (mkey m) k) t.

(* a request: the mux it is served by, the service whose route it names, whether the handler fails *)
Record rreq := { rq_mux : str; rq_svc : str; rq_fails : bool }.
Definition rq_key (q : rreq) : str * str := (rq_mux q, rq_svc q).
(* (status, registration whose implementation was called, error handler that ran) *)
Definition answer_reg (m : option mounted) (fails : bool) : Z * option nat * str :=
  match m with
  | None => (404%Z, None, [])
  | Some m =>
      if fails then
        match mt_hook m with
        | Some (id, st) => (st, Some (mt_reg m), id)
        | None => (500%Z, Some (mt_reg m), [])
        end
      else (200%Z, Some (mt_reg m), [])
  end.
Definition serve_reg (t : list mounted) (q : rreq) : Z * option nat * str :=
  answer_reg (find_mounted t (rq_key q)) (rq_fails q).

Fixpoint has_dup_key (l : list (str * str)) : bool :=
  match l with
  | [] => false
  | k :: r => existsb (key_eqb k) r || has_dup_key r
  end.

Definition reg_answer_json (a : Z * option nat * str) : json :=
  let '(st, h, hook) := a in
  JObj [(s "status", JNum st);
        (s "handler", JNum (match h with Some k => Z.of_nat k | None => (-1)%Z end));
        (s "hook", JStr hook)].

Definition c17_reg_case := (list reg_call * list rreq)%type.
Definition predict_C17_reg (c : c17_reg_case) : json :=
  let t := register_all 0 (fst c) in
  if has_dup_key (map mkey t)
  then JObj [(s "unmodelled", JStr (s "one service registered twice on one mux: net/http panics on the second pattern"))]
  else JObj [(s "tags", JArr []); (s "steps", JArr (map (fun q => reg_answer_json (serve_reg t q)) (snd c)))].
