(* Conc.v — the shared state of the emitted Go server and client under concurrent calls (C17).
     server : internal/httpgen/generator.go:1163-1197  validator singleton behind sync.Once
              internal/httpgen/generator.go:209-232    per-route headers/params passed BY VALUE to
                                                       BindingMiddleware at registration (the
                                                       `methodHeaders` variable is reassigned, the
                                                       closures never read it)
     client : internal/clientgen/generator.go:282-357,518-568  defaultHeaders written only by the
              constructor's options; every call builds its own callOptions record
   Threads are calls; a schedule is any interleaving of their atomic steps. *)
From Sebuf Require Export Text.

(* ---- sync.Once-guarded validator -------------------------------------------------------------- *)
(* shared cell: None = not yet built; Some v = built (v identifies the instance) *)
Record shared := { sh_validator : option nat; sh_next : nat (* instances built so far *) }.

Inductive tstate :=
  | TStart                      (* about to call getValidator *)
  | TGot (v : nat)              (* holds the validator it was given *)
  | TDone (result : nat * nat). (* (request id, validator used) *)

(* one atomic step of thread [t] on request [req]: sync.Once.Do is atomic w.r.t. other Do calls *)
Definition step (sh : shared) (req : nat) (ts : tstate) : shared * tstate :=
  match ts with
  | TStart =>
      match sh_validator sh with
      | Some v => (sh, TGot v)
      | None => ({| sh_validator := Some (sh_next sh); sh_next := S (sh_next sh) |}, TGot (sh_next sh))
      end
  | TGot v => (sh, TDone (req, v))
  | TDone r => (sh, TDone r)
  end.

Definition threads := list (nat * tstate).   (* request id, state *)

Fixpoint step_at (sh : shared) (ts : threads) (i : nat) : shared * threads :=
  match ts, i with
  | [], _ => (sh, [])
  | (req, st) :: r, O => let '(sh', st') := step sh req st in (sh', (req, st') :: r)
  | x :: r, S j => let '(sh', r') := step_at sh r j in (sh', x :: r')
  end.

Fixpoint run_sched (sh : shared) (ts : threads) (sched : list nat) : shared * threads :=
  match sched with
  | [] => (sh, ts)
  | i :: r => let '(sh', ts') := step_at sh ts i in run_sched sh' ts' r
  end.

Definition init_threads (reqs : list nat) : threads := map (fun r => (r, TStart)) reqs.
Definition init_shared : shared := {| sh_validator := None; sh_next := 0 |}.

(* ---- route registration: arguments are captured by value ---------------------------------------- *)
(* the registration loop reuses one variable; each middleware receives the variable's CURRENT value *)
Fixpoint register (var : str) (methods : list str) (get_headers : str -> str) (acc : list (str * str)) : list (str * str) :=
  match methods with
  | [] => rev acc
  | m :: r => let var' := get_headers m in register var' r get_headers ((m, var') :: acc)
  end.

(* ---- client: per-call options are local -------------------------------------------------------- *)
(* headers actually sent by a call: Content-Type, then default headers, then the call's own *)
Definition call_headers (defaults call : list (str * str)) (ct : str) : list (str * str) :=
  (s "Content-Type", ct) :: defaults ++ call.
