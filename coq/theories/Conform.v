(* Conform.v — C06: glue between the codec world (Codec.v / ProtoJson.v / Mapping.v: what the Go server
   and the Go client put on the wire, as canonical [json]) and the OpenAPI world (OpenApi.v: the
   document protoc-gen-openapiv3 emits; JsonSchema.v: JSON Schema 2020-12 validation over [jv]).

     f64_dec, wire_jv      total conversion of canonical wire JSON ({"$f": bits} = the float64 with that
                           bit pattern, as the exact decimal it denotes) to validator instances
     c06_doc, prepare_C06  the components of one service's document, as emitted (ynode) and typed
     schema_for            the component schema the document gives for a message type
     und                   "properties no schema describes" (the walk of harness/py/validate.py)
     param_jv              a URL value under the string-serialisation reading of its declared schema
     defects_C06           classes in which wire JSON and published schema are known to disagree
     predict_C06           {"tags", "valid", "undescribed"} for one body / error body / URL value

   Sources: internal/openapiv3/{generator.go,types.go} (through OpenApi.v), internal/httpgen and
   internal/clientgen marshalResponse / marshalRequest (through Codec.encode), http/errors_impl.go
   (error_body / validation_body). *)
From Sebuf Require Export CodecCases OasCheck.

Open Scope Z_scope.

(* ---- float64 bit pattern -> the exact decimal it denotes ------------------------------------------- *)
(* finite doubles: (-1)^s * m * 2^x with m < 2^53, x in [-1074, 971]; m * 2^x = m * 5^(-x) * 10^x for x < 0.
   The bit patterns of NaN / Inf never reach this function from the modelled encoders (they are written
   as JSON strings); on them it returns the number the formula gives. *)
Definition f64_dec (bits : Z) : dec :=
  let frac := bits mod 2 ^ 52 in
  let e := (bits / 2 ^ 52) mod 2 ^ 11 in
  let neg := ((bits / 2 ^ 63) mod 2 =? 1) in
  let m := if e =? 0 then frac else frac + 2 ^ 52 in
  let x := if e =? 0 then -1074 else e - 1075 in
  let sm := if neg then - m else m in
  if 0 <=? x then mkdec (sm * 2 ^ x) 0 else mkdec (sm * 5 ^ (- x)) x.

Definition fmark : str := s "$f".

(* canonical wire JSON -> validator instance *)
Fixpoint wire_jv (j : json) : jv :=
  match j with
  | JNull => JVNull
  | JBool b => JVBool b
  | JNum z => JVNum (dec_of_Z z)
  | JStr x => JVStr x
  | JArr l => JVArr (map wire_jv l)
  | JObj kv =>
      let kv' := (fix go (kv : list (str * json)) : list (str * jv) :=
                    match kv with [] => [] | (k, x) :: r => (k, wire_jv x) :: go r end) kv in
      match kv with
      | [(k, JNum b)] => if str_eqb k fmark then JVNum (f64_dec b) else JVObj kv'
      | _ => JVObj kv'
      end
  end.

(* ---- the components of one document --------------------------------------------------------------- *)
Definition typed (n : ynode) : jschema := schema_of_jv schema_fuel (denote reader12 n).

Fixpoint ynode_eqb (a b : ynode) {struct a} : bool :=
  match a, b with
  | YStr x, YStr y => str_eqb x y
  | YPlain x, YPlain y => str_eqb x y
  | YGoStr x, YGoStr y => str_eqb x y
  | YNum x, YNum y => (dm x =? dm y) && (de x =? de y)
  | YBool x, YBool y => Bool.eqb x y
  | YNull, YNull => true
  | YSeq x, YSeq y =>
      (fix go (x y : list ynode) : bool :=
         match x, y with
         | [], [] => true
         | a :: x', b :: y' => ynode_eqb a b && go x' y'
         | _, _ => false
         end) x y
  | YMap x, YMap y =>
      (fix go (x y : list (str * ynode)) : bool :=
         match x, y with
         | [], [] => true
         | (k, a) :: x', (k', b) :: y' => str_eqb k k' && ynode_eqb a b && go x' y'
         | _, _ => false
         end) x y
  | _, _ => false
  end.

Record c06_doc := {
  cd_sc : schema;
  cd_sd : side;
  cd_ok : bool;                          (* the service exists and the collection terminated *)
  cd_unknown : list str;                 (* message types outside the request's files (other well-known types) *)
  cd_scalars_ok : bool;                  (* every scalar of the component tree is inside the modelled YAML subset *)
  cd_cs : list (str * ynode);            (* components.schemas as emitted *)
  cd_tcs : list (str * jschema)          (* the same, read by a YAML 1.2 reader *)
}.

Definition prepare_C06 (sc : schema) (sd : side) (fi si : nat) : c06_doc :=
  match nth_service sc fi si with
  | None => {| cd_sc := sc; cd_sd := sd; cd_ok := false; cd_unknown := []; cd_scalars_ok := true; cd_cs := []; cd_tcs := [] |}
  | Some sv =>
      match components_y sc sd sv with
      | None => {| cd_sc := sc; cd_sd := sd; cd_ok := false; cd_unknown := []; cd_scalars_ok := true; cd_cs := []; cd_tcs := [] |}
      | Some (cs, unk) =>
          {| cd_sc := sc; cd_sd := sd; cd_ok := true; cd_unknown := unk;
             cd_scalars_ok := match ynode_unknowns (YMap cs) with [] => true | _ => false end;
             cd_cs := cs; cd_tcs := doc_components reader12 cs |}
      end
  end.

Definition find_comp {A} (cs : list (str * A)) (name : str) : option A :=
  match find (fun e => str_eqb (fst e) name) cs with Some e => Some (snd e) | None => None end.

(* the component schema the document gives for message type tn *)
Definition schema_for (d : c06_doc) (tn : str) : option jschema := find_comp (cd_tcs d) (short_name tn).
(* what an operation says about a body of type tn (generator.go:784-806, 820-847: a $ref) *)
Definition body_schema (tn : str) : jschema := SObj [KwRef (short_name tn)].

(* the component registered under tn's short name IS the schema the generator builds for tn (it is
   not when another message, a map entry or a oneof variant with the same short name was registered
   later: components form one ordered map keyed by short name, generator.go:153-158) *)
Definition comp_ok (sc : schema) (sd : side) (cs : list (str * ynode)) (tn : str) : bool :=
  match OpenApi.lookup_message sc tn, find_comp cs (short_name tn) with
  | Some md, Some n => ynode_eqb n (object_schema sc sd md)
  | _, _ => false
  end.

(* ---- validation parameters of the correspondence run ------------------------------------------------ *)
(* format is an annotation (jsonschema without a format checker); the only pattern the generator emits
   without a validation rule is the HEX one (types.go:139-143) *)
Definition hex_pattern : str := s "^[0-9a-fA-F]*$".
Definition is_hex_char (c : ascii) : bool :=
  is_digit c || ((97 <=? code c) && (code c <=? 102))%N || ((65 <=? code c) && (code c <=? 70))%N.
Definition P06 : vparams :=
  annotation_only (fun re x => if str_eqb re hex_pattern then forallb is_hex_char x else true).

Definition c06_fuel : nat := 120.

(* ---- properties no schema describes (harness/py/validate.py: undescribed) ----------------------------- *)
Section Und.
Variable P : vparams.
Variable cs : list (str * jschema).

Definition first_ref (kws : list keyword) : option (option str) :=
  match find (fun kw => match kw with KwRef _ | KwRefOther _ => true | _ => false end) kws with
  | Some (KwRef n) => Some (Some n)
  | Some _ => Some None
  | None => None
  end.

(* resolve(): follow $ref while the schema has one *)
Fixpoint resolve_kws (n : nat) (sch : jschema) : list keyword :=
  match n with
  | O => []
  | S n' =>
      match sch with
      | SBool _ => []
      | SObj kws =>
          match first_ref kws with
          | Some (Some name) => match find_comp cs name with Some t => resolve_kws n' t | None => [] end
          | Some None => []
          | None => kws
          end
      end
  end.
Definition resolve0 : jschema -> list keyword := resolve_kws 50.

Definition kw_allof (kws : list keyword) : list jschema :=
  flat_map (fun kw => match kw with KwAllOf l => l | _ => [] end) kws.
Definition kw_oneof (kws : list keyword) : list jschema :=
  flat_map (fun kw => match kw with KwOneOf l => l | _ => [] end) kws.
Definition kw_props (kws : list keyword) : list (str * jschema) :=
  flat_map (fun kw => match kw with KwProperties ps => ps | _ => [] end) kws.
Definition kw_addl (kws : list keyword) : option jschema :=
  match find (fun kw => match kw with KwAdditional (SObj _) => true | _ => false end) kws with
  | Some (KwAdditional t) => Some t
  | _ => None
  end.
Definition kw_items (kws : list keyword) : option jschema :=
  match find (fun kw => match kw with KwItems (SObj _) => true | _ => false end) kws with
  | Some (KwItems t) => Some t
  | _ => None
  end.

Definition branches (vfuel : nat) (kws : list keyword) (v : jv) : list (list keyword) :=
  kws :: map resolve0 (kw_allof kws) ++
  flat_map (fun sub => match validates P cs vfuel sub v with
                       | VOk true => let r := resolve0 sub in r :: map resolve0 (kw_allof r)
                       | _ => []
                       end) (kw_oneof kws).

Fixpoint first_some {A B} (f : A -> option B) (l : list A) : option B :=
  match l with
  | [] => None
  | a :: r => match f a with Some b => Some b | None => first_some f r end
  end.

Definition describe (bs : list (list keyword)) (k : str) : option jschema :=
  match first_some (fun b => find_comp (kw_props b) k) bs with
  | Some t => Some t
  | None => first_some kw_addl bs
  end.

Fixpoint und (fuel vfuel : nat) (sch : jschema) (v : jv) : nat :=
  match fuel with
  | O => O
  | S f =>
      let bs := branches vfuel (resolve0 sch) v in
      match v with
      | JVObj kv =>
          fold_right (fun e acc => (match describe bs (fst e) with
                                    | None => 1
                                    | Some t => und f vfuel t (snd e)
                                    end + acc)%nat) O kv
      | JVArr l =>
          match first_some kw_items bs with
          | Some t => fold_right (fun x acc => (und f vfuel t x + acc)%nat) O l
          | None => O
          end
      | _ => O
      end
  end.
End Und.

(* the harness reports at most 8 paths *)
Definition und_fuel : nat := 41.
Definition und_capped (P : vparams) (cs : list (str * jschema)) (sch : jschema) (v : jv) : Z :=
  Z.of_nat (Nat.min 8 (und P cs und_fuel c06_fuel sch v)).

(* ---- URL values --------------------------------------------------------------------------------------- *)
(* The Go client writes a path / query value with fmt.Sprint (clientgen/generator.go:462-530); the
   harness reads the text back under the declared type (string serialisation: an integer schema reads a
   decimal integer, a number schema a finite decimal, a boolean schema true/false, anything else the text).
   Modelled on values: the text of an integer denotes that integer (C01_parse_int_show), the text of a
   finite float denotes that float; NaN / +Inf / -Inf are not numbers and stay text. *)
Definition float_is_finite (is64 : bool) (b : Z) : bool :=
  match fclassify is64 b with FFinite => true | _ => false end.
(* widen a float32 bit pattern to the float64 with the same value: only the class matters to the
   declared schemas (type number), so the exact digits are immaterial and zero stands for them *)
Definition param_jv (k : kind) (v : sval) : jv :=
  match k, v with
  | KBool, VBool b => JVBool b
  | KString, VStr x => JVStr x
  | KDouble, VFloat b => if float_is_finite true b then JVNum (f64_dec b) else JVStr (s "NaN")
  | KFloat, VFloat b => if float_is_finite false b then JVNum (dec_of_Z 0) else JVStr (s "NaN")
  | _, VInt z => if ProtoJson.is_int32_kind k then JVNum (dec_of_Z z) else JVStr (show_Z z)
  | _, _ => JVStr []
  end.

(* ---- defect classes ------------------------------------------------------------------------------------- *)
Inductive c06_defect :=
  | D6NonFinite              (* protojson / encoding/json write NaN, Infinity as JSON strings; types.go:160-171 says number *)
  | D6EnumUnknownNumber      (* an undefined enum number is sent as a JSON number; types.go:196-252 lists names *)
  | D6EnumNameUntagged       (* types.go:226-232: enum names are untagged YAML scalars; NULL / TRUE / ... do not read back as strings *)
  | D6ShortNameCollision     (* generator.go:153-158: one component per short name *)
  | D6NestedOneofAmbiguous   (* generator.go:370-477: oneOf branches with optional properties only *)
  | D6FlatOneofUnset         (* generator.go:301-352: every branch requires the discriminator *)
  | D6Wire (d : c05_defect)  (* the wire form is not the documented form the schema describes (C05) *)
  | D6FlattenChildOneof      (* flatten / flattened oneof variant: the parent's schema inlines the child's own properties one by one; a child
                                with a discriminated oneof or a flatten field of its own is written in its codec form (discriminator +
                                variant, grandchild fields inlined), properties the schema does not describe *)
  | D6MarkerKey.             (* model limit: a field or map key spelled like the float marker of the canonical JSON *)
(* (The former class D6NullableEnum, tag nullable-enum-null-not-in-enum - makeNullableSchema appended "null" to `type` but
   not to `enum`, so the null the server writes for an unset nullable enum field matched no member - is gone with the
   repair of types.go: OpenApi.add_null_enum appends the !!null member.) *)

Definition c06_defect_str (d : c06_defect) : str :=
  match d with
  | D6NonFinite => s "nonfinite-float-as-string"
  | D6EnumUnknownNumber => s "enum-unknown-number-vs-name-list"
  | D6EnumNameUntagged => s "enum-name-untagged-scalar"
  | D6ShortNameCollision => s "short-name-collision"
  | D6NestedOneofAmbiguous => s "nested-oneof-ambiguous"
  | D6FlatOneofUnset => s "flattened-oneof-unset-matches-no-branch"
  | D6Wire d => c05_defect_str d
  | D6FlattenChildOneof => s "flatten-child-discriminated-oneof-undescribed"
  | D6MarkerKey => s "model:float-marker-key"
  end.

(* which C05 classes can put the wire form outside the published schema.  Not among them:
   annotation-on-map-field-skipped (types.go:270-292 builds map value schemas from a bare field, so the
   schema describes the un-annotated form the wire carries), nullable / empty_behavior under a
   protojson parent (the schema admits the absent field and the object as well). *)
Definition c05_matters (d : c05_defect) : bool :=
  match d with
  | D5MapSkipped _ => false
  | D5Pj ANullable | D5Pj AEmpty => false
  | D5C04 _ => false
  | _ => true
  end.

Section Walk.
Variable sc : schema.
Variable sd : side.
Variable cs : list (str * ynode).

Definition scalar_issues (k : kind) (x : sval) : list c06_defect :=
  match k, x with
  | KDouble, VFloat b => if float_is_finite true b then [] else [D6NonFinite]
  | KFloat, VFloat b => if float_is_finite false b then [] else [D6NonFinite]
  | KEnum tn, VEnum n =>
      match find_enum (all_enums sc) tn with
      | None => []
      | Some e => match ev_by_number (e_values e) n with
                  | None => [D6EnumUnknownNumber]
                  | Some v => if reads_as_string reader12 (ev_name v) then [] else [D6EnumNameUntagged]
                  end
      end
  | _, _ => []
  end.

Definition is_marker (x : str) : bool := str_eqb x fmark.
Definition key_issues (key : sval) : list c06_defect :=
  match key_text key with ROk x => if is_marker x then [D6MarkerKey] else [] | _ => [] end.

Definition oneof_member_set (md : message) (o : oneof) (m : mval) : bool :=
  existsb (fun f => OpenApi.in_oneof o f && match mget m (f_name f) with Some _ => true | None => false end) (m_fields md).

(* what the shape of the message's own component does to every instance of it *)
Definition msg_issues (md : message) (m : mval) : list c06_defect :=
  (if comp_ok sc sd cs (m_name md) then [] else [D6ShortNameCollision]) ++
  (if existsb (fun f => is_marker (json_name (f_name f))) (m_fields md) then [D6MarkerKey] else []) ++
  (* a child that is INLINED into this message's object (flatten field, variant of a flattened discriminated oneof) and
     whose own JSON form is reshaped by a codec of its own (discriminated oneof with a member set, flatten field set):
     the schema of this message inlines the child's declared properties one by one *)
  (let shaped (c : str) (sub : mval) : bool :=
     match find_message (all_messages sc) c with
     | Some cm =>
         existsb (fun o => existsb (fun g => match mget sub (f_name g) with Some _ => true | None => false end) (variants cm o)) (disc_oneofs cm) ||
         existsb (fun g => is_flatten_field g && match mget sub (f_name g) with Some _ => true | None => false end) (m_fields cm)
     | None => false
     end in
   if existsb (fun f => match f_kind f, mget m (f_name f) with
                        | KMessage c, Some (FM sub) =>
                            (is_flatten_field f ||
                             existsb (fun o => o_flatten o && OpenApi.in_oneof o f) (disc_oneofs md)) && shaped c sub
                        | _, _ => false end) (m_fields md) then [D6FlattenChildOneof] else []) ++
  match root_unwrap_field md with
  | Some _ => []
  | None =>
      if has_flatten_fields md then [] else
      if has_disc_oneof md then
        if has_flattened_oneof md
        then (if forallb (fun o => oneof_member_set md o m) (filter o_flatten (disc_oneofs md)) then [] else [D6FlatOneofUnset])
        else (if Nat.leb 2 (List.length (flat_map (variants md) (disc_oneofs md))) then [D6NestedOneofAmbiguous] else [])
      else []
  end.

Fixpoint walk (k : kind) (v : fval) {struct v} : list c06_defect :=
  match v with
  | FS x => scalar_issues k x
  | FL l => (fix go (l : list fval) : list c06_defect := match l with [] => [] | x :: r => walk k x ++ go r end) l
  | FMap kv => (fix go (kv : list (sval * fval)) : list c06_defect :=
                  match kv with [] => [] | (key, x) :: r => key_issues key ++ walk k x ++ go r end) kv
  | FM m =>
      match k with
      | KMessage tn =>
          if str_eqb tn ts_name then [] else
          match find_message (all_messages sc) tn with
          | None => []
          | Some md =>
              msg_issues md m ++
              (fix go (m0 : list (str * fval)) : list c06_defect :=
                 match m0 with
                 | [] => []
                 | (name, x) :: r =>
                     match find_field (m_fields md) name with
                     | Some f => walk (f_kind f) x ++ go r
                     | None => go r
                     end
                 end) m
          end
      | _ => []
      end
  end.
End Walk.

Definition dedup6 (l : list c06_defect) : list c06_defect :=
  fold_right (fun d acc => if existsb (fun e => str_eqb (c06_defect_str e) (c06_defect_str d)) acc then acc else d :: acc) [] l.

Definition defects_C06 (sc : schema) (sd : side) (cs : list (str * ynode)) (tn : str) (m : mval) : list c06_defect :=
  dedup6 (walk sc sd cs (KMessage tn) (FM m) ++ map D6Wire (filter c05_matters (defects_C05 sc tn m))).

(* URL values *)
Definition defects_C06_param (k : kind) (v : sval) : list c06_defect :=
  match k, v with
  | KDouble, VFloat b => if float_is_finite true b then [] else [D6NonFinite]
  | KFloat, VFloat b => if float_is_finite false b then [] else [D6NonFinite]
  | _, _ => []
  end.

(* ---- error bodies --------------------------------------------------------------------------------------- *)
(* what writeErrorWithHandler sends (http/errors_impl.go + generator.go writeErrorWithHandler: protojson of
   sebuf.http.Error{message} / ValidationError{violations: [FieldViolation{field, description}]}; as everywhere in
   proto3 JSON, empty strings and empty lists are omitted; the same JSON as Errors.pmsg_pj (C10) for literal texts) *)
Definition error_body (msg : str) : json :=
  JObj (match msg with [] => [] | x => [(s "message", JStr x)] end).
Definition violation_json (fd : str * str) : json :=
  JObj ((match fst fd with [] => [] | f => [(s "field", JStr f)] end) ++
        (match snd fd with [] => [] | d => [(s "description", JStr d)] end)).
Definition validation_body (vs : list (str * str)) : json :=
  JObj (match vs with [] => [] | _ => [(s "violations", JArr (map violation_json vs))] end).

Definition str_null (x : str) : bool := match x with [] => true | _ => false end.
(* generator.go:907-961 requires `violations`, and `field` + `description` of every violation; protojson omits
   an empty list and empty strings *)
Definition defects_C06_verr (vs : list (str * str)) : list str :=
  (match vs with [] => [s "validation-error-without-violations"] | _ => [] end) ++
  (if existsb (fun fd => str_null (fst fd) || str_null (snd fd)) vs then [s "violation-with-empty-member"] else []).

(* ---- correspondence cases -------------------------------------------------------------------------------- *)
Inductive c06_what :=
  | WBody (tn : str) (m : mval)            (* request body the client sends / 200 body the server sends *)
  | WError (msg : str)                     (* default response: sebuf.http.Error *)
  | WValidation (vs : list (str * str))    (* 400 response: sebuf.http.ValidationError *)
  | WParam (k : kind) (v : sval).          (* one path / query value *)

Definition c06_case := (c06_doc * c06_what * ptab * stab)%type.

Definition verdict_json (tags : list str) (cs : list (str * jschema)) (sch : jschema) (v : jv) : json :=
  JObj [(s "tags", jstrs tags);
        (s "valid", json_of_vres (validates P06 cs c06_fuel sch v));
        (s "undescribed", JNum (und_capped P06 cs sch v))].

Definition has_rules (sd : side) : bool := match sd_rules sd with [] => false | _ => true end.

Definition predict_C06 (c : c06_case) : json :=
  let '(d, w, pt, st) := c in
  if negb (cd_ok d) then unmodelled "no such service, or the collection ran out of fuel" else
  match cd_unknown d with
  | _ :: _ => unmodelled "message type outside the request's files (well-known type other than Timestamp)"
  | [] =>
      if negb (cd_scalars_ok d) then unmodelled "a scalar outside the modelled YAML resolution subset" else
      if has_rules (cd_sd d) then unmodelled "validation rules present: values are not drawn to satisfy them" else
      match w with
      | WBody tn m =>
          match encode (E0 pt st) (cd_sc d) tn m with
          | RUnm why => JObj [(s "unmodelled", JStr why)]
          | RErr _ => unmodelled "the codec refuses the value: nothing is sent"
          | ROk j =>
              let tags := defects_C06 (cd_sc d) (cd_sd d) (cd_cs d) tn m in
              if existsb (fun t => match t with D6MarkerKey => true | _ => false end) tags
              then unmodelled "a key spelled like the float marker of the canonical JSON"
              else verdict_json (map c06_defect_str tags) (cd_tcs d) (body_schema tn) (wire_jv j)
          end
      | WError msg => verdict_json [] (cd_tcs d) (SObj [KwRef (s "Error")]) (wire_jv (error_body msg))
      | WValidation vs =>
          verdict_json (defects_C06_verr vs) (cd_tcs d) (SObj [KwRef (s "ValidationError")]) (wire_jv (validation_body vs))
      | WParam k v =>
          match k with
          | KEnum _ | KMessage _ | KBytes => unmodelled "URL value of a kind the client cannot format"
          | _ => JObj [(s "tags", jstrs (map c06_defect_str (defects_C06_param k v)));
                       (s "valid", json_of_vres (validates P06 [] c06_fuel (typed (param_schema k)) (param_jv k v)));
                       (s "undescribed", JNum 0)]
          end
      end
  end.
Close Scope Z_scope.
