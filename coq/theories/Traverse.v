(* Traverse.v — the message-graph walks of the plugins as fuelled functions (C16).
     guarded walk : tscommon.MessageCollector.AddMessage / openapiv3.collectMessageRecursive
                    (visited set, recursion into message-typed fields)
     mock walk    : httpgen.generateMockFieldAssignments (no visited set; follows singular message
                    fields and message-valued maps, not repeated fields)
   Fuel bounds recursion DEPTH; [None] = out of fuel. *)
From Sebuf Require Export Text.

(* node i of the graph lists the indices of the message types its fields refer to, with a flag
   saying whether the mock emitter follows that edge *)
Record mnode := { mn_edges : list (nat * bool) }.
Definition graph := list mnode.

Definition edges_of (g : graph) (n : nat) : list (nat * bool) :=
  match nth_error g n with Some m => mn_edges m | None => [] end.

Definition mem_nat (n : nat) (l : list nat) : bool := existsb (Nat.eqb n) l.

(* ---- visited-set guarded walk --------------------------------------------------------------- *)
Fixpoint collect (fuel : nat) (g : graph) (visited : list nat) (n : nat) : option (list nat) :=
  match fuel with
  | O => None
  | S f =>
      if mem_nat n visited then Some visited
      else fold_left (fun (acc : option (list nat)) (e : nat * bool) => match acc with Some v => collect f g v (fst e) | None => None end)
                     (edges_of g n) (Some (n :: visited))
  end.

(* ---- the mock emitter's walk: counts emitted assignments ----------------------------------- *)
Fixpoint mock_assign (fuel : nat) (g : graph) (n : nat) : option nat :=
  match fuel with
  | O => None
  | S f =>
      fold_left (fun (acc : option nat) (e : nat * bool) =>
                   match acc with
                   | None => None
                   | Some k => if snd e then match mock_assign f g (fst e) with
                                             | Some j => Some (k + j + 1)
                                             | None => None end
                               else Some (k + 1)
                   end)
                (edges_of g n) (Some 0)
  end.

(* ---- the mock emitter's walk after the repair (fix: "mock generator stops at message types
   already being filled"): [path] = the messages currently being filled; a followed edge whose
   target is on the path is left unset ------------------------------------------------------ *)
Fixpoint mock_path (fuel : nat) (g : graph) (path : list nat) (n : nat) : option nat :=
  match fuel with
  | O => None
  | S f =>
      let path' := n :: path in
      fold_left (fun (acc : option nat) (e : nat * bool) =>
                   match acc with
                   | None => None
                   | Some k =>
                       if snd e then
                         (if mem_nat (fst e) path' then Some (k + 1)
                          else match mock_path f g path' (fst e) with
                               | Some j => Some (k + j + 1)
                               | None => None end)
                       else Some (k + 1)
                   end)
                (edges_of g n) (Some 0)
  end.

Definition wf_graph (g : graph) : Prop :=
  forall n t b, In (t, b) (edges_of g n) -> t < List.length g.

(* rendering for the correspondence check *)
From Sebuf Require Import Json.
Definition predict_C16 (c : graph * list nat) : json :=
  let '(g, roots) := c in
  let fuel := S (S (List.length g)) in
  JObj [(s "tags", jstrs (if existsb (fun r => match mock_path fuel g [] r with None => true | Some _ => false end) roots
                          then [s "mock-recursive-message"] else []));
        (s "guarded_walk_terminates",
           JBool (forallb (fun r => match collect fuel g [] r with Some _ => true | None => false end) roots));
        (s "mock_walk_terminates",
           JBool (forallb (fun r => match mock_path fuel g [] r with Some _ => true | None => false end) roots))].
