(* Traverse.v — the message-graph walks of the plugins as fuelled functions (C16).
     guarded walk : tscommon.MessageCollector.AddMessage / openapiv3.collectMessageRecursive
                    (visited set, recursion into message-typed fields)
     mock walk    : httpgen.generateMockFieldAssignments (no visited set; follows singular message
                    fields and message-valued maps, not repeated fields)
   Fuel bounds recursion DEPTH; [None] = out of fuel. *)
From Sebuf Require Export Text.

(* node i of the graph lists the indices of the message types its fields refer to, with a flag
   saying whether the mock emitter follows that edge *)
Record mnode := { mn_edges : list (nat * bool) }.
Definition graph := list mnode.

Definition edges_of (g : graph) (n : nat) : list (nat * bool) :=
  match nth_error g n with Some m => mn_edges m | None => [] end.

Definition mem_nat (n : nat) (l : list nat) : bool := existsb (Nat.eqb n) l.

(* ---- visited-set guarded walk --------------------------------------------------------------- *)
Fixpoint collect (fuel : nat) (g : graph) (visited : list nat) (n : nat) : option (list nat) :=
  match fuel with
  | O => None
  | S f =>
      if mem_nat n visited then Some visited
      else fold_left (fun (acc : option (list nat)) (e : nat * bool) => match acc with Some v => collect f g v (fst e) | None => None end)
                     (edges_of g n) (Some (n :: visited))
  end.

(* ---- the mock emitter's walk: counts emitted assignments ----------------------------------- *)
Fixpoint mock_assign (fuel : nat) (g : graph) (n : nat) : option nat :=
  match fuel with
  | O => None
  | S f =>
      fold_left (fun (acc : option nat) (e : nat * bool) =>
                   match acc with
                   | None => None
                   | Some k => if snd e then match mock_assign f g (fst e) with
                                             | Some j => Some (k + j + 1)
                                             | None => None end
                               else Some (k + 1)
                   end)
                (edges_of g n) (Some 0)
  end.

(* ---- the mock emitter's walk after the repair (fix: "mock generator stops at message types
   already being filled"): [path] = the messages currently being filled; a followed edge whose
   target is on the path is left unset ------------------------------------------------------ *)
Fixpoint mock_path (fuel : nat) (g : graph) (path : list nat) (n : nat) : option nat :=
  match fuel with
  | O => None
  | S f =>
      let path' := n :: path in
      fold_left (fun (acc : option nat) (e : nat * bool) =>
                   match acc with
                   | None => None
                   | Some k =>
                       if snd e then
                         (if mem_nat (fst e) path' then Some (k + 1)
                          else match mock_path f g path' (fst e) with
                               | Some j => Some (k + j + 1)
                               | None => None end)
                       else Some (k + 1)
                   end)
                (edges_of g n) (Some 0)
  end.

Definition wf_graph (g : graph) : Prop :=
  forall n t b, In (t, b) (edges_of g n) -> t < List.length g.

(* rendering for the correspondence check *)
From Sebuf Require Import Json.
Definition predict_C16 (c : graph * list nat) : json :=
  let '(g, roots) := c in
  let fuel := S (S (List.length g)) in
  JObj [(s "tags", jstrs (if existsb (fun r => match mock_path fuel g [] r with None => true | Some _ => false end) roots
                          then [s "mock-recursive-message"] else []));
        (s "guarded_walk_terminates",
           JBool (forallb (fun r => match collect fuel g [] r with Some _ => true | None => false end) roots));
        (s "mock_walk_terminates",
           JBool (forallb (fun r => match mock_path fuel g [] r with Some _ => true | None => false end) roots))].

(* ================================================================================================ *)
(* The path-guarded mock walk on ACYCLIC graphs: cost = number of reference paths                   *)
(* ================================================================================================ *)
(* httpgen.generateMockFieldAssignments (mock_generator.go:172-225) and generateMockMapFieldAssignment
   (:228-283) keep only the messages CURRENTLY being filled (onPath, deleted again on return), not
   the messages already filled: a message type reached through two fields is filled twice, together
   with everything below it.  [mock_path] above is that walk; its result is the number of
   message-field assignments it emits.  On a layered acyclic graph whose every level refers to the
   next through w followed fields that number is ~ w^depth (TraverseFacts.mock_path_dag2).

   For the correspondence check the walk is evaluated under a step budget ("bounded time" is a
   wall-clock/memory budget on the plugin process, a step budget in the model, DESIGN §5.C16):
   [mock_cost] is [mock_path] with the count threaded through as an accumulator and every further
   edge skipped once the accumulator has passed [lim], so that its evaluation takes O(lim * depth)
   steps whatever the graph (TraverseFacts.mock_cost_spec relates the two). *)
Fixpoint mock_cost (fuel : nat) (lim : N) (g : graph) (path : list nat) (n : nat) (acc : N) : N :=
  match fuel with
  | O => acc
  | S f =>
      let path' := n :: path in
      fold_left (fun (a : N) (e : nat * bool) =>
                   if (lim <? a)%N then a
                   else if snd e then
                          (if mem_nat (fst e) path' then (a + 1)%N
                           else mock_cost f lim g path' (fst e) (a + 1)%N)
                        else (a + 1)%N)
                (edges_of g n) acc
  end.

(* the budget: 2^15 message-field assignments.  Measured on the real plugin (width-2 layered
   response type, 1 GiB address space): 2^13 assignments 0.1 s, 2^17 about 3 s / 25 MB of output,
   2^19 about 12 s / 100 MB, x2 per level after that. *)
Definition mock_budget : N := 32768.

Definition mock_over_budget (g : graph) (r : nat) : bool :=
  (mock_budget <? mock_cost (S (S (List.length g))) mock_budget g [] r 0)%N.

(* the layered graph of width 2 and depth d: node i (i < d) has two singular fields of type i+1 *)
Definition dag2 (d : nat) : graph :=
  map (fun i => {| mn_edges := if i <? d then [(S i, true); (S i, true)] else [] |}) (seq 0 (S d)).

(* one case of the correspondence check for the stress families of harness/lib/c16_more.go:
   (graph, response types of the RPCs, mock?) — mock = the case observes go-http with
   generate_mock=true under the small budget, otherwise the ten other plugin/parameter variants.
   mock_failure: how the mock run ended — "none" (answered), "budget" (wall clock or address space
   exhausted); a run that dies for another reason is observed as "crash" and never predicted *)
Definition predict_C16b (c : graph * list nat * bool) : json :=
  let '(g, roots, mock) := c in
  let fuel := S (S (List.length g)) in
  if mock then
    let over := existsb (mock_over_budget g) roots in
    JObj [(s "tags", jstrs (if over then [s "mock-acyclic-path-blowup"] else []));
          (s "mock_failure", JStr (if over then s "budget" else s "none"));
          (s "mock_walk_terminates", JBool (negb over))]
  else
    JObj [(s "tags", JArr []);
          (s "guarded_walk_terminates",
             JBool (forallb (fun r => match collect fuel g [] r with Some _ => true | None => false end) roots))].
