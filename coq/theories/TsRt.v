(* TsRt.v — behaviour of the emitted TypeScript client and server for one call (C08):
     client : internal/tsclientgen/generator.go generateURLBuilding (301-341), generateHeaderMerging
              (344-369), generateFetchCall (372-390), generateResponseHandling / handleError (393-412)
     server : internal/tsservergen/generator.go generateRouteEntry (417-491), generatePathParamMerge
              (495-504), generateHeaderValidation (507-537), generatePathParamExtraction (540-566),
              generateBodyParsing (569-582), generateQueryParamParsing / generateQueryParamField (585-641)
     names  : internal/tscommon/helpers.go HeaderNameToPropertyName (19-33),
              internal/clientgen/generator.go headerNameToFuncName (740-745)
   plus the JS built-ins they rely on (encodeURIComponent / decodeURIComponent, URLSearchParams,
   the WHATWG URL parser's dot-segment removal, Number(), String()), transcribed for the fragment the
   emitted code feeds them and validated against node by the "js" family of the correspondence check.
   The Go halves of a cross-language call are GoRt.client_build and GoRt.server_handle.
   As in GoRt.v message bodies travel as (format, value): which codec runs is modelled, the bytes are not. *)
From Sebuf Require Export GoRt.

(* ---- encodeURIComponent / decodeURIComponent ------------------------------------------------------ *)
(* ECMA-262 19.2.6: uriUnescaped = uriAlpha | DecimalDigit | uriMark, uriMark = - _ . ! ~ * ' ( ) *)
Definition uri_unreserved (c : ascii) : bool := is_alnum c || in_chars c (s "-_.!~*'()").
Definition encode_uri_component (x : str) : str :=
  flat_map (fun c => if uri_unreserved c then [c] else pct c) x.

(* well-formed UTF-8 (Unicode table 3-7); byte strings stand for the UTF-8 encoding of a JS string *)
Definition in_rng (lo hi : N) (c : ascii) : bool := (lo <=? code c)%N && (code c <=? hi)%N.
Definition cont : ascii -> bool := in_rng 128 191.
Fixpoint utf8_valid (x : str) : bool :=
  match x with
  | [] => true
  | a :: r =>
      if (code a <? 128)%N then utf8_valid r else
      if in_rng 194 223 a then
        match r with b :: r1 => cont b && utf8_valid r1 | _ => false end else
      if in_rng 224 239 a then
        match r with
        | b :: c :: r2 =>
            (if (code a =? 224)%N then in_rng 160 191 b
             else if (code a =? 237)%N then in_rng 128 159 b else cont b) && cont c && utf8_valid r2
        | _ => false
        end else
      if in_rng 240 244 a then
        match r with
        | b :: c :: d :: r3 =>
            (if (code a =? 240)%N then in_rng 144 191 b
             else if (code a =? 244)%N then in_rng 128 143 b else cont b) && cont c && cont d && utf8_valid r3
        | _ => false
        end
      else false
  end.

(* decodeURIComponent on an ASCII input (a URL's pathname is ASCII): every %XX becomes a byte; a
   malformed escape or a byte sequence that is not UTF-8 throws URIError (None) *)
Definition decode_uri_component (x : str) : option str :=
  match unescape false x with
  | Some y => if utf8_valid y then Some y else None
  | None => None
  end.

(* ---- URLSearchParams ------------------------------------------------------------------------------ *)
(* application/x-www-form-urlencoded byte serializer: space -> '+', alnum and * - . _ kept *)
Definition form_safe (c : ascii) : bool := is_alnum c || in_chars c (s "*-._").
Definition form_escape (x : str) : str :=
  flat_map (fun c => if Ascii.eqb c " "%char then ["+"%char] else if form_safe c then [c] else pct c) x.
Definition form_pair (p : str * str) : str := form_escape (fst p) ++ [eqc] ++ form_escape (snd p).
Definition form_encode (kv : list (str * str)) : str := join_with [amp] (map form_pair kv).

(* URLSearchParams.prototype.set: replace the first pair with that name, drop the others, else append *)
Fixpoint params_set (l : list (str * str)) (k v : str) : list (str * str) :=
  match l with
  | [] => [(k, v)]
  | (k', v') :: r =>
      if str_eqb k k' then (k, v) :: filter (fun p => negb (str_eqb (fst p) k)) r
      else (k', v') :: params_set r k v
  end.
Definition params_of (l : list (str * str)) : list (str * str) :=
  fold_left (fun acc p => params_set acc (fst p) (snd p)) l [].

(* the parser: '+' -> space, then percent-decoding that leaves malformed escapes alone *)
Fixpoint form_unescape (x : str) : str :=
  match x with
  | [] => []
  | c :: r =>
      if Ascii.eqb c "%"%char then
        match r with
        | h :: l :: r' =>
            match unhex h, unhex l with
            | Some a, Some b => ch (a * 16 + b) :: form_unescape r'
            | _, _ => c :: form_unescape r
            end
        | _ => c :: form_unescape r
        end
      else (if Ascii.eqb c "+"%char then " "%char else c) :: form_unescape r
  end.
Definition form_parse (q : str) : list (str * str) :=
  flat_map (fun p => match p with
                     | [] => []
                     | _ => let '(k, v) := cut_at eqc p in
                            [(form_unescape k, form_unescape (match v with Some v => v | None => [] end))]
                     end) (split_on amp q).
(* URLSearchParams.prototype.get: first value *)
Definition params_get (q : list (str * str)) (k : str) : option str :=
  match query_values q k with [] => None | x :: _ => Some x end.

(* ---- the URL parser's path state: dot segments ---------------------------------------------------- *)
Definition is_single_dot (x : str) : bool := existsb (str_eqb (lower_str x)) [s "."; s "%2e"].
Definition is_double_dot (x : str) : bool :=
  existsb (str_eqb (lower_str x)) [s ".."; s ".%2e"; s "%2e."; s "%2e%2e"].
Fixpoint whatwg_aux (acc : list str) (segs : list str) : list str :=
  match segs with
  | [] => rev acc
  | x :: r =>
      let last := match r with [] => true | _ => false end in
      if is_double_dot x then
        let acc' := match acc with [] => [] | _ :: a => a end in
        whatwg_aux (if last then [] :: acc' else acc') r
      else if is_single_dot x then whatwg_aux (if last then [] :: acc else acc) r
      else whatwg_aux (x :: acc) r
  end.
Definition whatwg_segs (segs : list str) : list str := whatwg_aux [] segs.
(* pathname of an absolute URL whose path text is p (p starts with '/') *)
Definition whatwg_path (p : str) : str :=
  match p with
  | c :: r => if Ascii.eqb c slash then slash :: join_with [slash] (whatwg_segs (split_on slash r)) else p
  | [] => [slash]
  end.

(* ---- Number(string) for the strings a query parameter can hold ------------------------------------- *)
Inductive jsnum := NumInt (z : Z) | NumNaN | NumOther.
Definition is_alpha (c : ascii) : bool := is_upper c || is_lower c.
(* "" -> 0; [+-]digits -> that integer (exact up to 2^53; "-0" is the float -0: NumOther);
   a string starting with a letter other than 'I' (Infinity) is NaN; anything else is outside the model *)
Definition js_number (x : str) : jsnum :=
  match x with
  | [] => NumInt 0
  | c :: r =>
      let '(neg, body) :=
        if Ascii.eqb c "-"%char then (true, r) else if Ascii.eqb c "+"%char then (false, r) else (false, x) in
      match parse_nat body with
      | Some n =>
          if (2 ^ 53 <? n)%N then NumOther
          else if neg then (if (n =? 0)%N then NumOther else NumInt (- Z.of_N n)) else NumInt (Z.of_N n)
      | None => if is_alpha c && negb (Ascii.eqb c "I"%char) then NumNaN else NumOther
      end
  end.

(* ---- the TS client ---------------------------------------------------------------------------------- *)
(* String(req.x): the TS-side value of an int32/uint32/bool field is a number/boolean, of a 64-bit
   field the decimal string, of a string field itself: all print as GoRt.sprint does *)
Definition js_string := sprint.

Definition singular (f : field) : bool := match f_card f with Singular => true | _ => false end.

Definition ts_fill_seg (fs : list field) (req : mval) (g : seg) : result str :=
  match g with
  | SLit x => Ok x
  | SVar v =>
      match find_field fs v with
      | Some f => if url_kind_ok (f_kind f) && singular f
                  then Ok (encode_uri_component (js_string (scalar_of req f)))
                  else Unmodelled (s "path variable of unmodelled kind/cardinality")
      | None => Unmodelled (s "path variable without field")
      end
  end.

(* what the client hands to fetch, after the URL parser every fetch implementation runs *)
Record ts_wire := {
  tw_verb : verb;
  tw_path : str;                 (* pathname on the request line *)
  tw_query : str;                (* raw query string, "" when absent *)
  tw_body : option (bfmt * mval)
}.

(* tsZeroCheck*: string !== "", bool truthy, 32-bit !== 0, 64-bit !== "0": the predicate of GoRt.is_zero,
   so GoRt.client_query yields the pairs in field order; URLSearchParams keeps that order (no sorting) *)
Definition ts_client_build (fl : file) (sv : service) (md : method) (fs : list field) (req : mval)
  : result ts_wire :=
  let r := info_of fl sv md fs in
  let rt := ts_client r in
  match tsegs (rt_path rt) with
  | None => Unmodelled (s "client path template not modelled")
  | Some segs =>
      (* as for the Go client: only the method path's variables are replaced, and a literal byte outside
         the URL path alphabet would be re-encoded by the URL parser (not modelled) *)
      if negb (client_template_plain (rt_pathvars rt) segs)
      then Unmodelled (s "client path needs URL re-encoding") else
      match all_ok (map (ts_fill_seg fs req) segs) with
      | Unmodelled w => Unmodelled w
      | Ok filled =>
          match (if rt_body rt then Ok [] else client_query fs req) with
          | Unmodelled w => Unmodelled w
          | Ok q =>
              Ok {| tw_verb := rt_verb rt;
                    tw_path := slash :: join_with [slash] (whatwg_segs filled);
                    tw_query := form_encode (params_of q);
                    tw_body := if rt_body rt then Some (BJson, req) else None |}
          end
      end
  end.

(* the request as the Go server's net/http reads it *)
Definition go_wire_of (w : ts_wire) : wire_req :=
  {| w_verb := tw_verb w; w_path := tw_path w; w_query := parse_query (tw_query w); w_body := tw_body w |}.
(* the Go client's request as a fetch-standard Request object presents it to the TS server *)
Definition ts_wire_of (w : wire_req) : ts_wire :=
  {| tw_verb := w_verb w; tw_path := whatwg_path (w_path w); tw_query := encode_query (w_query w);
     tw_body := w_body w |}.

(* ---- the TS server ----------------------------------------------------------------------------------- *)
(* module load: since 5089e92 generateQueryParamParsing reuses the `url` that generatePathParamExtraction
   declared (before, a bodyless route with path variables and query parameters declared it twice and the
   whole module failed to load) *)
Definition ts_server_loads (sc : schema) (fl : file) : bool := true.
Definition ts_client_loads (sc : schema) (fl : file) : bool := true.

Inductive tstype := TNumber | TBoolean | TString.
(* tscommon.TSScalarTypeForField *)
Definition ts_scalar_type (f : field) : tstype :=
  match f_kind f with
  | KBool => TBoolean
  | KInt32 | KSint32 | KSfixed32 | KUint32 | KFixed32 | KFloat | KDouble => TNumber
  | KInt64 | KSint64 | KSfixed64 | KUint64 | KFixed64 =>
      match f_int64 f with Some I64Number => TNumber | _ => TString end
  | _ => TString
  end.

Inductive jsval := JsStr (x : str) | JsInt (z : Z) | JsNaN | JsBool (b : bool).

(* what a handler sees for one field: a value in canonical proto3-JSON spelling, or some other JS value *)
Inductive tsval := TsV (v : fval) | TsRaw (j : json).
Definition tsobj := list (str * tsval).

Definition canon_dec (signed : bool) (bits : N) (x : str) : option Z :=
  match (if signed then parse_int bits x else parse_uint bits x) with
  | Some z => if str_eqb (show_int z) x then Some z else None
  | None => None
  end.
Definition zin (lo hi z : Z) : bool := (lo <=? z)%Z && (z <? hi)%Z.
Definition js_json (j : jsval) : json :=
  match j with
  | JsStr x => JStr x | JsInt z => JNum z | JsBool b => JBool b
  | JsNaN => JObj [(s "$num", JStr (s "NaN"))]
  end.
(* None: the field is not populated (implicit presence, default value) *)
Definition canon_js (k : kind) (j : jsval) : option tsval :=
  let raw := Some (TsRaw (js_json j)) in
  let int z := if Z.eqb z 0 then None else Some (TsV (FS (VInt z))) in
  match j, k with
  | JsStr x, KString => match x with [] => None | _ => Some (TsV (FS (VStr x))) end
  | JsStr x, (KInt64 | KSint64 | KSfixed64) =>
      match canon_dec true 64 x with Some z => int z | None => raw end
  | JsStr x, (KUint64 | KFixed64) =>
      match canon_dec false 64 x with Some z => int z | None => raw end
  | JsInt z, (KInt32 | KSint32 | KSfixed32) => if zin (- 2 ^ 31) (2 ^ 31) z then int z else raw
  | JsInt z, (KUint32 | KFixed32) => if zin 0 (2 ^ 32) z then int z else raw
  | JsBool b, KBool => if b then Some (TsV (FS (VBool true))) else None
  | _, _ => raw
  end.

Fixpoint tget (o : tsobj) (k : str) : option tsval :=
  match o with
  | [] => None
  | (k', v) :: r => if str_eqb k k' then Some v else tget r k
  end.
Definition tremove (o : tsobj) (k : str) : tsobj := filter (fun e => negb (str_eqb (fst e) k)) o.
Definition tset (o : tsobj) (k : str) (v : option tsval) : tsobj :=
  match v with Some x => tremove o k ++ [(k, x)] | None => tremove o k end.
Definition tsobj_of_mval (m : mval) : tsobj := map (fun e => (fst e, TsV (snd e))) m.

Record ts_route := { tr_md : method; tr_fields : list field; tr_route : route; tr_tmpl : list str }.

Definition ts_routes (sc : schema) (fl : file) (sv : service) : list ts_route :=
  map (fun md => let fs := in_fields sc md in
                 let rt := ts_server (info_of fl sv md fs) in
                 {| tr_md := md; tr_fields := fs; tr_route := rt; tr_tmpl := split_on slash (rt_path rt) |})
      (sv_methods sv).

(* the harness's template router (rt/node/driver.mjs matchRoute): same verb, same number of
   segments, literals equal as written, a {var} segment matches any non-empty segment; at the first
   position where two matching templates differ in kind the literal wins, ties go to the first route *)
Definition tmpl_is_var (x : str) : bool := match seg_of x with Some (SVar _) => true | _ => false end.
Fixpoint ts_match (tmpl segs : list str) : bool :=
  match tmpl, segs with
  | [], [] => true
  | t :: tr, e :: er => (if tmpl_is_var t then negb (str_eqb e []) else str_eqb t e) && ts_match tr er
  | _, _ => false
  end.
Fixpoint ts_more_specific (a b : list str) : bool :=
  match a, b with
  | x :: ar, y :: br =>
      match tmpl_is_var x, tmpl_is_var y with
      | false, true => true
      | true, false => false
      | _, _ => ts_more_specific ar br
      end
  | _, _ => false
  end.
Definition ts_find_route (rs : list ts_route) (v : verb) (segs : list str) : option ts_route :=
  fold_left (fun best r =>
      if verb_eqb (rt_verb (tr_route r)) v && ts_match (tr_tmpl r) segs then
        match best with
        | Some b => if ts_more_specific (tr_tmpl r) (tr_tmpl b) then Some r else best
        | None => Some r
        end
      else best) rs None.

Fixpoint index_of (x : str) (l : list str) : option nat :=
  match l with
  | [] => None
  | y :: r => if str_eqb x y then Some O else option_map S (index_of x r)
  end.

(* headers: validateHeaders over service headers ++ method headers, each config on its own *)
Definition hdr_get (hs : list (str * str)) (name : str) : option str :=
  match find (fun p => str_eqb (lower_str (fst p)) (lower_str name)) hs with
  | Some p => Some (snd p) | None => None end.
Definition is_hex (c : ascii) : bool := match unhex c with Some _ => true | None => false end.
Fixpoint uuid_groups (lens : list nat) (x : str) : bool :=
  match lens with
  | [] => false
  | [n] => Nat.eqb (List.length x) n && forallb is_hex x
  | n :: r => forallb is_hex (firstn n x) && Nat.eqb (List.length (firstn n x)) n &&
              match skipn n x with d :: t => Ascii.eqb d "-"%char && uuid_groups r t | [] => false end
  end.
Definition is_uuid (x : str) : bool := uuid_groups [8; 4; 4; 4; 12]%nat x.
Definition is_int_text (x : str) : bool :=
  match x with
  | c :: r => let body := if Ascii.eqb c "-"%char then r else x in
              match body with [] => false | _ => forallb is_digit body end
  | [] => false
  end.
(* Some true: valid; Some false: violation; None: outside the model *)
Definition hdr_value_ok (h : header) (v : str) : option bool :=
  let ty :=
    if str_eqb (h_type h) (s "integer") then Some (is_int_text v)
    else if str_eqb (h_type h) (s "boolean") then Some (existsb (str_eqb v) [s "true"; s "false"; s "1"; s "0"])
    else if str_eqb (h_type h) (s "number") then None
    else Some true in
  let fm :=
    if str_eqb (h_format h) [] then Some true
    else if str_eqb (h_format h) (s "uuid") then Some (is_uuid v)
    else if existsb (str_eqb (h_format h)) [s "email"; s "date-time"; s "date"; s "time"] then None
    else Some true in
  match ty, fm with
  | Some false, _ => Some false
  | Some true, Some b => Some b
  | _, _ => None
  end.
Fixpoint hdr_violation (cfgs : list header) (hs : list (str * str)) : result (option str) :=
  match cfgs with
  | [] => Ok None
  | h :: r =>
      match hdr_get hs (h_name h) with
      | None => if h_required h then Ok (Some (h_name h)) else hdr_violation r hs
      | Some v =>
          match hdr_value_ok h v with
          | None => Unmodelled (s "header type/format outside the model")
          | Some false => Ok (Some (h_name h))
          | Some true => hdr_violation r hs
          end
      end
  end.

Inductive ts_outcome :=
  | TsLoadError                        (* the module does not load: no route exists *)
  | TsNotRouted                        (* no template accepts the request line *)
  | TsHeaderRejected (name : str)      (* 400 {violations}: first violation names this header *)
  | TsServerError                      (* 500 {message}: URIError from decodeURIComponent / req.json() failed *)
  | TsDelivered (md : str) (saw : tsobj).

Definition ts_query_js (f : field) (q : list (str * str)) : result jsval :=
  match ts_scalar_type f with
  | TNumber =>
      match js_number (match params_get q (qname f) with Some x => x | None => s "0" end) with
      | NumInt z => Ok (JsInt z)
      | NumNaN => Ok JsNaN
      | NumOther => Unmodelled (s "Number() of a string outside the modelled grammar")
      end
  | TBoolean => Ok (JsBool (match params_get q (qname f) with Some x => str_eqb x (s "true") | None => false end))
  | TString => Ok (JsStr (match params_get q (qname f) with Some x => x | None => [] end))
  end.

Fixpoint ts_bind_query (qfs : list field) (q : list (str * str)) (o : tsobj) : result tsobj :=
  match qfs with
  | [] => Ok o
  | f :: r =>
      match ts_query_js f q with
      | Unmodelled w => Unmodelled w
      | Ok j => ts_bind_query r q (tset o (f_name f) (canon_js (f_kind f) j))
      end
  end.

(* pathParams[v] = decodeURIComponent(pathSegments[i] ?? "") with i the template's index of "{v}";
   then body.<json name> = pathParams[v] — a string whatever the field's type *)
Fixpoint ts_bind_path (fs : list field) (tmpl segs : list str) (vars : list str) (o : tsobj)
  : result (option tsobj) :=
  match vars with
  | [] => Ok (Some o)
  | v :: r =>
      match index_of (lbrace :: v ++ [rbrace]) tmpl, find_field fs v with
      | Some i, Some f =>
          match decode_uri_component (nth i segs []) with
          | None => Ok None
          | Some x => ts_bind_path fs tmpl segs r (tset o (f_name f) (canon_js (f_kind f) (JsStr x)))
          end
      | _, _ => Unmodelled (s "path variable that is not a whole template segment / has no field")
      end
  end.

Definition ts_url_modelled (fs : list field) (vars : list str) (bodyless : bool) : bool :=
  forallb (fun v => match find_field fs v with
                    | Some f => singular f && match f_int64 f with Some I64Number => false | _ => true end
                    | None => true end) vars &&
  (negb bodyless ||
   forallb (fun f => url_kind_ok (f_kind f) && singular f &&
                     match f_int64 f with Some I64Number => false | _ => true end) (query_fields fs)).

Definition ts_server_handle (sc : schema) (fl : file) (sv : service) (w : ts_wire) (hs : list (str * str))
  : result ts_outcome :=
  if negb (ts_server_loads sc fl) then Ok TsLoadError else
  let segs := split_on slash (tw_path w) in
  match ts_find_route (ts_routes sc fl sv) (tw_verb w) segs with
  | None => Ok TsNotRouted
  | Some r =>
      let md := tr_md r in
      let fs := tr_fields r in
      let bodyless := negb (rt_body (tr_route r)) in
      if negb (ts_url_modelled fs (rt_pathvars (tr_route r)) bodyless)
      then Unmodelled (s "URL-bound field of unmodelled kind/cardinality") else
      match hdr_violation (sv_headers sv ++ md_headers md) hs with
      | Unmodelled why => Unmodelled why
      | Ok (Some name) => Ok (TsHeaderRejected name)
      | Ok None =>
          let start : result (option tsobj) :=
            if bodyless then
              match ts_bind_query (query_fields fs) (form_parse (tw_query w)) [] with
              | Ok o => Ok (Some o) | Unmodelled why => Unmodelled why end
            else
              match tw_body w with
              | Some (BJson, v) => Ok (Some (tsobj_of_mval v))
              | _ => Ok None                        (* req.json() rejects: 500 *)
              end in
          (* path parameters are extracted before the body is read; a URIError wins *)
          match ts_bind_path fs (tr_tmpl r) segs (rt_pathvars (tr_route r)) [] with
          | Unmodelled why => Unmodelled why
          | Ok None => Ok TsServerError
          | Ok (Some _) =>
              match start with
              | Unmodelled why => Unmodelled why
              | Ok None => Ok TsServerError
              | Ok (Some o) =>
                  match ts_bind_path fs (tr_tmpl r) segs (rt_pathvars (tr_route r)) o with
                  | Ok (Some saw) => Ok (TsDelivered (md_name md) saw)
                  | Ok None => Ok TsServerError
                  | Unmodelled why => Unmodelled why
                  end
              end
          end
      end
  end.

(* ---- the three pairs ---------------------------------------------------------------------------------- *)
Inductive pair := TsGo | GoTs | TsTs.

Inductive c08_outcome :=
  | ODelivered (dispatched : str) (saw : tsobj) (got : mval)
  | ORejected (field : str)        (* 400 with violations; the client throws/returns a validation error *)
  | ONotRouted
  | OPanic                         (* Go: Register<Service>Server panics *)
  | OLoadError                     (* TS: the server module does not load *)
  | OServerError.                  (* TS: 500 *)

Definition ts_go_call (sc : schema) (fl : file) (sv : service) (md : method) (req resp : mval)
  : result (wire_req * c08_outcome) :=
  let fs := in_fields sc md in
  match ts_client_build fl sv md fs req with
  | Unmodelled w => Unmodelled w
  | Ok tw =>
      let w := go_wire_of tw in
      match server_routes sc fl sv with
      | Unmodelled why => Unmodelled why
      | Ok None => Ok (w, OPanic)
      | Ok (Some rs) =>
          match server_handle rs w CtJSON resp with
          | Unmodelled why => Unmodelled why
          | Ok (inr (inr tt)) => Ok (w, ONotRouted)
          | Ok (inr (inl f)) => Ok (w, ORejected f)
          | Ok (inl None) => Ok (w, ONotRouted)
          | Ok (inl (Some (saw, (_, v)))) =>
              (* application/json in, application/json out; the TS client reads it with resp.json() *)
              Ok (w, ODelivered (match dispatched_to rs w with Some n => n | None => [] end) (tsobj_of_mval saw) v)
          end
      end
  end.

Definition of_ts_outcome (o : ts_outcome) (resp : mval) : c08_outcome :=
  match o with
  | TsLoadError => OLoadError
  | TsNotRouted => ONotRouted
  | TsHeaderRejected n => ORejected n
  | TsServerError => OServerError
  | TsDelivered n saw => ODelivered n saw resp      (* JSON.stringify(result) -> protojson / resp.json() *)
  end.

Definition go_ts_call (sc : schema) (fl : file) (sv : service) (md : method) (hs : list (str * str)) (req resp : mval)
  : result (wire_req * c08_outcome) :=
  let fs := in_fields sc md in
  match client_build fl sv md fs CtJSON req with
  | Unmodelled w => Unmodelled w
  | Ok w =>
      match ts_server_handle sc fl sv (ts_wire_of w) hs with
      | Unmodelled why => Unmodelled why
      | Ok o => Ok (w, of_ts_outcome o resp)
      end
  end.

Definition ts_ts_call (sc : schema) (fl : file) (sv : service) (md : method) (hs : list (str * str)) (req resp : mval)
  : result (wire_req * c08_outcome) :=
  let fs := in_fields sc md in
  match ts_client_build fl sv md fs req with
  | Unmodelled w => Unmodelled w
  | Ok tw =>
      match ts_server_handle sc fl sv tw hs with
      | Unmodelled why => Unmodelled why
      | Ok o => Ok (go_wire_of tw, of_ts_outcome o resp)
      end
  end.

Definition c08_call (p : pair) sc fl sv md hs req resp : result (wire_req * c08_outcome) :=
  match p with
  | TsGo => ts_go_call sc fl sv md req resp
  | GoTs => go_ts_call sc fl sv md hs req resp
  | TsTs => ts_ts_call sc fl sv md hs req resp
  end.

(* ---- header helper names ------------------------------------------------------------------------------- *)
(* clientgen.headerNameToFuncName: TrimPrefix "X-", delete every '-' *)
Definition go_header_func (h : str) : str :=
  filter (fun c => negb (Ascii.eqb c "-"%char)) (trim_prefix (s "X-") h).
(* tscommon.HeaderNameToPropertyName: TrimPrefix "X-", split on '-', first part lower-cased, every other
   non-empty part = upper(first byte) + lower(rest), joined *)
Definition title_part (p : str) : str :=
  match p with [] => [] | c :: r => to_upper c :: lower_str r end.
Definition ts_header_prop (h : str) : str :=
  match split_on "-"%char (trim_prefix (s "X-") h) with
  | [] => []
  | p :: r => lower_str p ++ List.concat (map title_part r)
  end.

(* the header a helper option sets: the generators splice the declared name into the emitted code
   (With<Svc>Header("<name>", v) / headers["<name>"] = options.<prop>), so the helper addressed by the
   derived option name sets the first declared header with that option name *)
Definition helper_sets (derive : str -> str) (declared : list str) (opt : str) : list str :=
  filter (fun h => str_eqb (derive h) opt) declared.
(* Go (since d19dbea): one helper per function name, emitted for the first header deriving it
   (service headers first, then the methods' headers in order) *)
Definition go_helper_sets (declared : list str) (opt : str) : list str :=
  match find (fun h => str_eqb (go_header_func h) opt) declared with Some h => [h] | None => [] end.

(* ---- defect classes ------------------------------------------------------------------------------------ *)
Inductive c08_defect :=
  | C08Route (d : c03_defect)        (* TS client and Go server disagree on the route (C03) *)
  | C08DotSegment                    (* a path value "." / ".." is removed by the URL parser *)
  | C08SlashValue                    (* TS client -> Go server: "%2F" is a trailing slash for ServeMux *)
  | C08RequiredQueryOnBodyVerb
  | C08SiblingRoute
  | C08UncleanPattern
  | C08PathParamString               (* TS server: a path parameter lands as a string in a number/bool property *)
  | C08Int64QueryAbsent              (* TS server: an absent 64-bit query parameter becomes "" instead of "0" *)
  | C08RequiredQueryZeroElided       (* GET/DELETE: a required query parameter holding the zero value is not sent; the Go server answers 400 *)
  | C08BasePathVariable              (* {variable} in the service base path: clients replace and servers bind the method path's variables only *)
  | C08DuplicateQueryName.           (* GET/DELETE: two query fields share a parameter name *)

Definition c08_defect_str (d : c08_defect) : str :=
  match d with
  | C08Route d => s "route:" ++ c03_defect_str d
  | C08DotSegment => s "dot-segment-path-value"
  | C08SlashValue => s "slash-path-value"
  | C08RequiredQueryOnBodyVerb => s "required-query-on-body-verb"
  | C08SiblingRoute => s "sibling-route-claims-path"
  | C08UncleanPattern => s "pattern-registration-panic"
  | C08PathParamString => s "ts-server-path-param-string"
  | C08Int64QueryAbsent => s "ts-server-int64-query-absent"
  | C08RequiredQueryZeroElided => s "required-query-zero-value-elided"
  | C08BasePathVariable => s "base-path-variable-unbound"
  | C08DuplicateQueryName => s "duplicate-query-name"
  end.

Definition is_str_or_64 (k : kind) : bool :=
  match k with KString | KInt64 | KSint64 | KSfixed64 | KUint64 | KFixed64 => true | _ => false end.
Definition is_64 (k : kind) : bool :=
  match k with KInt64 | KSint64 | KSfixed64 | KUint64 | KFixed64 => true | _ => false end.

Definition path_val_is (P : str -> bool) (fs : list field) (req : mval) (r : rpc_info) : bool :=
  existsb (fun v => match find_field fs v with
                    | Some f => P (sprint (scalar_of req f))
                    | None => false end) (path_vars r).

Definition ts_dispatched (sc : schema) (fl : file) (sv : service) (w : ts_wire) : option str :=
  match ts_find_route (ts_routes sc fl sv) (tw_verb w) (split_on slash (tw_path w)) with
  | Some r => Some (md_name (tr_md r)) | None => None end.

Definition defects_C08 (p : pair) (sc : schema) (fl : file) (sv : service) (md : method) (req : mval)
  : list c08_defect :=
  let fs := in_fields sc md in
  let r := info_of fl sv md fs in
  let to_ts := match p with TsGo => false | _ => true end in
  (if to_ts then [] else map C08Route (filter route_defect (defects_C03 r))) ++
  (if path_val_is dirty_seg fs req r then [C08DotSegment] else []) ++
  (if negb to_ts && path_val_is (fun x => str_eqb x [slash]) fs req r then [C08SlashValue] else []) ++
  (if negb to_ts && verb_has_body (eff_verb r) && existsb qrequired (query_fields fs)
   then [C08RequiredQueryOnBodyVerb] else []) ++
  (if negb to_ts then match server_routes sc fl sv with Ok None => [C08UncleanPattern] | _ => [] end else []) ++
  (match p with
   | TsGo =>
       match ts_client_build fl sv md fs req, server_routes sc fl sv with
       | Ok tw, Ok (Some rs) =>
           match dispatched_to rs (go_wire_of tw) with
           | Some n => if str_eqb n (md_name md) then [] else [C08SiblingRoute]
           | None => [] end
       | _, _ => [] end
   | GoTs =>
       match client_build fl sv md fs CtJSON req with
       | Ok w => match ts_dispatched sc fl sv (ts_wire_of w) with
                 | Some n => if str_eqb n (md_name md) then [] else [C08SiblingRoute]
                 | None => [] end
       | _ => [] end
   | TsTs =>
       match ts_client_build fl sv md fs req with
       | Ok tw => match ts_dispatched sc fl sv tw with
                  | Some n => if str_eqb n (md_name md) then [] else [C08SiblingRoute]
                  | None => [] end
       | _ => [] end
   end) ++
  (if to_ts && existsb (fun v => match find_field fs v with
                                 | Some f => negb (is_str_or_64 (f_kind f))
                                 | None => false end) (path_vars r)
   then [C08PathParamString] else []) ++
  (if to_ts && negb (verb_has_body (eff_verb r)) &&
      existsb (fun f => is_64 (f_kind f) && is_zero (scalar_of req f)) (query_fields fs)
   then [C08Int64QueryAbsent] else []) ++
  (if negb to_ts && negb (verb_has_body (eff_verb r)) &&
      existsb (fun f => qrequired f && is_zero (scalar_of req f)) (query_fields fs)
   then [C08RequiredQueryZeroElided] else []) ++
  (if in_chars lbrace (ri_base r) then [C08BasePathVariable] else []) ++
  (if negb (verb_has_body (eff_verb r)) &&
      (fix dup (l : list str) : bool :=
         match l with [] => false | x :: t => existsb (str_eqb x) t || dup t end)
        (map qname (query_fields fs))
   then [C08DuplicateQueryName] else []).

(* ---- prediction ---------------------------------------------------------------------------------------- *)
Definition json_of_tsval (v : tsval) : json :=
  match v with TsV x => json_of_fval x | TsRaw j => JObj [(s "ts", j)] end.
Definition json_of_tsobj (o : tsobj) : json := JObj (map (fun e => (fst e, json_of_tsval (snd e))) o).

Definition c08_outcome_json (o : c08_outcome) : json :=
  match o with
  | ODelivered n saw got => JObj [(s "class", JStr (s "delivered")); (s "dispatched", JStr n);
                                  (s "handler_saw", json_of_tsobj saw); (s "client_got", json_of_mval got)]
  | ORejected f => JObj [(s "class", JStr (s "rejected")); (s "field", JStr f)]
  | ONotRouted => JObj [(s "class", JStr (s "not-routed"))]
  | OPanic => JObj [(s "class", JStr (s "panic"))]
  | OLoadError => JObj [(s "class", JStr (s "load-error"))]
  | OServerError => JObj [(s "class", JStr (s "server-error"))]
  end.

Definition pair_of_nat (n : nat) : pair := match n with 0 => TsGo | 1 => GoTs | _ => TsTs end.

(* case = (schema, (service, method), pair, request headers seen by a TS server, request, response) *)
Definition c08_case := (schema * (str * str) * nat * list (str * str) * mval * mval)%type.

Definition unmodelled (why : str) : json := JObj [(s "unmodelled", JStr why)].

Definition predict_C08 (c : c08_case) : json :=
  let '(sc, (svn, mdn), pn, hs, req, resp) := c in
  match find_service sc svn with
  | None => unmodelled (s "no such service")
  | Some (fl, sv) =>
      match find_method sv mdn with
      | None => unmodelled (s "no such method")
      | Some md =>
          let p := pair_of_nat pn in
          match c08_call p sc fl sv md hs req resp with
          | Unmodelled why => unmodelled why
          | Ok (w, o) =>
              JObj [(s "tags", jstrs (map c08_defect_str (defects_C08 p sc fl sv md req)));
                    (s "request", match o with OPanic => JNull | _ => wire_json w end);
                    (s "outcome", c08_outcome_json o)]
          end
      end
  end.

(* module load: case = (schema, index of the file, client?) *)
Definition c08_load_case := (schema * nat * bool)%type.
Definition predict_C08_load (c : c08_load_case) : json :=
  let '(sc, i, client) := c in
  match nth_error sc i with
  | None => unmodelled (s "no such file")
  | Some fl =>
      let ok := if client then ts_client_loads sc fl else ts_server_loads sc fl in
      JObj [(s "tags", jstrs []); (s "loads", JBool ok)]
  end.

(* header helpers: case = (TS side?, header names declared for the call, header name) *)
Fixpoint insert_str (x : str) (l : list str) : list str :=
  match l with
  | [] => [x]
  | h :: t => if str_eqb x h then l else if str_leb x h then x :: l else h :: insert_str x t
  end.
Definition sort_dedup (l : list str) : list str := fold_right insert_str [] l.
Definition c08_hdr_case := (bool * list str * str)%type.
Definition predict_C08_hdr (c : c08_hdr_case) : json :=
  let '(ts, declared, h) := c in
  let derive := if ts then ts_header_prop else go_header_func in
  let sets := if ts then helper_sets derive declared (derive h) else go_helper_sets declared (derive h) in
  JObj [(s "tags", jstrs (match sets with [x] => if str_eqb x h then [] else [s "header-helper-name-collision"]
                           | _ => [s "header-helper-name-collision"] end));
        (s "option", JStr (derive h));
        (s "sets", jstrs (sort_dedup (map lower_str (if ts then helper_sets derive declared (derive h)
                                                      else go_helper_sets declared (derive h)))))].

(* JS built-ins: case = (function, argument) *)
Definition c08_js_case := (str * str)%type.
Definition opt_json (o : option str) : json := match o with Some x => JStr x | None => JNull end.
Definition predict_C08_js (c : c08_js_case) : json :=
  let '(fn, x) := c in
  let out :=
    if str_eqb fn (s "encodeURIComponent") then JStr (encode_uri_component x)
    else if str_eqb fn (s "decodeURIComponent") then opt_json (decode_uri_component x)
    else if str_eqb fn (s "form_escape") then JStr (form_escape x)
    else if str_eqb fn (s "form_unescape") then JStr (form_unescape x)
    else if str_eqb fn (s "pathname") then JStr (whatwg_path x)
    else if str_eqb fn (s "Number") then
      match js_number x with
      | NumInt z => JNum z | NumNaN => JObj [(s "$num", JStr (s "NaN"))] | NumOther => JStr (s "unmodelled") end
    else JNull in
  JObj [(s "tags", jstrs []); (s "out", out)].

(* the TS server facing an arbitrary request: case = (schema, service, verb 1..5, pathname, raw query,
   JSON body value if any, headers) *)
Definition c08_raw_case := (schema * str * nat * str * str * option mval * list (str * str))%type.
Definition predict_C08_raw (c : c08_raw_case) : json :=
  let '(sc, svn, vn, path, query, body, hs) := c in
  match find_service sc svn, verb_of_nat vn with
  | Some (fl, sv), Some v =>
      let w := {| tw_verb := v; tw_path := whatwg_path path; tw_query := query;
                  tw_body := match body with Some b => Some (BJson, b) | None => None end |} in
      match ts_server_handle sc fl sv w hs with
      | Unmodelled why => unmodelled why
      | Ok o =>
          JObj [(s "tags", jstrs []);
                (s "outcome", match o with
                              | TsDelivered n saw => JObj [(s "class", JStr (s "delivered")); (s "dispatched", JStr n);
                                                           (s "handler_saw", json_of_tsobj saw)]
                              | _ => c08_outcome_json (of_ts_outcome o []) end)]
      end
  | _, _ => unmodelled (s "no such service / verb")
  end.
