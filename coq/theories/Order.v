(* Order.v — C15: generation as a pure, order-independent function of the definitions.
   (1) Every place the generators range over a Go map collects into a slice and sorts it by key
       before printing (annotations/headers.go CombineHeaders:66-104, tscommon/types.go
       OrderedEnums:176-188).  Go randomises map iteration per process: modelled as "any permutation
       of the key-unique content, then insertion sort by key".
   (2) [generate r f]: what a plugin reads when it writes the output of file f: f itself, the
       messages f refers to (resolved in the request's descriptor pool), and — go-http only — the
       global unwrap table collected from the files with Generate=true (httpgen/unwrap.go:77-110),
       with the per-message fallback of collectUnwrapMapFields:262-269. *)
From Sebuf Require Export Text Json.
From Coq Require Export Permutation.

(* ================================================================================================ *)
(* (1) sort by key                                                                                  *)
(* ================================================================================================ *)

(* sort.Strings order: bytewise lexicographic *)
Fixpoint str_le (a b : str) : bool :=
  match a, b with
  | [], _ => true
  | _ :: _, [] => false
  | x :: a', y :: b' => if (code x <? code y)%N then true else if (code y <? code x)%N then false else str_le a' b'
  end.

Section Sort.
  Variable A : Type.
  Definition entry := (str * A)%type.

  (* insertion sort by key under an arbitrary comparison [le] of keys *)
  Fixpoint insert_with (le : str -> str -> bool) (x : entry) (l : list entry) : list entry :=
    match l with
    | [] => [x]
    | y :: r => if le (fst x) (fst y) then x :: l else y :: insert_with le x r
    end.
  Definition sort_with (le : str -> str -> bool) (l : list entry) : list entry := fold_right (insert_with le) [] l.

  (* what the generators do: sort.Strings, i.e. the exact name in byte order *)
  Definition insert_by_key : entry -> list entry -> list entry := insert_with str_le.
  Definition sort_by_key : list entry -> list entry := sort_with str_le.

  (* a Go map written in sequence: a later write to the same key replaces the earlier one *)
  Fixpoint remove_key (k : str) (l : list entry) : list entry :=
    match l with [] => [] | y :: r => if str_eqb k (fst y) then remove_key k r else y :: remove_key k r end.
  Definition map_put (m : list entry) (x : entry) : list entry := x :: remove_key (fst x) m.
  Definition map_of (writes : list entry) : list entry := fold_left map_put writes [].
End Sort.
Arguments insert_with {A}. Arguments sort_with {A}.
Arguments insert_by_key {A}. Arguments sort_by_key {A}. Arguments remove_key {A}. Arguments map_put {A}. Arguments map_of {A}.

(* a coarser key: compare names without regard to case (strings.ToLower(a) < strings.ToLower(b) as the
   "less" of a sort) — total and transitive, but NOT antisymmetric: "X-Request-Id" and "X-Request-ID"
   are different names that compare equal, so a sort under it keeps them in arrival order *)
Definition str_le_ci (a b : str) : bool := str_le (lower_str a) (lower_str b).

(* annotations.CombineHeaders: service headers, then method headers (overriding), names with ""
   skipped, iterate the map in the order [pi] the runtime happens to choose, sort by name *)
Definition named {A} (l : list (str * A)) : list (str * A) := filter (fun e => negb (str_eqb (fst e) [])) l.
Definition combine_headers {A} (pi : list (str * A) -> list (str * A)) (svc mth : list (str * A)) : list (str * A) :=
  match svc, mth with
  | [], _ => mth
  | _, [] => svc
  | _, _ => sort_by_key (pi (map_of (named svc ++ named mth)))
  end.

(* ================================================================================================ *)
(* (2) what a plugin reads                                                                          *)
(* ================================================================================================ *)

(* a message as far as cross-file reads are concerned: its unwrap info (annotations.GetUnwrapField,
   abstracted to a number), the value-message names of its map fields, and an opaque body *)
Record omsg := { om_name : str; om_unwrap : option nat; om_mapvals : list str; om_refs : list str; om_body : nat }.
Record ofile := { of_path : str; of_imports : list str; of_msgs : list omsg; of_body : nat }.
Record request := { rq_files : list ofile;       (* proto_file, dependencies first *)
                    rq_gen : list str }.         (* file_to_generate *)

Definition mem_s (x : str) (l : list str) : bool := existsb (str_eqb x) l.
Definition generated (r : request) (f : ofile) : bool := mem_s (of_path f) (rq_gen r).

Fixpoint find_msg (ms : list omsg) (n : str) : option omsg :=
  match ms with [] => None | m :: r => if str_eqb (om_name m) n then Some m else find_msg r n end.
Definition all_msgs (fs : list ofile) : list omsg := flat_map of_msgs fs.
(* descriptor resolution: names are unique in the pool *)
Definition resolve (r : request) (n : str) : option omsg := find_msg (all_msgs (rq_files r)) n.

(* httpgen.CollectGlobalUnwrapInfo: messages with an unwrap field of the files to generate *)
Definition global_unwrap (r : request) : list omsg :=
  filter (fun m => match om_unwrap m with Some _ => true | None => false end)
         (all_msgs (filter (generated r) (rq_files r))).

(* collectUnwrapMapFields: table first, else GetUnwrapField on the resolved value message *)
Definition unwrap_info (r : request) (n : str) : option nat :=
  match find_msg (global_unwrap r) n with
  | Some m => om_unwrap m
  | None => match resolve r n with Some m => om_unwrap m | None => None end
  end.
(* the same WITHOUT the fallback (what the code would do if lines 262-269 were missing) *)
Definition unwrap_info_table_only (r : request) (n : str) : option nat :=
  match find_msg (global_unwrap r) n with Some m => om_unwrap m | None => None end.

Definition unwrap_part (info : request -> str -> option nat) (r : request) (f : ofile) : list (str * str * nat) :=
  flat_map (fun m => flat_map (fun v => match info r v with Some i => [(om_name m, v, i)] | None => [] end) (om_mapvals m)) (of_msgs f).

Record output := { out_own : ofile; out_refs : list (option omsg); out_unwrap : list (str * str * nat) }.

Definition generate_with (info : request -> str -> option nat) (r : request) (f : ofile) : output :=
  {| out_own := f;
     out_refs := flat_map (fun m => map (resolve r) (om_refs m ++ om_mapvals m)) (of_msgs f);
     out_unwrap := unwrap_part info r f |}.
Definition generate := generate_with unwrap_info.

(* well-formed pool: message names are unique, every name f mentions is defined *)
Definition names (fs : list ofile) : list str := map om_name (all_msgs fs).
Definition wf_request (r : request) : Prop := NoDup (names (rq_files r)).
Definition closed_in (r : request) (f : ofile) : Prop :=
  forall m n, In m (of_msgs f) -> In n (om_refs m ++ om_mapvals m) -> In n (names (rq_files r)).

(* ---- executable comparison used by the correspondence check ------------------------------------ *)
Definition onat_eqb (a b : option nat) : bool :=
  match a, b with Some x, Some y => Nat.eqb x y | None, None => true | _, _ => false end.
Fixpoint list_eqb {X} (eq : X -> X -> bool) (a b : list X) : bool :=
  match a, b with [] , [] => true | x :: a', y :: b' => eq x y && list_eqb eq a' b' | _, _ => false end.
Definition omsg_eqb (a b : omsg) : bool :=
  str_eqb (om_name a) (om_name b) && onat_eqb (om_unwrap a) (om_unwrap b) &&
  list_eqb str_eqb (om_mapvals a) (om_mapvals b) && list_eqb str_eqb (om_refs a) (om_refs b) && Nat.eqb (om_body a) (om_body b).
Definition oomsg_eqb (a b : option omsg) : bool :=
  match a, b with Some x, Some y => omsg_eqb x y | None, None => true | _, _ => false end.
Definition output_eqb (a b : output) : bool :=
  str_eqb (of_path (out_own a)) (of_path (out_own b)) &&
  list_eqb oomsg_eqb (out_refs a) (out_refs b) &&
  list_eqb (fun x y => str_eqb (fst (fst x)) (fst (fst y)) && str_eqb (snd (fst x)) (snd (fst y)) && Nat.eqb (snd x) (snd y))
           (out_unwrap a) (out_unwrap b).

Fixpoint find_file (fs : list ofile) (p : str) : option ofile :=
  match fs with [] => None | f :: r => if str_eqb (of_path f) p then Some f else find_file r p end.

(* one metamorphic comparison: the outputs of file [p] under two requests *)
Definition same_output (r1 r2 : request) (p : str) : bool :=
  match find_file (rq_files r1) p, find_file (rq_files r2) p with
  | Some f1, Some f2 => output_eqb (generate r1 f1) (generate r2 f2)
  | _, _ => false
  end.

Definition predict_C15 (c : request * request * list str) : json :=
  let '(r1, r2, ps) := c in
  JObj [(s "tags", JArr []);
        (s "equal", JObj (map (fun p => (p, JBool (same_output r1 r2 p))) ps))].
