(* ProtoJson.v — the proto3 JSON mapping as google.golang.org/protobuf/encoding/protojson
   implements it (v1.36: encode.go / decode.go / well_known_types.go), at the AST level:
     marshal   : MarshalOptions{} (EmitUnpopulated=false, UseProtoNames=false, UseEnumNumbers=false)
     unmarshal : UnmarshalOptions{} (DiscardUnknown=false); the target message is reset first.
   Values list populated fields only (Value.v), so "defaults are omitted" is the identity on values;
   names are protoc's lowerCamel json_name (Text.json_name); 64-bit integers are decimal strings;
   enums are value names (numbers when undefined); bytes are padded std base64; Timestamp is RFC 3339;
   map keys are strings; oneof members are ordinary fields; unknown or duplicate keys are errors.
   Other well-known types (Duration, Struct, wrappers, Any, FieldMask) are outside the model. *)
From Sebuf Require Export Schema Value Ext.
From Sebuf Require Import Url.

Open Scope Z_scope.

(* ---- kinds ------------------------------------------------------------------------------------ *)
Definition is_int32_kind (k : kind) : bool :=
  match k with KInt32 | KSint32 | KSfixed32 | KUint32 | KFixed32 => true | _ => false end.
Definition is_int64_kind (k : kind) : bool :=
  match k with KInt64 | KSint64 | KSfixed64 | KUint64 | KFixed64 => true | _ => false end.
Definition is_unsigned_kind (k : kind) : bool :=
  match k with KUint32 | KFixed32 | KUint64 | KFixed64 => true | _ => false end.
Definition int_lo (k : kind) : Z :=
  if is_unsigned_kind k then 0 else if is_int32_kind k then - 2 ^ 31 else - 2 ^ 63.
Definition int_hi (k : kind) : Z :=
  if is_unsigned_kind k then (if is_int32_kind k then 2 ^ 32 - 1 else 2 ^ 64 - 1)
  else (if is_int32_kind k then 2 ^ 31 - 1 else 2 ^ 63 - 1).
Definition in_int_range (k : kind) (z : Z) : bool := (int_lo k <=? z) && (z <=? int_hi k).

Definition ts_name : str := s "google.protobuf.Timestamp".
Definition ts_fields : list field :=
  let mk n num k := {| f_name := s n; f_number := num; f_kind := k; f_card := Singular; f_oneof := None;
                       f_query := None; f_unwrap := false; f_int64 := None; f_enumenc := None;
                       f_nullable := None; f_empty := None; f_tsfmt := None; f_bytesenc := None;
                       f_oneof_value := None; f_flatten := None; f_flatten_prefix := None |} in
  [mk "seconds"%string 1 KInt64; mk "nanos"%string 2 KInt32].
Definition ts_message : message :=
  {| m_name := ts_name; m_path := [s "Timestamp"]; m_fields := ts_fields; m_oneofs := [] |}.

(* message lookup; Timestamp is known without being listed in the request *)
Definition lookup_message (sc : schema) (tn : str) : option message :=
  if str_eqb tn ts_name then Some ts_message else find_message (all_messages sc) tn.
Definition is_wkt_other (tn : str) : bool :=
  has_prefix (s "google.protobuf.") tn && negb (str_eqb tn ts_name).

(* ---- floats ---------------------------------------------------------------------------------- *)
Inductive fclass := FNaN | FPosInf | FNegInf | FFinite.
Definition fclassify (is64 : bool) (bits : Z) : fclass :=
  let '(ebits, mbits) := if is64 then (11, 52) else (8, 23) in
  let mant := bits mod 2 ^ mbits in
  let e := (bits / 2 ^ mbits) mod 2 ^ ebits in
  let sign := bits / 2 ^ (mbits + ebits) in
  if e =? 2 ^ ebits - 1 then (if mant =? 0 then (if sign =? 0 then FPosInf else FNegInf) else FNaN)
  else FFinite.
(* math.NaN() / float32(math.NaN()), +-Inf *)
Definition nan_bits (is64 : bool) : Z := if is64 then 9221120237041090561 else 2143289344.
Definition pinf_bits (is64 : bool) : Z := if is64 then 9218868437227405312 else 2139095040.
Definition ninf_bits (is64 : bool) : Z := if is64 then 18442240474082181120 else 4286578688.

Definition is_jflt (j : json) : bool :=
  match j with JObj [(k, JNum _)] => str_eqb k (s "$f") | _ => false end.
Definition is_jnumber (j : json) : bool := match j with JNum _ => true | _ => is_jflt j end.

Definition sval_is_zero (v : sval) : bool :=
  match v with
  | VInt z => z =? 0
  | VBool b => negb b
  | VStr x => match x with [] => true | _ => false end
  | VBytes x => match x with [] => true | _ => false end
  | VFloat b => b =? 0          (* -0.0 is a populated value *)
  | VEnum n => n =? 0
  end.

(* ---- value helpers ----------------------------------------------------------------------------- *)
Definition mget_int (m : mval) (k : str) : Z :=
  match mget m k with Some (FS (VInt z)) => z | _ => 0 end.

Definition ts_value (sec nanos : Z) : fval :=
  FM ((if sec =? 0 then [] else [(s "seconds", FS (VInt sec))]) ++
      (if nanos =? 0 then [] else [(s "nanos", FS (VInt nanos))])).

Definition implicit_scalar (f : field) : bool :=
  match f_card f, f_oneof f, f_kind f with
  | Singular, None, KMessage _ => false
  | Singular, None, _ => true
  | _, _, _ => false
  end.
Definition populated (f : field) (v : fval) : bool :=
  match v with
  | FS x => negb (implicit_scalar f && sval_is_zero x)
  | FL [] => false
  | FMap [] => false
  | _ => true
  end.

Fixpoint insert_by_num (n : Z) (e : str * fval) (l : list (Z * (str * fval))) : list (Z * (str * fval)) :=
  match l with
  | [] => [(n, e)]
  | (n', e') :: r => if n <=? n' then (n, e) :: l else (n', e') :: insert_by_num n e r
  end.
(* populated fields only, in field-number order *)
Definition assemble (fvs : list (field * fval)) : mval :=
  map snd (fold_right (fun fv acc => if populated (fst fv) (snd fv)
                                     then insert_by_num (f_number (fst fv)) (f_name (fst fv), snd fv) acc
                                     else acc) [] fvs).

Definition sval_ltb (a b : sval) : bool :=
  match a, b with
  | VStr x, VStr y => str_leb x y && negb (str_eqb x y)
  | VInt x, VInt y => x <? y
  | VBool x, VBool y => negb x && y
  | _, _ => false
  end.
Definition sval_eqb (a b : sval) : bool :=
  match a, b with
  | VStr x, VStr y => str_eqb x y
  | VInt x, VInt y => x =? y
  | VBool x, VBool y => Bool.eqb x y
  | VBytes x, VBytes y => str_eqb x y
  | VFloat x, VFloat y => x =? y
  | VEnum x, VEnum y => x =? y
  | _, _ => false
  end.
Fixpoint insert_entry (e : sval * fval) (l : list (sval * fval)) : list (sval * fval) :=
  match l with
  | [] => [e]
  | e' :: r => if sval_ltb (fst e) (fst e') then e :: l else e' :: insert_entry e r
  end.
Definition sort_entries (l : list (sval * fval)) : list (sval * fval) := fold_right insert_entry [] l.
Fixpoint has_dup_key (l : list sval) : bool :=
  match l with [] => false | k :: r => existsb (sval_eqb k) r || has_dup_key r end.

(* ---- enums --------------------------------------------------------------------------------------- *)
Fixpoint ev_by_number (vs : list enum_value) (n : Z) : option enum_value :=
  match vs with [] => None | v :: r => if ev_number v =? n then Some v else ev_by_number r n end.
Fixpoint ev_by_name (vs : list enum_value) (x : str) : option enum_value :=
  match vs with [] => None | v :: r => if str_eqb (ev_name v) x then Some v else ev_by_name r x end.

Section PJ.
Variable E : ExtLib.
Variable sc : schema.

Definition float_json (is64 : bool) (b : Z) : res json :=
  match fclassify is64 b with
  | FNaN => ROk (JStr (s "NaN"))
  | FPosInf => ROk (JStr (s "Infinity"))
  | FNegInf => ROk (JStr (s "-Infinity"))
  | FFinite => match x_fprint E is64 b with Some j => ROk j | None => RUnm (s "float value missing from the print table") end
  end.

Definition enum_json (tn : str) (n : Z) : res json :=
  match find_enum (all_enums sc) tn with
  | None => RUnm (s "unknown enum type")
  | Some e => match ev_by_number (e_values e) n with
              | Some v => ROk (JStr (ev_name v))
              | None => ROk (JNum n)
              end
  end.

(* encode.go marshalSingular for scalars *)
Definition pj_scalar (k : kind) (v : sval) : res json :=
  match k, v with
  | KBool, VBool b => ROk (JBool b)
  | KString, VStr x => ROk (JStr x)
  | KBytes, VBytes x => ROk (JStr (b64_enc false true x))
  | KDouble, VFloat b => float_json true b
  | KFloat, VFloat b => float_json false b
  | KEnum tn, VEnum n => enum_json tn n
  | _, VInt z => if is_int32_kind k then ROk (JNum z)
                 else if is_int64_kind k then ROk (JStr (show_Z z))
                 else RUnm (s "ill-typed value")
  | _, _ => RUnm (s "ill-typed value")
  end.

(* map keys are always strings *)
Definition key_text (v : sval) : res str :=
  match v with
  | VStr x => ROk x
  | VInt z => ROk (show_Z z)
  | VBool b => ROk (if b then s "true" else s "false")
  | _ => RUnm (s "ill-typed map key")
  end.

(* well_known_types.go marshalTimestamp *)
Definition pj_timestamp (m : mval) : res json :=
  let sec := mget_int m (s "seconds") in
  let nanos := mget_int m (s "nanos") in
  if ts_in_range sec nanos then ROk (JStr (x_ts_text E sec nanos))
  else RErr (s "timestamp out of range").

(* encode.go marshalMessage / marshalList / marshalMap; the shape of the value selects the branch *)
Fixpoint pj_fval (k : kind) (v : fval) {struct v} : res json :=
  match v with
  | FS x => pj_scalar k x
  | FL l =>
      (fix go (l : list fval) : res (list json) :=
         match l with
         | [] => ROk []
         | x :: r => pj_fval k x >>= (fun j => go r >>= (fun t => ROk (j :: t)))
         end) l >>= (fun js => ROk (JArr js))
  | FMap kv =>
      (fix go (kv : list (sval * fval)) : res (list (str * json)) :=
         match kv with
         | [] => ROk []
         | (key, x) :: r => key_text key >>= (fun kt => pj_fval k x >>= (fun j => go r >>= (fun t => ROk ((kt, j) :: t))))
         end) kv >>= (fun es => ROk (JObj es))
  | FM m =>
      match k with
      | KMessage tn =>
          if str_eqb tn ts_name then pj_timestamp m
          else if is_wkt_other tn then RUnm (s "well-known type other than Timestamp")
          else
            match find_message (all_messages sc) tn with
            | None => RUnm (s "unknown message type")
            | Some md =>
                (fix go (m : list (str * fval)) : res (list (str * json)) :=
                   match m with
                   | [] => ROk []
                   | (name, x) :: r =>
                       match find_field (m_fields md) name with
                       | None => RUnm (s "value names an undeclared field")
                       | Some f => pj_fval (f_kind f) x >>= (fun j => go r >>= (fun t => ROk ((json_name name, j) :: t)))
                       end
                   end) m >>= (fun es => ROk (JObj es))
            end
      | _ => RUnm (s "ill-typed value")
      end
  end.

Definition pj_marshal (tn : str) (m : mval) : res json := pj_fval (KMessage tn) (FM m).

(* ---- unmarshal ----------------------------------------------------------------------------------- *)
Definition int_of_json (k : kind) (j : json) : res sval :=
  let chk z := if in_int_range k z then ROk (VInt z) else RErr (s "integer out of range") in
  match j with
  | JNum z => chk z
  | JStr x => match Z_of_dec x with
              | Some z => chk z
              | None => if looks_numeric_noncanonical x then RUnm (s "non-canonical numeric string") else RErr (s "invalid integer")
              end
  | _ => if is_jflt j then RUnm (s "non-integral number for an integer field") else RErr (s "invalid integer")
  end.

Definition float_of_json (is64 : bool) (j : json) : res sval :=
  match j with
  | JStr x =>
      if str_eqb x (s "NaN") then ROk (VFloat (nan_bits is64))
      else if str_eqb x (s "Infinity") then ROk (VFloat (pinf_bits is64))
      else if str_eqb x (s "-Infinity") then ROk (VFloat (ninf_bits is64))
      else RUnm (s "float given as a string")
  | _ =>
      if is_jnumber j then
        match x_fscan E j with
        | Some (b64, b32) =>
            let b := if is64 then b64 else b32 in
            if b <? 0 then RErr (s "float out of range") else ROk (VFloat b)
        | None => RUnm (s "number token missing from the scan table")
        end
      else RErr (s "invalid float")
  end.

(* decode.go unmarshalBytes: URL alphabet when '-' or '_' occurs, unpadded when len mod 4 <> 0 *)
Definition pj_b64_dec (x : str) : res str :=
  if has_crlf x then RUnm (s "base64 text with CR/LF") else
  let url := existsb (fun c => Ascii.eqb c "-"%char || Ascii.eqb c "_"%char) x in
  let pad := (Nat.modulo (List.length x) 4 =? 0)%nat in
  of_opt (s "invalid base64") (b64_dec url pad x).

Definition enum_of_json (tn : str) (j : json) : res sval :=
  match find_enum (all_enums sc) tn with
  | None => RUnm (s "unknown enum type")
  | Some e =>
      match j with
      | JStr x => match ev_by_name (e_values e) x with
                  | Some v => ROk (VEnum (ev_number v))
                  | None => RErr (s "invalid enum value")
                  end
      | JNum z => if (- 2 ^ 31 <=? z) && (z <=? 2 ^ 31 - 1) then ROk (VEnum z) else RErr (s "enum number out of range")
      | _ => if is_jflt j then RUnm (s "non-integral enum number") else RErr (s "invalid enum value")
      end
  end.

Definition pj_unscalar (k : kind) (j : json) : res sval :=
  match k with
  | KBool => match j with JBool b => ROk (VBool b) | _ => RErr (s "invalid bool") end
  | KString => match j with JStr x => ROk (VStr x) | _ => RErr (s "invalid string") end
  | KBytes => match j with JStr x => pj_b64_dec x >>= (fun b => ROk (VBytes b)) | _ => RErr (s "invalid bytes") end
  | KDouble => float_of_json true j
  | KFloat => float_of_json false j
  | KEnum tn => enum_of_json tn j
  | KMessage _ => RUnm (s "ill-typed")
  | _ => int_of_json k j
  end.

Definition key_of_text (kk : kind) (x : str) : res sval :=
  match kk with
  | KString => ROk (VStr x)
  | KBool => if str_eqb x (s "true") then ROk (VBool true) else if str_eqb x (s "false") then ROk (VBool false)
             else RErr (s "invalid map key")
  | _ => if is_int32_kind kk || is_int64_kind kk then
           match Z_of_dec x with
           | Some z => if in_int_range kk z then ROk (VInt z) else RErr (s "map key out of range")
           | None => if looks_numeric_noncanonical x then RUnm (s "non-canonical map key") else RErr (s "invalid map key")
           end
         else RUnm (s "ill-typed map key")
  end.

(* the key names a field by json_name first, then by proto name *)
Fixpoint field_by_json (fs : list field) (x : str) : option field :=
  match fs with [] => None | f :: r => if str_eqb (json_name (f_name f)) x then Some f else field_by_json r x end.
Definition field_of_key (md : message) (x : str) : option field :=
  match field_by_json (m_fields md) x with Some f => Some f | None => find_field (m_fields md) x end.

(* duplicate field / oneof-already-set checks (decode.go:204-236): every key marks its field number,
   null or not; only non-null singular members mark their oneof *)
Fixpoint dup_nums (l : list Z) : bool :=
  match l with [] => false | n :: r => existsb (Z.eqb n) r || dup_nums r end.
Fixpoint dup_strs (l : list str) : bool :=
  match l with [] => false | n :: r => existsb (str_eqb n) r || dup_strs r end.
Definition dup_check (md : message) (kv : list (str * json)) : bool :=
  let fs := flat_map (fun e => match field_of_key md (fst e) with Some f => [(f, snd e)] | None => [] end) kv in
  dup_nums (map (fun p => f_number (fst p)) fs) ||
  dup_strs (flat_map (fun p => match snd p, f_oneof (fst p) with
                               | JNull, _ => []
                               | _, Some o => [o]
                               | _, None => []
                               end) fs).

Definition ts_of_json (j : json) : res fval :=
  match j with
  | JStr x => match x_ts_parse E x with
              | Some (sec, nanos) => if ts_in_range sec nanos then ROk (ts_value sec nanos) else RErr (s "timestamp out of range")
              | None => RErr (s "invalid timestamp")
              end
  | _ => RErr (s "invalid timestamp")
  end.

(* decode.go unmarshalMessage / unmarshalSingular / unmarshalList / unmarshalMap *)
Fixpoint pj_un (k : kind) (j : json) {struct j} : res fval :=
  match k with
  | KMessage tn =>
      if str_eqb tn ts_name then ts_of_json j
      else if is_wkt_other tn then RUnm (s "well-known type other than Timestamp")
      else
        match find_message (all_messages sc) tn with
        | None => RUnm (s "unknown message type")
        | Some md =>
            match j with
            | JObj kv =>
                if dup_check md kv then RErr (s "duplicate field or oneof already set") else
                (fix fields (kv : list (str * json)) : res (list (field * fval)) :=
                   match kv with
                   | [] => ROk []
                   | (key, jv) :: r =>
                       match field_of_key md key with
                       | None => RErr (s "unknown field")
                       | Some f =>
                           (match jv with
                            | JNull => ROk None
                            | _ =>
                                match f_card f with
                                | Repeated =>
                                    match jv with
                                    | JArr l =>
                                        (fix elems (l : list json) : res (list fval) :=
                                           match l with
                                           | [] => ROk []
                                           | x :: t => pj_un (f_kind f) x >>= (fun v => elems t >>= (fun vs => ROk (v :: vs)))
                                           end) l >>= (fun vs => ROk (Some (FL vs)))
                                    | _ => RErr (s "expected array")
                                    end
                                | MapOf kk =>
                                    match jv with
                                    | JObj mkv =>
                                        (fix ents (mkv : list (str * json)) : res (list (sval * fval)) :=
                                           match mkv with
                                           | [] => ROk []
                                           | (mk, x) :: t =>
                                               key_of_text kk mk >>= (fun kvv =>
                                               pj_un (f_kind f) x >>= (fun v => ents t >>= (fun vs => ROk ((kvv, v) :: vs))))
                                           end) mkv >>= (fun es =>
                                        if has_dup_key (map fst es) then RErr (s "duplicate map key")
                                        else ROk (Some (FMap (sort_entries es))))
                                    | _ => RErr (s "expected object")
                                    end
                                | _ => pj_un (f_kind f) jv >>= (fun v => ROk (Some v))
                                end
                            end) >>= (fun ov =>
                           fields r >>= (fun rest =>
                           ROk (match ov with Some v => (f, v) :: rest | None => rest end)))
                       end
                   end) kv >>= (fun fvs => ROk (FM (assemble fvs)))
            | _ => RErr (s "expected object")
            end
        end
  | _ => pj_unscalar k j >>= (fun v => ROk (FS v))
  end.

Definition pj_unmarshal (tn : str) (j : json) : res mval :=
  pj_un (KMessage tn) j >>= (fun v => match v with FM m => ROk m | _ => RUnm (s "not a message") end).

End PJ.
Close Scope Z_scope.
