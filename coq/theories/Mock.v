(* Mock.v — C20: the optional mock server (protoc-gen-go-http generate_mock=true).
   internal/httpgen/mock_generator.go: per response field the generator prints ONE assignment chosen
   by field.Desc.Kind() alone (cardinality is looked at only for message kinds):
     string          v.F = selectStringExample("<Msg>.<f>", <generator by field name>)   : string
     int32, int64    v.F = selectIntExample("<Msg>.<f>", 42)                            : int64
     bool            v.F = selectBoolExample("<Msg>.<f>", true)                         : bool
     float, double   v.F = selectFloatExample("<Msg>.<f>", 3.14)                        : float64
     message         map -> make + one sample entry; repeated -> nothing; else v.F = &T{} and recursion
     everything else a comment
   (mock_generator.go:167-269).  Example lists are stored under "<Outer>.<Inner>.<f>" for the
   messages of the service's file (50-86) and looked up under "<short message name>.<f>" (172-176).
   Since 1e0a1c9 the generator carries the set of message types currently being filled (the path
   from the response type down): a singular message field whose type is on the path gets a comment
   and no assignment; a message-valued map whose value type is on the path is made and left empty.
   The model gives (1) the build obligations of those assignments, on top of Emit.v's, and (2) for
   each RPC the SET of values each response leaf can take (the selectors pick at random). *)
From Sebuf Require Export Schema Json Num Emit.

(* examples: (message full name, field name, values); float parsing is an external function
   (strconv.ParseFloat): the harness supplies its graph on the example texts of the case, as
   canonical text or None when unparsable *)
Definition extab := list (str * str * list str).
Definition ftab := list (str * option str).

Fixpoint ex_lookup (t : extab) (m f : str) : list str :=
  match t with
  | [] => []
  | (m', f', v) :: r => if str_eqb m m' && str_eqb f f' then v else ex_lookup r m f
  end.
Fixpoint ft_lookup (t : ftab) (x : str) : option str :=
  match t with
  | [] => None
  | (k, v) :: r => if str_eqb k x then v else ft_lookup r x
  end.

Definition short_name (m : message) : str := last (m_path m) [].

(* what the emitted table holds under the key the assignment looks up: the examples of field [f] of
   the TOP-LEVEL message of the service's file whose name is the short name of [m] *)
Definition stored_examples (fl : file) (ex : extab) (m : message) (f : field) : list str :=
  match find (fun t => top_level t && str_eqb (short_name t) (short_name m)) (fl_messages fl) with
  | Some t => ex_lookup ex (m_name t) (f_name f)
  | None => []
  end.
Definition declared_examples (ex : extab) (m : message) (f : field) : list str := ex_lookup ex (m_name m) (f_name f).

(* ---- substring test for getDefaultGenerator (strings.Contains on the lower-cased field name) ---- *)
Fixpoint contains (pat x : str) : bool :=
  has_prefix pat x || match x with [] => false | _ :: r => contains pat r end.

Definition uuid_token := s "<uuid>".
Definition default_strings (fname : str) : list str :=
  let n := lower_str fname in
  if contains (s "id") n then [uuid_token]
  else if contains (s "email") n then [s "user@example.com"]
  else if contains (s "name") n then [s "Alice Johnson"; s "Bob Smith"; s "Charlie Davis"; s "Diana Wilson"]
  else if contains (s "phone") n then [s "+1-555-0123"]
  else if contains (s "address") n then [s "123 Main Street, Anytown, USA"]
  else if contains (s "url") n then [s "https://example.com"]
  else [s "example string"].

(* selectors: mock_generator.go:386-436 *)
Definition sel_string (e : list str) (fname : str) : list str :=
  match e with [] => default_strings fname | _ => e end.
Definition sel_int (e : list str) : list str :=
  match e with
  | [] => [s "42"]
  | _ => flat_map (fun x => match parse_int 64 x with Some z => [show_int z] | None => [s "42"] end) e
  end.
Definition sel_bool (e : list str) : list str :=
  match e with
  | [] => [s "true"]
  | _ => flat_map (fun x => match parse_bool x with Some b => [show_bool b] | None => [s "true"] end) e
  end.
Definition sel_float (ft : ftab) (e : list str) : list str :=
  match e with
  | [] => [s "3.14"]
  | _ => flat_map (fun x => match ft_lookup ft x with Some v => [v] | None => [s "3.14"] end) e
  end.

(* ---- one assignment ---------------------------------------------------------------------------- *)
Inductive mkind := MStr | MInt | MBool | MFloat.
Definition mock_kind (k : kind) : option mkind :=
  match k with
  | KString => Some MStr | KInt32 | KInt64 => Some MInt | KBool => Some MBool
  | KFloat | KDouble => Some MFloat | _ => None
  end.
Definition rhs_type (mk : mkind) : gotype :=
  match mk with MStr => GString | MInt => GInt64 | MBool => GBool | MFloat => GFloat64 end.

Fixpoint gotype_eqb (a b : gotype) : bool :=
  match a, b with
  | GBool, GBool | GInt32, GInt32 | GInt64, GInt64 | GUint32, GUint32 | GUint64, GUint64
  | GFloat32, GFloat32 | GFloat64, GFloat64 | GString, GString | GBytes, GBytes | GNoField, GNoField => true
  | GEnum x, GEnum y | GPtrMsg x, GPtrMsg y => str_eqb x y
  | GPtr x, GPtr y | GSlice x, GSlice y => gotype_eqb x y
  | GMap k v, GMap k' v' => gotype_eqb k k' && gotype_eqb v v'
  | _, _ => false
  end.

(* v.F = <expression of type rhs> *)
Definition assign_check (lhs rhs : gotype) : check :=
  match lhs with
  | GNoField => mk false cls_selector
  | _ => mk (gotype_eqb lhs rhs) cls_type
  end.

(* map with scalar values: make(map[K]<getGoTypeScalar(value)>) ; v.F[key] = <getDefaultValue(value)> *)
Definition scalar_map_make_ok (k : kind) : bool := match k with KEnum _ => false | _ => true end.
Definition scalar_map_default_ok (k : kind) : bool :=
  match k with
  | KInt32 | KInt64 | KBool | KFloat | KDouble | KString => true
  | _ => false   (* the default is the untyped constant "" *)
  end.
Definition map_default_text (k : kind) : list str :=
  match k with
  | KInt32 | KInt64 => [s "42"] | KBool => [s "true"] | KFloat | KDouble => [s "3.14"] | _ => [[]]
  end.
Definition sample_key (k : kind) : str :=
  match k with KString => s "sample_key" | KBool => s "true" | _ => s "1" end.

Definition parse_as (ft : ftab) (mk : mkind) (x : str) : option str :=
  match mk with
  | MStr => Some x
  | MInt => option_map show_int (parse_int 64 x)
  | MBool => option_map show_bool (parse_bool x)
  | MFloat => ft_lookup ft x
  end.

(* a response leaf: where, which values it can take, and the examples its field DECLARES *)
Record leaf := { lf_path : str; lf_values : list str; lf_kind : mkind; lf_decl : list str }.
Record walk := { w_checks : list check; w_leaves : list leaf; w_present : list str; w_tags : list str }.
Definition w_empty : walk := {| w_checks := []; w_leaves := []; w_present := []; w_tags := [] |}.
Definition w_app (a b : walk) : walk :=
  {| w_checks := w_checks a ++ w_checks b; w_leaves := w_leaves a ++ w_leaves b;
     w_present := w_present a ++ w_present b; w_tags := w_tags a ++ w_tags b |}.

Definition join_path (p f : str) : str := match p with [] => f | _ => p ++ [dot] ++ f end.

Definition values_of (fl : file) (ex : extab) (ft : ftab) (m : message) (f : field) (mk : mkind) : list str :=
  let e := stored_examples fl ex m f in
  match mk with
  | MStr => sel_string e (f_name f)
  | MInt => sel_int e
  | MBool => sel_bool e
  | MFloat => sel_float ft e
  end.

(* ---- the defect classifier of one visited field, on the schema shape ----------------------------- *)
Definition handled (k : kind) : bool := match mock_kind k with Some _ => true | None => false end.
Definition same_examples (a b : list str) : bool :=
  Nat.eqb (List.length a) (List.length b) && forallb (fun x => mem_str x b) a.

Definition shape_tags (f : field) : list str :=
  match f_card f with
  | MapOf _ =>
      match f_kind f with
      | KMessage _ => []
      | k => tag_if (negb (scalar_map_make_ok k && scalar_map_default_ok k)) "mock-map-value-kind"
      end
  | c =>
      match f_kind f with
      | KMessage n =>
          match c with
          | Repeated => []
          | _ => tag_if (in_real_oneof f) "mock-oneof-member"
          end
      | k =>
          if handled k then
            tag_if (in_real_oneof f) "mock-oneof-member" ++
            tag_if (match c with Optional => true | _ => false end) "mock-optional-scalar" ++
            tag_if (match c with Repeated => true | _ => false end) "mock-repeated-scalar" ++
            tag_if (match k with KInt32 | KFloat => true | _ => false end) "mock-narrow-number"
          else []
      end
  end.

Definition example_tags (fl : file) (ex : extab) (ft : ftab) (m : message) (f : field) : list str :=
  let decl := declared_examples ex m f in
  let stored := stored_examples fl ex m f in
  let used := handled (f_kind f) && negb (is_map f) in
  match decl with
  | [] => tag_if (used && match stored with [] => false | _ => true end) "mock-examples-of-homonym"
  | _ =>
      if negb used then [s "mock-examples-ignored-kind"]
      else if negb (same_examples stored decl) then [s "mock-examples-not-found"]
      else tag_if (match mock_kind (f_kind f) with
                   | Some mkd => existsb (fun x => match parse_as ft mkd x with Some _ => false | None => true end) decl
                   | None => false
                   end) "mock-unparsable-example"
  end.

(* google.protobuf.Timestamp as a response field: seconds int64 (fine), nanos int32 := int64 *)
Definition timestamp_walk (p : str) : walk :=
  {| w_checks := [assign_check GInt64 GInt64; assign_check GInt32 GInt64];
     w_leaves := []; w_present := []; w_tags := [s "mock-timestamp-nanos"] |}.

(* the compiler does not look into `resp.F.X = ...` once `resp.F` is undefined *)
Definition w_mute (w : walk) : walk :=
  {| w_checks := []; w_leaves := w_leaves w; w_present := w_present w; w_tags := w_tags w |}.

(* one field; [sub n p'] walks message type n at path p'; [onp n]: message type n is being filled *)
Definition field_walk (onp : str -> bool) (sub : str -> str -> option walk) (fl : file) (ex : extab) (ft : ftab)
           (m : message) (p : str) (f : field) : option walk :=
  let here := join_path p (f_name f) in
  let own := {| w_checks := []; w_leaves := []; w_present := []; w_tags := shape_tags f ++ example_tags fl ex ft m f |} in
  (* nothing is printed that mentions the field: no shape obligation, no shape tag *)
  let skipped := {| w_checks := []; w_leaves := []; w_present := []; w_tags := example_tags fl ex ft m f |} in
  match f_card f with
  | MapOf kk =>
      let keyed := here ++ s "[" ++ sample_key kk ++ s "]" in
      match f_kind f with
      | KMessage n =>
          if onp n then Some skipped   (* make(map[K]*V) and return: the map stays empty *)
          else
          match sub n keyed with
          | Some w => Some (w_app own (w_app {| w_checks := []; w_leaves := []; w_present := [keyed]; w_tags := [] |} w))
          | None => None
          end
      | k =>
          Some (w_app own {| w_checks := [mk (scalar_map_make_ok k) cls_type; mk (scalar_map_default_ok k) cls_type];
                             w_leaves := [ {| lf_path := keyed; lf_values := map_default_text k; lf_kind := MStr; lf_decl := [] |} ];
                             w_present := []; w_tags := [] |})
      end
  | c =>
      match f_kind f with
      | KMessage n =>
          match c with
          | Repeated => Some own
          | _ =>
              if onp n then Some skipped   (* "// F is left unset: its type is the type being filled" *)
              else
              match sub n here with
              | Some w => Some (w_app own (w_app {| w_checks := [assign_check (go_field_type f) (GPtrMsg n)];
                                                    w_leaves := []; w_present := [here]; w_tags := [] |}
                                                 (if in_real_oneof f then w_mute w else w)))
              | None => None
              end
          end
      | k =>
          match mock_kind k with
          | Some mkd =>
              Some (w_app own {| w_checks := [assign_check (go_field_type f) (rhs_type mkd)];
                                 w_leaves := [ {| lf_path := here; lf_values := values_of fl ex ft m f mkd; lf_kind := mkd;
                                                  lf_decl := declared_examples ex m f |} ];
                                 w_present := []; w_tags := [] |})
          | None => Some own
          end
      end
  end.

Fixpoint walk_fields (step : field -> option walk) (fs : list field) : option walk :=
  match fs with
  | [] => Some w_empty
  | f :: r => match step f, walk_fields step r with
              | Some a, Some b => Some (w_app a b)
              | _, _ => None
              end
  end.

(* generateMockFieldAssignments with its onPath set; [path] = full names of the message types being
   filled above this one.  Fuel bounds the depth; proofs/MockFacts.v mock_walk_terminates shows that
   [walk_fuel] is enough for every closed schema, recursive or not. *)
Fixpoint mock_walk (fuel : nat) (sc : schema) (fl : file) (ex : extab) (ft : ftab) (path : list str) (m : message) (p : str) : option walk :=
  match fuel with
  | O => None
  | S fu =>
      let path' := m_name m :: path in
      walk_fields
        (field_walk (fun n => mem_str n path')
                    (fun n p' =>
                       if str_eqb n (s "google.protobuf.Timestamp") then Some (timestamp_walk p')
                       else match find_message (all_messages sc) n with
                            | Some t => mock_walk fu sc fl ex ft path' t p'
                            | None => None
                            end) fl ex ft m p)
        (m_fields m)
  end.

Definition walk_fuel (sc : schema) : nat := S (List.length (all_messages sc)).

Definition output_msg (sc : schema) (md : method) : option message := find_message (all_messages sc) (md_out md).
Definition rpc_walk (sc : schema) (ex : extab) (ft : ftab) (fl : file) (md : method) : option walk :=
  match output_msg sc md with
  | Some m => mock_walk (walk_fuel sc) sc fl ex ft [] m []
  | None => None
  end.

Definition svc_files (sc : schema) : list file := filter has_services (gen_files sc).

Fixpoint opt_all {A} (l : list (option A)) : option (list A) :=
  match l with
  | [] => Some []
  | None :: _ => None
  | Some x :: r => match opt_all r with Some y => Some (x :: y) | None => None end
  end.
(* every RPC of the package with its walk; None = a response type the model does not follow *)
Definition rpc_walks (sc : schema) (ex : extab) (ft : ftab) : option (list (str * walk)) :=
  opt_all (flat_map (fun fl => flat_map (fun sv => map (fun md =>
              option_map (fun w => (sv_name sv ++ [dot] ++ md_name md, w)) (rpc_walk sc ex ft fl md)) (sv_methods sv))
            (fl_services fl)) (svc_files sc)).

Definition mock_checks (ws : list (str * walk)) : list check := flat_map (fun x => w_checks (snd x)) ws.
Definition mock_tags (ws : list (str * walk)) : list str := flat_map (fun x => w_tags (snd x)) ws.

Definition mock_builds (sc : schema) (ws : list (str * walk)) : bool :=
  go_builds sc Both && all_ok (mock_checks ws).

Definition defects_C20 (sc : schema) (ws : list (str * walk)) : list str :=
  dedup (go_tags Both sc ++ mock_tags ws).

(* ================================================================================================ *)
(* prediction                                                                                        *)
(* ================================================================================================ *)

Definition mcase := (schema * extab * ftab)%type.

Definition leaf_json (l : leaf) : (str * json) := (lf_path l, jstrs (sort_strs (dedup (lf_values l)))).
Definition walk_json (w : walk) : json :=
  JObj [(s "leaves", JObj (map leaf_json (w_leaves w))); (s "present", jstrs (sort_strs (w_present w)))].

Definition mock_classes (sc : schema) (ws : list (str * walk)) : list str :=
  let bad := filter (fun c => negb (ck_ok c)) (build_checks (pkg_checks Both sc) ++ mock_checks ws) in
  let cl := dedup (map ck_class bad) in
  sort_strs (if mem_str cls_redeclared cl
             then filter (fun c => negb (str_eqb c cls_type || str_eqb c cls_selector || str_eqb c cls_unused)) cl else cl).

(* the example table is printed raw into Go interpreted string literals (mock_generator.go:73-77): a text
   with a backslash is either refused (unparsable source) or denotes another string than the annotation
   says.  Go's escape grammar is not modelled: such cases are left to the oracle (z3:mock-example-go-escape). *)
Definition ex_has_backslash (ex : extab) : bool :=
  existsb (fun e => existsb (fun v => existsb (fun c => Ascii.eqb c (ch 92)) v) (snd e)) ex.

Definition predict_C20 (c : mcase) : json :=
  let '(sc, ex, ft) := c in
  if negb (one_package sc) then JObj [(s "unmodelled", JStr (s "generated files in several Go packages"))]
  else if negb (accepted sc) then JObj [(s "unmodelled", JStr (s "annotation placement the generation-time validators refuse"))]
  else if ex_has_backslash ex then JObj [(s "unmodelled", JStr (s "an example text with a backslash (Go escape sequences are not modelled)"))]
  else match rpc_walks sc ex ft with
       | None => JObj [(s "unmodelled", JStr (s "response type outside the model (a well-known type other than Timestamp)"))]
       | Some ws =>
           let b := mock_builds sc ws in
           JObj [(s "tags", jstrs (defects_C20 sc ws));
                 (s "build", JBool b);
                 (s "classes", jstrs (mock_classes sc ws));
                 (s "rpcs", if b then JObj (map (fun x => (fst x, walk_json (snd x))) ws) else JObj [])]
       end.
