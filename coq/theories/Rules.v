(* Rules.v — the supported buf.validate subset: what the rules mean (sat, the specification side:
   the CEL definitions that buf/validate/validate.proto attaches to each rule, as embedded in the
   descriptor of buf.build/gen/go/bufbuild/protovalidate/.../buf/validate/validate.pb.go — e.g.
   string.min_len  "uint(this.size()) < rules.min_len"  (size = code points),
   int32.gte_lte   "rules.lte >= rules.gte && (this > rules.lte || this < rules.gte)",
   int32.gte_lte_exclusive  "rules.lte < rules.gte && (rules.lte < this && this < rules.gte)",
   int32.in  "!(this in rules.in)", string.const "this != rules.const"; the protovalidate runtime itself
   is not available here) and what protoc-gen-openapiv3 publishes for them
   (constraint_entries / field_schema_y, a transcription of internal/openapiv3/validation.go and of the
   scalar part of internal/openapiv3/types.go).

   Numbers.  A rule bound or constant is an exact decimal [dec].  float and double values are
   identified with the shortest decimal that round-trips (what protojson writes and what the rule
   literal denotes): that map is strictly monotone, so comparisons are preserved.  The generator
   converts every bound to float64 and libopenapi prints it with strconv 'f' -1 formatting; the
   printed decimal is supplied by the harness as [nb_wide] (for a float rule: the float64 widening of
   the float32 bound, e.g. 1.1 -> 1.100000023841858; for a 64-bit integer rule: the nearest float64,
   e.g. 2^53+1 -> 9007199254740992) and is checked against the emitted document by the
   correspondence run; [round_f64_Z] below re-checks the integer entries inside the model. *)
From Sebuf Require Export Schema Yaml.

Record nbound := { nb_rule : dec; nb_wide : dec }.
(* A numeric constant (const / in) is carried as the text the generator prints for it (strconv.Itoa,
   FormatInt, fmt %g: the shortest decimal of the rule value); its value is the number that text
   denotes. *)
Definition num_lit (t : str) : dec := match resolve12 t with YSNum d => d | _ => dec_of_Z 0 end.
Definition literal_ok (t : str) : bool := match resolve12 t with YSNum _ => true | _ => false end.

Record rules := {
  r_required : bool;
  (* string *)
  r_min_len : option N; r_max_len : option N; r_len : option N;
  r_pattern : option str;
  r_str_in : list str; r_str_not_in : list str; r_str_const : option str;
  r_well_known : option str;
  (* numeric, for the field's own kind *)
  r_gt : option nbound; r_gte : option nbound; r_lt : option nbound; r_lte : option nbound;
  r_num_const : option str; r_num_in : list str;
  (* repeated *)
  r_min_items : option N; r_max_items : option N; r_unique : bool;
  (* map *)
  r_min_pairs : option N; r_max_pairs : option N
}.

Definition no_rules : rules :=
  {| r_required := false; r_min_len := None; r_max_len := None; r_len := None; r_pattern := None;
     r_str_in := []; r_str_not_in := []; r_str_const := None; r_well_known := None;
     r_gt := None; r_gte := None; r_lt := None; r_lte := None; r_num_const := None; r_num_in := [];
     r_min_items := None; r_max_items := None; r_unique := false; r_min_pairs := None; r_max_pairs := None |}.

(* a field as far as the published constraints depend on it *)
Record fspec := { fs_kind : kind; fs_card : card; fs_i64num : bool (* int64_encoding = NUMBER *) }.

(* ---- kinds ------------------------------------------------------------------------------------- *)
Definition is_int32_kind (k : kind) : bool :=
  match k with KInt32 | KSint32 | KSfixed32 | KUint32 | KFixed32 => true | _ => false end.
Definition is_int64_kind (k : kind) : bool :=
  match k with KInt64 | KSint64 | KSfixed64 | KUint64 | KFixed64 => true | _ => false end.
Definition is_unsigned_kind (k : kind) : bool :=
  match k with KUint32 | KFixed32 | KUint64 | KFixed64 => true | _ => false end.
Definition is_float_kind (k : kind) : bool := match k with KFloat | KDouble => true | _ => false end.
Definition is_numeric_kind (k : kind) : bool := is_int32_kind k || is_int64_kind k || is_float_kind k.
Definition is_string_kind (k : kind) : bool := match k with KString => true | _ => false end.

(* ================================================================================================ *)
(*  Specification side: when does a value satisfy the rules                                         *)
(* ================================================================================================ *)
Inductive rval :=
  | RStr (x : str)          (* string: UTF-8 bytes *)
  | RNum (d : dec)          (* every numeric kind *)
  | ROther (j : jv).        (* bool, bytes, enum, message: no scalar rules; carries its JSON form *)
Inductive fvalue :=
  | FOne (v : rval)
  | FList (l : list rval)
  | FMapV (kv : list (str * rval)).     (* keys in their JSON (string) form *)

Definition opt_all {A} (o : option A) (p : A -> bool) : bool :=
  match o with Some a => p a | None => true end.

(* string rules: lengths in Unicode code points *)
Definition sat_string (P : vparams) (r : rules) (x : str) : bool :=
  opt_all (r_min_len r) (fun n => (n <=? utf8_len x)%N) &&
  opt_all (r_max_len r) (fun n => (utf8_len x <=? n)%N) &&
  opt_all (r_len r) (fun n => (utf8_len x =? n)%N) &&
  opt_all (r_pattern r) (fun re => vp_regex P re x) &&
  opt_all (r_well_known r) (fun w => vp_format P w x) &&
  (match r_str_in r with [] => true | l => mem_str x l end) &&
  negb (mem_str x (r_str_not_in r)) &&
  opt_all (r_str_const r) (fun c => str_eqb c x).

(* numeric rules.  A lower and an upper bound form a range; when the upper bound is below the
   lower one the range is "exclusive": the value must lie OUTSIDE (validate.proto: *.gt_lt_exclusive,
   *.gte_lte_exclusive). *)
Definition lower_ok (r : rules) (d : dec) : bool :=
  opt_all (r_gt r) (fun b => dec_ltb (nb_rule b) d) && opt_all (r_gte r) (fun b => dec_leb (nb_rule b) d).
Definition upper_ok (r : rules) (d : dec) : bool :=
  opt_all (r_lt r) (fun b => dec_ltb d (nb_rule b)) && opt_all (r_lte r) (fun b => dec_leb d (nb_rule b)).
Definition lower_bound (r : rules) : option dec :=
  match r_gt r, r_gte r with Some b, _ => Some (nb_rule b) | None, Some b => Some (nb_rule b) | None, None => None end.
Definition upper_bound (r : rules) : option dec :=
  match r_lt r, r_lte r with Some b, _ => Some (nb_rule b) | None, Some b => Some (nb_rule b) | None, None => None end.
Definition reversed_range (r : rules) : bool :=
  match lower_bound r, upper_bound r with Some lo, Some hi => dec_ltb hi lo | _, _ => false end.
Definition sat_num (r : rules) (d : dec) : bool :=
  (if reversed_range r then lower_ok r d || upper_ok r d else lower_ok r d && upper_ok r d) &&
  opt_all (r_num_const r) (fun c => dec_eqb (num_lit c) d) &&
  (match r_num_in r with [] => true | l => existsb (fun c => dec_eqb (num_lit c) d) l end).

Definition sat_scalar (P : vparams) (k : kind) (r : rules) (v : rval) : bool :=
  match v with
  | RStr x => if is_string_kind k then sat_string P r x else true
  | RNum d => if is_numeric_kind k then sat_num r d else true
  | ROther _ => true
  end.

Definition rval_eqb (a b : rval) : bool :=
  match a, b with
  | RStr x, RStr y => str_eqb x y
  | RNum x, RNum y => dec_eqb x y
  | ROther x, ROther y => jv_eqb x y
  | _, _ => false
  end.
Fixpoint rvals_distinct (l : list rval) : bool :=
  match l with
  | [] => true
  | a :: r => negb (existsb (rval_eqb a) r) && rvals_distinct r
  end.

Definition sat (P : vparams) (fs : fspec) (r : rules) (v : fvalue) : bool :=
  match v with
  | FOne x => sat_scalar P (fs_kind fs) r x
  | FList l =>
      opt_all (r_min_items r) (fun n => (n <=? len_N l)%N) &&
      opt_all (r_max_items r) (fun n => (len_N l <=? n)%N) &&
      (negb (r_unique r) || rvals_distinct l) &&
      forallb (sat_scalar P (fs_kind fs) r) l            (* repeated.items *)
  | FMapV kv =>
      opt_all (r_min_pairs r) (fun n => (n <=? len_N kv)%N) &&
      opt_all (r_max_pairs r) (fun n => (len_N kv <=? n)%N) &&
      forallb (fun e => sat_scalar P (fs_kind fs) r (snd e)) kv   (* map.values *)
  end.

(* ---- typing and the wire JSON form (proto3 JSON: 64-bit integers are decimal strings unless the
   field says int64_encoding = NUMBER) ---------------------------------------------------------- *)
Definition int_range (k : kind) : option (Z * Z) :=
  match k with
  | KInt32 | KSint32 | KSfixed32 => Some (- 2 ^ 31, 2 ^ 31 - 1)%Z
  | KUint32 | KFixed32 => Some (0, 2 ^ 32 - 1)%Z
  | KInt64 | KSint64 | KSfixed64 => Some (- 2 ^ 63, 2 ^ 63 - 1)%Z
  | KUint64 | KFixed64 => Some (0, 2 ^ 64 - 1)%Z
  | _ => None
  end.

Definition typed_scalar (k : kind) (v : rval) : bool :=
  match k, v with
  | KString, RStr _ => true
  | KBool, ROther (JVBool _) => true
  | KBytes, ROther (JVStr _) => true
  | (KFloat | KDouble), RNum _ => true
  | _, RNum d =>
      match int_range k with
      | Some (lo, hi) => (de d =? 0)%Z && (lo <=? dm d)%Z && (dm d <=? hi)%Z
      | None => false
      end
  | _, _ => false
  end.

Fixpoint keys_distinct (l : list str) : bool :=
  match l with [] => true | a :: r => negb (mem_str a r) && keys_distinct r end.

Definition typed (fs : fspec) (v : fvalue) : bool :=
  match fs_card fs, v with
  | (Singular | Optional), FOne x => typed_scalar (fs_kind fs) x
  | Repeated, FList l => forallb (typed_scalar (fs_kind fs)) l
  | MapOf _, FMapV kv => forallb (fun e => typed_scalar (fs_kind fs) (snd e)) kv && keys_distinct (map fst kv)
  | _, _ => false
  end.

Definition string_typed_int64 (fs : fspec) : bool := is_int64_kind (fs_kind fs) && negb (fs_i64num fs).

Definition scalar_json (fs : fspec) (v : rval) : jv :=
  match v with
  | RStr x => JVStr x
  | RNum d => if string_typed_int64 fs then JVStr (show_Z (dm d)) else JVNum d
  | ROther j => j
  end.
Definition to_json (fs : fspec) (v : fvalue) : jv :=
  match v with
  | FOne x => scalar_json fs x
  | FList l => JVArr (map (scalar_json fs) l)
  | FMapV kv => JVObj (map (fun e => (fst e, scalar_json fs (snd e))) kv)
  end.

(* ================================================================================================ *)
(*  Implementation side: what the generator writes into the document                                 *)
(* ================================================================================================ *)
Definition ystr (x : string) : ynode := YStr (s x).
Definition ynat (n : N) : ynode := YNum (dec_of_N n).
Definition oent {A} (o : option A) (k : string) (f : A -> ynode) : list (str * ynode) :=
  match o with Some a => [(s k, f a)] | None => [] end.
(* libopenapi renders the *int64 count keywords (minLength, maxLength, minItems, maxItems, minProperties,
   maxProperties) only when the value is positive (datamodel/high/base/schema.go: "> 0" guards in the
   renderer): a zero is dropped *)
Definition opos (o : option N) : option N :=
  match o with Some 0%N => None | x => x end.

(* types.go:104-192 convertScalarField, scalar kinds without annotations other than int64_encoding
   (bytes: default encoding).  Enum, message and timestamp fields are built in OpenApi.v. *)
Definition base_entries (k : kind) (i64num : bool) : list (str * ynode) :=
  match k with
  | KBool => [(s "type", ystr "boolean")]
  | KInt32 | KSint32 | KSfixed32 => [(s "type", ystr "integer"); (s "format", ystr "int32")]
  | KInt64 | KSint64 | KSfixed64 =>
      if i64num then [(s "type", ystr "integer"); (s "format", ystr "int64")]
      else [(s "type", ystr "string"); (s "format", ystr "int64")]
  | KUint32 | KFixed32 => [(s "type", ystr "integer"); (s "format", ystr "int32"); (s "minimum", YNum (dec_of_Z 0))]
  | KUint64 | KFixed64 =>
      if i64num then [(s "type", ystr "integer"); (s "format", ystr "uint64"); (s "minimum", YNum (dec_of_Z 0))]
      else [(s "type", ystr "string"); (s "format", ystr "uint64")]
  | KFloat => [(s "type", ystr "number"); (s "format", ystr "float")]
  | KDouble => [(s "type", ystr "number"); (s "format", ystr "double")]
  | KString => [(s "type", ystr "string")]
  | KBytes => [(s "type", ystr "string"); (s "format", ystr "byte")]
  | KEnum _ | KMessage _ => []
  end.

(* validation.go:100-117: the first well-known flag that is set decides the format *)
Definition format_of_well_known (w : str) : option str :=
  if str_eqb w (s "email") then Some (s "email") else
  if str_eqb w (s "uuid") then Some (s "uuid") else
  if str_eqb w (s "uri") then Some (s "uri") else
  if str_eqb w (s "uri_ref") then Some (s "uri-reference") else
  if str_eqb w (s "address") then Some (s "ip") else
  if str_eqb w (s "hostname") then Some (s "hostname") else
  if str_eqb w (s "ip") then Some (s "ip") else
  if str_eqb w (s "ipv4") then Some (s "ipv4") else
  if str_eqb w (s "ipv6") then Some (s "ipv6") else None.

(* validation.go:76-140 applyStringConstraints: len and not_in are not read; in/const values are
   written as scalar nodes tagged !!str (YStr): the emitter quotes a value that would otherwise be
   resolved as a number, a boolean or null ("123", "true", "null", ""), so a YAML 1.2 reader gets the
   string itself.  (Before the repair the nodes carried no tag, i.e. YPlain, which lost such values - the former
   defect class string-value-untagged-scalar - and made libopenapi dereference nil on const "".) *)
Definition string_entries (r : rules) : list (str * ynode) :=
  oent (opos (r_min_len r)) "minLength" ynat ++
  oent (opos (r_max_len r)) "maxLength" ynat ++
  oent (r_pattern r) "pattern" YStr ++
  oent (match r_well_known r with Some w => format_of_well_known w | None => None end) "format" YStr ++
  (match r_str_in r with [] => [] | l => [(s "enum", YSeq (map YStr l))] end) ++
  oent (r_str_const r) "const" YStr.

(* validation.go:142-342 applyInt32/Int64/Float/DoubleConstraints: gte -> minimum,
   lte -> maximum (both through float64); gt / lt -> base.DynamicValue[bool,float64]{B: v} whose
   selector N stays 0, so libopenapi renders the A side: the boolean false; const and in as untagged
   scalar nodes holding the decimal text *)
Definition numeric_entries (r : rules) : list (str * ynode) :=
  oent (r_gte r) "minimum" (fun b => YNum (nb_wide b)) ++
  oent (r_gt r) "exclusiveMinimum" (fun _ => YBool false) ++
  oent (r_lte r) "maximum" (fun b => YNum (nb_wide b)) ++
  oent (r_lt r) "exclusiveMaximum" (fun _ => YBool false) ++
  oent (r_num_const r) "const" YPlain ++
  (match r_num_in r with [] => [] | l => [(s "enum", YSeq (map YPlain l))] end).

(* validation.go:36-58: which rule message is consulted for which kind.  Every 32-bit integer kind
   reads FieldRules.int32 and every 64-bit kind FieldRules.int64; rules written for uint32, sint32,
   fixed32, sfixed32, uint64, sint64, fixed64, sfixed64 live in their own rule messages and are
   therefore never seen. *)
Definition reads_rules (k : kind) : bool :=
  match k with KString | KInt32 | KInt64 | KFloat | KDouble => true | _ => false end.

Definition scalar_entries (k : kind) (r : rules) : list (str * ynode) :=
  match k with
  | KString => string_entries r
  | KInt32 | KInt64 | KFloat | KDouble => numeric_entries r
  | _ => []
  end.

(* validation.go:342-366 / 368-388 *)
Definition repeated_entries (r : rules) : list (str * ynode) :=
  oent (opos (r_min_items r)) "minItems" ynat ++
  oent (opos (r_max_items r)) "maxItems" ynat ++
  (if r_unique r then [(s "uniqueItems", YBool true)] else []).
Definition map_entries (r : rules) : list (str * ynode) :=
  oent (opos (r_min_pairs r)) "minProperties" ynat ++
  oent (opos (r_max_pairs r)) "maxProperties" ynat.

(* validation.go:17-74 extractValidationConstraints on a field whose descriptor says list / map.
   For a repeated or map field the scalar rule messages are absent from FieldRules (the element
   rules live under repeated.items / map.values, which are not read). *)
Definition constraint_entries (k : kind) (is_list is_map : bool) (r : rules) : list (str * ynode) :=
  (if is_list || is_map then [] else scalar_entries k r) ++
  (if is_list then repeated_entries r else []) ++
  (if is_map then map_entries r else []).

(* types.go:30-68 convertField for the scalar kinds of this file: a repeated field gets the
   constraints on the item schema (convertScalarField sees the same field) and on the array *)
Definition field_schema_y (fs : fspec) (r : rules) : ynode :=
  let k := fs_kind fs in
  match fs_card fs with
  | Singular | Optional => YMap (base_entries k (fs_i64num fs) ++ constraint_entries k false false r)
  | Repeated =>
      YMap ([(s "type", ystr "array");
             (s "items", YMap (base_entries k (fs_i64num fs) ++ constraint_entries k true false r))]
            ++ constraint_entries k true false r)
  | MapOf _ =>
      YMap ([(s "type", ystr "object");
             (s "additionalProperties", YMap (base_entries k (fs_i64num fs)))]
            ++ constraint_entries k false true r)
  end.

Definition schema_fuel : nat := 8.
(* the schema a reader of the document sees *)
Definition translate (R : reader) (fs : fspec) (r : rules) : jschema :=
  schema_of_jv schema_fuel (denote R (field_schema_y fs r)).

(* ---- float64 rounding of integers (the law the harness-supplied nb_wide must obey) ------------- *)
(* nearest float64 of an integer, ties to even: keep 53 significant bits *)
Definition round_f64_Z (z : Z) : Z :=
  (let a := Z.abs z in
   let n := Z.log2 a + 1 in                 (* bit length *)
   if n <=? 53 then z else
   let sh := n - 53 in
   let q := Z.shiftr a sh in
   let rem := a - Z.shiftl q sh in
   let half := Z.shiftl 1 (sh - 1) in
   let q' := if half <? rem then q + 1
             else if rem =? half then (if Z.odd q then q + 1 else q) else q in
   Z.sgn z * Z.shiftl q' sh)%Z.

Definition dec_int_value (d : dec) : option Z := if dec_is_int d then Some (dec_to_Z d) else None.
(* nb_wide is a faithful print of float64(nb_rule) for an integer bound *)
Definition wide_law_int (b : nbound) : bool :=
  match dec_int_value (nb_rule b), dec_int_value (nb_wide b) with
  | Some z, Some w => (round_f64_Z z =? round_f64_Z w)%Z && implb (Z.abs z <? 2 ^ 53)%Z (z =? w)%Z
  | _, _ => false
  end.

(* ================================================================================================ *)
(*  Known ways in which the published constraints differ from the rules                             *)
(* ================================================================================================ *)
Inductive c19_defect :=
  | RulesWrongMessage        (* numeric rules on uint32/sint32/fixed32/sfixed32/uint64/sint64/fixed64/sfixed64: never read *)
  | Int64StringTyped         (* numeric keywords on a 64-bit field published as type: string *)
  | BoundRoundedToFloat64    (* 64-bit bound not representable as float64 *)
  | Float32BoundWidened      (* float bound printed as the float64 widening of the float32 value *)
  | ExclusiveBoundFalse      (* gt / lt published as exclusiveMinimum/Maximum: false *)
  | ReversedRange            (* upper bound below lower bound means "outside" for the rules, conjunction in the schema *)
  | StringLenIgnored
  | StringNotInIgnored
  | ItemRulesIgnored         (* repeated.items / map.values rules are not published *)
  | ZeroMaxDropped.          (* max_len / max_items / max_pairs = 0 is not published *)

Definition c19_defect_str (d : c19_defect) : str :=
  match d with
  | RulesWrongMessage => s "rules-read-from-wrong-message"
  | Int64StringTyped => s "int64-string-typed-numeric-keywords"
  | BoundRoundedToFloat64 => s "bound-rounded-to-float64"
  | Float32BoundWidened => s "float32-bound-widened"
  | ExclusiveBoundFalse => s "exclusive-bound-emitted-as-false"
  | ReversedRange => s "reversed-range-published-as-conjunction"
  | StringLenIgnored => s "string-len-ignored"
  | StringNotInIgnored => s "string-not-in-ignored"
  | ItemRulesIgnored => s "element-rules-ignored"
  | ZeroMaxDropped => s "zero-maximum-count-dropped"
  end.

Definition isSome {A} (o : option A) : bool := match o with Some _ => true | None => false end.
Definition nonempty {A} (l : list A) : bool := match l with [] => false | _ => true end.

Definition has_bounds (r : rules) : bool := isSome (r_gt r) || isSome (r_gte r) || isSome (r_lt r) || isSome (r_lte r).
Definition has_numeric_rules (r : rules) : bool := has_bounds r || isSome (r_num_const r) || nonempty (r_num_in r).
Definition has_string_rules (r : rules) : bool :=
  isSome (r_min_len r) || isSome (r_max_len r) || isSome (r_len r) || isSome (r_pattern r) || isSome (r_well_known r)
  || nonempty (r_str_in r) || nonempty (r_str_not_in r) || isSome (r_str_const r).
Definition bounds_of (r : rules) : list nbound :=
  flat_map (fun o => match o with Some b => [b] | None => [] end) [r_gte r; r_lte r].
(* the printed float64 is, digit for digit, the bound itself *)
Definition wide_exact (b : nbound) : bool := (de (nb_wide b) =? de (nb_rule b))%Z && (dm (nb_wide b) =? dm (nb_rule b))%Z.

Definition reads_as_string (R : reader) (x : str) : bool :=
  match rd_plain R x with JVStr y => str_eqb x y | _ => false end.

(* rules of the element kind that apply to the scalar itself *)
Definition scalar_rules_present (k : kind) (r : rules) : bool :=
  (is_string_kind k && has_string_rules r) || (is_numeric_kind k && has_numeric_rules r).

Definition is_zero (o : option N) : bool := match o with Some 0%N => true | _ => false end.

Definition defects_C19 (fs : fspec) (r : rules) : list c19_defect :=
  let k := fs_kind fs in
  match fs_card fs with
  | Repeated => (if scalar_rules_present k r then [ItemRulesIgnored] else []) ++
                (if is_zero (r_max_items r) then [ZeroMaxDropped] else [])
  | MapOf _ => (if scalar_rules_present k r then [ItemRulesIgnored] else []) ++
               (if is_zero (r_max_pairs r) then [ZeroMaxDropped] else [])
  | Singular | Optional =>
      (if is_numeric_kind k && negb (reads_rules k) && has_numeric_rules r then [RulesWrongMessage] else []) ++
      (if reads_rules k && is_numeric_kind k then
         (if string_typed_int64 fs && has_numeric_rules r then [Int64StringTyped] else []) ++
         (if isSome (r_gt r) || isSome (r_lt r) then [ExclusiveBoundFalse] else []) ++
         (if reversed_range r then [ReversedRange] else []) ++
         (if negb (forallb wide_exact (bounds_of r))
          then (match k with KFloat => [Float32BoundWidened] | _ => [BoundRoundedToFloat64] end) else [])
       else []) ++
      (if is_string_kind k then
         (if is_zero (r_max_len r) then [ZeroMaxDropped] else []) ++
         (if isSome (r_len r) then [StringLenIgnored] else []) ++
         (if nonempty (r_str_not_in r) then [StringNotInIgnored] else [])
       else [])
  end.

(* harness-supplied tables the model relies on: every numeric literal is a plain decimal, and
   integer bounds obey the float64 law *)
Definition literals_ok (r : rules) : bool :=
  forallb literal_ok ((match r_num_const r with Some c => [c] | None => [] end) ++ r_num_in r).
Definition tables_ok (fs : fspec) (r : rules) : bool :=
  literals_ok r &&
  (if is_float_kind (fs_kind fs) then true
   else forallb wide_law_int (flat_map (fun o => match o with Some b => [b] | None => [] end) [r_gt r; r_gte r; r_lt r; r_lte r])).

(* rule kinds and cardinalities this file speaks about *)
Definition rule_kind (k : kind) : bool :=
  match k with KEnum _ | KMessage _ => false | _ => true end.
