(* Ext.v — the external library functions the codec models depend on but do not define:
   shortest-decimal float formatting / parsing (strconv) and the time package's RFC 3339 and date
   formatting / parsing.  They are the fields of a record [ExtLib]; every theorem that needs them
   quantifies over the record and assumes the round-trip laws [ExtLaws] (visible hypotheses, nothing
   is postulated).  The executable model uses the concrete instance [E0 ptab stab]:
   - floats: two finite tables filled by the harness from what Go's strconv produced for the
     floats / number tokens of the case (print table: (is64, bits) -> canonical JSON number;
     scan table: canonical JSON number -> (float64 bits, float32 bits));
   - time: the executable calendar functions of CodecText.v (compared with Go on every case).
   Canonical JSON numbers: an integral value is [JNum z]; any other value is
   [JObj [("$f", JNum bits64)]] with the bit pattern of the float64 nearest to the decimal text. *)
From Sebuf Require Export CodecText.

Definition jflt (bits : Z) : json := JObj [(s "$f", JNum bits)].

Record ExtLib := {
  x_fprint : bool -> Z -> option json;      (* is64, bits (finite) -> canonical JSON number *)
  x_fscan : json -> option (Z * Z);        (* canonical JSON number -> (float64 bits, float32 bits) *)
  x_ts_text : Z -> Z -> str;               (* protojson's Timestamp text (seconds, nanos) *)
  x_nano_text : Z -> Z -> str;             (* time.Unix(s, n).UTC().Format(time.RFC3339Nano) *)
  x_ts_parse : str -> option (Z * Z);      (* time.Parse(time.RFC3339Nano, .) *)
  x_date_text : Z -> str;                  (* Format("2006-01-02") of the UTC day of a second count *)
  x_date_parse : str -> option Z           (* time.Parse("2006-01-02", .) as seconds *)
}.

Definition day_floor (sec : Z) : Z := (sec - sec mod 86400)%Z.

Record ExtLaws (E : ExtLib) : Prop := {
  law_f64 : forall b j, x_fprint E true b = Some j -> exists b32, x_fscan E j = Some (b, b32);
  law_f32 : forall b j, x_fprint E false b = Some j -> exists b64, x_fscan E j = Some (b64, b);
  law_fprint_num : forall w b j, x_fprint E w b = Some j -> (exists z, j = JNum z) \/ (exists f, j = jflt f);
  law_ts : forall sec n, ts_in_range sec n = true -> x_ts_parse E (x_ts_text E sec n) = Some (sec, n);
  law_nano : forall sec n, ts_in_range sec n = true -> x_ts_parse E (x_nano_text E sec n) = Some (sec, n);
  law_date : forall sec, ts_in_range sec 0 = true -> x_date_parse E (x_date_text E sec) = Some (day_floor sec)
}.

(* ---- the concrete instance ------------------------------------------------------------------ *)
Definition ptab := list (bool * Z * json).
Definition stab := list (json * (Z * Z)).

Fixpoint ptab_find (t : ptab) (w : bool) (b : Z) : option json :=
  match t with
  | [] => None
  | (w', b', j) :: r => if Bool.eqb w w' && Z.eqb b b' then Some j else ptab_find r w b
  end.
Fixpoint stab_find (t : stab) (j : json) : option (Z * Z) :=
  match t with
  | [] => None
  | (j', v) :: r => if json_eqb j j' then Some v else stab_find r j
  end.

Definition E0 (p : ptab) (t : stab) : ExtLib := {|
  x_fprint := ptab_find p;
  x_fscan := stab_find t;
  x_ts_text := ts_text_with frac_pj;
  x_nano_text := ts_text_with frac_nano;
  x_ts_parse := parse_rfc3339;
  x_date_text := fun sec => date_text_of_days (sec / 86400);
  x_date_parse := parse_date
|}.

(* A simple instance satisfying the laws (non-vacuity of ExtLaws): floats print as their own bit
   pattern, times as decimal seconds.  It is NOT what Go does; it shows the laws are consistent. *)
Definition toy_ts (sec n : Z) : str := show_Z sec ++ ":"%char :: show_Z n.
Definition toy_parse (x : str) : option (Z * Z) :=
  match split_on ":"%char x with
  | [a; b] => match Z_of_dec a, Z_of_dec b with Some p, Some q => Some (p, q) | _, _ => None end
  | _ => None
  end.
Definition Etoy : ExtLib := {|
  x_fprint := fun _ b => Some (jflt b);
  x_fscan := fun j => match j with JObj [(_, JNum b)] => Some (b, b) | _ => None end;
  x_ts_text := toy_ts;
  x_nano_text := toy_ts;
  x_ts_parse := toy_parse;
  x_date_text := fun sec => show_Z (day_floor sec);
  x_date_parse := Z_of_dec
|}.
