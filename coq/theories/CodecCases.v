(* CodecCases.v — case types, defect classifiers and predictions of the C04 / C05 correspondence
   checks.  Codec.v is Impl, Mapping.v is Spec; this file only puts them side by side. *)
From Sebuf Require Export Codec Mapping.

Open Scope Z_scope.

(* ---- rendering of results ------------------------------------------------------------------------ *)
Definition jres (r : res json) : json :=
  match r with
  | ROk j => JObj [(s "ok", j)]
  | RErr _ => JObj [(s "err", JBool true)]
  | RUnm w => JObj [(s "unm", JStr w)]
  end.
Definition unm_of {A} (r : res A) : option str := match r with RUnm w => Some w | _ => None end.

(* ---- C04: documented losses ------------------------------------------------------------------------ *)
Section Norm.
Variable sc : schema.

Definition trunc_ts (fmt : ts_fmt) (v : fval) : fval :=
  match v with
  | FM tm =>
      let sec := mget_int tm (s "seconds") in
      let nanos := mget_int tm (s "nanos") in
      match fmt with
      | TFUnixSeconds => ts_value sec 0
      | TFUnixMillis => ts_value sec ((nanos / 1000000) * 1000000)
      | TFDate => ts_value (day_floor sec) 0
      | _ => v
      end
  | _ => v
  end.

(* the losses the annotations document, applied to the fields of a message that is encoded by its
   own codec: UNIX_SECONDS drops nanos, UNIX_MILLIS drops sub-millisecond nanos, DATE drops the time
   of day, OMIT drops the presence of an empty message. *)
Definition norm_fields (md : message) (m : mval) : mval :=
  flat_map (fun e =>
    match find_field (m_fields md) (fst e) with
    | Some f =>
        match tsfmt_of f, empty_of f, snd e with
        | Some fmt, _, v => [(fst e, trunc_ts fmt v)]
        | None, Some EBOmit, FM [] => []
        | _, _, v => [(fst e, v)]
        end
    | None => [e]
    end) m.

(* a wrapper used as the value of an unwrap map keeps only its unwrap field
   (docs/json-protobuf-compatibility.md, "Two Unwrap Modes": "only the unwrap field is used") *)
Definition strip_wrappers (md : message) (m : mval) : mval :=
  map (fun e =>
    match find_field (m_fields md) (fst e) with
    | Some f =>
        match value_unwrap sc f, snd e with
        | Some uf, FMap kv =>
            (fst e, FMap (map (fun kvp => match snd kvp with
                                          | FM wm => (fst kvp, FM (filter (fun we => str_eqb (fst we) (f_name uf)) wm))
                                          | w => (fst kvp, w)
                                          end) kv))
        | _, _ => e
        end
    | None => e
    end) m.

Definition norm (tn : str) (m : mval) : mval :=
  match lookup_message sc tn with
  | Some md =>
      match owner_of sc md with
      | Own FtTs | Own FtEmpty => norm_fields md m
      | Own FtUnwrapMap | Own FtUnwrapRoot => strip_wrappers md m
      | _ => m
      end
  | None => m
  end.
End Norm.

(* ---- C04 defect classes ------------------------------------------------------------------------------ *)
Inductive c04_defect :=
  | D4FlattenReset          (* flatten.go:255-329: protojson.Unmarshal(remaining, x) resets x *)
  | D4FlattenChildKeys      (* flatten.go:224-251: child through encoding/json -> snake_case keys *)
  | D4FlatOneofChild        (* oneof_discriminator.go:228-251,331-368: variant through encoding/json *)
  | D4OneofVariantReflect   (* oneof_discriminator.go:370-391: json.Unmarshal of a protojson-form variant *)
  | D4FlatOneofRemarshal    (* oneof_discriminator.go:366: raw[name] = json.Marshal(variant) read by protojson *)
  | D4UnwrapSiblingNonFinite (* unwrap.go:453-522,783-982: json.Marshal of NaN / Inf fails *)
  | D4UnwrapSiblingNegZero  (* unwrap.go:951-982: `x.F != 0` drops -0.0 *)
  | D4EnumCodecUnknown      (* enum_encoding.go:142-178: an undefined number is written as "99" and not read back *)
  | D4OneofMemberIsDiscriminator (* oneof_discriminator.go: a member of a discriminated oneof whose JSON name is that oneof's
                               discriminator (the collision check skips the oneof's own members): the discriminator value
                               overwrites the member's value *)
  | D4FlatVariantFieldIsVariant (* oneof_discriminator.go generateFlattenedMarshal: the variant's keys are merged into the
                               parent object and then `delete(raw, "<variant>")` runs: a child field whose JSON name is the
                               variant field's own JSON name is deleted with it *)
  | D4FlatVariantBoolMap     (* oneof_discriminator.go:228-251: json.Marshal of a variant with a populated map<bool, T> fails
                               ("unsupported type: map[bool]"), the error is swallowed and the variant is dropped *)
  | D4OneofVariantBoolMap    (* oneof_discriminator.go:370-391: json.Unmarshal of the protojson form of a variant with a populated
                               map<bool, T>: encoding/json refuses map[bool]T as a target ("cannot unmarshal object into Go value of
                               type map[bool]..."), so the codec rejects its own output *)
  | D4OneofVariantFoldClash  (* oneof_discriminator.go:370-391 + encoding/json's field matching: protojson writes a multi-word field of
                               the variant under its lowerCamel name, which json.Unmarshal matches case-insensitively onto ANOTHER
                               field of the Go struct (alt_text -> "altText" -> field alttext) whose Go type does not read that value:
                               the codec rejects its own output *)
  | D4ReflectedEmptyOptBytes (* encoding/json on a protoc-gen-go struct: `json:"...,omitempty"` drops an `optional bytes` field that
                               is present but empty, so its presence is lost wherever a child is rendered by reflection
                               (flattened oneof variant, map value beside an unwrap map, ...) *)
  | D4EmptyNullEpochTs.     (* empty_behavior.go: NULL on a Timestamp field: the epoch has proto.Size 0, is written as null,
                               read back as {} and protojson rejects {} for a Timestamp *)

Definition c04_defect_str (d : c04_defect) : str :=
  match d with
  | D4FlattenReset => s "flatten-decode-reset"
  | D4FlattenChildKeys => s "flatten-child-encoding-json"
  | D4FlatOneofChild => s "flat-oneof-child-encoding-json"
  | D4OneofVariantReflect => s "oneof-variant-reflect-decode"
  | D4FlatOneofRemarshal => s "flat-oneof-variant-remarshal"
  | D4UnwrapSiblingNonFinite => s "unwrap-sibling-nonfinite-float"
  | D4UnwrapSiblingNegZero => s "unwrap-sibling-negative-zero"
  | D4EnumCodecUnknown => s "enum-codec-unknown-number"
  | D4OneofMemberIsDiscriminator => s "oneof-member-named-like-discriminator"
  | D4FlatVariantFieldIsVariant => s "flat-oneof-child-field-named-like-variant"
  | D4FlatVariantBoolMap => s "flat-oneof-variant-bool-keyed-map-dropped"
  | D4OneofVariantBoolMap => s "oneof-variant-bool-keyed-map-rejected"
  | D4OneofVariantFoldClash => s "oneof-variant-key-folds-onto-other-field"
  | D4ReflectedEmptyOptBytes => s "reflected-child-empty-optional-bytes-dropped"
  | D4EmptyNullEpochTs => s "empty-null-epoch-timestamp"
  end.

Fixpoint enum_nums (v : fval) : list Z :=
  match v with
  | FS (VEnum n) => [n]
  | FL l => (fix go (l : list fval) : list Z := match l with [] => [] | x :: r => enum_nums x ++ go r end) l
  | FMap kv => (fix go (kv : list (sval * fval)) : list Z := match kv with [] => [] | (_, x) :: r => enum_nums x ++ go r end) kv
  | _ => []
  end.

Section Defects4.
Variable sc : schema.

(* a populated enum field whose type has an emitted MarshalJSON and whose value is an undefined number:
   MarshalJSON writes x.String() = "99", UnmarshalJSON looks "99" up among the names and fails *)
Definition enum_codec_unknown (k : kind) (v : fval) : bool :=
  match k with
  | KEnum tn =>
      match find_enum (all_enums sc) tn with
      | Some e => enum_codec e && existsb (fun n => match ev_by_number (e_values e) n with Some _ => false | None => true end) (enum_nums v)
      | None => false
      end
  | _ => false
  end.

Definition multiword (n : str) : bool := negb (str_eqb (json_name n) n).

(* a populated field of a reflected child whose encoding/json form protojson does not read back, or
   whose protojson form encoding/json does not read *)
Definition float_special (k : kind) (v : fval) : bool :=
  match k, v with
  | KDouble, FS (VFloat b) => match fclassify true b with FFinite => false | _ => true end
  | KFloat, FS (VFloat b) => match fclassify false b with FFinite => false | _ => true end
  | _, _ => false
  end.
Definition enum_with_codec (k : kind) : bool :=
  match k with
  | KEnum tn => match find_enum (all_enums sc) tn with Some e => enum_codec e | None => false end
  | _ => false
  end.

(* child (not owning a codec) rendered by encoding/json and read back by protojson: which populated
   fields break *)
Definition reflect_child_breaks (cmd : message) (cm : mval) : bool :=
  existsb (fun e =>
    match find_field (m_fields cmd) (fst e) with
    | Some f => multiword (fst e) || is_timestamp (f_kind f) || enum_with_codec (f_kind f)
                || float_special (f_kind f) (snd e)
                || (is_msg_kind (f_kind f) && negb (is_timestamp (f_kind f)))
                || match f_oneof f with Some _ => true | None => false end
    | None => true
    end) cm.

Fixpoint nonfinite_in (k : kind) (v : fval) : bool :=
  match v with
  | FS _ => float_special k v
  | FL l => (fix go (l : list fval) : bool := match l with [] => false | x :: r => nonfinite_in k x || go r end) l
  | FMap kv => (fix go (kv : list (sval * fval)) : bool := match kv with [] => false | (_, x) :: r => nonfinite_in k x || go r end) kv
  | FM _ => false
  end.

(* child in protojson form handed to encoding/json (non-flattened variant): single-word fields whose
   protojson value is a string where Go expects a number / object (NaN / Infinity also as an element of a
   repeated field or a value of a map: "NaN" is no number for json.Unmarshal) *)
Definition pj_form_breaks_reflect (cmd : message) (cm : mval) : bool :=
  existsb (fun e =>
    match find_field (m_fields cmd) (fst e) with
    | Some f =>
        negb (multiword (fst e)) &&
        (is_int64_kind (f_kind f) || is_timestamp (f_kind f) || nonfinite_in (f_kind f) (snd e)
         || match f_kind f with KEnum _ => true | _ => false end
         || (is_msg_kind (f_kind f) && negb (is_timestamp (f_kind f))))
    | None => true
    end) cm.

(* the same hand-over for a populated map<bool, T> under a single-word name: protojson writes {"true": ...}, the Go
   target map[bool]T is refused by json.Unmarshal whatever the object holds *)
Definition pj_form_bool_map (cmd : message) (cm : mval) : bool :=
  existsb (fun e =>
    match find_field (m_fields cmd) (fst e) with
    | Some f => negb (multiword (fst e)) &&
                match f_card f, snd e with MapOf KBool, FMap (_ :: _) => true | _, _ => false end
    | None => false
    end) cm.

(* the same hand-over for a multi-word field: its lowerCamel key matches no struct tag exactly, but encoding/json then
   tries the case-folded names; when that finds another field g, the value lands there.  It is read when g has the
   JSON shape of f (same kind; both singular/optional, both repeated, or maps with the same key kind) and the protojson
   form of that kind is one encoding/json reads (as for single-word fields above) *)
Definition card_shape_eqb (a b : card) : bool :=
  match a, b with
  | Singular, Singular | Singular, Optional | Optional, Singular | Optional, Optional => true
  | Repeated, Repeated => true
  | MapOf ka, MapOf kb => kind_eqb ka kb
  | _, _ => false
  end.
Definition pj_form_read_by (f g : field) (x : fval) : bool :=
  card_shape_eqb (f_card f) (f_card g) && kind_eqb (f_kind f) (f_kind g) &&
  negb (is_int64_kind (f_kind f) || is_timestamp (f_kind f) || nonfinite_in (f_kind f) x
        || match f_kind f with KEnum _ => true | _ => false end
        || is_msg_kind (f_kind f)) &&
  negb (match f_card f with MapOf KBool => true | _ => false end).
Definition pj_form_fold_clash (cmd : message) (cm : mval) : bool :=
  existsb (fun e =>
    match find_field (m_fields cmd) (fst e) with
    | Some f => multiword (fst e) &&
                match field_by_fold cmd (json_name (fst e)) with
                | Some g => negb (pj_form_read_by f g (snd e))
                | None => false
                end
    | None => false
    end) cm.

(* a codec-owning variant re-marshalled by its own MarshalJSON and then read by protojson *)
Definition codec_form_breaks_pj (cft : feature) (cmd : message) (cm : mval) : bool :=
  match cft with
  | FtTs => existsb (fun e => match find_field (m_fields cmd) (fst e) with
                              | Some f => match tsfmt_of f with Some _ => true | None => false end
                              | None => false end) cm
  | FtBytes => existsb (fun e => match find_field (m_fields cmd) (fst e), snd e with
                                 | Some f, FS (VBytes (_ :: _)) => match bytesenc_of f with Some BEHex => true | _ => false end
                                 | _, _ => false end) cm
  | FtInt64 | FtNullable | FtEmpty => false
  | _ => match cm with [] => false | _ => true end
  end.

Definition unwrap_sibling_defects (md : message) (m : mval) : list c04_defect :=
  (if existsb (fun e => match find_field (m_fields md) (fst e) with
                        | Some f => negb (is_msg_kind (f_kind f)) && nonfinite_in (f_kind f) (snd e)
                        | None => false end) m then [D4UnwrapSiblingNonFinite] else []) ++
  (if existsb (fun e => match find_field (m_fields md) (fst e) with
                        | Some f => match f_card f with Singular => go_zero (f_kind f) (snd e) | _ => false end
                        | None => false end) m then [D4UnwrapSiblingNegZero] else []).

(* defects of one codec-owning message, looking at its own fields only *)
Definition local_defects (md : message) (m : mval) : list c04_defect :=
      match owner_of sc md with
      | Own FtFlatten =>
          let set := filter (fun f => is_flatten f && match mget m (f_name f) with Some _ => true | None => false end) (m_fields md) in
          (match set with [] => [] | _ => [D4FlattenReset] end) ++
          (if existsb (fun f =>
                match mget m (f_name f), lookup_message sc (msg_name (f_kind f)) with
                | Some (FM cm), Some cmd =>
                    match owner_of sc cmd with
                    | OwnNone => existsb (fun e => multiword (fst e)) cm
                    | _ => false
                    end
                | _, _ => false
                end) set then [D4FlattenChildKeys] else [])
      | Own FtOneof =>
          flat_map (fun o =>
            if oneof_cfg o then
              match find_oneof_member md m o with
              | Some f =>
                  match mget m (f_name f), lookup_message sc (msg_name (f_kind f)) with
                  | Some (FM cm), Some cmd =>
                      match owner_of sc cmd with
                      | OwnNone =>
                          if o_flatten o then (if reflect_child_breaks cmd cm then [D4FlatOneofChild] else [])
                          else (if pj_form_breaks_reflect cmd cm then [D4OneofVariantReflect] else []) ++
                               (if pj_form_bool_map cmd cm then [D4OneofVariantBoolMap] else []) ++
                               (if pj_form_fold_clash cmd cm then [D4OneofVariantFoldClash] else [])
                      | Own cft =>
                          if o_flatten o then (if codec_form_breaks_pj cft cmd cm then [D4FlatOneofRemarshal] else [])
                          else (* the variant's UnmarshalJSON is given the protojson form *)
                            match cft with
                            | FtUnwrapRoot => [D4OneofVariantReflect]
                            | FtUnwrapMap | FtFlatten | FtOneof => match cm with [] => [] | _ => [D4OneofVariantReflect] end
                            | _ => []
                            end
                      | OwnMany => []
                      end
                  | _, _ => []
                  end
              | None => []
              end
            else []) (m_oneofs md) ++
          (if existsb (fun o => oneof_cfg o &&
                                match find_oneof_member md m o with
                                | Some f => str_eqb (jn f) (o_discriminator o)
                                | None => false end) (m_oneofs md) then [D4OneofMemberIsDiscriminator] else []) ++
          (if existsb (fun o => oneof_cfg o && o_flatten o &&
                                match find_oneof_member md m o with
                                | Some f => match mget m (f_name f) with
                                            | Some (FM sub) => existsb (fun e => str_eqb (json_name (fst e)) (jn f) || str_eqb (fst e) (jn f)) sub
                                            | _ => false end
                                | None => false end) (m_oneofs md) then [D4FlatVariantFieldIsVariant] else []) ++
          (if existsb (fun o => oneof_cfg o && o_flatten o &&
                                match find_oneof_member md m o with
                                | Some f => match mget m (f_name f), lookup_message sc (msg_name (f_kind f)) with
                                            | Some (FM sub), Some cmd =>
                                                existsb (fun g => match f_card g, mget sub (f_name g) with
                                                                  | MapOf KBool, Some (FMap (_ :: _)) => true
                                                                  | _, _ => false end) (m_fields cmd)
                                            | _, _ => false end
                                | None => false end) (m_oneofs md) then [D4FlatVariantBoolMap] else [])
      | Own FtEmpty =>
          if existsb (fun f => match empty_of f, mget m (f_name f) with
                               | Some EBNull, Some (FM []) => is_timestamp (f_kind f)
                               | _, _ => false end) (m_fields md) then [D4EmptyNullEpochTs] else []
      | Own FtUnwrapMap => unwrap_sibling_defects md m
      | Own FtUnwrapRoot =>
          if existsb (fun e => match find_field (m_fields md) (fst e) with
                               | Some f => negb (is_msg_kind (f_kind f)) && nonfinite_in (f_kind f) (snd e)
                               | None => false end) m then [D4UnwrapSiblingNonFinite] else []
      | _ => []
      end.

Fixpoint dedup4 (l : list c04_defect) : list c04_defect :=
  match l with
  | [] => []
  | d :: r => if existsb (fun e => str_eqb (c04_defect_str e) (c04_defect_str d)) r then dedup4 r else d :: dedup4 r
  end.

(* defects met when json.Marshal / json.Unmarshal is applied to a value: the message's own codec
   (or reflection) and, recursively, every child that codec hands to encoding/json *)
Fixpoint gj_defects (k : kind) (v : fval) {struct v} : list c04_defect :=
  match v with
  | FS _ => []
  | FL l => (fix go (l : list fval) : list c04_defect := match l with [] => [] | x :: r => gj_defects k x ++ go r end) l
  | FMap kv => (fix go (kv : list (sval * fval)) : list c04_defect :=
                  match kv with [] => [] | (_, x) :: r => gj_defects k x ++ go r end) kv
  | FM m =>
      match k with
      | KMessage tn =>
          match lookup_message sc tn with
          | None => []
          | Some md =>
              let via_gj (f : field) : bool :=
                match owner_of sc md with
                | OwnNone => true
                | Own ft => needs_gj sc ft md f
                | OwnMany => false
                end in
              (match owner_of sc md with
               | Own _ => local_defects md m
               | OwnNone => (if existsb (fun e => match find_field (m_fields md) (fst e) with
                                                  | Some f => negb (is_msg_kind (f_kind f)) && nonfinite_in (f_kind f) (snd e)
                                                  | None => false end) m then [D4UnwrapSiblingNonFinite] else []) ++
                            (if existsb (fun e => match find_field (m_fields md) (fst e), snd e with
                                                  | Some f, FS (VBytes []) => match f_card f with Optional => true | _ => false end
                                                  | _, _ => false end) m then [D4ReflectedEmptyOptBytes] else [])
               | OwnMany => []
               end) ++
              (if existsb (fun e => match find_field (m_fields md) (fst e) with
                                    | Some f => via_gj f && enum_codec_unknown (f_kind f) (snd e)
                                    | None => false end) m then [D4EnumCodecUnknown] else []) ++
              (fix go (m : list (str * fval)) : list c04_defect :=
                 match m with
                 | [] => []
                 | (name, x) :: r =>
                     match find_field (m_fields md) name with
                     | Some f => (if via_gj f then gj_defects (f_kind f) x else []) ++ go r
                     | None => go r
                     end
                 end) m
          end
      | _ => []
      end
  end.

Definition defects_C04 (tn : str) (m : mval) : list c04_defect :=
  if owns sc tn then dedup4 (gj_defects (KMessage tn) (FM m)) else [].
End Defects4.

(* ---- C04 round-trip case ------------------------------------------------------------------------------ *)
Definition c04_case := (schema * str * mval * ptab * stab)%type.

Definition tags_json {A} (f : A -> str) (l : list A) : json := JArr (map (fun d => JStr (f d)) l).

Definition predict_C04 (c : c04_case) : json :=
  let '(sc, tn, m, pt, st) := c in
  let E := E0 pt st in
  let enc := encode E sc tn m in
  match enc with
  | RUnm w => JObj [(s "unmodelled", JStr w)]
  | _ =>
      let back := match enc with
                  | ROk j => rmap json_of_mval (decode E sc tn j)
                  | _ => RErr []
                  end in
      match enc, back with
      | ROk _, RUnm w => JObj [(s "unmodelled", JStr w)]
      | _, _ =>
          JObj [(s "tags", tags_json c04_defect_str (defects_C04 sc tn m));
                (s "custom", JBool (owns sc tn));
                (s "json", jres enc);
                (s "back", match enc with ROk _ => jres back | _ => JStr (s "skipped") end)]
      end
  end.
Close Scope Z_scope.

(* ====================================== C05 ========================================================= *)
Open Scope Z_scope.

(* the contract form of a case, for the harness (phase A) *)
Definition map_case (c : c04_case) : json :=
  let '(sc, tn, m, pt, st) := c in jres (to_json (E0 pt st) sc tn m).

Inductive ann := AInt64 | ANullable | AEmpty | ATs | ABytes | AFlatten | AOneof | AUnwrap.
Definition ann_str (a : ann) : str :=
  match a with
  | AInt64 => s "int64-number" | ANullable => s "nullable" | AEmpty => s "empty-behavior" | ATs => s "timestamp-format"
  | ABytes => s "bytes-encoding" | AFlatten => s "flatten" | AOneof => s "oneof-discriminator" | AUnwrap => s "unwrap"
  end.

Inductive c05_defect :=
  | D5Pj (a : ann)          (* generator.go:683-712 + protojson: an annotated construct below the top level, or an
                               element of an unwrapped list, is rendered by plain protojson *)
  | D5MapSkipped (a : ann)  (* encoding.go:21-52 etc.: the emitters only look at non-map fields *)
  | D5EnumValue             (* enum_encoding.go:142-178: MarshalJSON on the enum type, never used by protojson *)
  | D5EnumNumber            (* no Go emitter for enum_encoding = NUMBER *)
  | D5FlattenChild          (* flatten.go:224-251, unwrap.go:421-433: a child without its own codec handed to encoding/json *)
  | D5FlatOneofChild        (* oneof_discriminator.go:228-251 *)
  | D5UnwrapSibling         (* unwrap.go:453-522: siblings / scalar elements through encoding/json *)
  | D5RootNull              (* unwrap.go: json.Marshal of a nil slice / map is null *)
  | D5C04 (d : c04_defect). (* request direction: the decoder defects of C04 *)

Definition c05_defect_str (d : c05_defect) : str :=
  match d with
  | D5Pj a => s "annotated-child-under-protojson-parent:" ++ ann_str a
  | D5MapSkipped a => s "annotation-on-map-field-skipped:" ++ ann_str a
  | D5EnumValue => s "enum-value-never-applied"
  | D5EnumNumber => s "enum-number-never-applied"
  | D5FlattenChild => s "reflected-child-encoding-json"
  | D5FlatOneofChild => s "flat-oneof-child-encoding-json"
  | D5UnwrapSibling => s "unwrap-sibling-encoding-json"
  | D5RootNull => s "root-unwrap-nil-null"
  | D5C04 d => c04_defect_str d
  end.

Section Defects5.
Variable sc : schema.

Definition enum_custom_hit (k : kind) (v : fval) : bool :=
  match k with
  | KEnum tn =>
      match find_enum (all_enums sc) tn with
      | Some e => existsb (fun n => match ev_by_number (e_values e) n with
                                    | Some ev => match ev_custom ev with Some (_ :: _) => true | _ => false end
                                    | None => false end) (enum_nums v)
      | None => false
      end
  | _ => false
  end.
Definition enum_defined_hit (k : kind) (v : fval) : bool :=
  match k with
  | KEnum tn =>
      match find_enum (all_enums sc) tn with
      | Some e => existsb (fun n => match ev_by_number (e_values e) n with Some _ => true | None => false end) (enum_nums v)
      | None => false
      end
  | _ => false
  end.

Definition nonempty_bytes (v : fval) : bool :=
  match v with
  | FS (VBytes []) => false
  | FL [] => false
  | FMap [] => false
  | _ => true
  end.

(* annotation kinds that change the rendering of populated field f with value x *)
Definition field_anns (f : field) (x : fval) : list ann :=
  (if is_int64_kind (f_kind f) && match f_int64 f with Some I64Number => true | _ => false end then [AInt64] else []) ++
  (match f_empty f, x with Some EBNull, FM [] | Some EBOmit, FM [] => [AEmpty] | _, _ => [] end) ++
  (if is_timestamp (f_kind f) && match f_tsfmt f with Some TFUnixSeconds | Some TFUnixMillis | Some TFDate => true | _ => false end then [ATs] else []) ++
  (match f_kind f, f_bytesenc f with
   | KBytes, Some BEBase64Raw | KBytes, Some BEBase64Url | KBytes, Some BEBase64UrlRaw | KBytes, Some BEHex =>
       if nonempty_bytes x then [ABytes] else []
   | _, _ => [] end) ++
  (if is_flatten f then [AFlatten] else []).

(* which of them the message's own codec applies to this field *)
Definition handled (ow : owner) (f : field) (a : ann) : bool :=
  match ow, a with
  | Own FtInt64, AInt64 => is_number_i64 f
  | Own FtEmpty, AEmpty => true
  | Own FtTs, ATs => match tsfmt_of f with Some _ => true | None => false end
  | Own FtBytes, ABytes => match bytesenc_of f with Some _ => true | None => false end
  | Own FtFlatten, AFlatten => true
  | _, _ => false
  end.

Definition enum_tags (reflected : bool) (f : field) (x : fval) : list c05_defect :=
  match f_kind f with
  | KEnum _ =>
      (if negb reflected && enum_custom_hit (f_kind f) x && negb match f_enumenc f with Some EENumber => true | _ => false end
       then [D5EnumValue] else []) ++
      (if match f_enumenc f with Some EENumber => true | _ => false end && enum_defined_hit (f_kind f) x && negb reflected
       then [D5EnumNumber] else [])
  | _ => []
  end.

(* a struct rendered by reflection differs from the mapping in these populated fields *)
Definition reflect_differs (cmd : message) (cm : mval) : bool :=
  existsb (fun e =>
    match find_field (m_fields cmd) (fst e) with
    | Some f => multiword (fst e) || is_int64_kind (f_kind f) || is_timestamp (f_kind f)
                || nonfinite_in (f_kind f) (snd e)   (* json.Marshal fails: also inside a repeated field or a map *)
                || match f_kind f with
                   | KEnum _ => negb (enum_with_codec sc (f_kind f)) && enum_defined_hit (f_kind f) (snd e)
                                || (enum_with_codec sc (f_kind f) && negb (enum_defined_hit (f_kind f) (snd e)))
                                || match f_enumenc f with Some EENumber => enum_with_codec sc (f_kind f) | _ => false end
                   | _ => false end
                || match f_card f, f_kind f with MapOf kk, _ => negb (kind_eqb kk KString) | _, _ => false end
                || match field_anns f (snd e) with [] => false | _ => true end
                || match snd e with FS (VBytes []) => true | _ => false end
    | None => true
    end) cm ||
  existsb (fun f => match f_nullable f, mget cm (f_name f) with Some true, None => true | _, _ => false end) (m_fields cmd).

Definition dedup5 (l : list c05_defect) : list c05_defect :=
  fold_right (fun d acc => if existsb (fun e => str_eqb (c05_defect_str e) (c05_defect_str d)) acc then acc else d :: acc) [] l.

(* mode false: rendered by protojson (nothing below honours any annotation);
   mode true: rendered by json.Marshal (own codec or reflection) *)
Fixpoint c05_tags (gj : bool) (k : kind) (v : fval) {struct v} : list c05_defect :=
  match v with
  | FS _ => []
  | FL l => (fix go (l : list fval) : list c05_defect := match l with [] => [] | x :: r => c05_tags gj k x ++ go r end) l
  | FMap kv => (fix go (kv : list (sval * fval)) : list c05_defect :=
                  match kv with [] => [] | (_, x) :: r => c05_tags gj k x ++ go r end) kv
  | FM m =>
      match k with
      | KMessage tn =>
          if str_eqb tn ts_name then [] else
          match find_message (all_messages sc) tn with
          | None => []
          | Some md =>
              let ow := if gj then owner_of sc md else OwnNone in
              let reflected := gj && match ow with OwnNone => true | _ => false end in
              (* the message itself *)
              (match ow with
               | Own FtUnwrapRoot | Own FtUnwrapMap => []
               | _ => match mp_root_unwrap md with Some _ => [D5Pj AUnwrap] | None => [] end
               end) ++
              (if reflected && reflect_differs md m then [D5FlattenChild] else []) ++
              (* absent nullable fields *)
              (match ow with
               | Own FtNullable => []
               | _ => if reflected then [] else
                      if existsb (fun f => match f_nullable f, mget m (f_name f) with Some true, None => true | _, _ => false end) (m_fields md)
                      then [D5Pj ANullable] else []
               end) ++
              (* configured oneofs *)
              (match ow with
               | Own FtOneof => []
               | _ => if reflected then [] else
                      if existsb (fun o => oneof_cfg o && match find_oneof_member md m o with Some _ => true | None => false end) (m_oneofs md)
                      then [D5Pj AOneof] else []
               end) ++
              (* root unwrap of scalars: nil -> null *)
              (match ow, m_fields md with
               | Own FtUnwrapRoot, [f] =>
                   if negb (is_msg_kind (f_kind f)) && match mget m (f_name f) with None => true | Some _ => false end
                      && match value_unwrap sc f with Some _ => false | None => true end
                   then [D5RootNull] else []
               | _, _ => []
               end) ++
              (fix go (m0 : list (str * fval)) : list c05_defect :=
                 match m0 with
                 | [] => []
                 | (name, x) :: r =>
                     match find_field (m_fields md) name with
                     | None => go r
                     | Some f =>
                         let anns := if reflected then [] else field_anns f x in
                         (flat_map (fun a => if handled ow f a then []
                                             else if is_map f && match a with AInt64 | ATs | ABytes => true | _ => false end
                                                  then [D5MapSkipped a] else [D5Pj a]) anns) ++
                         enum_tags reflected f x ++
                         (* map whose values are unwrap wrappers *)
                         (match ow, value_unwrap sc f with
                          | Own FtUnwrapMap, Some _ | Own FtUnwrapRoot, Some _ => []
                          | _, Some uf => if is_repeated uf then [D5Pj AUnwrap] else []
                          | _, None => []
                          end) ++
                         (* fields an unwrap codec hands to encoding/json *)
                         (match ow with
                          | Own FtUnwrapMap | Own FtUnwrapRoot =>
                              if negb (is_msg_kind (f_kind f)) && match value_unwrap sc f with Some _ => false | None => true end &&
                                 (is_int64_kind (f_kind f) || float_special (f_kind f) x || nonfinite_in (f_kind f) x || go_zero (f_kind f) x
                                  || match f_kind f with KEnum _ => enum_defined_hit (f_kind f) x | _ => false end
                                  || match f_card f with MapOf kk => negb (kind_eqb kk KString) && is_int64_kind kk | _ => false end)
                              then [D5UnwrapSibling] else []
                          | _ => []
                          end) ++
                         (* flattened oneof variant through encoding/json *)
                         (match ow, mp_oneof_of md f, x with
                          | Own FtOneof, Some o, FM cm =>
                              if o_flatten o then
                                match lookup_message sc (msg_name (f_kind f)) with
                                | Some cmd => match owner_of sc cmd with
                                              | OwnNone => if reflect_differs cmd cm then [D5FlatOneofChild] else []
                                              | _ => []
                                              end
                                | None => []
                                end
                              else []
                          | _, _, _ => []
                          end) ++
                         (* children *)
                         (let child_gj := match ow with
                                          | Own ft => gj && needs_gj sc ft md f
                                          | OwnNone => reflected
                                          | OwnMany => false
                                          end in
                          (* a reflected child message is reported at the child (D5FlattenChild) *)
                          c05_tags child_gj (f_kind f) x) ++
                         go r
                     end
                 end) m
          end
      | _ => []
      end
  end.

Definition defects_C05 (tn : str) (m : mval) : list c05_defect :=
  dedup5 (c05_tags (owns sc tn) (KMessage tn) (FM m)).
End Defects5.

(* response direction: what the server sends for a handler-returned m *)
Definition predict_C05_resp (c : c04_case) : json :=
  let '(sc, tn, m, pt, st) := c in
  let E := E0 pt st in
  match encode E sc tn m with
  | RUnm w => JObj [(s "unmodelled", JStr w)]
  | r => JObj [(s "tags", tags_json c05_defect_str
                           (dedup5 (defects_C05 sc tn m ++
                                    (* C04 classes that already damage what the ENCODER writes *)
                                    map D5C04 (filter (fun d => match d with D4OneofMemberIsDiscriminator | D4FlatVariantFieldIsVariant | D4FlatVariantBoolMap => true | _ => false end)
                                                      (defects_C04 sc tn m)))));
               (s "resp", jres r)]
  end.

(* request direction: what the handler sees for the body [j] (the contract form of m) *)
Definition c05_req_case := (schema * str * mval * json * ptab * stab)%type.
Definition predict_C05_req (c : c05_req_case) : json :=
  let '(sc, tn, m, j, pt, st) := c in
  let E := E0 pt st in
  match decode E sc tn j with
  | RUnm w => JObj [(s "unmodelled", JStr w)]
  | r => JObj [(s "tags", tags_json c05_defect_str
                           (dedup5 (defects_C05 sc tn m ++ map D5C04 (defects_C04 sc tn m))));
               (s "saw", jres (rmap json_of_mval r))]
  end.
Close Scope Z_scope.

(* directed request bodies that are NOT in the documented mapping (bytes_encoding): the text is not
   valid in the annotated encoding, the emitted decoder swallows that error and protojson reads the
   text as base64 (bytes_encoding.go:197-262) *)
Definition hex_swallowed (sc : schema) (tn : str) (j : json) : bool :=
  match lookup_message sc tn, j with
  | Some md, JObj kv =>
      match owner_of sc md with
      | Own FtBytes =>
          existsb (fun f => match bytesenc_of f, raw_get (jn f) kv with
                            | Some e, Some (JStr x) =>
                                match bytes_dec_text e x, b64_dec (existsb (fun c => Ascii.eqb c "-"%char || Ascii.eqb c "_"%char) x)
                                                                   (Nat.modulo (List.length x) 4 =? 0)%nat x with
                                | None, Some _ => true
                                | _, _ => false
                                end
                            | _, _ => false end) (m_fields md)
      | _ => false
      end
  | _, _ => false
  end.

Definition c05_raw_case := (schema * str * json * ptab * stab)%type.
Definition predict_C05_raw (c : c05_raw_case) : json :=
  let '(sc, tn, j, pt, st) := c in
  let E := E0 pt st in
  match decode E sc tn j with
  | RUnm w => JObj [(s "unmodelled", JStr w)]
  | r => JObj [(s "tags", JArr (if hex_swallowed sc tn j then [JStr (s "bytes-encoding-error-swallowed")] else []));
               (s "saw", jres (rmap json_of_mval r))]
  end.

(* C04, contract form produced by another party: decode (Mapping.to_json m).  Where the contract form
   is not the form the Go codec itself writes (any C05 defect), the cause is C05's; C04 only records it. *)
Definition predict_C04_in (c : c05_req_case) : json :=
  let '(sc, tn, m, j, pt, st) := c in
  let E := E0 pt st in
  match decode E sc tn j with
  | RUnm w => JObj [(s "unmodelled", JStr w)]
  | r => JObj [(s "tags", JArr (map (fun d => JStr (c04_defect_str d)) (defects_C04 sc tn m) ++
                                match defects_C05 sc tn m with [] => [] | _ => [JStr (s "contract-form-not-codec-form")] end));
               (s "in", jres (rmap json_of_mval r))]
  end.
