(* Text.v — byte strings as [list ascii]; the string functions the generators and the
   emitted runtime use (strings.TrimSuffix/TrimPrefix/HasPrefix/ToLower, case conversions,
   the path-variable regexp).  Definitions only; facts are in proofs/TextFacts.v. *)
From Coq Require Export List Ascii String Bool Arith NArith ZArith Lia.
Export ListNotations.
Open Scope bool_scope.
Open Scope list_scope.

Definition str := list ascii.
Definition s (x : string) : str := list_ascii_of_string x.

Definition ch (n : N) : ascii := ascii_of_N n.
Definition code (c : ascii) : N := N_of_ascii c.

Fixpoint str_eqb (a b : str) : bool :=
  match a, b with
  | [], [] => true
  | x :: a', y :: b' => Ascii.eqb x y && str_eqb a' b'
  | _, _ => false
  end.

Definition is_upper (c : ascii) : bool := (65 <=? code c)%N && (code c <=? 90)%N.
Definition is_lower (c : ascii) : bool := (97 <=? code c)%N && (code c <=? 122)%N.
Definition is_digit (c : ascii) : bool := (48 <=? code c)%N && (code c <=? 57)%N.
Definition to_lower (c : ascii) : ascii := if is_upper c then ch (code c + 32) else c.
Definition to_upper (c : ascii) : ascii := if is_lower c then ch (code c - 32) else c.
Definition lower_str (x : str) : str := map to_lower x.

Fixpoint has_prefix (p x : str) : bool :=
  match p, x with
  | [], _ => true
  | a :: p', b :: x' => Ascii.eqb a b && has_prefix p' x'
  | _ :: _, [] => false
  end.

Definition has_suffix (p x : str) : bool := has_prefix (rev p) (rev x).

(* strings.TrimPrefix: remove p once if present *)
Definition trim_prefix (p x : str) : str :=
  if has_prefix p x then skipn (List.length p) x else x.

(* strings.TrimSuffix: remove p once if present *)
Definition trim_suffix (p x : str) : str :=
  if has_suffix p x then firstn (List.length x - List.length p) x else x.

Definition slash : ascii := "/"%char.
Definition lbrace : ascii := "{"%char.
Definition rbrace : ascii := "}"%char.
Definition underscore : ascii := "_"%char.

(* annotations.LowerFirst: strings.ToLower(s[:1]) + s[1:]  (ASCII identifiers) *)
Definition lower_first (x : str) : str :=
  match x with [] => [] | c :: r => to_lower c :: r end.

(* httpgen.camelToSnake: '_' before every upper-case letter except at index 0 *)
Fixpoint camel_to_snake_aux (first : bool) (x : str) : str :=
  match x with
  | [] => []
  | c :: r =>
      if is_upper c
      then (if first then [to_lower c] else [underscore; to_lower c]) ++ camel_to_snake_aux false r
      else c :: camel_to_snake_aux false r
  end.
Definition camel_to_snake (x : str) : str := camel_to_snake_aux true x.

(* split on a separator byte: strings.Split(x, sep) for a one-byte separator *)
Fixpoint split_on_aux (sep : ascii) (acc : str) (x : str) : list str :=
  match x with
  | [] => [rev acc]
  | c :: r => if Ascii.eqb c sep then rev acc :: split_on_aux sep [] r
              else split_on_aux sep (c :: acc) r
  end.
Definition split_on (sep : ascii) (x : str) : list str := split_on_aux sep [] x.

Fixpoint join_with (sep : str) (l : list str) : str :=
  match l with
  | [] => []
  | [x] => x
  | x :: r => x ++ sep ++ join_with sep r
  end.

(* clientgen.snakeToUpperCamel: split on '_', upper-case the first byte of every non-empty part, join *)
Definition upper_first (x : str) : str :=
  match x with [] => [] | c :: r => to_upper c :: r end.
Definition snake_to_upper_camel (x : str) : str :=
  List.concat (map upper_first (split_on underscore x)).

(* tsclientgen.snakeToLowerCamel: first part unchanged, others upper-first *)
Definition snake_to_lower_camel (x : str) : str :=
  match split_on underscore x with
  | [] => []
  | p :: r => p ++ List.concat (map upper_first r)
  end.

(* protoc's json_name: drop '_' and upper-case the following letter *)
Fixpoint json_name_aux (up : bool) (x : str) : str :=
  match x with
  | [] => []
  | c :: r => if Ascii.eqb c underscore then json_name_aux true r
              else (if up then to_upper c else c) :: json_name_aux false r
  end.
Definition json_name (x : str) : str := json_name_aux false x.

(* annotations.ExtractPathParams: all leftmost non-overlapping matches of \{([^}]+)\} *)
Fixpoint extract_params_aux (cur : option str) (x : str) : list str :=
  match x with
  | [] => []
  | c :: r =>
      match cur with
      | None => if Ascii.eqb c lbrace then extract_params_aux (Some []) r
                else extract_params_aux None r
      | Some acc =>
          if Ascii.eqb c rbrace then
            match acc with
            | [] => extract_params_aux None r
            | _ => rev acc :: extract_params_aux None r
            end
          else extract_params_aux (Some (c :: acc)) r
      end
  end.
Definition extract_path_params (x : str) : list str := extract_params_aux None x.
