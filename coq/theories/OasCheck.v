(* OasCheck.v — defect classifiers and correspondence predictions for C18 (document well-formedness,
   completeness, format independence) and C19 (rules vs published constraints). *)
From Sebuf Require Export OpenApi.

(* ================================================================================================ *)
(*  C18                                                                                              *)
(* ================================================================================================ *)
Inductive c18_defect :=
  | ShortNameCollision        (* two collected messages share a short name: one component for both *)
  | BuiltinNameCollision      (* a collected message is called Error / ValidationError / FieldViolation *)
  | HeaderCaseDuplicate       (* two header parameters of one operation equal up to letter case *)
  | SharedRoute               (* two RPCs on one (verb, path): the earlier operation is replaced *)
  | DuplicatePathVariable     (* the same variable twice in a template: declared twice *)
  | BasePathVariable          (* a variable in the service base path is not declared *)
  | DuplicateQueryName        (* two query-annotated fields with the same parameter name *)
  | Yaml11BoolWord.           (* a plain scalar that YAML 1.1 reads as a boolean: .json differs from .yaml *)

Definition c18_defect_str (d : c18_defect) : str :=
  match d with
  | ShortNameCollision => s "short-name-collision"
  | BuiltinNameCollision => s "builtin-schema-name-collision"
  | HeaderCaseDuplicate => s "header-name-case-duplicate"
  | SharedRoute => s "shared-route-operation-lost"
  | DuplicatePathVariable => s "duplicate-path-variable"
  | BasePathVariable => s "base-path-variable-undeclared"
  | DuplicateQueryName => s "duplicate-query-name"
  | Yaml11BoolWord => s "yaml11-bool-word"
  end.

Fixpoint has_dup (l : list str) : bool :=
  match l with [] => false | a :: r => mem_str a r || has_dup r end.

Definition builtin_names : list str := [s "Error"; s "FieldViolation"; s "ValidationError"].

(* the messages of the request's own files that the collection visits (library types excluded) *)
Definition collected_messages (sc : schema) (st : cstate) : list str := rev (cs_visited st).

Definition op_header_names (sc : schema) (sv : service) (md : method) : list str :=
  map h_name (filter (fun h => match h_name h with [] => false | _ => true end)
                     (combine_headers (sv_headers sv) (md_headers md))).
Definition op_query_names (sc : schema) (md : method) : list str :=
  map query_name (filter has_query (input_fields sc md)).
Definition template_vars (sv : service) (md : method) : list str := extract_path_params (method_path sv md).
Definition declared_vars (sv : service) (md : method) : list str := path_vars (info_of_method sv md []).

Definition route_keys (sv : service) : list (str * verb) := map (method_key sv) (sv_methods sv).
Fixpoint has_dup_key (l : list (str * verb)) : bool :=
  match l with [] => false | a :: r => existsb (key_eqb a) r || has_dup_key r end.

Definition has_lbrace (x : str) : bool := existsb (Ascii.eqb lbrace) x.

Definition defects_C18 (sc : schema) (sd : side) (sv : service) : list c18_defect :=
  match collect_service sc sd sv, document_y sc sd sv with
  | Some st, Some d =>
      let shorts := map short_name (collected_messages sc st) in
      (if has_dup shorts then [ShortNameCollision] else []) ++
      (if existsb (fun n => mem_str n builtin_names) shorts then [BuiltinNameCollision] else []) ++
      (if existsb (fun md => has_dup (map lower_str (op_header_names sc sv md))) (sv_methods sv) then [HeaderCaseDuplicate] else []) ++
      (if has_dup_key (route_keys sv) then [SharedRoute] else []) ++
      (if existsb (fun md => has_dup (declared_vars sv md)) (sv_methods sv) then [DuplicatePathVariable] else []) ++
      (if has_lbrace (sv_base sv) then [BasePathVariable] else []) ++
      (if existsb (fun md => has_dup (op_query_names sc md)) (sv_methods sv) then [DuplicateQueryName] else []) ++
      (if existsb (fun e => yaml11_bool_word (snd e)) (scalars d) then [Yaml11BoolWord] else [])
  | _, _ => []
  end.

(* case = (schema, side tables, (file index, service index)) *)
Definition nth_service (sc : schema) (fi si : nat) : option service :=
  match nth_error sc fi with Some fl => nth_error (fl_services fl) si | None => None end.

Definition unmodelled (why : string) : json := JObj [(s "unmodelled", JStr (s why))].

Definition predict_C18 (c : schema * side * (nat * nat)) : json :=
  let '(sc, sd, (fi, si)) := c in
  match nth_service sc fi si with
  | None => unmodelled "no such service"
  | Some sv =>
      match components_y sc sd sv, document_y sc sd sv with
      | Some (_, _ :: _), _ => unmodelled "message type outside the request's files (well-known type other than Timestamp)"
      | Some (_, []), Some d =>
          match ynode_unknowns d with
          | _ :: _ => unmodelled "a scalar outside the modelled YAML resolution subset"
          | [] =>
              JObj [(s "tags", jstrs (map c18_defect_str (defects_C18 sc sd sv)));
                    (s "yaml", json_of_jv (dedupe_jv (denote reader12 d)));
                    (s "json", json_of_jv (dedupe_jv (denote reader11 d)))]
          end
      | _, _ => unmodelled "collection ran out of fuel"
      end
  end.

(* files of a run: case = (names of the services of the files to generate in order, plugin option string) *)
Definition predict_C18_files (c : list str * str) : json :=
  let '(svcs, p) := c in
  JObj [(s "tags", jstrs (if has_dup svcs then [s "service-name-collision"] else []));
        (s "files", jstrs (emitted_names p svcs))].

(* ================================================================================================ *)
(*  C19                                                                                              *)
(* ================================================================================================ *)
(* regex and format verdicts are supplied by the harness as tables (pattern/format name, subject) -> bool *)
Definition table_lookup (t : list ((str * str) * bool)) (a b : str) : bool :=
  match find (fun e => str_eqb (fst (fst e)) a && str_eqb (snd (fst e)) b) t with
  | Some e => snd e
  | None => true
  end.
Definition params_of_tables (re fm : list ((str * str) * bool)) : vparams :=
  {| vp_regex := table_lookup re; vp_format := table_lookup fm |}.

Definition c19_unknown (fs : fspec) (r : rules) : bool :=
  negb (tables_ok fs r) ||
  match ynode_unknowns (field_schema_y fs r) with [] => false | _ => true end.

(* the published schema of a rule-carrying field: case = (field, rules) *)
Definition predict_C19_schema (c : fspec * rules) : json :=
  let '(fs, r) := c in
  if negb (rule_kind (fs_kind fs)) then unmodelled "enum or message field" else
  if c19_unknown fs r then unmodelled "numeric literal or scalar outside the modelled subset" else
  JObj [(s "tags", jstrs (map c19_defect_str (defects_C19 fs r)));
        (s "schema", json_of_jv (denote reader12 (field_schema_y fs r)));
        (s "required", JBool (r_required r))].

(* one probe value: case = (field, rules, regex table, value) *)
Definition predict_C19_probe (c : fspec * rules * list ((str * str) * bool) * fvalue) : json :=
  let '(fs, r, re, v) := c in
  let P := annotation_only (table_lookup re) in
  if negb (rule_kind (fs_kind fs)) then unmodelled "enum or message field" else
  if c19_unknown fs r then unmodelled "numeric literal or scalar outside the modelled subset" else
  if negb (typed fs v) then unmodelled "ill-typed probe" else
  JObj [(s "tags", jstrs (map c19_defect_str (defects_C19 fs r)));
        (s "sat", JBool (sat P fs r v));
        (s "wire", json_of_jv (to_json fs v));
        (s "valid", json_of_vres (validates P [] schema_fuel (translate reader12 fs r) (to_json fs v)))].

(* `required` lists of the components a message produces: case = (schema, side, message full name).
   In the flatten shapes only the base object collects `required` (generator.go:489-511); the objects
   holding flattened children (514-539) and the per-variant objects of a flattened oneof (301-352) do not. *)
Definition child_required (sc : schema) (sd : side) (k : kind) : bool :=
  match k with
  | KMessage tn => match lookup_message sc tn with
                   | Some cm => existsb (field_required sd (m_name cm)) (m_fields cm)
                   | None => false end
  | _ => false
  end.
Definition required_dropped (sc : schema) (sd : side) (m : message) : bool :=
  match root_unwrap_field m with
  | Some _ => false
  | None =>
      if has_flatten_fields m
      then existsb (fun f => is_flatten_field f && child_required sc sd (f_kind f)) (m_fields m)
      else has_flattened_oneof m &&
           (existsb (field_required sd (m_name m)) (common_fields m) ||
            existsb (fun o => existsb (fun v => child_required sc sd (f_kind v)) (variants m o)) (filter o_flatten (disc_oneofs m)))
  end.
Definition required_lists (n : ynode) : json :=
  JArr (jstrs (required_of n) ::
        match n with
        | YMap kv => match find (fun e => str_eqb (fst e) (s "allOf")) kv with
                     | Some (_, YSeq l) => map (fun x => jstrs (required_of x)) l
                     | _ => []
                     end
        | _ => []
        end).
Definition predict_C19_required (c : schema * side * str) : json :=
  let '(sc, sd, fq) := c in
  match lookup_message sc fq with
  | None => unmodelled "unknown message"
  | Some m =>
      JObj [(s "tags", jstrs (if required_dropped sc sd m then [s "required-dropped-in-flattened-shape"] else []));
            (s "required", JObj (map (fun e => (fst e, required_lists (snd e))) (omap_of (object_schema_sets sc sd m))))]
  end.

(* validator conformance: case = (components document, schema document, regex table, instance) *)
Definition predict_validator (c : json * json * list ((str * str) * bool) * json) : json :=
  let '(cs, sch, re, inst) := c in
  JObj [(s "tags", JArr []);
        (s "valid", json_of_vres (validates_doc (annotation_only (table_lookup re)) (jv_of_json cs) 40
                                                (jv_of_json sch) (jv_of_json inst)))].
