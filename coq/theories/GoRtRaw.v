(* GoRtRaw.v — the emitted Go server facing an arbitrary (not client-built) request: C02.
   Reuses route lookup, path binding and scalar conversion of GoRt.v and adds repeated query
   parameters (bindQueryParams appends every occurrence to a list field). *)
From Sebuf Require Export GoRt.

Record raw_req := {
  rq_verb : verb;
  rq_path : str;                     (* escaped path of the request target *)
  rq_query : str;                    (* raw query string *)
  rq_ct : ctype;
  rq_body : option (bfmt * mval)     (* None: no body or an empty one; Some: a well-formed body in that format *)
}.

Inductive raw_outcome :=
  | RDispatched (method : str) (saw : mval)
  | RRejected (field : str)
  | RNotRouted.

Definition is_float_kind (k : kind) : bool := match k with KDouble | KFloat => true | _ => false end.

Fixpoint convert_all (k : kind) (xs : list str) : option (list fval) :=
  match xs with
  | [] => Some []
  | x :: r => match convert k x, convert_all k r with
              | Some v, Some t => Some (FS v :: t)
              | _, _ => None
              end
  end.

Definition mset_list (fs : list field) (m : mval) (f : field) (l : list fval) : mval :=
  let m' := mremove m (f_name f) in
  match l with [] => m' | _ => minsert fs m' (f_name f) (FL l) end.

(* bindQueryParams with list support *)
Fixpoint bind_query_raw (fs qfs : list field) (q : list (str * str)) (m : mval) : mval + str :=
  match qfs with
  | [] => inl m
  | f :: r =>
      match query_values q (qname f) with
      | [] => if qrequired f then inr (f_name f) else bind_query_raw fs r q m
      | x :: xs =>
          match f_card f with
          | Repeated =>
              match convert_all (f_kind f) (x :: xs) with
              | Some l => bind_query_raw fs r q (mset_list fs m f l)
              | None => inr (f_name f)
              end
          | _ =>
              match convert (f_kind f) x with
              | Some v => bind_query_raw fs r q (mset_scalar fs m f v)
              | None => inr (f_name f)
              end
          end
      end
  end.

Definition raw_modelled (r : sroute) : bool :=
  forallb (fun v => match find_field (sr_fields r) v with
                    | Some f => negb (is_float_kind (f_kind f)) && match f_card f with Singular => true | _ => false end
                    | None => true end) (rt_pathvars (sr_route r)) &&
  forallb (fun f => negb (is_float_kind (f_kind f)) &&
                    match f_card f with Singular | Repeated => true | _ => false end) (query_fields (sr_fields r)).

Definition raw_handle (rs : list sroute) (rq : raw_req) : result raw_outcome :=
  match rq_path rq with
  | c :: p =>
      let segs := split_on slash p in
      if negb (Ascii.eqb c slash) then Ok RNotRouted else
      (* net/http refuses a request target with a malformed escape before any routing *)
      if match path_unescape (rq_path rq) with Some _ => false | None => true end then Ok RNotRouted else
      if negb (clean_segs segs) then Ok RNotRouted else
      match find_route rs (rq_verb rq) segs with
      | None => Ok RNotRouted
      | Some (r, b) =>
          if negb (raw_modelled r) then Unmodelled (s "URL-bound field of unmodelled kind/cardinality") else
          (* the body is bound first (GoRt.body_start); path then query values are applied on top of it;
             bindQueryParams clears a repeated field before appending the occurrences (mset_list replaces) *)
          match body_start (rt_body (sr_route r)) (rq_ct rq) (rq_body rq) with
          | inr f => Ok (RRejected f)
          | inl m0 =>
              match bind_path (sr_fields r) (rt_pathvars (sr_route r)) b m0 with
              | inr f => Ok (RRejected f)
              | inl m1 =>
                  match bind_query_raw (sr_fields r) (query_fields (sr_fields r)) (parse_query (rq_query rq)) m1 with
                  | inr f => Ok (RRejected f)
                  | inl m2 => Ok (RDispatched (md_name (sr_md r)) m2)
                  end
              end
          end
      end
  | [] => Ok RNotRouted
  end.

(* ---- what the property demands ----------------------------------------------------------------- *)
(* No defect class is left: since the body is bound before the URL values, the URL's values reach the
   handler whatever the body says (the former class "body-resets-url-fields" is repaired). *)
Inductive c02_defect : Set := .

Definition c02_defect_str (d : c02_defect) : str := match d with end.

(* the body mentions none of the URL-bound fields *)
Definition body_omits (v : mval) (names : list str) : bool :=
  forallb (fun n => match mget v n with Some _ => false | None => true end) names.

Definition url_bound_names (r : sroute) : list str :=
  rt_pathvars (sr_route r) ++ map f_name (query_fields (sr_fields r)).

Definition defects_C02 (rs : list sroute) (rq : raw_req) : list c02_defect := [].

Definition raw_outcome_json (o : raw_outcome) : json :=
  match o with
  | RDispatched m saw => JObj [(s "class", JStr (s "dispatched")); (s "method", JStr m); (s "handler_saw", json_of_mval saw)]
  | RRejected f => JObj [(s "class", JStr (s "rejected")); (s "field", JStr f)]
  | RNotRouted => JObj [(s "class", JStr (s "not-routed"))]
  end.

(* case = (schema, service, verb number, escaped path, raw query, content type, body) *)
Definition c02_case := (schema * str * nat * str * str * nat * option (nat * mval))%type.

Definition predict_C02 (c : c02_case) : json :=
  let '(sc, svn, vn, path, query, ctn, body) := c in
  match find_service sc svn, verb_of_nat vn with
  | Some (fl, sv), Some v =>
      match server_routes sc fl sv with
      | Unmodelled why => JObj [(s "unmodelled", JStr why)]
      | Ok None => JObj [(s "unmodelled", JStr (s "registration panics"))]
      | Ok (Some rs) =>
          let rq := {| rq_verb := v; rq_path := path; rq_query := query; rq_ct := ctype_of_nat ctn;
                       rq_body := match body with
                                  | Some (fn, m) => Some (match fn with 0 => BJson | _ => BBin end, m)
                                  | None => None end |} in
          match raw_handle rs rq with
          | Unmodelled why => JObj [(s "unmodelled", JStr why)]
          | Ok o => JObj [(s "tags", jstrs (map c02_defect_str (defects_C02 rs rq))); (s "outcome", raw_outcome_json o)]
          end
      end
  | _, _ => JObj [(s "unmodelled", JStr (s "no such service or verb"))]
  end.
