(* CodecText.v — text codecs used by protojson, encoding/json and the emitted codecs:
   base64 (std/url alphabet x padded/raw), hex, canonical decimal integers, RFC 3339 timestamps
   and civil dates.  base64/hex/decimal are modelled bit-exactly and their round trips are PROVED for
   all byte lists / integers in proofs/CodecTextFacts.v.  The calendar functions are executable
   definitions used by the concrete library instance [Ext.E0]; theorems only use their round-trip
   LAWS as hypotheses (ExtLaws), and every correspondence run compares them with Go's time package. *)
From Sebuf Require Export Text Json.
From Coq Require Import DecimalString DecimalN.

(* ---- result type of the codec models -------------------------------------------------------- *)
Inductive res (A : Type) :=
  | ROk (a : A)
  | RErr (e : str)          (* the implementation returns an error (class only; prose never compared) *)
  | RUnm (why : str).       (* outside the model's domain *)
Arguments ROk {A} a.
Arguments RErr {A} e.
Arguments RUnm {A} why.

Definition rbind {A B} (x : res A) (f : A -> res B) : res B :=
  match x with ROk a => f a | RErr e => RErr e | RUnm w => RUnm w end.
Notation "x >>= f" := (rbind x f) (at level 50, left associativity).
Definition rmap {A B} (f : A -> B) (x : res A) : res B := x >>= (fun a => ROk (f a)).
Definition of_opt {A} (e : str) (x : option A) : res A := match x with Some a => ROk a | None => RErr e end.

Fixpoint rall {A} (l : list (res A)) : res (list A) :=
  match l with
  | [] => ROk []
  | x :: r => x >>= (fun a => rall r >>= (fun t => ROk (a :: t)))
  end.

(* ---- base64 ------------------------------------------------------------------------------------ *)
(* a sextet, most significant bit first *)
Definition sext := (bool * bool * bool * bool * bool * bool)%type.

Definition sext_val (x : sext) : N :=
  let '(a, b, c, d, e, f) := x in
  (N.b2n a * 32 + N.b2n b * 16 + N.b2n c * 8 + N.b2n d * 4 + N.b2n e * 2 + N.b2n f)%N.
Definition sext_of_N (n : N) : sext :=
  (N.testbit n 5, N.testbit n 4, N.testbit n 3, N.testbit n 2, N.testbit n 1, N.testbit n 0).

(* alphabet: url=false: A-Z a-z 0-9 + /   url=true: A-Z a-z 0-9 - _ *)
Definition b64_char (url : bool) (x : sext) : ascii :=
  let n := sext_val x in
  if (n <? 26)%N then ch (65 + n)
  else if (n <? 52)%N then ch (71 + n)
  else if (n <? 62)%N then ch (n - 4)
  else if (n =? 62)%N then (if url then "-"%char else "+"%char)
  else (if url then "_"%char else "/"%char).

Definition b64_val (url : bool) (c : ascii) : option sext :=
  let n := code c in
  if is_upper c then Some (sext_of_N (n - 65))
  else if is_lower c then Some (sext_of_N (n - 71))
  else if is_digit c then Some (sext_of_N (n + 4))
  else if Ascii.eqb c (if url then "-"%char else "+"%char) then Some (sext_of_N 62)
  else if Ascii.eqb c (if url then "_"%char else "/"%char) then Some (sext_of_N 63)
  else None.

Definition padc : ascii := "="%char.

(* bytes are [Ascii b0 .. b7], b0 least significant *)
Definition enc3 (url : bool) (a b c : ascii) : str :=
  let '(Ascii a0 a1 a2 a3 a4 a5 a6 a7) := a in
  let '(Ascii b0 b1 b2 b3 b4 b5 b6 b7) := b in
  let '(Ascii c0 c1 c2 c3 c4 c5 c6 c7) := c in
  [b64_char url (a7, a6, a5, a4, a3, a2); b64_char url (a1, a0, b7, b6, b5, b4);
   b64_char url (b3, b2, b1, b0, c7, c6); b64_char url (c5, c4, c3, c2, c1, c0)].
Definition enc2 (url pad : bool) (a b : ascii) : str :=
  let '(Ascii a0 a1 a2 a3 a4 a5 a6 a7) := a in
  let '(Ascii b0 b1 b2 b3 b4 b5 b6 b7) := b in
  [b64_char url (a7, a6, a5, a4, a3, a2); b64_char url (a1, a0, b7, b6, b5, b4);
   b64_char url (b3, b2, b1, b0, false, false)] ++ (if pad then [padc] else []).
Definition enc1 (url pad : bool) (a : ascii) : str :=
  let '(Ascii a0 a1 a2 a3 a4 a5 a6 a7) := a in
  [b64_char url (a7, a6, a5, a4, a3, a2); b64_char url (a1, a0, false, false, false, false)]
  ++ (if pad then [padc; padc] else []).

(* base64.{Std,URL,RawStd,RawURL}Encoding.EncodeToString *)
Fixpoint b64_enc (url pad : bool) (x : str) : str :=
  match x with
  | [] => []
  | [a] => enc1 url pad a
  | [a; b] => enc2 url pad a b
  | a :: b :: c :: r => enc3 url a b c ++ b64_enc url pad r
  end.

Definition dec4 (s1 s2 s3 s4 : sext) : str :=
  let '(a7, a6, a5, a4, a3, a2) := s1 in
  let '(a1, a0, b7, b6, b5, b4) := s2 in
  let '(b3, b2, b1, b0, c7, c6) := s3 in
  let '(c5, c4, c3, c2, c1, c0) := s4 in
  [Ascii a0 a1 a2 a3 a4 a5 a6 a7; Ascii b0 b1 b2 b3 b4 b5 b6 b7; Ascii c0 c1 c2 c3 c4 c5 c6 c7].
(* non-strict decoding: the unused low bits of the last sextet are ignored, as Go does *)
Definition dec3 (s1 s2 s3 : sext) : str :=
  let '(a7, a6, a5, a4, a3, a2) := s1 in
  let '(a1, a0, b7, b6, b5, b4) := s2 in
  let '(b3, b2, b1, b0, _, _) := s3 in
  [Ascii a0 a1 a2 a3 a4 a5 a6 a7; Ascii b0 b1 b2 b3 b4 b5 b6 b7].
Definition dec2 (s1 s2 : sext) : str :=
  let '(a7, a6, a5, a4, a3, a2) := s1 in
  let '(a1, a0, _, _, _, _) := s2 in
  [Ascii a0 a1 a2 a3 a4 a5 a6 a7].

Definition vals2 url c1 c2 : option str :=
  match b64_val url c1, b64_val url c2 with Some s1, Some s2 => Some (dec2 s1 s2) | _, _ => None end.
Definition vals3 url c1 c2 c3 : option str :=
  match b64_val url c1, b64_val url c2, b64_val url c3 with
  | Some s1, Some s2, Some s3 => Some (dec3 s1 s2 s3) | _, _, _ => None end.
Definition vals4 url c1 c2 c3 c4 : option str :=
  match b64_val url c1, b64_val url c2, b64_val url c3, b64_val url c4 with
  | Some s1, Some s2, Some s3, Some s4 => Some (dec4 s1 s2 s3 s4) | _, _, _, _ => None end.

(* DecodeString of the same four encodings (CR/LF skipping of Go's decoder is not modelled: the
   callers return RUnm on such input). *)
Fixpoint b64_dec (url pad : bool) (x : str) : option str :=
  match x with
  | [] => Some []
  | [_] => None
  | [c1; c2] => if pad then None else vals2 url c1 c2
  | [c1; c2; c3] => if pad then None else vals3 url c1 c2 c3
  | c1 :: c2 :: c3 :: c4 :: r =>
      match r with
      | [] =>
          if pad && Ascii.eqb c4 padc
          then (if Ascii.eqb c3 padc then vals2 url c1 c2 else vals3 url c1 c2 c3)
          else vals4 url c1 c2 c3 c4
      | _ => match vals4 url c1 c2 c3 c4, b64_dec url pad r with
             | Some h, Some t => Some (h ++ t)
             | _, _ => None
             end
      end
  end.

Definition has_crlf (x : str) : bool := existsb (fun c => (code c =? 10)%N || (code c =? 13)%N) x.

(* ---- hex ---------------------------------------------------------------------------------------- *)
Definition nib := (bool * bool * bool * bool)%type.  (* most significant first *)
Definition nib_val (x : nib) : N :=
  let '(a, b, c, d) := x in (N.b2n a * 8 + N.b2n b * 4 + N.b2n c * 2 + N.b2n d)%N.
Definition nib_of_N (n : N) : nib := (N.testbit n 3, N.testbit n 2, N.testbit n 1, N.testbit n 0).
Definition hex_char (x : nib) : ascii :=
  let n := nib_val x in if (n <? 10)%N then ch (48 + n) else ch (87 + n).
Definition hex_val (c : ascii) : option nib :=
  let n := code c in
  if is_digit c then Some (nib_of_N (n - 48))
  else if (97 <=? n)%N && (n <=? 102)%N then Some (nib_of_N (n - 87))
  else if (65 <=? n)%N && (n <=? 70)%N then Some (nib_of_N (n - 55))
  else None.

(* hex.EncodeToString *)
Fixpoint hex_enc (x : str) : str :=
  match x with
  | [] => []
  | Ascii b0 b1 b2 b3 b4 b5 b6 b7 :: r => hex_char (b7, b6, b5, b4) :: hex_char (b3, b2, b1, b0) :: hex_enc r
  end.
(* hex.DecodeString *)
Fixpoint hex_dec (x : str) : option str :=
  match x with
  | [] => Some []
  | [_] => None
  | c1 :: c2 :: r =>
      match hex_val c1, hex_val c2, hex_dec r with
      | Some (b7, b6, b5, b4), Some (b3, b2, b1, b0), Some t => Some (Ascii b0 b1 b2 b3 b4 b5 b6 b7 :: t)
      | _, _, _ => None
      end
  end.

(* ---- canonical decimal integers ------------------------------------------------------------------ *)
(* printing is Json.show_Z (strconv.FormatInt / protojson's 64-bit strings); parsing accepts exactly
   the canonical spelling (optional '-', no leading zeros, no "-0"): JSON number grammar restricted to
   integers.  Exponent/fraction spellings of integers are outside the model (callers say RUnm). *)
Definition dec_parse_N (x : str) : option N :=
  option_map N.of_uint (NilEmpty.uint_of_string (string_of_list_ascii x)).

Definition Z_of_dec (x : str) : option Z :=
  let r := match x with
           | c :: t => if Ascii.eqb c "-"%char then option_map (fun n => (- Z.of_N n)%Z) (dec_parse_N t)
                       else option_map Z.of_N (dec_parse_N x)
           | [] => None
           end in
  match r with
  | Some z => if str_eqb (show_Z z) x then Some z else None
  | None => None
  end.

Definition looks_numeric_noncanonical (x : str) : bool :=
  existsb (fun c => Ascii.eqb c "."%char || Ascii.eqb c "e"%char || Ascii.eqb c "E"%char || Ascii.eqb c "+"%char) x.

(* ---- civil calendar (proleptic Gregorian), seconds since the Unix epoch ------------------------------ *)
Open Scope Z_scope.

Definition civil_of_days (z0 : Z) : Z * Z * Z :=
  let z := z0 + 719468 in
  let era := z / 146097 in
  let doe := z - era * 146097 in
  let yoe := (doe - doe / 1460 + doe / 36524 - doe / 146096) / 365 in
  let y := yoe + era * 400 in
  let doy := doe - (365 * yoe + yoe / 4 - yoe / 100) in
  let mp := (5 * doy + 2) / 153 in
  let d := doy - (153 * mp + 2) / 5 + 1 in
  let m := if mp <? 10 then mp + 3 else mp - 9 in
  ((if m <=? 2 then y + 1 else y), m, d).

Definition days_of_civil (y0 m d : Z) : Z :=
  let y := if m <=? 2 then y0 - 1 else y0 in
  let era := y / 400 in
  let yoe := y - era * 400 in
  let doy := (153 * (if 2 <? m then m - 3 else m + 9) + 2) / 5 + d - 1 in
  let doe := yoe * 365 + yoe / 4 - yoe / 100 + doy in
  era * 146097 + doe - 719468.

(* zero-padded decimal of a non-negative number *)
Definition pad_dec (width : nat) (n : Z) : str :=
  let d := show_Z n in
  repeat "0"%char (width - List.length d) ++ d.

Definition date_text_of_days (days : Z) : str :=
  let '(y, m, d) := civil_of_days days in
  pad_dec 4 y ++ "-"%char :: pad_dec 2 m ++ "-"%char :: pad_dec 2 d.

Definition hms_text (rem : Z) : str :=
  pad_dec 2 (rem / 3600) ++ ":"%char :: pad_dec 2 ((rem mod 3600) / 60) ++ ":"%char :: pad_dec 2 (rem mod 60).

(* protojson: "2006-01-02T15:04:05.000000000" with "000" trimmed twice, then ".000", then "Z" *)
Definition frac_pj (nanos : Z) : str :=
  if nanos =? 0 then []
  else if nanos mod 1000000 =? 0 then "."%char :: pad_dec 3 (nanos / 1000000)
  else if nanos mod 1000 =? 0 then "."%char :: pad_dec 6 (nanos / 1000)
  else "."%char :: pad_dec 9 nanos.

Fixpoint strip_trailing_zeros_rev (x : str) : str :=
  match x with
  | c :: r => if Ascii.eqb c "0"%char then strip_trailing_zeros_rev r else x
  | [] => []
  end.
(* time.RFC3339Nano: fractional digits with trailing zeros removed *)
Definition frac_nano (nanos : Z) : str :=
  if nanos =? 0 then [] else "."%char :: rev (strip_trailing_zeros_rev (rev (pad_dec 9 nanos))).

Definition ts_text_with (frac : Z -> str) (sec nanos : Z) : str :=
  date_text_of_days (sec / 86400) ++ "T"%char :: hms_text (sec mod 86400) ++ frac nanos ++ ["Z"%char].

(* fixed-width digit fields *)
Fixpoint take_digits (n : nat) (x : str) : option (Z * str) :=
  match n with
  | O => Some (0, x)
  | S n' =>
      match x with
      | c :: r => if is_digit c
                  then match take_digits n' r with
                       | Some (v, t) => Some (Z.of_N (code c - 48) * 10 ^ Z.of_nat n' + v, t)
                       | None => None
                       end
                  else None
      | [] => None
      end
  end.

Definition expect (c : ascii) (x : str) : option str :=
  match x with c' :: r => if Ascii.eqb c c' then Some r else None | [] => None end.

Definition valid_date (y m d : Z) : bool :=
  (1 <=? m) && (m <=? 12) && (1 <=? d) &&
  (let '(y', m', d') := civil_of_days (days_of_civil y m d) in (y' =? y) && (m' =? m) && (d' =? d)).

(* "2006-01-02" -> days since epoch *)
Definition parse_date_prefix (x : str) : option (Z * str) :=
  match take_digits 4 x with
  | Some (y, r1) =>
    match expect "-"%char r1 with
    | Some r2 =>
      match take_digits 2 r2 with
      | Some (m, r3) =>
        match expect "-"%char r3 with
        | Some r4 =>
          match take_digits 2 r4 with
          | Some (d, r5) => if valid_date y m d then Some (days_of_civil y m d, r5) else None
          | None => None
          end
        | None => None
        end
      | None => None
      end
    | None => None
    end
  | None => None
  end.

Fixpoint span_digits (x : str) : str * str :=
  match x with
  | c :: r => if is_digit c then let '(a, b) := span_digits r in (c :: a, b) else ([], x)
  | [] => ([], [])
  end.

Definition digits_val (x : str) : Z :=
  fold_left (fun acc c => acc * 10 + Z.of_N (code c - 48)) x 0.

(* time.Parse(time.RFC3339Nano, x) restricted to the spellings Go's formatter produces plus numeric
   offsets; returns (seconds, nanos).  More than nine fractional digits: not modelled (None is
   returned and callers treat the text as an error; such input is never generated). *)
Definition parse_rfc3339 (x : str) : option (Z * Z) :=
  match parse_date_prefix x with
  | Some (days, r0) =>
    match expect "T"%char r0 with
    | Some r1 =>
      match take_digits 2 r1 with
      | Some (h, r2) =>
        match expect ":"%char r2 with
        | Some r3 =>
          match take_digits 2 r3 with
          | Some (mi, r4) =>
            match expect ":"%char r4 with
            | Some r5 =>
              match take_digits 2 r5 with
              | Some (se, r6) =>
                if (h <=? 23) && (mi <=? 59) && (se <=? 59) then
                  let '(nanos, r7, okf) :=
                    match r6 with
                    | c :: t => if Ascii.eqb c "."%char
                                then let '(ds, rest) := span_digits t in
                                     let n := List.length ds in
                                     (digits_val ds * 10 ^ (9 - Z.of_nat n), rest, (1 <=? n)%nat && (n <=? 9)%nat)
                                else (0, r6, true)
                    | [] => (0, r6, true)
                    end in
                  if okf then
                    let base := days * 86400 + h * 3600 + mi * 60 + se in
                    match r7 with
                    | [z] => if Ascii.eqb z "Z"%char then Some (base, nanos) else None
                    | sg :: t =>
                        if Ascii.eqb sg "+"%char || Ascii.eqb sg "-"%char then
                          match take_digits 2 t with
                          | Some (oh, t1) =>
                            match expect ":"%char t1 with
                            | Some t2 =>
                              match take_digits 2 t2 with
                              | Some (om, []) =>
                                  if (oh <=? 23) && (om <=? 59) then
                                    let off := oh * 3600 + om * 60 in
                                    Some ((if Ascii.eqb sg "+"%char then base - off else base + off), nanos)
                                  else None
                              | _ => None
                              end
                            | None => None
                            end
                          | None => None
                          end
                        else None
                    | [] => None
                    end
                  else None
                else None
              | None => None
              end
            | None => None
            end
          | None => None
          end
        | None => None
        end
      | None => None
      end
    | None => None
    end
  | None => None
  end.

(* time.Parse("2006-01-02", x) -> seconds at UTC midnight *)
Definition parse_date (x : str) : option Z :=
  match parse_date_prefix x with
  | Some (days, []) => Some (days * 86400)
  | _ => None
  end.

Definition ts_min_sec : Z := -62135596800.
Definition ts_max_sec : Z := 253402300799.
Definition ts_in_range (sec nanos : Z) : bool :=
  (ts_min_sec <=? sec) && (sec <=? ts_max_sec) && (0 <=? nanos) && (nanos <=? 999999999).
Close Scope Z_scope.
