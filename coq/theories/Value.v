(* Value.v — message values.  A message value lists its POPULATED fields only (non-default for
   implicit-presence scalars, set for explicit presence), in field-number order; map entries are
   sorted by key.  Two messages are proto-equal iff their values are equal terms. *)
From Sebuf Require Export Schema Json.

Inductive sval :=
  | VInt (z : Z)          (* every integer kind *)
  | VBool (b : bool)
  | VStr (x : str)        (* UTF-8 bytes *)
  | VBytes (x : str)
  | VFloat (bits : Z)     (* IEEE-754 bit pattern (32 or 64 bits by kind) *)
  | VEnum (n : Z).

Inductive fval :=
  | FS (v : sval)
  | FM (m : list (str * fval))
  | FL (l : list fval)
  | FMap (kv : list (sval * fval)).

Definition mval := list (str * fval).

Definition hexd (n : N) : ascii := if (n <? 10)%N then ch (48 + n) else ch (87 + n).
Definition hex_of_bytes (x : str) : str :=
  flat_map (fun c => [hexd (code c / 16); hexd (code c mod 16)]) x.

(* canonical JSON rendering of values used on both sides of the correspondence check *)
Definition json_of_sval (v : sval) : json :=
  match v with
  | VInt z => JNum z
  | VBool b => JBool b
  | VStr x => JStr x
  | VBytes x => JObj [(s "hex", JStr (hex_of_bytes x))]
  | VFloat b => JObj [(s "fbits", JNum b)]
  | VEnum n => JObj [(s "enum", JNum n)]
  end.

Fixpoint json_of_fval (v : fval) : json :=
  match v with
  | FS x => json_of_sval x
  | FM m => JObj ((fix go (m : list (str * fval)) : list (str * json) :=
                     match m with [] => [] | (k, x) :: r => (k, json_of_fval x) :: go r end) m)
  | FL l => JArr ((fix go (l : list fval) : list json :=
                     match l with [] => [] | x :: r => json_of_fval x :: go r end) l)
  | FMap kv => JObj [(s "map", JArr ((fix go (kv : list (sval * fval)) : list json :=
                     match kv with [] => [] | (k, x) :: r => JArr [json_of_sval k; json_of_fval x] :: go r end) kv))]
  end.
Definition json_of_mval (m : mval) : json := json_of_fval (FM m).

Fixpoint mget (m : mval) (k : str) : option fval :=
  match m with
  | [] => None
  | (k', v) :: r => if str_eqb k k' then Some v else mget r k
  end.
