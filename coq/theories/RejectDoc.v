(* RejectDoc.v — the DOCUMENT of a 400 answer of the emitted Go server (C11: "... or answers HTTP 400 with a
   well-formed validation error").
     internal/httpgen/generator.go:343-356  body:  Description = "failed to parse request body: " ++ err text
     internal/httpgen/generator.go:500-508  path:  "invalid value for path parameter <p>: " ++ err text
     internal/httpgen/generator.go:556-584  query: "invalid value for query parameter <q>: " ++ err text
     internal/httpgen/generator.go:930-960  writeProtoMessageResponse: protojson.Marshal / proto.Marshal of the
                                            ValidationError; when marshalling FAILS the answer is
                                            http.Error(w, "error processing request", 400) — plain text
   The error texts quote the offending input: protojson quotes the raw token (unknown key, wrongly typed
   value) byte for byte; strconv's NumError quotes the URL value with strconv.Quote, which keeps printable
   characters and turns every byte that is not valid UTF-8 into an ASCII escape.  Both marshallers refuse a
   string field that is not valid UTF-8.  So the document is a ValidationError exactly when the description
   (wording ++ quoted token ++ wording) is valid UTF-8; the description is never shortened. *)
From Sebuf Require Export Malformed Headers.

Inductive reject_site := RSBody | RSPath | RSQuery.

Fixpoint rep_tok (n : nat) (u : str) : str := match n with O => [] | S k => u ++ rep_tok k u end.

(* the token as it stands in the description *)
Definition quoted_token (site : reject_site) (token : str) : option str :=
  match site with
  | RSBody => Some token
  | RSPath | RSQuery => if utf8_valid token then Some token else None  (* escapes of strconv.Quote: not modelled *)
  end.

Definition description (before token after : str) : str := before ++ token ++ after.

Inductive reject_doc := RDValidation (field : str) | RDPlainText.

Definition go_reject_doc (field before token after : str) : reject_doc :=
  if utf8_valid (description before token after) then RDValidation field else RDPlainText.

(* what the property demands of every rejection *)
Definition well_formed_doc (d : reject_doc) : bool := match d with RDValidation _ => true | RDPlainText => false end.

Definition site_of_nat (n : nat) : reject_site := match n with 0 => RSBody | 1 => RSPath | _ => RSQuery end.

(* case = (site, violation field, token = pad ++ n copies of unit); the library wording around the token
   is ASCII (protobuf-go's U+00A0 after "proto:" included or not: valid UTF-8 either way) and is not
   compared *)
Definition c11_reject_case := (nat * str * str * nat * str)%type.
Definition predict_C11_reject (c : c11_reject_case) : json :=
  let '(site, field, pad, n, unit) := c in
  let token := pad ++ rep_tok n unit in
  match quoted_token (site_of_nat site) token with
  | None => JObj [(s "unmodelled", JStr (s "URL value that is not valid UTF-8 (strconv.Quote escapes)"))]
  | Some q =>
      match go_reject_doc field (s "wording: ") q (s " :wording") with
      | RDValidation f =>
          JObj [(s "tags", JArr []); (s "outcome", JStr (s "rejected")); (s "document", JStr (s "validation-error")); (s "fields", jstrs [f])]
      | RDPlainText =>
          JObj [(s "tags", jstrs [s "z3:400-body-not-a-validation-error"]); (s "outcome", JStr (s "rejected"));
                (s "document", JStr (s "plain-text")); (s "fields", JArr [])]
      end
  end.
