(* OpenApi.v — the OpenAPI 3.1 document protoc-gen-openapiv3 emits for one service, as the YAML node
   tree handed to the emitter (Yaml.v), transcribed from
     cmd/protoc-gen-openapiv3/main.go   (per-service generator, file naming, format parsing)
     internal/openapiv3/generator.go    (message collection, object schemas, operations, parameters)
     internal/openapiv3/types.go        (field schemas, headers)
     internal/openapiv3/validation.go   (through Rules.v)
   Annotation-only content (description, summary, example on headers, deprecated) is not modelled;
   the harness strips it from the observed documents before comparing.

   Public interface (C06 / C18 / C19):
     side, side_rules, side_examples               per-field tables the Schema.v AST does not carry
     short_name, ref_to, convert_scalar, convert_field, object_schema, process_message
     service_sets, components_y, operations, paths_y, document_y : ... -> option ynode
     doc_components R / doc_component_schemas R    typed component schemas under a reader
     emitted_files, format_of_param                 which files a run produces
     refs_of, defects_C18, predict_C18 *)
From Sebuf Require Export Schema Yaml Rules Route.

(* ---- side tables ------------------------------------------------------------------------------- *)
Record side := {
  sd_rules : list ((str * str) * rules);          (* (message full name, field name) -> rules *)
  sd_examples : list ((str * str) * list str)     (* (message full name, field name) -> field_examples *)
}.
Definition no_side : side := {| sd_rules := []; sd_examples := [] |}.

Definition key2_eqb (a b : str * str) : bool := str_eqb (fst a) (fst b) && str_eqb (snd a) (snd b).
Definition side_rules (sd : side) (mn fn : str) : rules :=
  match find (fun e => key2_eqb (fst e) (mn, fn)) (sd_rules sd) with Some e => snd e | None => no_rules end.
Definition side_examples (sd : side) (mn fn : str) : list str :=
  match find (fun e => key2_eqb (fst e) (mn, fn)) (sd_examples sd) with Some e => snd e | None => [] end.

(* ---- names -------------------------------------------------------------------------------------- *)
Definition dot : ascii := "."%char.
(* message.Desc.Name(): the last component of the full name (generator.go:153-158) *)
Definition short_name (fq : str) : str := last (split_on dot fq) [].
Definition ref_to (short : str) : ynode := YMap [(s "$ref", YStr (ref_prefix ++ short))].
Definition timestamp_fq : str := s "google.protobuf.Timestamp".

(* descriptor view of google.protobuf.Timestamp, which is not part of the request's own files *)
Definition plain_field (name : str) (num : Z) (k : kind) (c : card) : field :=
  {| f_name := name; f_number := num; f_kind := k; f_card := c; f_oneof := None; f_query := None; f_unwrap := false;
     f_int64 := None; f_enumenc := None; f_nullable := None; f_empty := None; f_tsfmt := None; f_bytesenc := None;
     f_oneof_value := None; f_flatten := None; f_flatten_prefix := None |}.
Definition timestamp_message : message :=
  {| m_name := timestamp_fq; m_path := [s "Timestamp"];
     m_fields := [plain_field (s "seconds") 1 KInt64 Singular; plain_field (s "nanos") 2 KInt32 Singular];
     m_oneofs := [] |}.

Definition lookup_message (sc : schema) (fq : str) : option message :=
  match find_message (all_messages sc) fq with
  | Some m => Some m
  | None => if str_eqb fq timestamp_fq then Some timestamp_message else None
  end.

(* protoc's map-entry name: UpperCamel(field) ++ "Entry" *)
Definition entry_name (fname : str) : str := snake_to_upper_camel fname ++ s "Entry".

Definition is_map (f : field) : bool := match f_card f with MapOf _ => true | _ => false end.
Definition is_list (f : field) : bool := match f_card f with Repeated => true | _ => false end.
Definition is_msg_kind (k : kind) : bool := match k with KMessage _ => true | _ => false end.
Definition i64_number (f : field) : bool := match f_int64 f with Some I64Number => true | _ => false end.

(* ---- field schemas (types.go) ------------------------------------------------------------------- *)
Section WithSchema.
Variable sc : schema.
Variable sd : side.

(* types.go:196-252 convertEnumField *)
Definition enum_schema (f : field) (tn : str) : ynode :=
  match find_enum (all_enums sc) tn with
  | None => YMap [(s "type", ystr "string")]
  | Some e =>
      match f_enumenc f with
      | Some EENumber =>
          YMap [(s "type", ystr "integer"); (s "enum", YSeq (map (fun v => YNum (dec_of_Z (ev_number v))) (e_values e)))]
      | _ =>
          YMap [(s "type", ystr "string");
                (s "enum", YSeq (map (fun v => YPlain (match ev_custom v with
                                                       | Some c => match c with [] => ev_name v | _ => c end
                                                       | None => ev_name v end)) (e_values e)))]
      end
  end.

(* types.go:428-462 convertTimestampField *)
Definition timestamp_schema (f : field) : ynode :=
  match f_tsfmt f with
  | Some TFUnixSeconds => YMap [(s "type", ystr "integer"); (s "format", ystr "unix-timestamp")]
  | Some TFUnixMillis => YMap [(s "type", ystr "integer"); (s "format", ystr "unix-timestamp-ms")]
  | Some TFDate => YMap [(s "type", ystr "string"); (s "format", ystr "date")]
  | _ => YMap [(s "type", ystr "string"); (s "format", ystr "date-time")]
  end.

Definition bytes_entries (f : field) : list (str * ynode) :=
  match f_bytesenc f with
  | Some BEHex => [(s "type", ystr "string"); (s "format", ystr "hex"); (s "pattern", ystr "^[0-9a-fA-F]*$")]
  | Some BEBase64Url | Some BEBase64UrlRaw => [(s "type", ystr "string"); (s "format", ystr "base64url")]
  | _ => [(s "type", ystr "string"); (s "format", ystr "byte")]
  end.

Definition example_entries (exs : list str) : list (str * ynode) :=
  match exs with
  | [] => []
  | e :: _ => [(s "examples", YSeq (map YPlain exs)); (s "example", YPlain e)]
  end.

(* types.go:104-192 convertScalarField.  [mn] = full name of the message that declares f (keys the
   side tables); a synthetic map-entry value field has no options, so callers pass a bare field. *)
Definition convert_scalar (mn : str) (f : field) : ynode :=
  match f_kind f with
  | KEnum tn => enum_schema f tn
  | KMessage tn =>
      if is_timestamp (f_kind f) then timestamp_schema f else ref_to (short_name tn)
  | k =>
      YMap ((match k with KBytes => bytes_entries f | _ => base_entries k (i64_number f) end)
            ++ constraint_entries k (is_list f) (is_map f) (side_rules sd mn (f_name f))
            ++ example_entries (side_examples sd mn (f_name f)))
  end.

(* the value field of a map entry: same kind, no options *)
Definition bare_value_field (f : field) : field := plain_field (s "value") 2 (f_kind f) Singular.
Definition bare_key_field (k : kind) : field := plain_field (s "key") 1 k Singular.

(* annotations.FindUnwrapField: the first field with unwrap = true that is a list *)
Definition find_unwrap_field (m : message) : option field :=
  find (fun f => f_unwrap f && is_list f) (m_fields m).

Definition array_of (item : ynode) : ynode := YMap [(s "type", ystr "array"); (s "items", item)].

(* types.go:270-292 getMapValueSchema *)
Definition map_value_schema (f : field) : ynode :=
  let plain := convert_scalar [] (bare_value_field f) in
  match f_kind f with
  | KMessage tn =>
      match lookup_message sc tn with
      | Some vm => match find_unwrap_field vm with
                   | Some uf => array_of (convert_scalar (m_name vm) uf)
                   | None => plain end
      | None => plain
      end
  | _ => plain
  end.

(* types.go:86-99 makeNullableSchema, first step: "null" appended to a non-empty type list *)
Definition add_null_type (n : ynode) : ynode :=
  match n with
  | YMap kv =>
      YMap (map (fun e => if str_eqb (fst e) (s "type")
                          then (fst e, match snd e with
                                       | YStr t => YSeq [YGoStr t; YGoStr (s "null")]
                                       | YSeq l => YSeq (l ++ [YGoStr (s "null")])
                                       | x => x end)
                          else e) kv)
  | _ => n
  end.
(* types.go:101-105 makeNullableSchema, second step (the repair of nullable-enum-null-not-in-enum): a
   node tagged !!null is appended to a non-empty `enum` list, whatever put the keyword there - the
   names / enum_value strings / numbers of an enum field (convertEnumField), or the `in` list of a
   string or numeric field (validation.go, through extractValidationConstraints).  A $ref (message
   kinds) has neither keyword and stays as it is. *)
Definition add_null_enum (n : ynode) : ynode :=
  match n with
  | YMap kv =>
      YMap (map (fun e => if str_eqb (fst e) (s "enum")
                          then (fst e, match snd e with
                                       | YSeq (a :: l) => YSeq ((a :: l) ++ [YNull])
                                       | x => x end)
                          else e) kv)
  | _ => n
  end.
Definition make_nullable (n : ynode) : ynode := add_null_enum (add_null_type n).

(* types.go:30-68 convertField *)
Definition convert_field (mn : str) (f : field) : ynode :=
  let k := f_kind f in
  let r := side_rules sd mn (f_name f) in
  match f_card f with
  | Repeated =>
      YMap ([(s "type", ystr "array"); (s "items", convert_scalar mn f)]
            ++ constraint_entries k true false r)
  | MapOf _ =>
      YMap ([(s "type", ystr "object"); (s "additionalProperties", map_value_schema f)]
            ++ constraint_entries (KMessage []) false true r)
  | _ =>
      let base := convert_scalar mn f in
      match f_nullable f with
      | Some true => make_nullable base
      | _ =>
          if is_msg_kind k && match f_empty f with Some EBNull => true | _ => false end
          then YMap [(s "oneOf", YSeq [base; YMap [(s "type", ystr "null")]])]
          else base
      end
  end.

(* orderedmap.Set: a repeated key keeps its position and takes the new value *)
Fixpoint omap_set {A} (k : str) (v : A) (l : list (str * A)) : list (str * A) :=
  match l with
  | [] => [(k, v)]
  | (k', v') :: r => if str_eqb k k' then (k, v) :: r else (k', v') :: omap_set k v r
  end.
Definition omap_of {A} (l : list (str * A)) : list (str * A) :=
  fold_left (fun acc e => omap_set (fst e) (snd e) acc) l [].

Definition jname (f : field) : str := json_name (f_name f).
Definition field_required (mn : str) (f : field) : bool := r_required (side_rules sd mn (f_name f)).

Definition object_of (props : list (str * ynode)) (required : list str) : ynode :=
  YMap ([(s "type", ystr "object")]
        ++ (match props with [] => [] | _ => [(s "properties", YMap (omap_of props))] end)
        ++ (match required with [] => [] | _ => [(s "required", YSeq (map YGoStr required))] end)).

(* the names a schema node lists under `required` *)
Definition required_of (n : ynode) : list str :=
  match n with
  | YMap kv =>
      match find (fun e => str_eqb (fst e) (s "required")) kv with
      | Some (_, YSeq l) => flat_map (fun x => match x with YGoStr y => [y] | _ => [] end) l
      | _ => []
      end
  | _ => []
  end.

(* ---- object schemas (generator.go:172-663) ------------------------------------------------------ *)
Definition is_flatten_field (f : field) : bool := match f_flatten f with Some true => true | _ => false end.
Definition flatten_prefix (f : field) : str := match f_flatten_prefix f with Some p => p | None => [] end.

Definition discriminated (o : oneof) : bool :=
  o_has_cfg o && match o_discriminator o with [] => false | _ => true end.
Definition disc_oneofs (m : message) : list oneof := filter discriminated (m_oneofs m).
Definition in_oneof (o : oneof) (f : field) : bool :=
  match f_oneof f with Some n => str_eqb n (o_name o) | None => false end.
Definition variants (m : message) (o : oneof) : list field := filter (in_oneof o) (m_fields m).
Definition disc_value (f : field) : str :=
  match f_oneof_value f with Some (c :: r) => c :: r | _ => f_name f end.
Definition in_disc_oneof (m : message) (f : field) : bool := existsb (fun o => in_oneof o f) (disc_oneofs m).
Definition common_fields (m : message) : list field := filter (fun f => negb (in_disc_oneof m f)) (m_fields m).

Definition fields_of_kind (k : kind) : option (str * list field) :=
  match k with
  | KMessage tn => match lookup_message sc tn with Some cm => Some (m_name cm, m_fields cm) | None => None end
  | _ => None
  end.

Definition variant_schema_name (msg_short : str) (v : field) : str := msg_short ++ s "_" ++ disc_value v.

(* generator.go:301-352 buildFlattenedVariantSchemas: one registered component per variant *)
Definition flattened_variant_sets (m : message) (o : oneof) : list (str * ynode) :=
  map (fun v =>
         let props :=
           map (fun f => (jname f, convert_field (m_name m) f)) (common_fields m)
           ++ [(o_discriminator o, YMap [(s "type", ystr "string"); (s "enum", YSeq [YPlain (disc_value v)])])]
           ++ (match fields_of_kind (f_kind v) with
               | Some (cn, cfs) => map (fun c => (jname c, convert_field cn c)) cfs
               | None => [] end) in
         (variant_schema_name (short_name (m_name m)) v, object_of props [o_discriminator o]))
      (variants m o).

Definition mapping_node (l : list (str * str)) : ynode := YMap (omap_of (map (fun e => (fst e, YStr (snd e))) l)).

Definition flattened_oneof_schema (m : message) : ynode :=
  let fos := filter o_flatten (disc_oneofs m) in
  let ms := short_name (m_name m) in
  let refs := flat_map (fun o => map (fun v => ref_to (variant_schema_name ms v)) (variants m o)) fos in
  YMap ((match refs with [] => [] | _ => [(s "oneOf", YSeq refs)] end)
        ++ match fos with
           | o :: _ => [(s "discriminator",
                         YMap [(s "propertyName", YStr (o_discriminator o));
                               (s "mapping", mapping_node (map (fun v => (disc_value v, ref_prefix ++ variant_schema_name ms v)) (variants m o)))])]
           | [] => []
           end).

(* generator.go:370-477 buildNestedOneofSchema *)
Definition nested_oneof_schema (m : message) : ynode :=
  let mn := m_name m in
  let os := disc_oneofs m in
  let props :=
    map (fun f => (jname f, convert_field mn f)) (common_fields m)
    ++ map (fun o => (o_discriminator o,
                      YMap [(s "type", ystr "string"); (s "enum", YSeq (map (fun v => YPlain (disc_value v)) (variants m o)))])) os in
  let required := map jname (filter (field_required mn) (common_fields m)) in
  let one_of :=
    flat_map (fun o => map (fun v =>
                              object_of [(jname v, match f_kind v with
                                                   | KMessage tn => ref_to (short_name tn)
                                                   | _ => convert_scalar mn v end)] [])
                           (variants m o)) os in
  match object_of props required with
  | YMap base =>
      YMap (base
            ++ (match one_of with [] => [] | _ => [(s "oneOf", YSeq one_of)] end)
            ++ match last os {| o_name := []; o_has_cfg := false; o_discriminator := []; o_flatten := false |}, os with
               | o, _ :: _ =>
                   [(s "discriminator",
                     YMap ([(s "propertyName", YStr (o_discriminator o))]
                           ++ match filter (fun v => is_msg_kind (f_kind v)) (variants m o) with
                              | [] => []
                              | mv => [(s "mapping", mapping_node (map (fun v => (disc_value v,
                                          ref_prefix ++ match f_kind v with KMessage tn => short_name tn | _ => [] end)) mv))]
                              end))]
               | _, [] => []
               end)
  | n => n
  end.

(* generator.go:479-551 buildFlattenedObjectSchema *)
Definition flattened_object_schema (m : message) : ynode :=
  let mn := m_name m in
  let base_fields := filter (fun f => negb (is_flatten_field f)) (m_fields m) in
  let base_props := map (fun f => (jname f, convert_field mn f)) base_fields in
  let base := match base_props with
              | [] => []
              | _ => [object_of base_props (map jname (filter (field_required mn) base_fields))]
              end in
  let flats :=
    flat_map (fun f =>
                if is_flatten_field f then
                  match f_kind f with
                  | KMessage tn =>
                      match lookup_message sc tn with
                      | Some cm => [object_of (map (fun c => (flatten_prefix f ++ jname c, convert_field (m_name cm) c)) (m_fields cm)) []]
                      | None => [object_of [] []]
                      end
                  | _ => []
                  end
                else []) (m_fields m) in
  YMap (match base ++ flats with [] => [] | l => [(s "allOf", YSeq l)] end).

(* generator.go:553-663 root unwrap *)
Definition root_unwrap_field (m : message) : option field :=
  match m_fields m with
  | [f] => if f_unwrap f && (is_map f || is_list f) then Some f else None
  | _ => None
  end.

Definition root_unwrap_schema (m : message) (f : field) : ynode :=
  if is_map f then
    let value :=
      match f_kind f with
      | KMessage tn =>
          match lookup_message sc tn with
          | Some vm => match find_unwrap_field vm with
                       | Some uf => array_of (convert_scalar (m_name vm) uf)
                       | None => ref_to (short_name tn) end
          | None => ref_to (short_name tn)
          end
      | _ => convert_scalar [] (bare_value_field f)
      end in
    YMap [(s "type", ystr "object"); (s "additionalProperties", value)]
  else array_of (convert_scalar (m_name m) f).

Definition has_flatten_fields (m : message) : bool := existsb is_flatten_field (m_fields m).
Definition has_disc_oneof (m : message) : bool := match disc_oneofs m with [] => false | _ => true end.
Definition has_flattened_oneof (m : message) : bool := existsb o_flatten (disc_oneofs m).

Definition plain_object_schema (m : message) : ynode :=
  object_of (map (fun f => (jname f, convert_field (m_name m) f)) (m_fields m))
            (map jname (filter (field_required (m_name m)) (m_fields m))).

(* generator.go:175-220 buildObjectSchema; the components it registers on the way come first *)
Definition object_schema_sets (m : message) : list (str * ynode) :=
  match root_unwrap_field m with
  | Some f => [(short_name (m_name m), root_unwrap_schema m f)]
  | None =>
      if has_flatten_fields m then [(short_name (m_name m), flattened_object_schema m)] else
      if has_disc_oneof m then
        if has_flattened_oneof m
        then flat_map (flattened_variant_sets m) (filter o_flatten (disc_oneofs m))
             ++ [(short_name (m_name m), flattened_oneof_schema m)]
        else [(short_name (m_name m), nested_oneof_schema m)]
      else [(short_name (m_name m), plain_object_schema m)]
  end.
Definition object_schema (m : message) : ynode :=
  match last (object_schema_sets m) ([], YMap []) with (_, n) => n end.

(* ---- nesting and collection (generator.go:100-170) ---------------------------------------------- *)
Definition is_child_of (p c : message) : bool :=
  str_eqb (m_name c) (m_name p ++ [dot] ++ last (m_path c) []) &&
  Nat.eqb (List.length (m_path c)) (S (List.length (m_path p))).
Definition declared_nested (m : message) : list message := filter (is_child_of m) (all_messages sc).

(* the synthetic map-entry message of a map field *)
Definition entry_message (m : message) (f : field) : message :=
  let key := match f_card f with MapOf k => k | _ => KString end in
  {| m_name := m_name m ++ [dot] ++ entry_name (f_name f); m_path := m_path m ++ [entry_name (f_name f)];
     m_fields := [bare_key_field key; bare_value_field f]; m_oneofs := [] |}.
Definition entry_messages (m : message) : list message := map (entry_message m) (filter is_map (m_fields m)).

(* generator.go:160-170 processMessage: the message, then its nested messages (map entries first:
   they precede the declared nested types in the descriptor), recursively *)
Fixpoint process_message (fuel : nat) (m : message) : list (str * ynode) :=
  match fuel with
  | O => []
  | S f =>
      object_schema_sets m
      ++ flat_map (fun e => object_schema_sets e) (entry_messages m)
      ++ flat_map (process_message f) (declared_nested m)
  end.

(* message types a message's fields refer to (field.Message != nil), in field order *)
Definition field_targets (m : message) : list str :=
  flat_map (fun f => match f_kind f with KMessage tn => [tn] | _ => [] end) (m_fields m).

Record cstate := { cs_visited : list str; cs_sets : list (str * ynode); cs_unknown : list str }.

(* generator.go:113-151 collectMessageRecursive.  A map field's Message is its entry: the entry is
   processed (registered once more) and its value field is followed. *)
Fixpoint collect (fuel : nat) (st : cstate) (fq : str) : option cstate :=
  match fuel with
  | O => None
  | S f =>
      if mem_str fq (cs_visited st) then Some st else
      match lookup_message sc fq with
      | None => Some {| cs_visited := fq :: cs_visited st; cs_sets := cs_sets st; cs_unknown := fq :: cs_unknown st |}
      | Some m =>
          let st1 := {| cs_visited := fq :: cs_visited st;
                        cs_sets := cs_sets st ++ process_message (S (List.length (all_messages sc))) m;
                        cs_unknown := cs_unknown st |} in
          let step_field := fun (acc : option cstate) (fd : field) =>
                        match acc with
                        | None => None
                        | Some a =>
                            let a' := if is_map fd
                                      then {| cs_visited := cs_visited a;
                                              cs_sets := cs_sets a ++ object_schema_sets (entry_message m fd);
                                              cs_unknown := cs_unknown a |}
                                      else a in
                            match f_kind fd with KMessage tn => collect f a' tn | _ => Some a' end
                        end in
          let step := fun (acc : option cstate) (t : str) =>
                        match acc with Some a => collect f a t | None => None end in
          (* fields, then nested messages *)
          fold_left step (map m_name (declared_nested m)) (fold_left step_field (m_fields m) (Some st1))
      end
  end.

Definition method_roots (sv : service) : list str := flat_map (fun md => [md_in md; md_out md]) (sv_methods sv).

Definition collect_fuel : nat := S (S (S (List.length (all_messages sc)))).
Definition collect_service (sv : service) : option cstate :=
  fold_left (fun acc t => match acc with Some a => collect collect_fuel a t | None => None end)
            (method_roots sv)
            (Some {| cs_visited := []; cs_sets := []; cs_unknown := [] |}).

(* ---- built-in error schemas (generator.go:907-961) ---------------------------------------------- *)
Definition builtin_sets : list (str * ynode) :=
  [(s "Error", object_of [(s "message", YMap [(s "type", ystr "string")])] []);
   (s "FieldViolation", object_of [(s "field", YMap [(s "type", ystr "string")]);
                                   (s "description", YMap [(s "type", ystr "string")])]
                                  [s "field"; s "description"]);
   (s "ValidationError", object_of [(s "violations", array_of (ref_to (s "FieldViolation")))] [s "violations"])].

Definition components_of_sets (sets : list (str * ynode)) : list (str * ynode) := omap_of (builtin_sets ++ sets).

(* ---- operations (generator.go:672-859, types.go:345-426) ---------------------------------------- *)
Definition header_type (t : str) : str :=
  let l := lower_str t in
  if mem_str l [s "string"; []] then s "string" else
  if mem_str l [s "integer"; s "int"; s "int32"; s "int64"] then s "integer" else
  if mem_str l [s "number"; s "float"; s "double"] then s "number" else
  if mem_str l [s "boolean"; s "bool"] then s "boolean" else
  if str_eqb l (s "array") then s "array" else s "string".

Definition parameter_node (name loc : str) (required : bool) (schema : ynode) : ynode :=
  YMap [(s "name", YStr name); (s "in", YStr loc); (s "required", YBool required); (s "schema", schema)].

Definition header_param (h : header) : ynode :=
  parameter_node (h_name h) (s "header") (h_required h)
    (YMap ([(s "type", YStr (header_type (h_type h)))]
           ++ match h_format h with [] => [] | fm => [(s "format", YStr fm)] end)).

(* sort.Strings on header names: insertion sort by byte order *)
Fixpoint str_leb (a b : str) : bool :=
  match a, b with
  | [], _ => true
  | _ :: _, [] => false
  | x :: a', y :: b' => if (code x <? code y)%N then true else if (code y <? code x)%N then false else str_leb a' b'
  end.
Fixpoint insert_hdr (h : header) (l : list header) : list header :=
  match l with
  | [] => [h]
  | x :: r => if str_leb (h_name h) (h_name x) then h :: l else x :: insert_hdr h r
  end.
Definition sort_hdrs (l : list header) : list header := fold_right insert_hdr [] l.
Fixpoint hmap_set (h : header) (l : list header) : list header :=
  match l with
  | [] => [h]
  | x :: r => if str_eqb (h_name x) (h_name h) then h :: r else x :: hmap_set h r
  end.
(* annotations.CombineHeaders (headers.go:62-106) *)
Definition combine_headers (svc meth : list header) : list header :=
  match svc, meth with
  | [], _ => meth
  | _, [] => svc
  | _, _ =>
      let named := filter (fun h => match h_name h with [] => false | _ => true end) in
      sort_hdrs (fold_left (fun acc h => hmap_set h acc) (named svc ++ named meth) [])
  end.

(* generator.go:871-905 createFieldSchema: by kind name only *)
Definition param_schema (k : kind) : ynode :=
  match k with
  | KString => YMap [(s "type", ystr "string")]
  | KInt32 | KSint32 | KSfixed32 | KUint32 | KFixed32 => YMap [(s "type", ystr "integer"); (s "format", ystr "int32")]
  | KInt64 | KSint64 | KSfixed64 => YMap [(s "type", ystr "string"); (s "format", ystr "int64")]
  | KUint64 | KFixed64 => YMap [(s "type", ystr "string"); (s "format", ystr "uint64")]
  | KBool => YMap [(s "type", ystr "boolean")]
  | KFloat => YMap [(s "type", ystr "number"); (s "format", ystr "float")]
  | KDouble => YMap [(s "type", ystr "number"); (s "format", ystr "double")]
  | _ => YMap [(s "type", ystr "string")]
  end.

Definition verb_of_method (md : method) : verb :=
  match md_verb md with
  | Some 1 => GET | Some 2 => POST | Some 3 => PUT | Some 4 => DELETE | Some 5 => PATCH
  | _ => POST
  end.
Definition verb_key (v : verb) : str := lower_str (verb_str v).

Definition info_of_method (sv : service) (md : method) (in_fields : list field) : rpc_info :=
  {| ri_service := sv_name sv; ri_gopkg := []; ri_base := sv_base sv; ri_method := md_name md;
     ri_has_cfg := md_has_cfg md; ri_path := md_path md;
     ri_verb := match md_verb md with Some _ => Some (verb_of_method md) | None => None end;
     ri_query := [] |}.

Definition input_fields (md : method) : list field :=
  match lookup_message sc (md_in md) with Some m => m_fields m | None => [] end.

Definition query_name (f : field) : str := match f_query f with Some q => q_name q | None => f_name f end.
Definition query_required (f : field) : bool := match f_query f with Some q => q_required q | None => false end.
Definition has_query (f : field) : bool := match f_query f with Some _ => true | None => false end.

(* parameters of an operation as (name, location, required, schema) *)
Definition op_parameters (sv : service) (md : method) : list (str * str * bool * ynode) :=
  let fs := input_fields md in
  map (fun h => (h_name h, s "header", h_required h,
                 YMap ([(s "type", YStr (header_type (h_type h)))]
                       ++ match h_format h with [] => [] | fm => [(s "format", YStr fm)] end)))
      (filter (fun h => match h_name h with [] => false | _ => true end)
              (combine_headers (sv_headers sv) (md_headers md)))
  ++ map (fun v => (v, s "path", true,
                    match find_field fs v with Some f => param_schema (f_kind f) | None => YMap [(s "type", ystr "string")] end))
         (path_vars (info_of_method sv md fs))
  ++ map (fun f => (query_name f, s "query", query_required f, param_schema (f_kind f))) (filter has_query fs).

Definition response_node (short : str) : ynode :=
  YMap [(s "content", YMap [(s "application/json", YMap [(s "schema", ref_to short)])])].

Definition operation_node (sv : service) (md : method) : ynode :=
  let v := verb_of_method md in
  let ps := op_parameters sv md in
  YMap ([(s "tags", YSeq [YGoStr (sv_name sv)]); (s "operationId", YStr (md_name md))]
        ++ (match ps with
            | [] => []
            | _ => [(s "parameters", YSeq (map (fun p => match p with (n, l, r, sch) => parameter_node n l r sch end) ps))]
            end)
        ++ (if verb_has_body v
            then [(s "requestBody", YMap [(s "content", YMap [(s "application/json", YMap [(s "schema", ref_to (short_name (md_in md)))])]);
                                          (s "required", YBool true)])]
            else [])
        ++ [(s "responses", YMap [(s "200", response_node (short_name (md_out md)));
                                  (s "400", response_node (s "ValidationError"));
                                  (s "default", response_node (s "Error"))])]).

Definition method_path (sv : service) (md : method) : str := openapi_path (info_of_method sv md []).

(* generator.go:852-858: PathItems[path].<verb> := operation, replacing what was there.  The path
   items form an ordered map and a path item has one slot per verb: kept here as one list keyed by
   (path, verb); a key that is assigned again keeps its position and takes the new operation. *)
Fixpoint assign_op {A} (k : str * verb) (a : A) (l : list ((str * verb) * A)) : list ((str * verb) * A) :=
  match l with
  | [] => [(k, a)]
  | (k', a') :: r => if key_eqb k' k then (k, a) :: r else (k', a') :: assign_op k a r
  end.
Definition method_key (sv : service) (md : method) : str * verb := (method_path sv md, verb_of_method md).
(* the operations of the document: which RPC holds which (path, verb) *)
Definition doc_ops (sv : service) : list ((str * verb) * method) :=
  fold_left (fun acc md => assign_op (method_key sv md) md acc) (sv_methods sv) [].
Fixpoint first_occurrences (l : list str) : list str :=
  match l with
  | [] => []
  | a :: r => a :: filter (fun x => negb (str_eqb x a)) (first_occurrences r)
  end.
Definition paths_y (sv : service) : ynode :=
  let ops := doc_ops sv in
  YMap (map (fun p => (p, YMap (map (fun e => (verb_key (snd (fst e)), operation_node sv (snd e)))
                                     (filter (fun e => str_eqb (fst (fst e)) p) ops))))
            (first_occurrences (map (fun e => fst (fst e)) ops))).

Definition components_y (sv : service) : option (list (str * ynode) * list str) :=
  match collect_service sv with
  | Some st => Some (components_of_sets (cs_sets st), cs_unknown st)
  | None => None
  end.

(* the compared part of the document: info.title, paths, components.schemas *)
Definition document_y (sv : service) : option ynode :=
  match components_y sv with
  | Some (cs, _) =>
      Some (YMap [(s "info", YMap [(s "title", YStr (sv_name sv ++ s " API"))]);
                  (s "paths", paths_y sv);
                  (s "components", YMap [(s "schemas", YMap cs)])])
  | None => None
  end.

End WithSchema.

(* ---- which files a run produces (cmd/protoc-gen-openapiv3/main.go:37-117,133-148) -------------- *)
Definition trim_spaces (x : str) : str :=
  let drop := fix drop (x : str) : str := match x with c :: r => if (code c =? 32)%N || (code c =? 9)%N || (code c =? 10)%N || (code c =? 13)%N then drop r else x | [] => [] end in
  rev (drop (rev (drop x))).
(* strings.SplitN(pair, "=", 2) *)
Fixpoint split_first_eq (acc x : str) : option (str * str) :=
  match x with
  | [] => None
  | c :: r => if Ascii.eqb c "="%char then Some (rev acc, r) else split_first_eq (c :: acc) r
  end.
Definition param_pairs (p : str) : list (str * str) :=
  match p with
  | [] => []
  | _ => flat_map (fun pair => match split_first_eq [] pair with
                               | Some (k, v) => [(trim_spaces k, trim_spaces v)]
                               | None => [] end) (split_on ","%char p)
  end.
(* a later "format=" pair overrides an earlier one (Go map) *)
Definition format_is_json (p : str) : bool :=
  match find (fun e => str_eqb (fst e) (s "format")) (rev (param_pairs p)) with
  | Some e => str_eqb (snd e) (s "json")
  | None => false
  end.
Definition generated_services (sc : schema) : list service :=
  flat_map (fun fl => if fl_generate fl then fl_services fl else []) sc.
Definition file_name_of (json : bool) (svc : str) : str :=
  svc ++ s ".openapi." ++ (if json then s "json" else s "yaml").
Definition emitted_names (p : str) (svcs : list str) : list str := map (file_name_of (format_is_json p)) svcs.
Definition emitted_files (p : str) (sc : schema) : list str :=
  emitted_names p (map sv_name (generated_services sc)).

(* ---- references ---------------------------------------------------------------------------------- *)
(* every "$ref" value and every discriminator mapping target of a tree *)
Definition mapping_targets (x : ynode) : option (list str) :=
  match x with
  | YMap kv =>
      match find (fun e => str_eqb (fst e) (s "mapping")) kv with
      | Some (_, YMap m) => Some (flat_map (fun e => match snd e with YStr t => [t] | _ => [] end) m)
      | _ => None
      end
  | _ => None
  end.
Definition entry_refs (k : str) (x : ynode) (inner : list str) : list str :=
  if str_eqb k (s "$ref") then match x with YStr t => [t] | _ => inner end
  else if str_eqb k (s "discriminator") then match mapping_targets x with Some l => l | None => inner end
  else inner.
Fixpoint refs_of (n : ynode) : list str :=
  match n with
  | YSeq l => flat_map refs_of l
  | YMap kv => flat_map (fun e => entry_refs (fst e) (snd e) (refs_of (snd e))) kv
  | _ => []
  end.

Definition ref_resolves (cs : list (str * ynode)) (t : str) : bool :=
  has_prefix ref_prefix t && mem_str (skipn (List.length ref_prefix) t) (map fst cs).

(* typed views for validation (C06, C19) *)
Definition doc_components (R : reader) (cs : list (str * ynode)) : list (str * jschema) :=
  map (fun e => (fst e, schema_of_jv schema_fuel (denote R (snd e)))) cs.
