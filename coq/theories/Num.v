(* Num.v — decimal text of integers as fmt.Sprint prints them, and strconv.ParseInt/ParseUint
   (base 10) / ParseBool as the emitted server uses them. *)
From Sebuf Require Export Text.

(* ---- printing ---------------------------------------------------------------------------- *)
Definition digit_char (d : N) : ascii := ch (48 + d).

Fixpoint show_N_fuel (fuel : nat) (n : N) (acc : str) : str :=
  match fuel with
  | O => acc
  | S f =>
      let acc' := digit_char (n mod 10) :: acc in
      if (n <? 10)%N then acc' else show_N_fuel f (n / 10) acc'
  end.
(* fuel: a number below 2^k has at most k decimal digits *)
Definition show_nat_N (n : N) : str := show_N_fuel (S (N.to_nat (N.size n))) n [].
Definition show_int (z : Z) : str :=
  match z with
  | Z0 => [digit_char 0]
  | Zpos p => show_nat_N (Npos p)
  | Zneg p => "-"%char :: show_nat_N (Npos p)
  end.

(* ---- parsing: strconv.ParseUint(s, 10, bits), ParseInt(s, 10, bits) ------------------------ *)
Definition digit_val (c : ascii) : option N :=
  if is_digit c then Some (code c - 48)%N else None.

(* all characters must be digits; at least one *)
Fixpoint parse_digits (acc : N) (x : str) : option N :=
  match x with
  | [] => Some acc
  | c :: r => match digit_val c with
              | Some d => parse_digits (acc * 10 + d) r
              | None => None
              end
  end.
Definition parse_nat (x : str) : option N :=
  match x with [] => None | _ => parse_digits 0 x end.

(* ParseUint: no sign allowed, value <= 2^bits - 1 *)
Definition parse_uint (bits : N) (x : str) : option Z :=
  match parse_nat x with
  | Some n => if (n <? 2 ^ bits)%N then Some (Z.of_N n) else None
  | None => None
  end.

(* ParseInt: optional leading '+' or '-', then ParseUint-style digits, range [-2^(bits-1), 2^(bits-1)-1] *)
Definition parse_int (bits : N) (x : str) : option Z :=
  let '(neg, body) :=
    match x with
    | c :: r => if Ascii.eqb c "-"%char then (true, r) else if Ascii.eqb c "+"%char then (false, r) else (false, x)
    | [] => (false, [])
    end in
  match parse_nat body with
  | Some n =>
      if neg then (if (n <=? 2 ^ (bits - 1))%N then Some (- Z.of_N n)%Z else None)
      else (if (n <? 2 ^ (bits - 1))%N then Some (Z.of_N n) else None)
  | None => None
  end.

(* strconv.ParseBool *)
Definition parse_bool (x : str) : option bool :=
  if existsb (str_eqb x) [s "1"; s "t"; s "T"; s "TRUE"; s "true"; s "True"] then Some true
  else if existsb (str_eqb x) [s "0"; s "f"; s "F"; s "FALSE"; s "false"; s "False"] then Some false
  else None.
Definition show_bool (b : bool) : str := if b then s "true" else s "false".
