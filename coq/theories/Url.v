(* Url.v — percent-escaping as net/url does it (PathEscape, QueryEscape, unescape), url.Values.Encode
   and ParseQuery for the inputs the emitted code produces/accepts. *)
From Sebuf Require Export Text.

Definition is_alnum (c : ascii) : bool := is_upper c || is_lower c || is_digit c.
Definition in_chars (c : ascii) (l : str) : bool := existsb (Ascii.eqb c) l.

(* net/url shouldEscape, mode encodePathSegment *)
Definition path_seg_safe (c : ascii) : bool :=
  is_alnum c || in_chars c (s "-_.~") || in_chars c (s "$&+:=@").
(* mode encodeQueryComponent *)
Definition query_safe (c : ascii) : bool := is_alnum c || in_chars c (s "-_.~").

Definition upper_hex (n : N) : ascii := if (n <? 10)%N then ch (48 + n) else ch (55 + n).
Definition pct (c : ascii) : str := ["%"%char; upper_hex (code c / 16); upper_hex (code c mod 16)].

Definition path_escape (x : str) : str :=
  flat_map (fun c => if path_seg_safe c then [c] else pct c) x.
Definition query_escape (x : str) : str :=
  flat_map (fun c => if Ascii.eqb c " "%char then ["+"%char] else if query_safe c then [c] else pct c) x.

Definition unhex (c : ascii) : option N :=
  let n := code c in
  if is_digit c then Some (n - 48)%N
  else if ((97 <=? n) && (n <=? 102))%N then Some (n - 87)%N
  else if ((65 <=? n) && (n <=? 70))%N then Some (n - 55)%N
  else None.

(* net/url unescape: %XX -> byte; '+' -> ' ' only in query mode; a malformed escape is an error *)
Fixpoint unescape (plus_is_space : bool) (x : str) : option str :=
  match x with
  | [] => Some []
  | c :: r =>
      if Ascii.eqb c "%"%char then
        match r with
        | h :: l :: r' =>
            match unhex h, unhex l, unescape plus_is_space r' with
            | Some a, Some b, Some t => Some (ch (a * 16 + b) :: t)
            | _, _, _ => None
            end
        | _ => None
        end
      else
        match unescape plus_is_space r with
        | Some t => Some ((if plus_is_space && Ascii.eqb c "+"%char then " "%char else c) :: t)
        | None => None
        end
  end.
Definition path_unescape := unescape false.
Definition query_unescape := unescape true.

(* ---- query strings ------------------------------------------------------------------------ *)
Definition amp : ascii := "&"%char.
Definition eqc : ascii := "="%char.

(* byte-wise lexicographic order (sort.Strings) *)
Fixpoint str_leb (a b : str) : bool :=
  match a, b with
  | [], _ => true
  | _ :: _, [] => false
  | x :: a', y :: b' => if (code x <? code y)%N then true else if (code y <? code x)%N then false else str_leb a' b'
  end.

Fixpoint insert_kv (kv : str * str) (l : list (str * str)) : list (str * str) :=
  match l with
  | [] => [kv]
  | h :: t => if str_leb (fst kv) (fst h) then kv :: l else h :: insert_kv kv t
  end.
(* url.Values{}.Set per key then Encode(): keys sorted; one value per key here *)
Definition sort_kv (l : list (str * str)) : list (str * str) := fold_right insert_kv [] l.

Definition encode_query (kv : list (str * str)) : str :=
  join_with [amp] (map (fun p => query_escape (fst p) ++ [eqc] ++ query_escape (snd p)) (sort_kv kv)).

(* first '=' splits key and value (strings.Cut) *)
Fixpoint cut_at (sep : ascii) (x : str) : str * option str :=
  match x with
  | [] => ([], None)
  | c :: r => if Ascii.eqb c sep then ([], Some r)
              else let '(a, b) := cut_at sep r in (c :: a, b)
  end.

(* url.ParseQuery as used through r.URL.Query(): pairs that fail to unescape or contain ';' are
   dropped (Query() ignores the error), empty pairs skipped *)
Definition parse_pair (p : str) : option (str * str) :=
  if in_chars ";"%char p then None else
  let '(k, v) := cut_at eqc p in
  match query_unescape k, query_unescape (match v with Some v => v | None => [] end) with
  | Some k', Some v' => Some (k', v')
  | _, _ => None
  end.
Definition parse_query (q : str) : list (str * str) :=
  flat_map (fun p => match p with [] => [] | _ => match parse_pair p with Some kv => [kv] | None => [] end end)
           (split_on amp q).

Definition query_values (q : list (str * str)) (k : str) : list str :=
  map snd (filter (fun p => str_eqb (fst p) k) q).
