(* Files.v — which files each Go plugin emits for a proto file, and which types get a
   MarshalJSON/UnmarshalJSON pair from which codec emitter (C14; also "no files on refusal" of C12).

     internal/httpgen/generator.go:64-154      generateFile: error_impl, unwrap, int64 encoding, enum
                                               encoding, nullable, empty_behavior, timestamp_format,
                                               bytes_encoding, flatten, oneof_discriminator, then (only
                                               with services) _http, _http_binding, _http_config, _http_mock
     internal/httpgen/generator.go:1568-1602   generateErrorImplFile (top-level messages whose Go name ends in Error)
     internal/httpgen/unwrap.go:114-345        collectUnwrapContext / generateUnwrapFile
     internal/clientgen/generator.go:39-95     generateFile: nullable .. oneof_discriminator, then RETURN when the
                                               file has no services, else _client, int64 encoding, enum encoding;
                                               no unwrap emitter, no error_impl
   With paths=source_relative a file a/b.proto yields a/b<suffix>. *)
From Sebuf Require Export Validate.

Inductive suffix :=
  | SErrorImpl | SUnwrap | SEncoding | SEnumEncoding | SNullable | SEmptyBehavior | STimestampFormat
  | SBytesEncoding | SFlatten | SOneofDiscriminator | SHttp | SHttpBinding | SHttpConfig | SHttpMock | SClient.

(* protobuf-go strs.GoCamelCase (applied by protogen to the full name minus the package, e.g. "Outer.Inner");
   [first] = at index 0 or right after a '.' ; [run] = inside a lower-case run that is copied verbatim *)
Definition dot : ascii := "."%char.
Fixpoint go_camel_aux (first run : bool) (x : str) : str :=
  match x with
  | [] => []
  | c :: r =>
      let next_lower := match r with d :: _ => is_lower d | [] => false end in
      if run && is_lower c then c :: go_camel_aux false true r
      else if Ascii.eqb c dot then (if next_lower then go_camel_aux true false r else underscore :: go_camel_aux true false r)
      else if Ascii.eqb c underscore && first then "X"%char :: go_camel_aux false false r
      else if Ascii.eqb c underscore && next_lower then go_camel_aux false false r
      else if is_digit c then c :: go_camel_aux false false r
      else to_upper c :: go_camel_aux false true r
  end.
Definition go_camel (x : str) : str := go_camel_aux true false x.
(* Go type name of a message / of an enum declared in file f *)
Definition go_ident (m : message) : str := go_camel (join_with [dot] (m_path m)).
Definition enum_go_ident (f : file) (e : enum) : str :=
  go_camel (match fl_package f with [] => e_name e | pk => trim_prefix (pk ++ [dot]) (e_name e) end).

(* ---- feature detectors (the has..Fields functions of both packages) --------------------------- *)
Definition has_int64_number (m : message) : bool := existsb i64_number (m_fields m).
Definition has_nullable (m : message) : bool := existsb is_nullable (m_fields m).
Definition has_empty_fields (m : message) : bool := existsb has_empty (m_fields m).
Definition has_tsfmt_fields (m : message) : bool := existsb (fun f => is_timestamp_field f && tsfmt_nondefault f) (m_fields m).
Definition has_bytes_fields (m : message) : bool := existsb (fun f => desc_is_bytes f && bytesenc_nondefault f) (m_fields m).
Definition enum_custom (e : enum) : bool :=
  existsb (fun v => match ev_custom v with Some (_ :: _) => true | _ => false end) (e_values e).

(* unwrap: messages of this file that get unwrap methods (httpgen/unwrap.go:172-292) *)
Definition unwrap_ok (m : message) : option unwrap_info :=
  match get_unwrap_field m with inr (Some i) => Some i | _ => None end.
Definition is_root_unwrap (m : message) : bool :=
  match unwrap_ok m with Some i => ui_root i | None => false end.
Definition map_value_unwraps (sc : schema) (f : field) : bool :=
  is_map (f_card f) &&
  match f_kind f with
  | KMessage tn => match find_message (all_messages sc) tn with
                   | Some vm => match unwrap_ok vm with Some _ => true | None => false end
                   | None => false end
  | _ => false
  end.
Definition is_unwrap_container (sc : schema) (m : message) : bool :=
  negb (is_root_unwrap m) && existsb (map_value_unwraps sc) (m_fields m).
Definition gets_unwrap_codec (sc : schema) (m : message) : bool := is_root_unwrap m || is_unwrap_container sc m.

Definition is_error_message (m : message) : bool :=
  Nat.eqb (List.length (m_path m)) 1 && has_suffix (s "Error") (go_camel (short_name m)).

Definition opt_sfx (b : bool) (x : suffix) : list suffix := if b then [x] else [].
Definition any_msg (p : message -> bool) (f : file) : bool := existsb p (fl_messages f).
Definition has_services (f : file) : bool := nonempty (fl_services f).

(* ---- file lists, in emission order --------------------------------------------------------------- *)
Definition go_http_suffixes (mock : bool) (sc : schema) (f : file) : list suffix :=
  opt_sfx (any_msg is_error_message f) SErrorImpl ++
  opt_sfx (any_msg (gets_unwrap_codec sc) f) SUnwrap ++
  opt_sfx (any_msg has_int64_number f) SEncoding ++
  opt_sfx (existsb enum_custom (fl_enums f)) SEnumEncoding ++
  opt_sfx (any_msg has_nullable f) SNullable ++
  opt_sfx (any_msg has_empty_fields f) SEmptyBehavior ++
  opt_sfx (any_msg has_tsfmt_fields f) STimestampFormat ++
  opt_sfx (any_msg has_bytes_fields f) SBytesEncoding ++
  opt_sfx (any_msg has_flatten f) SFlatten ++
  opt_sfx (any_msg has_oneof_discriminator f) SOneofDiscriminator ++
  (if has_services f then [SHttp; SHttpBinding; SHttpConfig] ++ opt_sfx mock SHttpMock else []).

Definition go_client_suffixes (sc : schema) (f : file) : list suffix :=
  opt_sfx (any_msg has_nullable f) SNullable ++
  opt_sfx (any_msg has_empty_fields f) SEmptyBehavior ++
  opt_sfx (any_msg has_tsfmt_fields f) STimestampFormat ++
  opt_sfx (any_msg has_bytes_fields f) SBytesEncoding ++
  opt_sfx (any_msg has_flatten f) SFlatten ++
  opt_sfx (any_msg has_oneof_discriminator f) SOneofDiscriminator ++
  (if has_services f
   then [SClient] ++ opt_sfx (any_msg has_int64_number f) SEncoding ++ opt_sfx (existsb enum_custom (fl_enums f)) SEnumEncoding
   else []).

(* what a plugin run leaves behind: nothing when it refuses (protogen answers with the error only) *)
Definition emitted_go_http (mock : bool) (sc : schema) : list (str * suffix) :=
  match go_http_accepts sc with
  | Some _ => []
  | None => flat_map (fun f => map (fun x => (fl_path f, x)) (go_http_suffixes mock sc f)) (gen_files sc)
  end.
Definition emitted_go_client (sc : schema) : list (str * suffix) :=
  match go_client_accepts sc with
  | Some _ => []
  | None => flat_map (fun f => map (fun x => (fl_path f, x)) (go_client_suffixes sc f)) (gen_files sc)
  end.

(* ---- codec methods: (type, emitter) pairs for which a MarshalJSON/UnmarshalJSON pair exists ------ *)
Inductive codec := CUnwrap | CInt64 | CEnum | CNullable | CEmpty | CTimestamp | CBytes | CFlatten | COneof.

Definition when_c (b : bool) (c : codec) : list codec := if b then [c] else [].

(* contexts of one emitter in one file = the types listed in that emitted file, in order *)
Definition http_contexts (sc : schema) (f : file) (c : codec) : list str :=
  match c with
  | CUnwrap => map m_name (filter is_root_unwrap (fl_messages f)) ++ map m_name (filter (is_unwrap_container sc) (fl_messages f))
  | CInt64 => map m_name (filter has_int64_number (fl_messages f))
  | CEnum => map e_name (filter enum_custom (fl_enums f))
  | CNullable => map m_name (filter has_nullable (fl_messages f))
  | CEmpty => map m_name (filter has_empty_fields (fl_messages f))
  | CTimestamp => map m_name (filter has_tsfmt_fields (fl_messages f))
  | CBytes => map m_name (filter has_bytes_fields (fl_messages f))
  | CFlatten => map m_name (filter has_flatten (fl_messages f))
  | COneof => map m_name (filter has_oneof_discriminator (fl_messages f))
  end.
Definition client_contexts (sc : schema) (f : file) (c : codec) : list str :=
  match c with
  | CUnwrap => []                                         (* no emitter *)
  | CInt64 => if has_services f then map m_name (filter has_int64_number (fl_messages f)) else []
  | CEnum => if has_services f then map e_name (filter enum_custom (fl_enums f)) else []
  | CNullable => map m_name (filter has_nullable (fl_messages f))
  | CEmpty => map m_name (filter has_empty_fields (fl_messages f))
  | CTimestamp => map m_name (filter has_tsfmt_fields (fl_messages f))
  | CBytes => map m_name (filter has_bytes_fields (fl_messages f))
  | CFlatten => map m_name (filter has_flatten (fl_messages f))
  | COneof => map m_name (filter has_oneof_discriminator (fl_messages f))
  end.

(* the Go receiver types of the MarshalJSON methods in an emitted codec file, in order *)
Definition context_types (p_is_http : bool) (sc : schema) (f : file) (c : codec) : list str :=
  let keep (has : bool) := if p_is_http then true else has in
  match c with
  | CUnwrap => if p_is_http then map go_ident (filter is_root_unwrap (fl_messages f)) ++ map go_ident (filter (is_unwrap_container sc) (fl_messages f)) else []
  | CInt64 => if keep (has_services f) then map go_ident (filter has_int64_number (fl_messages f)) else []
  | CEnum => if keep (has_services f) then map (enum_go_ident f) (filter enum_custom (fl_enums f)) else []
  | CNullable => map go_ident (filter has_nullable (fl_messages f))
  | CEmpty => map go_ident (filter has_empty_fields (fl_messages f))
  | CTimestamp => map go_ident (filter has_tsfmt_fields (fl_messages f))
  | CBytes => map go_ident (filter has_bytes_fields (fl_messages f))
  | CFlatten => map go_ident (filter has_flatten (fl_messages f))
  | COneof => map go_ident (filter has_oneof_discriminator (fl_messages f))
  end.

Definition all_codecs : list codec := [CUnwrap; CInt64; CEnum; CNullable; CEmpty; CTimestamp; CBytes; CFlatten; COneof].
Definition codec_eqb (a b : codec) : bool :=
  match a, b with
  | CUnwrap, CUnwrap | CInt64, CInt64 | CEnum, CEnum | CNullable, CNullable | CEmpty, CEmpty
  | CTimestamp, CTimestamp | CBytes, CBytes | CFlatten, CFlatten | COneof, COneof => true
  | _, _ => false
  end.

(* does type [tn] get a codec pair from emitter [c] in a package generated by the server / the client plugin alone *)
Definition server_has (sc : schema) (tn : str) (c : codec) : bool :=
  existsb (fun f => mem_str tn (http_contexts sc f c)) (gen_files sc).
Definition client_has (sc : schema) (tn : str) (c : codec) : bool :=
  existsb (fun f => mem_str tn (client_contexts sc f c)) (gen_files sc).

(* which emitted file holds the contexts of an emitter *)
Definition codec_suffix (c : codec) : suffix :=
  match c with
  | CUnwrap => SUnwrap | CInt64 => SEncoding | CEnum => SEnumEncoding | CNullable => SNullable | CEmpty => SEmptyBehavior
  | CTimestamp => STimestampFormat | CBytes => SBytesEncoding | CFlatten => SFlatten | COneof => SOneofDiscriminator
  end.

(* ---- defect classes of C14 ------------------------------------------------------------------------ *)
Inductive c14_defect :=
  | ClientNoUnwrap                    (* clientgen has no unwrap emitter *)
  | ClientServicelessNoInt64Enum.     (* clientgen returns before the int64 / enum emitters when a file has no services *)

Definition file_defects_C14 (sc : schema) (f : file) : list c14_defect :=
  (if any_msg (gets_unwrap_codec sc) f then [ClientNoUnwrap] else []) ++
  (if negb (has_services f) && (any_msg has_int64_number f || existsb enum_custom (fl_enums f))
   then [ClientServicelessNoInt64Enum] else []).
Definition defects_C14 (sc : schema) : list c14_defect :=
  (if existsb (fun f => nonempty (filter (fun d => match d with ClientNoUnwrap => true | _ => false end) (file_defects_C14 sc f))) (gen_files sc)
   then [ClientNoUnwrap] else []) ++
  (if existsb (fun f => nonempty (filter (fun d => match d with ClientServicelessNoInt64Enum => true | _ => false end) (file_defects_C14 sc f))) (gen_files sc)
   then [ClientServicelessNoInt64Enum] else []).

(* ---- one output directory written by both plugins -------------------------------------------------- *)
Inductive plugin := GoHttp | GoClient.
(* an emitted codec file = its name (proto path, suffix) and the contexts it defines methods for;
   the header comment names the generator and is not part of the comparison *)
Definition codec_files (p : plugin) (sc : schema) : list ((str * codec) * list str) :=
  flat_map (fun f =>
     flat_map (fun c =>
        let ctx := match p with GoHttp => http_contexts sc f c | GoClient => client_contexts sc f c end in
        if nonempty ctx then [((fl_path f, c), ctx)] else []) all_codecs) (gen_files sc).
Definition name_eqb (a b : str * codec) : bool := str_eqb (fst a) (fst b) && codec_eqb (snd a) (snd b).
(* protoc writes each plugin's files into the directory in turn; a later file replaces an earlier one of the same name *)
Fixpoint dir_lookup (n : str * codec) (written : list ((str * codec) * list str)) : option (list str) :=
  match written with
  | [] => None
  | (k, b) :: r => match dir_lookup n r with Some x => Some x | None => if name_eqb n k then Some b else None end
  end.
Definition directory (order : list plugin) (sc : schema) : list ((str * codec) * list str) :=
  flat_map (fun p => codec_files p sc) order.

(* ---- reachability (which messages' JSON can be affected by a type's codec) ------------------------ *)
Definition field_type_name (f : field) : option str :=
  match f_kind f with KMessage tn => Some tn | KEnum tn => Some tn | _ => None end.
Fixpoint reach (fuel : nat) (sc : schema) (seen : list str) (tn : str) : list str :=
  match fuel with
  | O => seen
  | S k =>
      if mem_str tn seen then seen else
      match find_message (all_messages sc) tn with
      | None => tn :: seen
      | Some m => fold_left (fun acc f => match field_type_name f with Some t => reach k sc acc t | None => acc end)
                            (m_fields m) (tn :: seen)
      end
  end.
Definition reachable_types (sc : schema) (tn : str) : list str :=
  reach (S (List.length (all_messages sc) + List.length (all_enums sc))) sc [] tn.

(* the defect classes that can show in the JSON of message [tn]: some reachable type has a codec on
   one side only *)
Definition type_defects_C14 (sc : schema) (tn : str) : list c14_defect :=
  let ts := reachable_types sc tn in
  (if existsb (fun t => server_has sc t CUnwrap) ts then [ClientNoUnwrap] else []) ++
  (if existsb (fun t => (server_has sc t CInt64 && negb (client_has sc t CInt64)) ||
                        (server_has sc t CEnum && negb (client_has sc t CEnum))) ts
   then [ClientServicelessNoInt64Enum] else []).

(* ================================================================================================
   Rendering for the correspondence check (glue).
   ================================================================================================ *)
From Sebuf Require Import Json.
Definition suffix_str (x : suffix) : str :=
  match x with
  | SErrorImpl => s "_error_impl.pb.go" | SUnwrap => s "_unwrap.pb.go" | SEncoding => s "_encoding.pb.go"
  | SEnumEncoding => s "_enum_encoding.pb.go" | SNullable => s "_nullable.pb.go" | SEmptyBehavior => s "_empty_behavior.pb.go"
  | STimestampFormat => s "_timestamp_format.pb.go" | SBytesEncoding => s "_bytes_encoding.pb.go" | SFlatten => s "_flatten.pb.go"
  | SOneofDiscriminator => s "_oneof_discriminator.pb.go" | SHttp => s "_http.pb.go" | SHttpBinding => s "_http_binding.pb.go"
  | SHttpConfig => s "_http_config.pb.go" | SHttpMock => s "_http_mock.pb.go" | SClient => s "_client.pb.go"
  end.
Definition c14_defect_str (d : c14_defect) : str :=
  match d with
  | ClientNoUnwrap => s "client-no-unwrap"
  | ClientServicelessNoInt64Enum => s "client-serviceless-no-int64-enum"
  end.
Definition strip_proto (p : str) : str := trim_suffix (s ".proto") p.
Definition names_json (l : list (str * suffix)) : json :=
  JArr (map (fun e => JStr (strip_proto (fst e) ++ suffix_str (snd e))) l).

(* case: schema + generate_mock flag; observation: the file names each Go plugin answered with, in order *)
Definition types_json (is_http : bool) (accepted : bool) (sc : schema) : json :=
  JObj (if accepted then
          flat_map (fun f => flat_map (fun c => match context_types is_http sc f c with
                                                | [] => []
                                                | ts => [(strip_proto (fl_path f) ++ suffix_str (codec_suffix c), jstrs ts)]
                                                end) all_codecs) (gen_files sc)
        else []).
Definition is_none {A} (o : option A) : bool := match o with None => true | Some _ => false end.

Definition predict_C14_files (c : schema * bool) : json :=
  let '(sc, mock) := c in
  if negb (dom_C12 sc) then JObj [(s "unmodelled", JStr (s "a flattened or HTTP-bound message type is outside the schema"))] else
  JObj [(s "tags", jstrs (map c14_defect_str (defects_C14 sc)));
        (s "go-http", names_json (emitted_go_http mock sc));
        (s "go-client", names_json (emitted_go_client sc));
        (s "go-http-types", types_json true (is_none (go_http_accepts sc)) sc);
        (s "go-client-types", types_json false (is_none (go_client_accepts sc)) sc)].

(* case: schema + a message type; observation: does the type implement json.Marshaler in the
   server-only / the client-only package *)
Definition has_any_codec (has : str -> codec -> bool) (tn : str) : bool :=
  existsb (fun c => match c with CEnum => false | _ => has tn c end) all_codecs.
Definition predict_C14_type (c : schema * str) : json :=
  let '(sc, tn) := c in
  JObj [(s "tags", jstrs (map c14_defect_str (type_defects_C14 sc tn)));
        (s "server_custom", JBool (has_any_codec (server_has sc) tn));
        (s "client_custom", JBool (has_any_codec (client_has sc) tn))].
