(* Json.v — JSON values (AST level) and a renderer to text.  The renderer is used by the
   correspondence check to print model predictions (one JSON document per line); it is glue,
   not part of any theorem.  Strings are byte lists; bytes outside printable ASCII are written
   as \u00XX (the harness maps them back to bytes). *)
From Sebuf Require Export Text.
From Coq Require Import DecimalString.

Inductive json :=
  | JNull
  | JBool (b : bool)
  | JNum (z : Z)
  | JStr (x : str)
  | JArr (l : list json)
  | JObj (kv : list (str * json)).

Definition hex_digit (n : N) : ascii :=
  if (n <? 10)%N then ch (48 + n) else ch (87 + n).

Definition show_N (n : N) : str := list_ascii_of_string (NilEmpty.string_of_uint (N.to_uint n)).
Definition show_Z (z : Z) : str :=
  match z with
  | Z0 => s "0"
  | Zpos p => show_N (Npos p)
  | Zneg p => "-"%char :: show_N (Npos p)
  end.

Definition esc_char (c : ascii) : str :=
  let n := code c in
  if (n =? 34)%N then s "\""" else
  if (n =? 92)%N then s "\\" else
  if ((n <? 32) || (126 <? n))%N then s "\u00" ++ [hex_digit (n / 16); hex_digit (n mod 16)]
  else [c].

Definition show_str (x : str) : str := """"%char :: flat_map esc_char x ++ [""""%char].

Fixpoint render (j : json) : str :=
  match j with
  | JNull => s "null"
  | JBool true => s "true"
  | JBool false => s "false"
  | JNum z => show_Z z
  | JStr x => show_str x
  | JArr l =>
      "["%char ::
      (fix go (l : list json) : str :=
         match l with
         | [] => []
         | [x] => render x
         | x :: r => render x ++ ","%char :: go r
         end) l ++ ["]"%char]
  | JObj kv =>
      "{"%char ::
      (fix go (l : list (str * json)) : str :=
         match l with
         | [] => []
         | [(k, v)] => show_str k ++ ":"%char :: render v
         | (k, v) :: r => show_str k ++ ":"%char :: render v ++ ","%char :: go r
         end) kv ++ ["}"%char]
  end.

Definition nl : ascii := ch 10.
Definition render_lines (l : list json) : string :=
  string_of_list_ascii (flat_map (fun j => render j ++ [nl]) l).

Definition jstrs (l : list str) : json := JArr (map JStr l).
Definition jbool := JBool.

(* ---- structural comparison used by the correspondence check -------------------------------- *)
Fixpoint assoc_json (k : str) (kv : list (str * json)) : option json :=
  match kv with
  | [] => None
  | (k', v) :: r => if str_eqb k k' then Some v else assoc_json k r
  end.

(* equality of JSON values, objects compared as finite maps (key order ignored) *)
Fixpoint json_eqb (a b : json) {struct a} : bool :=
  match a, b with
  | JNull, JNull => true
  | JBool x, JBool y => Bool.eqb x y
  | JNum x, JNum y => Z.eqb x y
  | JStr x, JStr y => str_eqb x y
  | JArr x, JArr y =>
      (fix go (x y : list json) : bool :=
         match x, y with
         | [], [] => true
         | a :: x', b :: y' => json_eqb a b && go x' y'
         | _, _ => false
         end) x y
  | JObj x, JObj y =>
      Nat.eqb (List.length x) (List.length y) &&
      (fix go (x : list (str * json)) : bool :=
         match x with
         | [] => true
         | (k, v) :: x' =>
             match assoc_json k y with
             | Some w => json_eqb v w && go x'
             | None => false
             end
         end) x
  | _, _ => false
  end.

Definition without_key (k : str) (j : json) : json :=
  match j with
  | JObj kv => JObj (filter (fun e => negb (str_eqb (fst e) k)) kv)
  | _ => j
  end.
Definition field_or_null (k : str) (j : json) : json :=
  match j with
  | JObj kv => match assoc_json k kv with Some v => v | None => JNull end
  | _ => JNull
  end.

(* One correspondence case: evaluate the model, compare with what the implementation did.
   The prediction carries its defect tags under "tags"; they are not part of the comparison.
   Output is small when model and implementation agree. *)
Definition run_case {A} (predict : A -> json) (c : A * json) : json :=
  let p := predict (fst c) in
  match p with
  | JObj [(k, JStr why)] =>
      if str_eqb k (s "unmodelled") then JObj [(s "unmodelled", JStr why)]
      else JObj [(s "agree", JBool (json_eqb p (snd c))); (s "tags", JArr []); (s "pred", p)]
  | _ =>
      let tags := field_or_null (s "tags") p in
      let body := without_key (s "tags") p in
      if json_eqb body (snd c)
      then JObj [(s "agree", JBool true); (s "tags", tags)]
      else JObj [(s "agree", JBool false); (s "tags", tags); (s "pred", body)]
  end.
