(* GoRtRawPres.v — C02 prediction with the model's domain stated for query parameters bound to fields
   with EXPLICIT PRESENCE (proto3 `optional`, member of a real oneof).

   bindQueryParams (internal/httpgen/generator.go:515-576) sets such a field through
   protoreflect.Message.Set: the field becomes present even for the zero value, and setting a member
   of a oneof clears its siblings.  GoRt.mset_scalar drops zero values (implicit presence) and knows
   nothing of oneof siblings, so a service that binds a query parameter to a field with explicit
   presence is outside the model's domain: the cases are decided by the harness's independent oracle
   (zone Z3).  GoRtRaw.raw_modelled already excludes `optional`; this wrapper adds oneof members. *)
From Sebuf Require Export GoRtRaw.

Definition has_presence (f : field) : bool :=
  match f_card f with
  | Optional => true
  | _ => match f_oneof f with Some _ => true | None => false end
  end.

Definition presence_query_route (r : sroute) : bool :=
  existsb has_presence (query_fields (sr_fields r)).

Definition predict_C02p (c : c02_case) : json :=
  let '(sc, svn, vn, path, query, ctn, body) := c in
  match find_service sc svn with
  | Some (fl, sv) =>
      match server_routes sc fl sv with
      | Ok (Some rs) =>
          if existsb presence_query_route rs
          then JObj [(s "unmodelled", JStr (s "query parameter bound to a field with explicit presence"))]
          else predict_C02 c
      | _ => predict_C02 c
      end
  | None => predict_C02 c
  end.
