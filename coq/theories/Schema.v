(* Schema.v — the schema AST: a direct rendering of what the plugins read from a
   CodeGeneratorRequest (harness/lib/spec.go prints these terms). *)
From Sebuf Require Export Text.

Inductive kind :=
  | KDouble | KFloat | KInt32 | KInt64 | KUint32 | KUint64 | KSint32 | KSint64
  | KFixed32 | KFixed64 | KSfixed32 | KSfixed64 | KBool | KString | KBytes
  | KEnum (tn : str) | KMessage (tn : str).

Inductive card := Singular | Optional | Repeated | MapOf (key : kind).

Inductive int64_enc := I64Unspecified | I64String | I64Number.
Inductive enum_enc := EEUnspecified | EEString | EENumber.
Inductive empty_beh := EBUnspecified | EBPreserve | EBNull | EBOmit.
Inductive ts_fmt := TFUnspecified | TFRfc3339 | TFUnixSeconds | TFUnixMillis | TFDate.
Inductive bytes_enc := BEUnspecified | BEBase64 | BEBase64Raw | BEBase64Url | BEBase64UrlRaw | BEHex.

Record query_cfg := { q_name : str; q_required : bool }.

Record field := {
  f_name : str;
  f_number : Z;
  f_kind : kind;
  f_card : card;
  f_oneof : option str;
  f_query : option query_cfg;
  f_unwrap : bool;
  f_int64 : option int64_enc;
  f_enumenc : option enum_enc;
  f_nullable : option bool;
  f_empty : option empty_beh;
  f_tsfmt : option ts_fmt;
  f_bytesenc : option bytes_enc;
  f_oneof_value : option str;
  f_flatten : option bool;
  f_flatten_prefix : option str
}.

Record oneof := { o_name : str; o_has_cfg : bool; o_discriminator : str; o_flatten : bool }.

Record enum_value := { ev_name : str; ev_number : Z; ev_custom : option str }.
Record enum := { e_name : str (* fully qualified *); e_values : list enum_value }.

(* Messages are listed flat with fully-qualified names; [m_path] is the name path inside the file
   (Outer.Inner = ["Outer";"Inner"]). *)
Record message := {
  m_name : str;
  m_path : list str;
  m_fields : list field;
  m_oneofs : list oneof
}.

Record header := {
  h_name : str; h_type : str; h_required : bool; h_format : str
}.

Record method := {
  md_name : str; md_in : str; md_out : str;
  md_has_cfg : bool; md_path : str; md_verb : option nat (* 1..5 = GET POST PUT DELETE PATCH *);
  md_headers : list header
}.

Record service := {
  sv_name : str; sv_base : str; sv_headers : list header; sv_methods : list method
}.

Record file := {
  fl_path : str; fl_package : str; fl_gopkg : str (* Go package name *);
  fl_generate : bool;
  fl_messages : list message; fl_enums : list enum; fl_services : list service
}.

Definition schema := list file.

Definition kind_eqb (a b : kind) : bool :=
  match a, b with
  | KDouble, KDouble | KFloat, KFloat | KInt32, KInt32 | KInt64, KInt64 | KUint32, KUint32
  | KUint64, KUint64 | KSint32, KSint32 | KSint64, KSint64 | KFixed32, KFixed32
  | KFixed64, KFixed64 | KSfixed32, KSfixed32 | KSfixed64, KSfixed64 | KBool, KBool
  | KString, KString | KBytes, KBytes => true
  | KEnum x, KEnum y => str_eqb x y
  | KMessage x, KMessage y => str_eqb x y
  | _, _ => false
  end.

Definition all_messages (sc : schema) : list message := flat_map fl_messages sc.
Definition all_enums (sc : schema) : list enum := flat_map fl_enums sc.

Fixpoint find_message (ms : list message) (n : str) : option message :=
  match ms with
  | [] => None
  | m :: r => if str_eqb (m_name m) n then Some m else find_message r n
  end.
Fixpoint find_enum (es : list enum) (n : str) : option enum :=
  match es with
  | [] => None
  | e :: r => if str_eqb (e_name e) n then Some e else find_enum r n
  end.
Fixpoint find_field (fs : list field) (n : str) : option field :=
  match fs with
  | [] => None
  | f :: r => if str_eqb (f_name f) n then Some f else find_field r n
  end.

Definition is_timestamp (k : kind) : bool :=
  match k with KMessage tn => str_eqb tn (s "google.protobuf.Timestamp") | _ => false end.
