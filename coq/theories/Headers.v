(* Headers.v — C09: the header gate of the emitted Go server, the TS server's header validation and
   the contract published in the OpenAPI parameter list.

   Sources (pinned tree):
     internal/httpgen/generator.go:333-337    BindingMiddleware validates headers before anything else
     internal/httpgen/generator.go:1222-1241  merge: map keyed by strings.ToLower(name), `required` only,
                                              service first, then method (a method-level NON-required
                                              declaration is skipped and so does not remove the entry)
     internal/httpgen/generator.go:1243-1267  loop: r.Header.Get(name); "" = missing; validateHeaderValue
     internal/httpgen/generator.go:1282-1472  type switch, utf8 check, format validators
     internal/tsservergen/generator.go:150-239,507-536  five regexes, Number(), boolean literals,
                                              service ++ method configs (no override, optional ones are
                                              validated when present)
     internal/annotations/headers.go:68-107   CombineHeaders (exact-name map, method replaces service)
     internal/openapiv3/types.go:369-436      parameter schema: type mapping + format

   Character-level acceptors are written as TOKENISERS for the union grammar plus range/shape CHECKS
   per consumer (Go time.Parse / strconv, the published RFC 3339 / RFC 4122 / addr-spec grammars,
   the TS regexes); the correspondence check ties the Go checks to the compiled server. *)
From Sebuf Require Export Num Schema Json.

(* ---- characters ------------------------------------------------------------------------------ *)
Definition ceq (a b : ascii) : bool := Ascii.eqb a b.
Definition in_rng (lo hi : N) (c : ascii) : bool := (lo <=? code c)%N && (code c <=? hi)%N.
Definition chr_in (c : ascii) (set : string) : bool := existsb (ceq c) (list_ascii_of_string set).
Definition dval (c : ascii) : N := (code c - 48)%N.
Definition is_hex (c : ascii) : bool := is_digit c || in_rng 97 102 c || in_rng 65 70 c.
Definition is_alpha (c : ascii) : bool := is_upper c || is_lower c.
Definition nonempty (x : str) : bool := match x with [] => false | _ => true end.
Definition str_in (x : str) (l : list string) : bool := existsb (fun y => str_eqb x (s y)) l.

Fixpoint span (p : ascii -> bool) (x : str) : str * str :=
  match x with
  | c :: r => if p c then let '(a, b) := span p r in (c :: a, b) else ([], x)
  | [] => ([], [])
  end.

(* ---- utf8.ValidString ------------------------------------------------------------------------ *)
Definition is_cont (c : ascii) : bool := in_rng 128 191 c.
Fixpoint utf8_valid (x : str) : bool :=
  match x with
  | [] => true
  | c :: r =>
      if (code c <? 128)%N then utf8_valid r else
      if in_rng 194 223 c then
        match r with c1 :: r1 => is_cont c1 && utf8_valid r1 | _ => false end else
      if in_rng 224 239 c then
        match r with
        | c1 :: c2 :: r2 =>
            (if (code c =? 224)%N then in_rng 160 191 c1 else if (code c =? 237)%N then in_rng 128 159 c1 else is_cont c1)
            && is_cont c2 && utf8_valid r2
        | _ => false
        end else
      if in_rng 240 244 c then
        match r with
        | c1 :: c2 :: c3 :: r3 =>
            (if (code c =? 240)%N then in_rng 144 191 c1 else if (code c =? 244)%N then in_rng 128 143 c1 else is_cont c1)
            && is_cont c2 && is_cont c3 && utf8_valid r3
        | _ => false
        end
      else false
  end.

(* strings.TrimSpace(v) == "": every rune of v is unicode.IsSpace.  Invalid UTF-8 decodes to
   RuneError, which is not a space.  Spaces: U+0009-000D, 0020, 0085, 00A0, 1680, 2000-200A, 2028,
   2029, 202F, 205F, 3000. *)
Fixpoint all_space (x : str) : bool :=
  match x with
  | [] => true
  | c :: r =>
      if in_rng 9 13 c || (code c =? 32)%N then all_space r else
      match code c, r with
      | 194%N, c1 :: r1 => ((code c1 =? 133) || (code c1 =? 160))%N && all_space r1
      | 225%N, c1 :: c2 :: r2 => (code c1 =? 154)%N && (code c2 =? 128)%N && all_space r2
      | 226%N, c1 :: c2 :: r2 =>
          (((code c1 =? 128)%N && (in_rng 128 138 c2 || in_rng 168 169 c2 || (code c2 =? 175)%N))
           || ((code c1 =? 129)%N && (code c2 =? 159)%N)) && all_space r2
      | 227%N, c1 :: c2 :: r2 => (code c1 =? 128)%N && (code c2 =? 128)%N && all_space r2
      | _, _ => false
      end
  end.

(* net/textproto: optional whitespace (space, tab) around a field value is not part of it *)
Definition is_ows (c : ascii) : bool := (code c =? 32)%N || (code c =? 9)%N.
Fixpoint drop_while (p : ascii -> bool) (x : str) : str :=
  match x with c :: r => if p c then drop_while p r else x | [] => [] end.
Definition trim_with (p : ascii -> bool) (x : str) : str := rev (drop_while p (rev (drop_while p x))).
Definition http_trim (x : str) : str := trim_with is_ows x.

(* ---- integers --------------------------------------------------------------------------------- *)
Definition all_digits (x : str) : bool := forallb is_digit x.
(* strconv.ParseInt(v, 10, 64) succeeds *)
Definition go_int_ok (v : str) : bool := match parse_int 64 v with Some _ => true | None => false end.
Definition split_minus (v : str) : bool * str :=
  match v with c :: r => if ceq c "-" then (true, r) else (false, v) | [] => (false, []) end.
Definition no_leading_zero (d : str) : bool :=
  match d with c :: _ :: _ => negb (ceq c "0") | _ => true end.
(* published: the decimal serialisation of a JSON integer: optional '-', then 0 or a digit string
   without leading zero *)
Definition pub_integer (v : str) : bool :=
  let '(_, d) := split_minus v in nonempty d && all_digits d && no_leading_zero d.
Definition beyond_int64 (v : str) : bool :=
  let '(neg, d) := split_minus v in
  match parse_nat d with
  | Some n => if neg then (2 ^ 63 <? n)%N else (2 ^ 63 <=? n)%N
  | None => false
  end.
(* lenient well-formedness: [+-]?[0-9]+ *)
Definition wf_integer (v : str) : bool :=
  let d := match v with c :: r => if ceq c "-" || ceq c "+" then r else v | [] => [] end in
  nonempty d && all_digits d.
(* TS: /^-?\d+$/ *)
Definition ts_integer (v : str) : bool := let '(_, d) := split_minus v in nonempty d && all_digits d.

(* ---- numbers ---------------------------------------------------------------------------------- *)
Record numtok := {
  n_sign : option ascii;          (* '+' or '-' *)
  n_int : str; n_dot : bool; n_frac : str;
  n_exp : option (option ascii * str)   (* exponent sign, exponent digits (non-empty) *)
}.
(* sign? digits ('.' digits)? ([eE] sign? digits+)?  with at least one mantissa digit, whole string *)
Definition num_tok (v : str) : option numtok :=
  let '(sg, r0) := match v with
                   | c :: r => if ceq c "-" || ceq c "+" then (Some c, r) else (None, v)
                   | [] => (None, []) end in
  let '(ip, r1) := span is_digit r0 in
  let '(dot, fp, r2) := match r1 with
                        | c :: r => if ceq c "." then let '(f, r') := span is_digit r in (true, f, r') else (false, [], r1)
                        | [] => (false, [], []) end in
  if negb (nonempty ip || nonempty fp) then None else
  match r2 with
  | [] => Some {| n_sign := sg; n_int := ip; n_dot := dot; n_frac := fp; n_exp := None |}
  | c :: r =>
      if ceq c "e" || ceq c "E" then
        let '(es, r3) := match r with
                         | c' :: r' => if ceq c' "-" || ceq c' "+" then (Some c', r') else (None, r)
                         | [] => (None, []) end in
        let '(ed, r4) := span is_digit r3 in
        if nonempty ed && negb (nonempty r4)
        then Some {| n_sign := sg; n_int := ip; n_dot := dot; n_frac := fp; n_exp := Some (es, ed) |}
        else None
      else None
  end.

Definition digits_val (d : str) : N := match parse_digits 0 d with Some n => n | None => 0%N end.
Definition exp_val (t : numtok) : Z :=
  match n_exp t with
  | Some (es, ed) => let e := Z.of_N (digits_val ed) in
                     match es with Some c => if ceq c "-" then (- e)%Z else e | None => e end
  | None => 0%Z
  end.
(* the exact value is mant * 10^pow10 *)
Definition num_mant (t : numtok) : Z := Z.of_N (digits_val (n_int t ++ n_frac t)).
Definition num_pow10 (t : numtok) : Z := (exp_val t - Z.of_nat (List.length (n_frac t)))%Z.
(* strconv.ParseFloat(_, 64) reports ErrRange: the correctly rounded value is infinite, i.e.
   |x| >= 2^1024 - 2^970 (the midpoint rounds to even = overflow) *)
Definition f64_overflow_threshold : Z := ((2 ^ 54 - 1) * 2 ^ 970)%Z.
Definition num_overflow (t : numtok) : bool :=
  let m := num_mant t in let p := num_pow10 t in
  if (m =? 0)%Z then false else
  if (0 <=? p)%Z then
    (if (400 <? p)%Z then true else (f64_overflow_threshold <=? m * 10 ^ p)%Z)
  else
    (* m / 10^(-p) >= T  <->  m >= T * 10^(-p); m has at most |digits| digits *)
    (if (Z.of_nat (List.length (n_int t ++ n_frac t)) <? - p)%Z then false
     else (f64_overflow_threshold * 10 ^ (- p) <=? m)%Z).

Definition lower_eq (v : str) (lit : string) : bool := str_eqb (lower_str v) (s lit).
(* strconv.special: [+-]?inf, [+-]?infinity, nan (no sign), any letter case *)
Definition go_special (v : str) : bool :=
  let u := match v with c :: r => if ceq c "-" || ceq c "+" then r else v | [] => [] end in
  lower_eq u "inf" || lower_eq u "infinity" || lower_eq v "nan".
(* outside the modelled domain of ParseFloat: digit-separating underscores and hexadecimal floats *)
Definition num_unmodelled (v : str) : bool :=
  existsb (fun c => ceq c "_") v ||
  match (match v with c :: r => if ceq c "-" || ceq c "+" then r else v | [] => [] end) with
  | z :: x :: _ :: _ => ceq z "0" && (ceq x "x" || ceq x "X")
  | _ => false
  end.
Definition go_number_ok (v : str) : bool :=
  go_special v || match num_tok v with Some t => negb (num_overflow t) | None => false end.
(* published: the JSON number grammar: optional '-', integer part without leading zero, optional
   '.' digits+, optional exponent *)
Definition pub_number_shape (t : numtok) : bool :=
  match n_sign t with Some c => ceq c "-" | None => true end &&
  nonempty (n_int t) && no_leading_zero (n_int t) && (negb (n_dot t) || nonempty (n_frac t)).
Definition pub_number (v : str) : bool :=
  match num_tok v with Some t => pub_number_shape t | None => false end.
Definition wf_number (v : str) : bool := match num_tok v with Some _ => true | None => false end.

(* JS Number(v) is not NaN.  Header values reach JS as one code unit per byte; white space
   (9-13, 32, 160) around the literal is ignored and the empty string is 0. *)
Definition is_js_ws0 (c : ascii) : bool := in_rng 9 13 c || (code c =? 32)%N || (code c =? 160)%N.
Definition js_radix_literal (t : str) : bool :=
  match t with
  | z :: x :: d =>
      ceq z "0" && nonempty d &&
      ((chr_in x "xX" && forallb is_hex d) || (chr_in x "oO" && forallb (in_rng 48 55) d) || (chr_in x "bB" && forallb (in_rng 48 49) d))
  | _ => false
  end.
Definition js_number_ok (v : str) : bool :=
  match num_tok v with Some _ => true | None =>
  let t := trim_with is_js_ws0 v in
  negb (nonempty t) || str_in t ["Infinity"; "+Infinity"; "-Infinity"]%string || js_radix_literal t ||
  match num_tok t with Some _ => true | None => false end end.

(* ---- booleans, arrays -------------------------------------------------------------------------- *)
Definition go_bool_ok (v : str) : bool := match parse_bool v with Some _ => true | None => false end.
Definition pub_boolean (v : str) : bool := str_in v ["true"; "false"]%string.
Definition ts_boolean (v : str) : bool := str_in v ["true"; "false"; "1"; "0"]%string.
Definition go_array_ok (v : str) : bool := negb (all_space v).

(* ---- uuid -------------------------------------------------------------------------------------- *)
Definition nth_is (n : nat) (c : ascii) (v : str) : bool := match nth_error v n with Some d => ceq d c | None => false end.
Definition uuid_frame (v : str) : bool :=
  Nat.eqb (List.length v) 36 && nth_is 8 "-" v && nth_is 13 "-" v && nth_is 18 "-" v && nth_is 23 "-" v.
Definition go_uuid_ok (v : str) : bool := uuid_frame v.
Fixpoint uuid_hex_at (i : nat) (v : str) : bool :=
  match v with
  | [] => true
  | c :: r => (if Nat.eqb i 8 || Nat.eqb i 13 || Nat.eqb i 18 || Nat.eqb i 23 then true else is_hex c) && uuid_hex_at (S i) r
  end.
(* RFC 4122 textual form, either letter case; also the TS UUID_REGEX (flag i) *)
Definition pub_uuid (v : str) : bool := uuid_frame v && uuid_hex_at 0 v.

(* ---- email ------------------------------------------------------------------------------------- *)
Definition is_at (c : ascii) : bool := ceq c "@".
Definition go_email_ok (v : str) : bool :=
  match split_on "@" v with
  | [a; b] => nonempty a && nonempty b
  | _ => false
  end.
Definition is_atext (c : ascii) : bool := is_alpha c || is_digit c || chr_in c "!#$%&'*+-/=?^_`{|}~".
Definition is_ldh (c : ascii) : bool := is_alpha c || is_digit c || ceq c "-".
Fixpoint has_infix (p x : str) : bool :=
  has_prefix p x || match x with [] => false | _ :: r => has_infix p r end.
(* non-empty '.'-separated non-empty runs of p-characters *)
Definition dotted (p : ascii -> bool) (x : str) : bool :=
  nonempty x && forallb (fun c => p c || ceq c ".") x &&
  negb (has_prefix (s ".") x) && negb (has_suffix (s ".") x) && negb (has_infix (s "..") x).
(* published: addr-spec restricted to dot-atom "@" dot-separated LDH labels (no label starts or
   ends with '-') *)
Definition pub_email (v : str) : bool :=
  match split_on "@" v with
  | [a; b] => dotted is_atext a && dotted is_ldh b &&
              negb (has_prefix (s "-") b) && negb (has_suffix (s "-") b) &&
              negb (has_infix (s "-.") b) && negb (has_infix (s ".-") b)
  | _ => false
  end.
(* TS: /^[^\s@]+@[^\s@]+\.[^\s@]+$/ *)
Definition is_js_ws (c : ascii) : bool := in_rng 9 13 c || (code c =? 32)%N || (code c =? 160)%N.
Definition inner_dot (d : str) : bool :=
  match d with
  | _ :: r => existsb (fun c => ceq c ".") (removelast r)
  | [] => false
  end.
Definition ts_email (v : str) : bool :=
  match split_on "@" v with
  | [a; b] => nonempty a && negb (existsb is_js_ws a) && negb (existsb is_js_ws b) && inner_dot b
  | _ => false
  end.

(* ---- dates and times ---------------------------------------------------------------------------- *)
Inductive zone := ZNone | ZZulu (c : ascii) | ZOff (neg : bool) (hh mm : N).
Record todtok := { t_hour : N; t_hour_nd : nat; t_min : N; t_sec : N; t_frac : option (ascii * str); t_zone : zone }.
Record datetok := { d_year : N; d_month : N; d_day : N }.

Definition two_digits (x : str) : option (N * str) :=
  match x with
  | c1 :: c2 :: r => if is_digit c1 && is_digit c2 then Some (dval c1 * 10 + dval c2, r)%N else None
  | _ => None
  end.
Definition four_digits (x : str) : option (N * str) :=
  match two_digits x with
  | Some (a, r) => match two_digits r with Some (b, r') => Some (a * 100 + b, r')%N | None => None end
  | None => None
  end.
(* time.getnum(s, false): one digit, two when the next byte is a digit too *)
Definition one_or_two_digits (x : str) : option (N * nat * str) :=
  match x with
  | c1 :: r1 =>
      if is_digit c1 then
        match r1 with
        | c2 :: r2 => if is_digit c2 then Some ((dval c1 * 10 + dval c2)%N, 2, r2) else Some (dval c1, 1, r1)
        | [] => Some (dval c1, 1, [])
        end
      else None
  | [] => None
  end.
Definition expect (p : ascii -> bool) (x : str) : option (ascii * str) :=
  match x with c :: r => if p c then Some (c, r) else None | [] => None end.

Definition tok_date_prefix (x : str) : option (datetok * str) :=
  match four_digits x with
  | Some (y, r) =>
    match expect (fun c => ceq c "-") r with
    | Some (_, r) =>
      match two_digits r with
      | Some (m, r) =>
        match expect (fun c => ceq c "-") r with
        | Some (_, r) =>
          match two_digits r with
          | Some (d, r) => Some ({| d_year := y; d_month := m; d_day := d |}, r)
          | None => None end
        | None => None end
      | None => None end
    | None => None end
  | None => None end.

(* fraction: '.' or ',' followed by at least one digit, then every following digit
   (time.parse, stdSecond case: commaOrPeriod(value[0]) && isDigit(value, 1)) *)
Definition tok_frac (x : str) : option (ascii * str) * str :=
  match x with
  | c :: r =>
      if (ceq c "." || ceq c ",") && match r with d :: _ => is_digit d | [] => false end
      then let '(ds, r') := span is_digit r in (Some (c, ds), r')
      else (None, x)
  | [] => (None, [])
  end.
Definition tok_zone (x : str) : option zone :=
  match x with
  | [] => Some ZNone
  | [c] => if ceq c "Z" || ceq c "z" then Some (ZZulu c) else None
  | c :: r =>
      if ceq c "+" || ceq c "-" then
        match two_digits r with
        | Some (hh, r1) =>
          match expect (fun c => ceq c ":") r1 with
          | Some (_, r2) =>
            match two_digits r2 with
            | Some (mm, []) => Some (ZOff (ceq c "-") hh mm)
            | _ => None end
          | None => None end
        | None => None end
      else None
  end.
(* H[H]:MM:SS[(.|,)digits][zone] to the end of the string *)
Definition tok_tod (x : str) : option todtok :=
  match one_or_two_digits x with
  | Some (h, nd, r) =>
    match expect (fun c => ceq c ":") r with
    | Some (_, r) =>
      match two_digits r with
      | Some (mi, r) =>
        match expect (fun c => ceq c ":") r with
        | Some (_, r) =>
          match two_digits r with
          | Some (se, r) =>
              let '(fr, r) := tok_frac r in
              match tok_zone r with
              | Some z => Some {| t_hour := h; t_hour_nd := nd; t_min := mi; t_sec := se; t_frac := fr; t_zone := z |}
              | None => None end
          | None => None end
        | None => None end
      | None => None end
    | None => None end
  | None => None end.
Definition tok_date (x : str) : option datetok :=
  match tok_date_prefix x with Some (d, []) => Some d | _ => None end.
Definition tok_datetime (x : str) : option (datetok * ascii * todtok) :=
  match tok_date_prefix x with
  | Some (d, r) =>
      match expect (fun c => ceq c "T" || ceq c "t") r with
      | Some (sep, r) => match tok_tod r with Some t => Some (d, sep, t) | None => None end
      | None => None end
  | None => None end.

(* time.isLeap / time.daysIn *)
Definition leap (y : N) : bool := ((y mod 4 =? 0) && (negb (y mod 100 =? 0) || (y mod 400 =? 0)))%N.
Definition days_in (y m : N) : N :=
  if (m =? 2)%N then (if leap y then 29 else 28)%N
  else if ((m =? 4) || (m =? 6) || (m =? 9) || (m =? 11))%N then 30%N else 31%N.
Definition date_ok (d : datetok) : bool :=
  ((1 <=? d_month d) && (d_month d <=? 12) && (1 <=? d_day d) && (d_day d <=? days_in (d_year d) (d_month d)))%N.
Definition hms_ok (t : todtok) : bool := ((t_hour t <? 24) && (t_min t <? 60) && (t_sec t <? 60))%N.
Definition frac_sep_is (c : ascii) (t : todtok) : bool :=
  match t_frac t with Some (sp, _) => ceq sp c | None => true end.

(* Go: time.Parse(time.RFC3339, v).  The general parser (format.go parse): literal 'T', hour of one
   or two digits, '.' or ',' fraction, 'Z' or [+-]hh:mm with hh <= 24 and mm <= 60 *)
Definition go_zone_ok (z : zone) : bool :=
  match z with
  | ZZulu c => ceq c "Z"
  | ZOff _ hh mm => ((hh <=? 24) && (mm <=? 60))%N
  | ZNone => false
  end.
Definition go_dt_general (x : datetok * ascii * todtok) : bool :=
  let '(d, sep, t) := x in ceq sep "T" && date_ok d && hms_ok t && go_zone_ok (t_zone t).
(* the fast path tried first (format_rfc3339.go parseRFC3339): two-digit hour, '.' fraction,
   'Z' or an offset with hh <= 23, mm <= 59 *)
Definition strict_zone_ok (z : zone) : bool :=
  match z with
  | ZZulu c => ceq c "Z"
  | ZOff _ hh mm => ((hh <=? 23) && (mm <=? 59))%N
  | ZNone => false
  end.
Definition go_dt_fast (x : datetok * ascii * todtok) : bool :=
  let '(d, sep, t) := x in
  ceq sep "T" && date_ok d && Nat.eqb (t_hour_nd t) 2 && hms_ok t && frac_sep_is "." t && strict_zone_ok (t_zone t).
Definition go_datetime_ok (v : str) : bool :=
  match tok_datetime v with Some x => go_dt_fast x || go_dt_general x | None => false end.
Definition go_date_ok (v : str) : bool := match tok_date v with Some d => date_ok d | None => false end.
(* time.Parse("15:04:05", v): no zone in the layout *)
Definition go_time_ok (v : str) : bool :=
  match tok_tod v with
  | Some t => hms_ok t && match t_zone t with ZNone => true | _ => false end
  | None => false
  end.

(* published: RFC 3339 section 5.6.  "T"/"Z" may be lower case; time-second may be 60 at a leap
   second, i.e. when the UTC time of day is 23:59 *)
Definition pub_zone_ok (z : zone) : bool :=
  match z with
  | ZZulu _ => true
  | ZOff _ hh mm => ((hh <=? 23) && (mm <=? 59))%N
  | ZNone => false
  end.
Definition zone_minutes (z : zone) : Z :=
  match z with
  | ZOff neg hh mm => let m := Z.of_N (hh * 60 + mm) in if neg then (- m)%Z else m
  | _ => 0%Z
  end.
Definition leap_second_position (t : todtok) : bool :=
  ((Z.of_N (t_hour t * 60 + t_min t) - zone_minutes (t_zone t)) mod 1440 =? 1439)%Z.
Definition pub_tod_ok (t : todtok) : bool :=
  Nat.eqb (t_hour_nd t) 2 && ((t_hour t <? 24) && (t_min t <? 60))%N &&
  ((t_sec t <? 60)%N || ((t_sec t =? 60)%N && leap_second_position t)) &&
  frac_sep_is "." t && pub_zone_ok (t_zone t).
Definition pub_datetime (v : str) : bool :=
  match tok_datetime v with Some (d, _, t) => date_ok d && pub_tod_ok t | None => false end.
Definition pub_date (v : str) : bool := go_date_ok v.
Definition pub_time (v : str) : bool := match tok_tod v with Some t => pub_tod_ok t | None => false end.
(* the form the generator's own comment documents for `time`: HH:MM:SS with an optional '.' fraction *)
Definition doc_time (v : str) : bool :=
  match tok_tod v with
  | Some t => Nat.eqb (t_hour_nd t) 2 && hms_ok t && frac_sep_is "." t && match t_zone t with ZNone => true | _ => false end
  | None => false
  end.

(* TS regexes: no range checks at all *)
Definition ts_datetime (v : str) : bool :=
  match tok_datetime v with
  | Some (_, sep, t) => ceq sep "T" && Nat.eqb (t_hour_nd t) 2 && frac_sep_is "." t &&
                        match t_zone t with ZZulu c => ceq c "Z" | ZOff _ _ _ => true | ZNone => false end
  | None => false
  end.
Definition ts_date (v : str) : bool := match tok_date v with Some _ => true | None => false end.
Definition ts_time (v : str) : bool :=
  match tok_tod v with
  | Some t => Nat.eqb (t_hour_nd t) 2 && frac_sep_is "." t && match t_zone t with ZNone => true | _ => false end
  | None => false
  end.

(* ---- dispatch on declared type and format ------------------------------------------------------- *)
Definition is_s (x : str) (lit : string) : bool := str_eqb x (s lit).

Definition go_format_ok (fmt v : str) : bool :=
  if is_s fmt "uuid" then go_uuid_ok v else if is_s fmt "email" then go_email_ok v
  else if is_s fmt "date-time" then go_datetime_ok v else if is_s fmt "date" then go_date_ok v
  else if is_s fmt "time" then go_time_ok v else true.
(* validateStringHeader *)
Definition go_string_ok (fmt v : str) : bool := utf8_valid v && go_format_ok fmt v.
(* validateHeaderValue: exact, case-sensitive type names; anything else is treated as a string *)
Definition go_value_ok (ty fmt v : str) : bool :=
  if is_s ty "string" then go_string_ok fmt v
  else if is_s ty "integer" then go_int_ok v
  else if is_s ty "number" then go_number_ok v
  else if is_s ty "boolean" then go_bool_ok v
  else if is_s ty "array" then go_array_ok v
  else go_string_ok fmt v.

(* the six declared types of the property's quantifier; the published schema type (mapHeaderTypeToOpenAPI) *)
Definition known_type (ty : str) : bool := str_in ty ["string"; "integer"; "number"; "boolean"; "array"; ""]%string.
Definition string_typed (ty : str) : bool := is_s ty "string" || is_s ty "".

Definition pub_format_ok (fmt v : str) : bool :=
  if is_s fmt "uuid" then pub_uuid v else if is_s fmt "email" then pub_email v
  else if is_s fmt "date-time" then pub_datetime v else if is_s fmt "date" then pub_date v
  else if is_s fmt "time" then pub_time v else true.
(* JSON Schema: `format` constrains string instances only *)
Definition published_ok (ty fmt v : str) : bool :=
  if is_s ty "integer" then pub_integer v
  else if is_s ty "number" then pub_number v
  else if is_s ty "boolean" then pub_boolean v
  else if is_s ty "array" then true
  else utf8_valid v && pub_format_ok fmt v.

(* lenient well-formedness ("well-formed for its declared type and format"): what a reader of the
   generator's comments and of the standards would still call a value of that type/format *)
Definition wf_format_ok (fmt v : str) : bool :=
  if is_s fmt "uuid" then pub_uuid v else if is_s fmt "email" then go_email_ok v
  else if is_s fmt "date-time" then pub_datetime v else if is_s fmt "date" then pub_date v
  else if is_s fmt "time" then pub_time v || doc_time v else true.
Definition wf_value (ty fmt v : str) : bool :=
  if is_s ty "integer" then wf_integer v
  else if is_s ty "number" then wf_number v
  else if is_s ty "boolean" then go_bool_ok v
  else if is_s ty "array" then negb (all_space v)
  else utf8_valid v && wf_format_ok fmt v.

Definition ts_format_ok (fmt v : str) : bool :=
  if is_s fmt "uuid" then pub_uuid v else if is_s fmt "email" then ts_email v
  else if is_s fmt "date-time" then ts_datetime v else if is_s fmt "date" then ts_date v
  else if is_s fmt "time" then ts_time v else true.
(* validateHeaderValue (TS): the format is applied whatever the type *)
Definition ts_value_ok (ty fmt v : str) : bool :=
  (if is_s ty "integer" then ts_integer v else if is_s ty "number" then js_number_ok v
   else if is_s ty "boolean" then ts_boolean v else true) && ts_format_ok fmt v.

(* ---- declarations, merge ------------------------------------------------------------------------ *)
Definition name_eqb (a b : str) : bool := str_eqb (lower_str a) (lower_str b).
Definition hreq := list (str * str).     (* header lines of the request, in order: (name, value as sent) *)

(* allHeaders[strings.ToLower(name)] = h *)
Fixpoint upsert (h : header) (acc : list header) : list header :=
  match acc with
  | [] => [h]
  | a :: r => if name_eqb (h_name a) (h_name h) then h :: r else a :: upsert h r
  end.
Definition add_required (acc hs : list header) : list header :=
  fold_left (fun acc h => if h_required h then upsert h acc else acc) hs acc.
Definition go_effective (svc mth : list header) : list header := add_required (add_required [] svc) mth.
Definition eff_find (n : str) (l : list header) : option header := find (fun a => name_eqb (h_name a) n) l.
Definition last_required (n : str) (hs : list header) : option header :=
  fold_left (fun o h => if h_required h && name_eqb (h_name h) n then Some h else o) hs None.

(* r.Header.Get(name): first line whose canonical name matches *)
Definition hdr_get (rq : hreq) (n : str) : option str :=
  match find (fun kv => name_eqb (fst kv) n) rq with Some kv => Some (http_trim (snd kv)) | None => None end.
Definition go_value_of (rq : hreq) (n : str) : str := match hdr_get rq n with Some v => v | None => [] end.
Definition go_header_bad (rq : hreq) (h : header) : bool :=
  let v := go_value_of rq (h_name h) in
  negb (nonempty v) || negb (go_value_ok (h_type h) (h_format h) v).
Definition go_offending (svc mth : list header) (rq : hreq) : list header :=
  filter (go_header_bad rq) (go_effective svc mth).

Record outcome := { o_status : Z; o_violations : list str; o_handler : bool; o_body_read : bool }.
(* BindingMiddleware: header gate, then (URL binding, always succeeding in the C09 catalogue) the body
   for POST/PUT/PATCH, then the handler *)
Definition go_serve (svc mth : list header) (rq : hreq) (body_verb body_ok : bool) : outcome :=
  match go_offending svc mth rq with
  | [] =>
      if body_verb && negb body_ok
      then {| o_status := 400; o_violations := [s "body"]; o_handler := false; o_body_read := true |}
      else {| o_status := 200; o_violations := []; o_handler := true; o_body_read := body_verb |}
  | bad => {| o_status := 400; o_violations := map h_name bad; o_handler := false; o_body_read := false |}
  end.

(* TS: service ++ method, every entry; Headers.get is case-insensitive and joins repeated lines with
   ", " (modelled for single lines: [ts_modelled]) *)
Definition ts_configs (svc mth : list header) : list header := svc ++ mth.
Definition ts_header_bad (rq : hreq) (h : header) : bool :=
  match hdr_get rq (h_name h) with
  | None => h_required h
  | Some v => negb (ts_value_ok (h_type h) (h_format h) v)
  end.
Definition ts_violations (svc mth : list header) (rq : hreq) : list str :=
  map h_name (filter (ts_header_bad rq) (ts_configs svc mth)).

(* OpenAPI: CombineHeaders — exact-name map, method entries (required or not) replace service entries *)
Fixpoint upsert_exact (h : header) (acc : list header) : list header :=
  match acc with
  | [] => [h]
  | a :: r => if str_eqb (h_name a) (h_name h) then h :: r else a :: upsert_exact h r
  end.
Definition combine_headers (svc mth : list header) : list header :=
  match svc, mth with
  | [], _ => mth
  | _, [] => svc
  | _, _ => fold_left (fun acc h => if nonempty (h_name h) then upsert_exact h acc else acc) (svc ++ mth) []
  end.
(* a request satisfies the published parameter list *)
Definition pub_param_ok (rq : hreq) (h : header) : bool :=
  match hdr_get rq (h_name h) with
  | None => negb (h_required h)
  | Some v => published_ok (h_type h) (h_format h) v
  end.
Definition published_request_ok (svc mth : list header) (rq : hreq) : bool :=
  forallb (pub_param_ok rq) (combine_headers svc mth).

(* ---- defect classes ------------------------------------------------------------------------------ *)
Inductive c09_defect :=
  (* published-conforming requests the Go server rejects *)
  | DTimeOffset             (* format time: every RFC 3339 full-time carries an offset; layout 15:04:05 has none *)
  | DDatetimeLowerTZ        (* date-time with lower-case t / z *)
  | DLeapSecond             (* date-time with second 60 *)
  | DIntegerBeyondInt64
  | DNumberOverflow
  | DEmptyValue             (* string/array-typed required header sent with an empty value: "missing" *)
  | DArrayBlank             (* array value consisting of Unicode white space *)
  | DOptionalOverride       (* method-level optional declaration does not remove the service-level required one *)
  (* malformed values the Go gate lets through *)
  | GUuidNonHex
  | GDatetimeLenient        (* one-digit hour, ',' fraction, offset hour 24 / minute 60 *)
  | GTimeLenient            (* one-digit hour, ',' fraction *)
  | GNumberGoLiteral.       (* inf / infinity / nan *)

Definition c09_defect_str (d : c09_defect) : str :=
  match d with
  | DTimeOffset => s "time-offset-rejected"
  | DDatetimeLowerTZ => s "datetime-lowercase-t-z"
  | DLeapSecond => s "leap-second-rejected"
  | DIntegerBeyondInt64 => s "integer-beyond-int64"
  | DNumberOverflow => s "number-overflow"
  | DEmptyValue => s "empty-value-reported-missing"
  | DArrayBlank => s "array-unicode-blank-rejected"
  | DOptionalOverride => s "method-optional-does-not-override-service-required"
  | GUuidNonHex => s "uuid-non-hex-accepted"
  | GDatetimeLenient => s "datetime-lenient-accepted"
  | GTimeLenient => s "time-lenient-accepted"
  | GNumberGoLiteral => s "number-go-literal-accepted"
  end.

Definition has_lower_tz (v : str) : bool :=
  match tok_datetime v with
  | Some (_, sep, t) => ceq sep "t" || match t_zone t with ZZulu c => ceq c "z" | _ => false end
  | None => false
  end.
Definition has_sec60 (v : str) : bool :=
  match tok_datetime v with Some (_, _, t) => (t_sec t =? 60)%N | None => false end.

(* reject-side classes of one (declaration, value): defined on the published grammar only *)
Definition format_reject_defects (fmt v : str) : list c09_defect :=
  (if nonempty v then [] else [DEmptyValue]) ++
  (if is_s fmt "time" then [DTimeOffset] else []) ++
  (if is_s fmt "date-time" then (if has_lower_tz v then [DDatetimeLowerTZ] else []) ++ (if has_sec60 v then [DLeapSecond] else []) else []).
Definition value_reject_defects (ty fmt v : str) : list c09_defect :=
  if negb (published_ok ty fmt v) then [] else
  if is_s ty "integer" then (if beyond_int64 v then [DIntegerBeyondInt64] else [])
  else if is_s ty "number" then
    match num_tok v with Some t => if num_overflow t then [DNumberOverflow] else [] | None => [] end
  else if is_s ty "boolean" then []
  else if is_s ty "array" then
    (if nonempty v then (if all_space v then [DArrayBlank] else []) else [DEmptyValue])
  else format_reject_defects fmt v.

(* accept-side classes: defined on the shape of the value, not on the Go acceptor *)
Definition dt_lenient_shape (t : todtok) : bool :=
  negb (Nat.eqb (t_hour_nd t) 2) || negb (frac_sep_is "." t) ||
  match t_zone t with ZOff _ hh mm => ((hh =? 24) || (mm =? 60))%N | _ => false end.
Definition format_accept_defects (fmt v : str) : list c09_defect :=
  if is_s fmt "uuid" then (if uuid_frame v && negb (uuid_hex_at 0 v) then [GUuidNonHex] else [])
  else if is_s fmt "date-time" then
    match tok_datetime v with Some (_, _, t) => if dt_lenient_shape t then [GDatetimeLenient] else [] | None => [] end
  else if is_s fmt "time" then
    match tok_tod v with
    | Some t => if negb (Nat.eqb (t_hour_nd t) 2) || negb (frac_sep_is "." t) then [GTimeLenient] else []
    | None => [] end
  else [].
Definition value_accept_defects (ty fmt v : str) : list c09_defect :=
  if is_s ty "string" then format_accept_defects fmt v
  else if is_s ty "integer" then []
  else if is_s ty "number" then (if go_special v then [GNumberGoLiteral] else [])
  else if is_s ty "boolean" then []
  else if is_s ty "array" then []
  else format_accept_defects fmt v.

(* the declaration the OpenAPI document keeps for this exact name (the last one of service ++ method)
   is optional, while the Go merge keeps the earlier required one: method-level optional declarations
   (and later optional duplicates) do not remove a required entry *)
Definition last_exact (n : str) (hs : list header) : option header :=
  fold_left (fun o h => if str_eqb (h_name h) n then Some h else o) hs None.
Definition optional_override_shape (svc mth : list header) (h : header) : bool :=
  match last_exact (h_name h) (svc ++ mth) with Some p => negb (h_required p) | None => false end.

Definition reject_defects_C09 (svc mth : list header) (rq : hreq) : list c09_defect :=
  flat_map (fun h =>
    if optional_override_shape svc mth h then [DOptionalOverride] else
    match hdr_get rq (h_name h) with
    | Some v => value_reject_defects (h_type h) (h_format h) v
    | None => []
    end) (go_effective svc mth).
Definition accept_defects_C09 (svc mth : list header) (rq : hreq) : list c09_defect :=
  flat_map (fun h =>
    match hdr_get rq (h_name h) with
    | Some v => value_accept_defects (h_type h) (h_format h) v
    | None => []
    end) (go_effective svc mth).
Definition defects_C09 (svc mth : list header) (rq : hreq) : list c09_defect :=
  reject_defects_C09 svc mth rq ++ accept_defects_C09 svc mth rq.

Definition dedup_strs (l : list str) : list str :=
  fold_right (fun d acc => if existsb (str_eqb d) acc then acc else d :: acc) [] l.

(* TS-side classes (model only unless the node driver is available) *)
Inductive c09_ts_defect :=
  | TSTimeOffset | TSDatetimeLowerTZ | TSEmailNeedsDot | TSFormatOnNonString | TSNoOverride.
Definition c09_ts_defect_str (d : c09_ts_defect) : str :=
  match d with
  | TSTimeOffset => s "ts-time-offset-rejected"
  | TSDatetimeLowerTZ => s "ts-datetime-lowercase-t-z"
  | TSEmailNeedsDot => s "ts-email-needs-dot"
  | TSFormatOnNonString => s "ts-format-on-non-string-type"
  | TSNoOverride => s "ts-no-override"
  end.
Definition known_format (fmt : str) : bool := str_in fmt ["uuid"; "email"; "date-time"; "date"; "time"]%string.
Definition ts_value_defects (ty fmt v : str) : list c09_ts_defect :=
  if negb (published_ok ty fmt v) then [] else
  if negb (string_typed ty) then (if known_format fmt then [TSFormatOnNonString] else [])
  else (if is_s fmt "time" then [TSTimeOffset] else []) ++
       (if is_s fmt "date-time" then (if has_lower_tz v then [TSDatetimeLowerTZ] else []) else []) ++
       (if is_s fmt "email" then (match split_on "@" v with [_; b] => if inner_dot b then [] else [TSEmailNeedsDot] | _ => [] end) else []).
(* a configuration entry that the published list does not contain (it was replaced by a later
   declaration of the same exact name) is still enforced by the TS server *)
Definition in_published (svc mth : list header) (h : header) : bool :=
  existsb (fun p => str_eqb (h_name p) (h_name h) && str_eqb (h_type p) (h_type h) && str_eqb (h_format p) (h_format h)
                    && Bool.eqb (h_required p) (h_required h)) (combine_headers svc mth).
Definition defects_C09_ts (svc mth : list header) (rq : hreq) : list c09_ts_defect :=
  flat_map (fun h =>
    if negb (in_published svc mth h) then [TSNoOverride] else
    match hdr_get rq (h_name h) with
    | Some v => ts_value_defects (h_type h) (h_format h) v
    | None => []
    end) (ts_configs svc mth).

(* ---- prediction ------------------------------------------------------------------------------------ *)
Fixpoint str_leb (a b : str) : bool :=
  match a, b with
  | [], _ => true
  | _ :: _, [] => false
  | x :: a', y :: b' => if (code x <? code y)%N then true else if (code y <? code x)%N then false else str_leb a' b'
  end.
Fixpoint insert_sorted (x : str) (l : list str) : list str :=
  match l with [] => [x] | y :: r => if str_leb x y then x :: l else y :: insert_sorted x r end.
Definition sort_strs (l : list str) : list str := fold_right insert_sorted [] l.

Definition token_name (n : str) : bool := nonempty n && forallb (fun c => is_alpha c || is_digit c || ceq c "-" || ceq c "_") n.
Definition value_byte_ok (c : ascii) : bool := (in_rng 32 126 c || in_rng 128 255 c || (code c =? 9)%N).

(* the header parameters of the operation in the OpenAPI document, as a set (rendered sorted) *)
Definition pub_type (ty : str) : str := if is_s ty "" then s "string" else ty.
Definition param_key (h : header) : str :=
  h_name h ++ s "|" ++ pub_type (h_type h) ++ s "|" ++ h_format h ++ s "|" ++ (if h_required h then s "required" else s "optional").
Definition published_json (svc mth : list header) : json :=
  jstrs (sort_strs (map param_key (filter (fun h => nonempty (h_name h)) (combine_headers svc mth)))).

(* case = (service headers, method headers, request header lines, body verb?, body well-formed?) *)
Definition c09_case := (list header * list header * hreq * bool * bool)%type.

Definition c09_unmodelled (svc mth : list header) (rq : hreq) : option str :=
  if negb (forallb (fun h => token_name (h_name h)) (svc ++ mth)) then Some (s "declared header name is not a token") else
  if negb (forallb (fun h => known_type (h_type h)) (svc ++ mth)) then Some (s "declared type outside string/integer/number/boolean/array/unset") else
  if existsb (fun kv => Nat.ltb 700 (List.length (snd kv))) rq then Some (s "header value longer than 700 bytes") else
  if negb (forallb (fun kv => token_name (fst kv) && forallb value_byte_ok (snd kv)) rq) then Some (s "request header outside the modelled bytes") else
  if existsb (fun h => is_s (h_type h) "number" && num_unmodelled (go_value_of rq (h_name h))) (go_effective svc mth)
  then Some (s "ParseFloat: underscore-separated or hexadecimal literal") else None.

Definition predict_C09 (c : c09_case) : json :=
  let '(svc, mth, rq, bv, bok) := c in
  match c09_unmodelled svc mth rq with
  | Some why => JObj [(s "unmodelled", JStr why)]
  | None =>
      let o := go_serve svc mth rq bv bok in
      JObj [(s "tags", jstrs (dedup_strs (map c09_defect_str (defects_C09 svc mth rq))));
            (s "status", JNum (o_status o));
            (s "violations", jstrs (sort_strs (o_violations o)));
            (s "handler", JBool (o_handler o));
            (s "body_read", JBool (o_body_read o))]
  end.

(* the published parameter list of one operation *)
Definition predict_C09_published (c : list header * list header) : json :=
  JObj [(s "tags", JArr []); (s "published", published_json (fst c) (snd c))].

(* the TS server on the same case: violations in configuration order *)
Definition ts_modelled (svc mth : list header) (rq : hreq) : bool :=
  forallb (fun kv => Nat.eqb (List.length (filter (fun kv' => name_eqb (fst kv') (fst kv)) rq)) 1) rq.
Definition predict_C09_ts (c : c09_case) : json :=
  let '(svc, mth, rq, bv, bok) := c in
  match c09_unmodelled svc mth rq with
  | Some why => JObj [(s "unmodelled", JStr why)]
  | None =>
      if negb (ts_modelled svc mth rq) then JObj [(s "unmodelled", JStr (s "repeated header line (Headers.get joins)"))] else
      let vs := ts_violations svc mth rq in
      JObj [(s "tags", jstrs (dedup_strs (map c09_ts_defect_str (defects_C09_ts svc mth rq))));
            (s "status", JNum (match vs with [] => 200 | _ => 400 end)%Z);
            (s "violations", jstrs vs)]
  end.
