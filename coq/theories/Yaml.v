(* Yaml.v — the node tree that libopenapi hands to the YAML emitter, and the two readers of the
   emitted text.

   protoc-gen-openapiv3 always renders YAML first (yaml.Marshal of the libopenapi document, go.yaml.in/yaml/v4);
   the JSON rendering is sigs.k8s.io/yaml.YAMLToJSON of THAT TEXT (internal/openapiv3/generator.go:964-983),
   i.e. the text is read back with go.yaml.in/yaml/v2, a YAML 1.1 resolver.  A consumer of the .yaml file
   reads it with a YAML 1.2 core-schema resolver (OpenAPI 3.1 §4.3: YAML 1.2, JSON-compatible tags).

   Scalars reach the emitter in three ways:
     YStr x    tagged !!str (Go strings, map keys, libopenapi string nodes): the emitter quotes the value
               exactly when the v4 resolver would not read the plain form back as a string
               (yaml/v4 encode: rtag != strTag -> forceQuoting), or when plain style is impossible;
     YPlain x  &yaml.Node{Kind: ScalarNode, Value: x} WITHOUT tag (validation.go numeric const / in,
               types.go:226-232,287-295,405-410, generator.go:325-329,433-440): always written plain
               when plain style is possible.  (The string const / in nodes of validation.go:119-139
               carry Tag "!!str" since the repair of string-value-untagged-scalar: they are YStr.);
     YGoStr x  a Go string encoded through reflection ([]string fields: tags, required, type lists):
               additionally quoted when it is a YAML 1.1 boolean word or a base-60 number, so every
               reader gets a string;
     YNum/YBool typed values;
     YNull     &yaml.Node{Kind: ScalarNode, Tag: "!!null", Value: "null"} (types.go:101-105, the member
               makeNullableSchema appends to a non-empty `enum`): the resolved tag of the value equals the
               node's tag, so the emitter writes the plain word `null` without an explicit tag; the v4
               resolver (YAML 1.2 core) and the v2 resolver (YAML 1.1) both read it as null, and
               YAMLToJSON prints JSON null.
   Public interface: ynode, yscalar, resolve12, resolve11, reader, reader12, reader11, denote,
   scalars, ynode_unknowns, yaml11_bool_word. *)
From Sebuf Require Export JsonSchema.

Inductive ynode :=
  | YStr (x : str)
  | YPlain (x : str)
  | YGoStr (x : str)
  | YNum (d : dec)
  | YBool (b : bool)
  | YNull
  | YSeq (l : list ynode)
  | YMap (kv : list (str * ynode)).

(* ---- plain-scalar resolution ---------------------------------------------------------------- *)
Inductive yscalar := YSStr | YSNull | YSBool (b : bool) | YSNum (d : dec) | YSUnknown.

Definition is_letter (c : ascii) : bool := is_upper c || is_lower c.
(* first bytes on which the resolvers look further (resolver.go:35-47): sign, digit, dot *)
Definition numeric_start (c : ascii) : bool :=
  is_digit c || Ascii.eqb c "+"%char || Ascii.eqb c "-"%char || Ascii.eqb c "."%char.
Definition no_control (x : str) : bool := forallb (fun c => (32 <=? code c)%N) x.

Definition true_words : list str := [s "true"; s "True"; s "TRUE"].
Definition false_words : list str := [s "false"; s "False"; s "FALSE"].
Definition null_words : list str := [s "null"; s "Null"; s "NULL"].
(* YAML 1.1 only (go.yaml.in/yaml/v2 resolve.go:36-41) *)
Definition yaml11_true_words : list str := [s "y"; s "Y"; s "yes"; s "Yes"; s "YES"; s "on"; s "On"; s "ON"].
Definition yaml11_false_words : list str := [s "n"; s "N"; s "no"; s "No"; s "NO"; s "off"; s "Off"; s "OFF"].
Definition yaml11_bool_word (x : str) : bool := mem_str x yaml11_true_words || mem_str x yaml11_false_words.

(* decimal integer (optional '-', no leading zeros, magnitude at most 2^63-1) and decimal fraction (the same
   followed by '.' and digits, at most 15 digits in total): read as the same number by both
   resolvers and exactly recoverable through float64 round trips.  Every other value that starts
   with a sign, a digit or a dot is outside the modelled domain. *)
Fixpoint digits_val (acc : Z) (x : str) : option Z :=
  match x with
  | [] => Some acc
  | c :: r => if is_digit c then digits_val (acc * 10 + Z.of_N (code c - 48)) r else None
  end.
Definition canonical_nat (x : str) : bool :=     (* "0" or a digit string without leading zero *)
  match x with
  | [] => false
  | [c] => is_digit c
  | c :: _ => is_digit c && negb (Ascii.eqb c "0"%char) && forallb is_digit x
  end.
Definition split_dot (x : str) : str * option str :=
  match split_on "."%char x with
  | [a] => (a, None)
  | [a; b] => (a, Some b)
  | _ => (x, Some [])      (* more than one dot: not a number *)
  end.
(* mantissa: canonical natural, optionally '.' and digits; at most 15 digits in total when there
   is a fraction or an exponent, at most 19 and within the int64 range for a bare integer (read exactly by both resolvers) *)
Definition unsigned_mantissa (x : str) (bare : bool) : option dec :=
  match split_dot x with
  | (a, None) =>
      if canonical_nat a && Nat.leb (List.length a) (if bare then 19 else 15)
      then match digits_val 0 a with
           | Some z => if (z <=? 9223372036854775807)%Z then Some (dec_of_Z z) else None
           | None => None end
      else None
  | (a, Some b) =>
      if canonical_nat a && negb (Nat.eqb (List.length b) 0) && forallb is_digit b
         && Nat.leb (List.length a + List.length b) 15
      then match digits_val 0 (a ++ b) with
           | Some z => Some (mkdec z (- Z.of_nat (List.length b)))
           | None => None end
      else None
  end.
(* exponent as fmt %g and strconv print it: 'e', a sign, one to three digits *)
Definition exponent_val (x : str) : option Z :=
  match x with
  | sg :: ds =>
      if negb (Nat.eqb (List.length ds) 0) && Nat.leb (List.length ds) 3 && forallb is_digit ds then
        match digits_val 0 ds with
        | Some z => if Ascii.eqb sg "+"%char then Some z else if Ascii.eqb sg "-"%char then Some (- z)%Z else None
        | None => None
        end
      else None
  | [] => None
  end.
Definition unsigned_number (x : str) : option dec :=
  match split_on "e"%char x with
  | [m] => unsigned_mantissa m true
  | [m; e] =>
      match unsigned_mantissa m false, exponent_val e with
      | Some d, Some z => Some (mkdec (dm d) (de d + z))
      | _, _ => None
      end
  | _ => None
  end.
Definition plain_number (x : str) : option dec :=
  match x with
  | c :: r => if Ascii.eqb c "-"%char
              then match unsigned_number r with
                   | Some d => if (dm d =? 0)%Z then None   (* -0 / -0.0: negative zero, not modelled *)
                               else Some (mkdec (- dm d) (de d))
                   | None => None end
              else unsigned_number x
  | [] => None
  end.

(* A value that does not start with a sign, digit or dot is looked up in the resolver's word table
   and otherwise read as a string; when plain style is impossible (leading indicator, ": ", " #",
   surrounding blanks) the emitter quotes it, which also gives a string. *)
Definition resolve_with (extra_true extra_false : list str) (x : str) : yscalar :=
  match x with
  | [] => YSNull
  | c :: _ =>
      if negb (no_control x) then YSUnknown else
      if numeric_start c then match plain_number x with Some d => YSNum d | None => YSUnknown end else
      if str_eqb x (s "~") then YSNull else
      if str_eqb x (s "<<") then YSUnknown else
      if mem_str x true_words || mem_str x extra_true then YSBool true else
      if mem_str x false_words || mem_str x extra_false then YSBool false else
      if mem_str x null_words then YSNull else YSStr
  end.
(* go.yaml.in/yaml/v4 internal/libyaml/resolver.go:35-66,81-170 *)
Definition resolve12 : str -> yscalar := resolve_with [] [].
(* go.yaml.in/yaml/v2 resolve.go:33-50 *)
Definition resolve11 : str -> yscalar := resolve_with yaml11_true_words yaml11_false_words.

Definition jv_of_yscalar (x : str) (r : yscalar) : jv :=
  match r with
  | YSStr => JVStr x
  | YSNull => JVNull
  | YSBool b => JVBool b
  | YSNum d => JVNum d
  | YSUnknown => JVStr x
  end.

Record reader := { rd_str : str -> jv; rd_plain : str -> jv }.
(* the .yaml file under a YAML 1.2 reader *)
Definition reader12 : reader :=
  {| rd_str := fun x => JVStr x;
     rd_plain := fun x => jv_of_yscalar x (resolve12 x) |}.
(* the .json file: the same text re-read by yaml/v2.  A !!str scalar is quoted by the v4 emitter
   iff resolve12 does not give a string; otherwise it is plain and v2 resolves it again. *)
Definition reader11 : reader :=
  {| rd_str := fun x => match resolve12 x with
                        | YSStr => jv_of_yscalar x (resolve11 x)
                        | _ => JVStr x
                        end;
     rd_plain := fun x => jv_of_yscalar x (resolve11 x) |}.

Definition scalar_known (tagged : bool) (x : str) : bool :=
  match resolve12 x with YSUnknown => tagged && str_eqb x [] | _ => true end.

(* sigs.k8s.io/yaml convertToJSONableObject: map keys become strings *)
Definition key_of_jv (x : str) (v : jv) : str :=
  match v with
  | JVStr y => y
  | JVBool true => s "true"
  | JVBool false => s "false"
  | JVNull => s "null"
  | _ => x
  end.

(* a later duplicate of a key replaces the earlier value (Go map assignment) *)
Fixpoint set_key (k : str) (v : jv) (kv : list (str * jv)) : list (str * jv) :=
  match kv with
  | [] => [(k, v)]
  | (k', v') :: r => if str_eqb k k' then (k, v) :: r else (k', v') :: set_key k v r
  end.
Definition dedupe (kv : list (str * jv)) : list (str * jv) :=
  fold_left (fun acc e => set_key (fst e) (snd e) acc) kv [].

(* applied when a denoted document is printed: duplicate keys collapse as in a Go map *)
Fixpoint dedupe_jv (v : jv) : jv :=
  match v with
  | JVArr l => JVArr (map dedupe_jv l)
  | JVObj kv => JVObj (dedupe ((fix go (kv : list (str * jv)) : list (str * jv) :=
                                  match kv with [] => [] | (k, x) :: r => (k, dedupe_jv x) :: go r end) kv))
  | _ => v
  end.

Fixpoint denote (R : reader) (n : ynode) : jv :=
  match n with
  | YStr x => rd_str R x
  | YPlain x => rd_plain R x
  | YGoStr x => JVStr x
  | YNum d => JVNum d
  | YBool b => JVBool b
  | YNull => JVNull
  | YSeq l => JVArr (map (denote R) l)
  | YMap kv =>
      JVObj ((fix go (kv : list (str * ynode)) : list (str * jv) :=
                match kv with
                | [] => []
                | (k, x) :: r => (key_of_jv k (rd_str R k), denote R x) :: go r
                end) kv)
  end.

(* every scalar of a tree with the way it reaches the emitter (true = tagged !!str) *)
Fixpoint scalars (n : ynode) : list (bool * str) :=
  match n with
  | YStr x => [(true, x)]
  | YPlain x => [(false, x)]
  | YGoStr _ | YNum _ | YBool _ | YNull => []
  | YSeq l => flat_map scalars l
  | YMap kv =>
      (fix go (kv : list (str * ynode)) : list (bool * str) :=
         match kv with
         | [] => []
         | (k, x) :: r => (true, k) :: scalars x ++ go r
         end) kv
  end.

Definition rd_scalar (R : reader) (e : bool * str) : jv :=
  if fst e then rd_str R (snd e) else rd_plain R (snd e).

Definition ynode_unknowns (n : ynode) : list str :=
  map snd (filter (fun e => negb (scalar_known (fst e) (snd e))) (scalars n)).

(* the scalars on which the two renderings differ *)
Definition differing_scalars (n : ynode) : list str :=
  map snd (filter (fun e => negb (jv_eqb (rd_scalar reader11 e) (rd_scalar reader12 e))) (scalars n)).
