(* Emit.v — C13: a model of the KNOWN REASONS why code emitted by the sebuf generators does not
   build / vet / load.  This is not a Go type checker.  It consists of
     (a) the Go type protoc-gen-go gives a field              (internal_gengo/main.go fieldGoType)
     (b) per emitter, the requirement its printed expression puts on the field it touches
     (c) the methods each plugin declares per message type (one MarshalJSON per feature)
     (d) identifiers derived by string conversion (GoCamelCase, name uniquing, snakeToUpperCamel,
         headerNameToFuncName) and the package-level declarations built from them
     (e) TypeScript: const declarations per emitted block
   A package builds when every emitted expression's requirement is met by the type of the field it
   touches, no method / declaration / literal key is duplicated, every referenced identifier exists
   and every import is used.  [defects_C13] is a separate classifier written on the SCHEMA shape
   (annotation x cardinality x placement); proofs/EmitFacts.v shows that an empty classifier implies
   all obligations. *)
From Sebuf Require Export Schema Json.

(* ================================================================================================ *)
(* (d) identifiers                                                                                  *)
(* ================================================================================================ *)

Definition dot : ascii := "."%char.

(* protobuf-go internal/strs.GoCamelCase, one pass.  [w]: we are inside the lower-case run that
   follows a letter handled by the default branch; [start]: i = 0 or s[i-1] = '.'. *)
Fixpoint go_camel_aux (w start : bool) (x : str) : str :=
  match x with
  | [] => []
  | c :: r =>
      let next_lower := match r with d :: _ => is_lower d | [] => false end in
      if w && is_lower c then c :: go_camel_aux true false r
      else if Ascii.eqb c dot then
        (if next_lower then [] else [underscore]) ++ go_camel_aux false true r
      else if Ascii.eqb c underscore && start then "X"%char :: go_camel_aux false false r
      else if Ascii.eqb c underscore && next_lower then go_camel_aux false false r
      else if is_digit c then c :: go_camel_aux false false r
      else to_upper c :: go_camel_aux true false r
  end.
Definition go_camel (x : str) : str := go_camel_aux false true x.

Definition mem_str (x : str) (l : list str) : bool := existsb (str_eqb x) l.

(* protogen.newMessage: field / oneof name uniquing (protogen.go:817-845).  usedNames is a Go map:
   later writes override, modelled by an assoc list searched from the front. *)
Definition used := list (str * bool).
Fixpoint used_get (u : used) (k : str) : bool :=
  match u with [] => false | (k', b) :: r => if str_eqb k k' then b else used_get r k end.
Definition used0 : used :=
  map (fun n => (n, true))
      [s "Reset"; s "String"; s "ProtoMessage"; s "Marshal"; s "Unmarshal";
       s "ExtensionRangeArray"; s "ExtensionMap"; s "Descriptor"].
Fixpoint make_unique (fuel : nat) (u : used) (name : str) (getter : bool) : str * used :=
  match fuel with
  | O => (name, u)
  | S f =>
      if used_get u name || (getter && used_get u (s "Get" ++ name))
      then make_unique f u (name ++ [underscore]) getter
      else (name, (s "Get" ++ name, getter) :: (name, true) :: u)
  end.

(* the oneof a field belongs to as protogen sees it: real oneof, or the synthetic "_name" of a
   proto3 optional field *)
Definition containing_oneof (f : field) : option str :=
  match f_oneof f with
  | Some o => Some o
  | None => match f_card f with Optional => Some (underscore :: f_name f) | _ => None end
  end.

Fixpoint go_names_aux (u : used) (seen : list str) (fs : list field) : list str :=
  match fs with
  | [] => []
  | f :: r =>
      let '(n, u1) := make_unique (S (List.length u)) u (go_camel (f_name f)) true in
      let '(u2, seen2) :=
        match containing_oneof f with
        | Some o => if mem_str o seen then (u1, seen)
                    else (snd (make_unique (S (List.length u1)) u1 (go_camel o) false), o :: seen)
        | None => (u1, seen)
        end in
      n :: go_names_aux u2 seen2 r
  end.
Definition go_field_names (fs : list field) : list str := go_names_aux used0 [] fs.

Fixpoint zip {A B} (a : list A) (b : list B) : list (A * B) :=
  match a, b with x :: a', y :: b' => (x, y) :: zip a' b' | _, _ => [] end.
Definition named_fields (m : message) : list (field * str) := zip (m_fields m) (go_field_names (m_fields m)).

(* Go identifier of a message: GoCamelCase of the name path joined by '.' (protogen newGoIdent) *)
Definition msg_go_name (m : message) : str := go_camel (join_with [dot] (m_path m)).

(* clientgen.headerNameToFuncName *)
Definition header_fn (h : str) : str :=
  filter (fun c => negb (Ascii.eqb c "-"%char)) (trim_prefix (s "X-") h).

Definition is_ident_char (c : ascii) : bool := is_upper c || is_lower c || is_digit c || Ascii.eqb c underscore.

(* ================================================================================================ *)
(* (a) Go field types                                                                               *)
(* ================================================================================================ *)

Inductive gotype :=
  | GBool | GInt32 | GInt64 | GUint32 | GUint64 | GFloat32 | GFloat64 | GString | GBytes
  | GEnum (n : str)            (* named int32 type *)
  | GPtrMsg (n : str)          (* *T for a message type *)
  | GPtr (t : gotype) | GSlice (t : gotype) | GMap (k v : gotype)
  | GNoField.                  (* member of a real oneof: lives in a wrapper struct, the message struct has no field of that name *)

Definition base_gotype (k : kind) : gotype :=
  match k with
  | KDouble => GFloat64 | KFloat => GFloat32
  | KInt32 | KSint32 | KSfixed32 => GInt32
  | KInt64 | KSint64 | KSfixed64 => GInt64
  | KUint32 | KFixed32 => GUint32
  | KUint64 | KFixed64 => GUint64
  | KBool => GBool | KString => GString | KBytes => GBytes
  | KEnum n => GEnum n | KMessage n => GPtrMsg n
  end.

Definition go_field_type (f : field) : gotype :=
  let b := base_gotype (f_kind f) in
  match f_card f with
  | Repeated => GSlice b
  | MapOf kk => GMap (base_gotype kk) b
  | Optional => match b with GBytes | GPtrMsg _ => b | _ => GPtr b end
  | Singular => match f_oneof f with Some _ => GNoField | None => b end
  end.

(* rendering, compared with the struct emitted by protoc-gen-go *)
Fixpoint last_seg_aux (acc x : str) : str :=
  match x with [] => acc | c :: r => if Ascii.eqb c dot then last_seg_aux [] r else last_seg_aux (acc ++ [c]) r end.
Fixpoint show_gotype (t : gotype) : str :=
  match t with
  | GBool => s "bool" | GInt32 => s "int32" | GInt64 => s "int64" | GUint32 => s "uint32" | GUint64 => s "uint64"
  | GFloat32 => s "float32" | GFloat64 => s "float64" | GString => s "string" | GBytes => s "[]byte"
  | GEnum n => s "enum:" ++ n | GPtrMsg n => s "*msg:" ++ n
  | GPtr t => "*"%char :: show_gotype t | GSlice t => s "[]" ++ show_gotype t
  | GMap k v => s "map[" ++ show_gotype k ++ s "]" ++ show_gotype v
  | GNoField => s "-"
  end.

(* ================================================================================================ *)
(* (b) requirements of printed expressions                                                          *)
(* ================================================================================================ *)

Inductive req :=
  | RNeZero        (* x.F != 0                       : numeric, not a pointer *)
  | RNeEmptyStr    (* x.F != ""                      : string *)
  | RNeFalse       (* req.F != false                 : bool *)
  | RCond          (* if x.F {                       : bool *)
  | RLen           (* len(x.F)                       : string, slice, map *)
  | RNilCmp        (* x.F != nil / == nil            : pointer, slice, map *)
  | RAsTime        (* x.F.AsTime()                   : *timestamppb.Timestamp *)
  | RBytesArg      (* hex.EncodeToString(x.F)        : []byte *)
  | RProtoMsg      (* proto.Size(x.F), protojson.Marshal(x.F) : pointer to message *)
  | RAny           (* json.Marshal(x.F), fmt.Sprint(x.F)      : the field only has to exist *)
  | RStrKeyMap.    (* x.F = make(map[string]*V), out[k] = .. for k ranging over x.F : map with string key *)

Definition is_numeric (t : gotype) : bool :=
  match t with GInt32 | GInt64 | GUint32 | GUint64 | GFloat32 | GFloat64 | GEnum _ => true | _ => false end.

Definition req_ok (r : req) (t : gotype) : bool :=
  match t with
  | GNoField => false
  | _ =>
    match r with
    | RNeZero => is_numeric t
    | RNeEmptyStr => match t with GString => true | _ => false end
    | RNeFalse | RCond => match t with GBool => true | _ => false end
    | RLen => match t with GString | GBytes | GSlice _ | GMap _ _ => true | _ => false end
    | RNilCmp => match t with GBytes | GPtrMsg _ | GPtr _ | GSlice _ | GMap _ _ => true | _ => false end
    | RAsTime => match t with GPtrMsg n => str_eqb n (s "google.protobuf.Timestamp") | _ => false end
    | RBytesArg => match t with GBytes => true | _ => false end
    | RProtoMsg => match t with GPtrMsg _ => true | _ => false end
    | RAny => true
    | RStrKeyMap => match t with GMap GString _ => true | _ => false end
    end
  end.

(* failure classes as extracted from the toolchain output by the harness *)
Definition cls_type := s "type".             (* mismatched types / cannot use / invalid operation / non-boolean *)
Definition cls_selector := s "selector".     (* x.F undefined (type T has no field or method F) *)
Definition cls_undefined := s "undefined".   (* undefined: Name *)
Definition cls_redeclared := s "redeclared". (* redeclared / already declared / field and method with the same name *)
Definition cls_dupkey := s "duplicate".      (* duplicate key in map literal / duplicate case *)
Definition cls_unused := s "unused".              (* imported and not used / declared and not used *)
Definition cls_vet := s "vet-printf".

Definition req_class (r : req) (t : gotype) : str :=
  match t with
  | GNoField => cls_selector
  | _ => match r with RAsTime => cls_selector | _ => cls_type end
  end.

(* one build obligation; [ck_vet] obligations are looked at by `go vet` (only when the package compiles) *)
Record check := { ck_ok : bool; ck_class : str; ck_vet : bool }.
Definition mk (ok : bool) (c : str) : check := {| ck_ok := ok; ck_class := c; ck_vet := false |}.
Definition mkvet (ok : bool) : check := {| ck_ok := ok; ck_class := cls_vet; ck_vet := true |}.
Definition expr_check (r : req) (f : field) : check := mk (req_ok r (go_field_type f)) (req_class r (go_field_type f)).

(* ================================================================================================ *)
(* schema helpers                                                                                   *)
(* ================================================================================================ *)

Definition is_map (f : field) : bool := match f_card f with MapOf _ => true | _ => false end.
Definition is_list (f : field) : bool := match f_card f with Repeated => true | _ => false end.
Definition is_optional (f : field) : bool := match f_card f with Optional => true | _ => false end.
Definition is_msg_kind (k : kind) : bool := match k with KMessage _ => true | _ => false end.
Definition is_int64_kind (k : kind) : bool :=
  match k with KInt64 | KSint64 | KSfixed64 | KUint64 | KFixed64 => true | _ => false end.

(* the has<Feature>Fields predicates (field.Desc.Kind() of a map field is MessageKind, its
   field.Message is the map entry: no scalar/timestamp predicate holds for a map field) *)
Definition f_int64num (f : field) : bool :=   (* httpgen/encoding.go:24-32 *)
  negb (is_map f) && is_int64_kind (f_kind f) && match f_int64 f with Some I64Number => true | _ => false end.
Definition f_nullable_on (f : field) : bool := (* annotations/nullable.go:23-41 *)
  match f_nullable f with Some true => true | _ => false end.
Definition f_empty_on (f : field) : bool :=    (* annotations/empty_behavior.go:50-52 *)
  match f_empty f with Some EBUnspecified | None => false | Some _ => true end.
Definition f_tsfmt_on (f : field) : bool :=    (* httpgen/timestamp_format.go:28-35 *)
  negb (is_map f) && is_timestamp (f_kind f) &&
  match f_tsfmt f with Some TFUnixSeconds | Some TFUnixMillis | Some TFDate => true | _ => false end.
Definition f_bytesenc_on (f : field) : bool := (* httpgen/bytes_encoding.go:29-36 *)
  negb (is_map f) && match f_kind f with KBytes => true | _ => false end &&
  match f_bytesenc f with Some BEBase64Raw | Some BEBase64Url | Some BEBase64UrlRaw | Some BEHex => true | _ => false end.
Definition f_flatten_on (f : field) : bool := match f_flatten f with Some true => true | _ => false end.
Definition o_disc_on (o : oneof) : bool :=     (* annotations/oneof_discriminator.go GetOneofConfig *)
  o_has_cfg o && negb (str_eqb (o_discriminator o) []).

Definition members (m : message) (o : oneof) : list field :=
  filter (fun f => match f_oneof f with Some n => str_eqb n (o_name o) | None => false end) (m_fields m).
Definition disc_oneofs (m : message) : list oneof := filter o_disc_on (m_oneofs m).

Definition file_of_msg (sc : schema) (n : str) : option file :=
  find (fun fl => match find_message (fl_messages fl) n with Some _ => true | None => false end) sc.
(* is message type [n] declared in the Go package of file [fl]? *)
Definition same_pkg (sc : schema) (fl : file) (n : str) : bool :=
  match file_of_msg sc n with Some g => str_eqb (fl_gopkg g) (fl_gopkg fl) | None => false end.

(* unwrap (annotations/unwrap.go GetUnwrapField): the single repeated/map field with unwrap=true *)
Definition unwrap_field (m : message) : option field := find f_unwrap (m_fields m).
Definition is_root_unwrap (m : message) : bool :=
  match unwrap_field m with Some _ => Nat.eqb (List.length (m_fields m)) 1 | None => false end.
Definition value_msg (sc : schema) (f : field) : option message :=
  match f_kind f with KMessage n => find_message (all_messages sc) n | _ => None end.
(* map fields of [m] whose value message has an unwrap field (httpgen/unwrap.go collectUnwrapMapFields) *)
Definition unwrap_map_field (sc : schema) (f : field) : option field :=
  if is_map f then match value_msg sc f with Some v => unwrap_field v | None => None end else None.
Definition is_unwrap_container (sc : schema) (m : message) : bool :=
  negb (is_root_unwrap m) && existsb (fun f => match unwrap_map_field sc f with Some _ => true | None => false end) (m_fields m).

(* ================================================================================================ *)
(* (c) MarshalJSON-declaring features per message and plugin                                        *)
(* ================================================================================================ *)

Inductive feature := FInt64 | FNullable | FEmpty | FTimestamp | FBytes | FFlatten | FOneof | FUnwrap.
Inductive plugin := PHttp | PClient.

Definition has_services (fl : file) : bool := match fl_services fl with [] => false | _ => true end.

Definition msg_has (sc : schema) (m : message) (ft : feature) : bool :=
  match ft with
  | FInt64 => existsb f_int64num (m_fields m)
  | FNullable => existsb f_nullable_on (m_fields m)
  | FEmpty => existsb f_empty_on (m_fields m)
  | FTimestamp => existsb f_tsfmt_on (m_fields m)
  | FBytes => existsb f_bytesenc_on (m_fields m)
  | FFlatten => existsb f_flatten_on (m_fields m)
  | FOneof => match disc_oneofs m with [] => false | _ => true end
  | FUnwrap => is_root_unwrap m || is_unwrap_container sc m
  end.

(* which feature files a plugin writes for a file: httpgen/generator.go:64-117, clientgen/generator.go:39-94
   (the client has no unwrap emitter and writes int64 encoding only for files with services) *)
Definition plugin_emits (p : plugin) (fl : file) (ft : feature) : bool :=
  match p, ft with
  | PHttp, _ => true
  | PClient, FUnwrap => false
  | PClient, FInt64 => has_services fl
  | PClient, _ => true
  end.

Definition all_features := [FInt64; FNullable; FEmpty; FTimestamp; FBytes; FFlatten; FOneof; FUnwrap].
Definition emitted_features (p : plugin) (sc : schema) (fl : file) (m : message) : list feature :=
  filter (fun ft => plugin_emits p fl ft && msg_has sc m ft) all_features.

(* the methods declared on *T by the feature emitters, by name *)
Definition marshal_methods (p : plugin) (sc : schema) (fl : file) (m : message) : list str :=
  map (fun _ => s "MarshalJSON") (emitted_features p sc fl m).

Fixpoint nodup_strb (l : list str) : bool :=
  match l with [] => true | x :: r => negb (mem_str x r) && nodup_strb r end.

(* ================================================================================================ *)
(* (b) the expressions each emitter prints                                                          *)
(* ================================================================================================ *)

(* httpgen/encoding.go:166-207 *)
Definition int64_checks (f : field) : list check :=
  if f_int64num f then (if is_list f then [expr_check RLen f] else [expr_check RNeZero f]) else [].
(* httpgen/nullable.go:154 *)
Definition nullable_checks (f : field) : list check := if f_nullable_on f then [expr_check RNilCmp f] else [].
(* httpgen/empty_behavior.go:172-180 *)
Definition empty_checks (f : field) : list check :=
  if f_empty_on f then [expr_check RNilCmp f; expr_check RProtoMsg f] else [].
(* httpgen/timestamp_format.go:175-196 *)
Definition ts_checks (f : field) : list check := if f_tsfmt_on f then [expr_check RNilCmp f; expr_check RAsTime f] else [].
(* httpgen/bytes_encoding.go:199-224 *)
Definition bytes_checks (f : field) : list check := if f_bytesenc_on f then [expr_check RLen f; expr_check RBytesArg f] else [].
(* httpgen/flatten.go:213-236 (marshal), 283-328 (unmarshal prints "x.F = &Child{}" with the bare type name) *)
Definition flatten_checks (sc : schema) (fl : file) (f : field) : list check :=
  if f_flatten_on f then
    [expr_check RNilCmp f;
     mk (match f_kind f with KMessage n => same_pkg sc fl n | _ => true end) cls_undefined]
  else [].

(* fmt verbs in a format string: '%' not followed by '%' *)
Fixpoint count_verbs (x : str) : nat :=
  match x with
  | [] => 0
  | c :: r => if Ascii.eqb c "%"%char
              then match r with
                   | d :: r' => if Ascii.eqb d "%"%char then count_verbs r' else S (count_verbs r')
                   | [] => 0
                   end
              else count_verbs r
  end.
Definition printf_ok (fmt : str) (nargs : nat) : bool := Nat.eqb (count_verbs fmt) nargs.

Definition variant_value (f : field) : str :=
  match f_oneof_value f with Some v => if str_eqb v [] then f_name f else v | None => f_name f end.

(* httpgen/oneof_discriminator.go:155-391 for one discriminated oneof *)
Definition oneof_checks (sc : schema) (fl : file) (m : message) (o : oneof) : list check :=
  let vs := members m o in
  (* Errorf("invalid discriminator %q: %w", name, err) — generateOneofUnmarshalVariants:289 *)
  mkvet (printf_ok (s "invalid discriminator %q: %w") 2) ::
  (* switch disc { case "v1": case "v2": ... } *)
  mk (nodup_strb (map variant_value vs)) cls_dupkey ::
  flat_map (fun f => match f_kind f with
                     | KMessage n =>
                         [ (* variant := &MsgType{}   (bare GoName) *)
                           mk (same_pkg sc fl n) cls_undefined;
                           (* Errorf("failed to unmarshal variant %s: %w", "F", err) *)
                           mkvet (printf_ok (s "failed to unmarshal variant %s: %w") 2) ]
                     | _ => []
                     end) vs.

(* httpgen/unwrap.go getZeroValueCheck:600-618 + generateScalarFieldMarshal/Unmarshal *)
Definition zero_check_req (k : kind) : req :=
  match k with
  | KString => RNeEmptyStr | KBool => RCond | KBytes => RLen
  | KMessage _ => RNilCmp | _ => RNeZero
  end.

(* one field of an unwrap-container message: generateUnwrapMarshalJSON:356-397 / UnmarshalJSON *)
Definition container_field_checks (sc : schema) (fl : file) (f : field) : list check :=
  match unwrap_map_field sc f with
  | Some u =>
      (* x.F = make(map[string]*V); mapData[k] = ..; &V{U: items} with items []Elem *)
      [expr_check RStrKeyMap f; mk (is_list u) cls_type]
  | None =>
      if is_map f then [expr_check RLen f]
      else if is_list f then [expr_check RLen f]
      else match f_kind f with
           | KMessage n => [expr_check RNilCmp f; expr_check RProtoMsg f; mk (same_pkg sc fl n) cls_undefined]
           | k => [expr_check (zero_check_req k) f]
           end
  end.

(* root unwrap: generateRootMap*/generateRootRepeated* *)
Definition root_unwrap_checks (sc : schema) (f : field) : list check :=
  if is_map f then
    (if is_msg_kind (f_kind f) then [expr_check RStrKeyMap f] else [expr_check RAny f]) ++
    match value_msg sc f with
    | Some v => match unwrap_field v with Some u => [mk (is_list u) cls_type] | None => [] end
    | None => []
    end
  else [expr_check RLen f].

Definition unwrap_checks (sc : schema) (fl : file) (m : message) : list check :=
  if is_root_unwrap m then match unwrap_field m with Some f => root_unwrap_checks sc f | None => [] end
  else if is_unwrap_container sc m then flat_map (container_field_checks sc fl) (m_fields m)
  else [].

(* does the code printed for [m] into <file>_unwrap.pb.go mention protojson?  (the file imports it
   unconditionally: httpgen/unwrap.go writeUnwrapImports:345-353) *)
Definition unwrap_uses_protojson (sc : schema) (m : message) : bool :=
  if is_root_unwrap m then
    match unwrap_field m with
    | Some f =>
        if is_map f then
          match value_msg sc f with
          | Some v => match unwrap_field v with
                      | Some u => is_msg_kind (f_kind u) && is_list u
                      | None => true
                      end
          | None => is_msg_kind (f_kind f)
          end
        else is_msg_kind (f_kind f)
    | None => false
    end
  else if is_unwrap_container sc m then
    existsb (fun f => match unwrap_map_field sc f with
                      | Some u => is_msg_kind (f_kind u) && is_list u
                      | None => negb (is_map f) && is_msg_kind (f_kind f)
                      end) (m_fields m)
  else false.
Definition has_unwrap_code (sc : schema) (m : message) : bool := is_root_unwrap m || is_unwrap_container sc m.
Definition unwrap_file_imports_used (sc : schema) (fl : file) : bool :=
  negb (existsb (has_unwrap_code sc) (fl_messages fl)) || existsb (unwrap_uses_protojson sc) (fl_messages fl).

Definition feature_checks (sc : schema) (fl : file) (m : message) (ft : feature) : list check :=
  match ft with
  | FInt64 => flat_map int64_checks (m_fields m)
  | FNullable => flat_map nullable_checks (m_fields m)
  | FEmpty => flat_map empty_checks (m_fields m)
  | FTimestamp => flat_map ts_checks (m_fields m)
  | FBytes => flat_map bytes_checks (m_fields m)
  | FFlatten => flat_map (flatten_checks sc fl) (m_fields m)
  | FOneof => flat_map (oneof_checks sc fl m) (disc_oneofs m)
  | FUnwrap => unwrap_checks sc fl m
  end.

(* the codec emitters add methods MarshalJSON / UnmarshalJSON to *T; protoc-gen-go does not reserve
   those names, so a field whose Go name is one of them (marshal_j_s_o_n) collides with the method.
   empty_behavior without a NULL field emits MarshalJSON only (httpgen/empty_behavior.go:202-220). *)
Definition emits_unmarshal (p : plugin) (sc : schema) (fl : file) (m : message) : bool :=
  existsb (fun ft => match ft with
                     | FEmpty => existsb (fun f => match f_empty f with Some EBNull => true | _ => false end) (m_fields m)
                     | _ => true
                     end) (emitted_features p sc fl m).
Definition codec_method_clash (p : plugin) (sc : schema) (fl : file) (m : message) : bool :=
  let names := go_field_names (m_fields m) in
  (match emitted_features p sc fl m with [] => false | _ => true end && mem_str (s "MarshalJSON") names) ||
  (emits_unmarshal p sc fl m && mem_str (s "UnmarshalJSON") names).

Definition msg_checks (p : plugin) (sc : schema) (fl : file) (m : message) : list check :=
  mk (nodup_strb (marshal_methods p sc fl m)) cls_redeclared ::
  mk (negb (codec_method_clash p sc fl m)) cls_redeclared ::
  flat_map (fun ft => if plugin_emits p fl ft then feature_checks sc fl m ft else []) all_features.

(* ---- enum_value lookup tables: httpgen/enum_encoding.go:109-145 ----------------------------- *)
Definition ev_json (v : enum_value) : str :=
  match ev_custom v with Some c => if str_eqb c [] then ev_name v else c | None => ev_name v end.
Definition ev_has_custom (v : enum_value) : bool :=
  match ev_custom v with Some c => negb (str_eqb c []) | None => false end.
Definition enum_has_custom (e : enum) : bool := existsb ev_has_custom (e_values e).
(* keys of the <enum>FromJSON map literal, in print order *)
Definition from_json_keys (e : enum) : list str :=
  map ev_json (e_values e) ++ map ev_name (filter ev_has_custom (e_values e)).
Definition enum_checks (p : plugin) (fl : file) (e : enum) : list check :=
  if enum_has_custom e && match p with PHttp => true | PClient => has_services fl end
  then [mk (nodup_strb (from_json_keys e)) cls_dupkey] else [].

(* ---- error implementation: httpgen/generator.go:1568-1621 (top-level messages named *Error) -- *)
Definition top_level (m : message) : bool := Nat.eqb (List.length (m_path m)) 1.
Definition is_error_msg (m : message) : bool := top_level m && has_suffix (s "Error") (msg_go_name m).
Definition error_impl_checks (m : message) : list check :=
  if is_error_msg m then [mk (negb (mem_str (s "Error") (go_field_names (m_fields m)))) cls_redeclared] else [].

(* ================================================================================================ *)
(* services                                                                                         *)
(* ================================================================================================ *)

Definition verb_num (md : method) : nat :=
  if md_has_cfg md then match md_verb md with Some n => n | None => 2 end else 2.
Definition has_body (md : method) : bool := match verb_num md with 2 | 3 | 5 => true | _ => false end.
Definition path_params (md : method) : list str := if md_has_cfg md then extract_path_params (md_path md) else [].
Definition input_msg (sc : schema) (md : method) : option message := find_message (all_messages sc) (md_in md).
Definition query_fields_of (m : message) : list field :=
  filter (fun f => match f_query f with Some _ => true | None => false end) (m_fields m).

(* clientgen getZeroValue:747-762 + generateQueryParamEncoding:644-653 *)
Definition client_zero_req (k : kind) : req :=
  match k with
  | KString => RNeEmptyStr | KBool => RNeFalse
  | KEnum _ | KBytes | KMessage _ => RNeEmptyStr
  | _ => RNeZero
  end.
Definition client_query_checks (f : field) : list check :=
  [expr_check (if is_map f then RNeEmptyStr else client_zero_req (f_kind f)) f].

(* methods every generated message type has (protoc-gen-go): a path identifier that is not a field
   may still resolve to one of these, and then `fmt.Sprint(req.M)` compiles and is flagged by vet *)
Definition msg_methods (m : message) : list str :=
  [s "Reset"; s "String"; s "ProtoMessage"; s "ProtoReflect"; s "Descriptor"] ++
  map (fun n => s "Get" ++ n) (go_field_names (m_fields m)).
Definition struct_fields (m : message) : list str :=
  map snd (filter (fun fn => match go_field_type (fst fn) with GNoField => false | _ => true end) (named_fields m)).

(* clientgen generateURLBuilding:604-624: req.<snakeToUpperCamel(param)> *)
Definition client_path_checks (m : message) (param : str) : list check :=
  let id := snake_to_upper_camel param in
  if mem_str id (struct_fields m) then []
  else if mem_str id (msg_methods m) then [mkvet false]
  else [mk false cls_selector].

Definition client_method_checks (sc : schema) (md : method) : list check :=
  match input_msg sc md with
  | None => []
  | Some m =>
      flat_map (client_path_checks m) (path_params md) ++
      (if has_body md then [] else flat_map client_query_checks (query_fields_of m))
  end.

Definition methods_of (fl : file) : list method := flat_map sv_methods (fl_services fl).
Definition svc_go (sv : service) : str := go_camel (sv_name sv).
Definition md_go (md : method) : str := go_camel (md_name md).

(* package-level identifiers derived from the schema.  One marker per file stands for the fixed
   declarations of the per-file binding/config (server) and constants (client) files. *)
(* the package-level names the per-file helper files declare whatever the schema says
   (<file>_http_binding.pb.go, <file>_http_config.pb.go; <file>_client.pb.go): a message, enum or
   derived name equal to one of them is a redeclaration *)
Definition http_fixed_decls : list str :=
  map s ["BinaryContentType"; "BindingMiddleware"; "JSONContentType"; "PathParamConfig"; "ProtoContentType"; "QueryParamConfig";
         "ValidateMessage"; "bindDataBasedOnContentType"; "bindDataFromBinaryRequest"; "bindDataFromJSONRequest"; "bindPathParams";
         "bindQueryParams"; "bodyCtxKey"; "convertProtovalidateError"; "convertStringToFieldValue"; "defaultErrorResponse";
         "defaultErrorStatusCode"; "filterFlags"; "genericHandler"; "getRequest"; "getValidator"; "marshalResponse"; "responseCapture";
         "validateArrayHeader"; "validateBooleanHeader"; "validateDateFormat"; "validateDateTimeFormat"; "validateEmailFormat";
         "validateHeaderValue"; "validateHeaders"; "validateIntegerHeader"; "validateNumberHeader"; "validateStringHeader";
         "validateTimeFormat"; "validateUUIDFormat"; "validator"; "validatorErr"; "validatorOnce"; "writeErrorResponse";
         "writeErrorWithHandler"; "writeProtoMessageResponse"; "writeResponseBody"; "writeValidationError"; "writeValidationErrorResponse";
         "ErrorHandler"; "ServerOption"; "WithErrorHandler"; "WithMux"; "getConfiguration"; "getDefaultConfiguration"; "serverConfiguration"]%string.
Definition client_fixed_decls : list str := map s ["ContentTypeJSON"; "ContentTypeProto"]%string.

Definition http_decls (mock : bool) (fl : file) : list str :=
  if has_services fl then
    s "<http_binding+config>" :: http_fixed_decls ++
    flat_map (fun sv =>
      [svc_go sv ++ s "Server"; s "Register" ++ svc_go sv ++ s "Server"; s "get" ++ svc_go sv ++ s "Headers"] ++
      (if mock then [s "Mock" ++ svc_go sv ++ s "Server"; s "NewMock" ++ svc_go sv ++ s "Server"] else []) ++
      flat_map (fun md => [s "get" ++ md_go md ++ s "Headers";
                           lower_first (md_go md) ++ s "PathParams"; lower_first (md_go md) ++ s "QueryParams"])
               (sv_methods sv)) (fl_services fl)
  else [].

Definition all_headers (sv : service) : list header := sv_headers sv ++ flat_map md_headers (sv_methods sv).
(* clientgen generateHeaderHelperOptions:359-388: one `seen` set of helper names over the service
   headers and then the method headers; a header whose helper name was already seen is skipped *)
Fixpoint first_by_fn (seen : list str) (hs : list header) : list header :=
  match hs with
  | [] => []
  | h :: r => let fn := header_fn (h_name h) in
              if mem_str fn seen then first_by_fn seen r else h :: first_by_fn (fn :: seen) r
  end.
Definition helper_svc_headers (sv : service) : list header := first_by_fn [] (sv_headers sv).
Definition helper_md_headers (sv : service) : list header :=
  first_by_fn (map (fun h => header_fn (h_name h)) (sv_headers sv)) (flat_map md_headers (sv_methods sv)).
Definition client_decls (fl : file) : list str :=
  if has_services fl then
    s "<client_constants>" :: client_fixed_decls ++
    flat_map (fun sv =>
      let S := svc_go sv in
      [S ++ s "Client"; lower_first S ++ s "Client"; S ++ s "ClientOption";
       s "With" ++ S ++ s "HTTPClient"; s "With" ++ S ++ s "ContentType"; s "With" ++ S ++ s "DefaultHeader";
       S ++ s "CallOption"; lower_first S ++ s "CallOptions"; s "With" ++ S ++ s "Header";
       s "With" ++ S ++ s "CallContentType"; s "New" ++ S ++ s "Client"] ++
      map (fun h => s "With" ++ S ++ header_fn (h_name h)) (helper_svc_headers sv) ++
      map (fun h => s "With" ++ S ++ s "Call" ++ header_fn (h_name h)) (helper_svc_headers sv ++ helper_md_headers sv)) (fl_services fl)
  else [].

Definition enum_go_name (fl : file) (e : enum) : str := go_camel (trim_prefix (fl_package fl ++ [dot]) (e_name e)).
Definition pb_decls (fl : file) : list str :=
  map msg_go_name (fl_messages fl) ++ map (enum_go_name fl) (fl_enums fl).

Definition header_ident_ok (sv : service) : bool :=
  forallb (fun h => forallb is_ident_char (header_fn (h_name h))) (all_headers sv).

(* httpgen generateService:211-230: inside Register<Svc>Server every method gets a local
   `<lowerFirst(M)>Handler := BindingMiddleware[..](genericHandler(server.M, ..), ..)`.  For a method
   named Generic the local is called genericHandler and shadows the helper for every LATER method of
   the service: `cannot call non-function genericHandler`. *)
Fixpoint generic_shadows (ms : list method) : bool :=
  match ms with
  | [] => false
  | m :: r => (str_eqb (md_go m) (s "Generic") && match r with [] => false | _ => true end) || generic_shadows r
  end.
Definition service_checks (sv : service) : list check := [mk (negb (generic_shadows (sv_methods sv))) cls_type].

(* imports of the per-file service files that only RPC methods use: httpgen generateHTTPFile
   ("context"), clientgen writeImports ("context", "io") *)
Definition file_imports_used (fl : file) : bool :=
  match fl_services fl with [] => true | _ => match methods_of fl with [] => false | _ => true end end.

(* ================================================================================================ *)
(* the package                                                                                      *)
(* ================================================================================================ *)

Definition gen_files (sc : schema) : list file := filter fl_generate sc.

Definition file_checks (p : plugin) (sc : schema) (fl : file) : list check :=
  flat_map (msg_checks p sc fl) (fl_messages fl) ++
  flat_map (enum_checks p fl) (fl_enums fl) ++
  match p with
  | PHttp => flat_map error_impl_checks (fl_messages fl) ++ [mk (unwrap_file_imports_used sc fl) cls_unused] ++
             flat_map service_checks (fl_services fl)
  | PClient => flat_map (client_method_checks sc) (methods_of fl)
  end ++
  [mk (file_imports_used fl) cls_unused].

(* plugin subsets *)
Inductive subset := OnlyHttp | OnlyClient | Both.
Definition subset_plugins (ps : subset) : list plugin :=
  match ps with OnlyHttp => [PHttp] | OnlyClient => [PClient] | Both => [PHttp; PClient] end.

Definition pkg_files (sc : schema) : list file :=
  match gen_files sc with
  | [] => []
  | g :: _ => filter (fun fl => str_eqb (fl_gopkg fl) (fl_gopkg g)) sc
  end.
Definition pkg_decls (ps : subset) (sc : schema) : list str :=
  flat_map pb_decls (pkg_files sc) ++
  flat_map (fun p => match p with
                     | PHttp => flat_map (http_decls false) (gen_files sc)
                     | PClient => flat_map client_decls (gen_files sc)
                     end) (subset_plugins ps).

Definition pkg_checks (ps : subset) (sc : schema) : list check :=
  mk (nodup_strb (pkg_decls ps sc)) cls_redeclared ::
  flat_map (fun p => flat_map (file_checks p sc) (gen_files sc)) (subset_plugins ps).

Definition build_checks (l : list check) : list check := filter (fun c => negb (ck_vet c)) l.
Definition vet_checks (l : list check) : list check := filter ck_vet l.
Definition all_ok (l : list check) : bool := forallb ck_ok l.

Definition go_builds (sc : schema) (ps : subset) : bool := all_ok (build_checks (pkg_checks ps sc)).
Definition go_vets (sc : schema) (ps : subset) : bool := go_builds sc ps && all_ok (vet_checks (pkg_checks ps sc)).

(* ================================================================================================ *)
(* (e) TypeScript: const declarations in the try-block of one route handler                         *)
(*     tsservergen/generator.go:414-470, 509-611                                                    *)
(* ================================================================================================ *)

Definition ts_route_consts (sc : schema) (sv : service) (md : method) : list str :=
  (match sv_headers sv ++ md_headers md with [] => [] | _ => [s "headerConfigs"; s "headerViolations"] end) ++
  (match path_params md with
   | [] => [s "pathParams"]
   | _ => [s "pathParams"; s "url"; s "pathSegments"]
   end) ++
  (if has_body md then [s "body"]
   else match input_msg sc md with
        | Some m => match query_fields_of m with
                    | [] => [s "body"]
                    | _ => (* generateQueryParamParsing:595-598: url only when the path extraction has not declared it *)
                           match path_params md with [] => [s "url"] | _ => [] end ++ [s "params"; s "body"]
                    end
        | None => [s "body"]
        end) ++
  [s "ctx"; s "result"].

Definition ts_routes_ok (sc : schema) (fl : file) : bool :=
  forallb (fun sv => forallb (fun md => nodup_strb (ts_route_consts sc sv md)) (sv_methods sv)) (fl_services fl).

(* ---- property names of the emitted interfaces: tscommon/types.go ------------------------------------
   Both TS generators print the types of every message reachable from an RPC of the file (and of the
   top-level messages named *Error): CollectServiceMessages:204-222, AddMessage:133-170.  Two annotation
   TEXTS are printed as BARE property names:
     the discriminator of a discriminated oneof      `{ <discriminator>: "<value>"; ... }`   (:395,:408,:419)
     flatten_prefix ++ json name of each child field `  <prefix><jsonName>: <type>;`         (:563-577)
   A text that is not an identifier name (`@type`, `kind-of`, `home.`, `2nd_`, one with a space) makes the
   module a SyntaxError.  Bytes >= 128 (UTF-8 of non-ASCII characters) are taken as identifier characters:
   exact for letters (é, 日本), not for non-ASCII symbols (‰, °), which the catalogue keeps away from here;
   a backslash is taken as breaking (exact except for a well-formed \uXXXX escape). *)
Definition ts_prop_char (c : ascii) : bool :=
  is_ident_char c || Ascii.eqb c "$"%char || (128 <=? code c)%N.
Definition ts_prop_ok (x : str) : bool :=
  match x with
  | [] => false
  | c :: _ => negb (is_digit c) && forallb ts_prop_char x
  end.

Definition msg_targets (sc : schema) (n : str) : list str :=
  match find_message (all_messages sc) n with
  | Some m => flat_map (fun f => match f_kind f with KMessage t => [t] | _ => [] end) (m_fields m)
  | None => []
  end.
(* worklist closure; every step either drops an already seen name or marks a new one and pushes its
   targets, so [roots + fields + messages] steps are enough *)
Fixpoint reach (fuel : nat) (sc : schema) (todo seen : list str) : list str :=
  match fuel with
  | O => seen
  | S k =>
      match todo with
      | [] => seen
      | n :: r => if mem_str n seen then reach k sc r seen else reach k sc (msg_targets sc n ++ r) (n :: seen)
      end
  end.
Definition ts_roots (fl : file) : list str :=
  flat_map (fun md => [md_in md; md_out md]) (flat_map sv_methods (fl_services fl)) ++
  map m_name (filter (fun m => Nat.eqb (List.length (m_path m)) 1 && has_suffix (s "Error") (last (m_path m) [])) (fl_messages fl)).
Definition reach_fuel (sc : schema) (fl : file) : nat :=
  S (List.length (ts_roots fl) + List.length (all_messages sc) +
     fold_right (fun m acc => List.length (m_fields m) + acc) 0 (all_messages sc)).
Definition ts_messages (sc : schema) (fl : file) : list message :=
  flat_map (fun n => match find_message (all_messages sc) n with Some m => [m] | None => [] end)
           (reach (reach_fuel sc fl) sc (ts_roots fl) []).

Definition flatten_prop_names (sc : schema) (f : field) : list str :=
  match f_flatten f, f_flatten_prefix f with
  | Some true, Some p =>
      if str_eqb p [] then []
      else match f_kind f with
           | KMessage n => match find_message (all_messages sc) n with
                           | Some c => map (fun cf => p ++ json_name (f_name cf)) (m_fields c)
                           | None => []
                           end
           | _ => []
           end
  | _, _ => []
  end.
Definition in_disc_oneof (m : message) (f : field) : bool :=
  match f_oneof f with
  | Some n => existsb (fun o => o_has_cfg o && negb (str_eqb (o_discriminator o) []) && str_eqb (o_name o) n) (m_oneofs m)
  | None => false
  end.
(* the annotation texts message [m] contributes as bare property names *)
Definition ts_text_props (sc : schema) (m : message) : list str :=
  map o_discriminator (filter (fun o => o_has_cfg o && negb (str_eqb (o_discriminator o) [])) (m_oneofs m)) ++
  flat_map (fun f => if in_disc_oneof m f then [] else flatten_prop_names sc f) (m_fields m).
Definition ts_types_ok (sc : schema) (fl : file) : bool :=
  negb (match fl_services fl with [] => false | _ => true end) ||
  forallb (fun m => forallb ts_prop_ok (ts_text_props sc m)) (ts_messages sc fl).

Definition ts_server_loads (sc : schema) (fl : file) : bool := ts_routes_ok sc fl && ts_types_ok sc fl.
(* the client declares path, params?, url, headers, resp, body once per method: tsclientgen/generator.go:300-405 *)
Definition ts_client_consts (sc : schema) (md : method) : list str :=
  [s "path"] ++
  (if has_body md then [] else match input_msg sc md with
                               | Some m => match query_fields_of m with [] => [] | _ => [s "params"] end
                               | None => [] end) ++
  [s "url"; s "headers"; s "resp"; s "body"].
(* tscommon.HeaderNameToPropertyName: strip "X-", split on '-', lower-case the first part, capitalise
   the others; the result is printed as an interface member and as `options?.<prop>` *)
Definition cap_lower (x : str) : str := match x with [] => [] | c :: r => to_upper c :: lower_str r end.
Definition ts_header_prop (h : str) : str :=
  match split_on "-"%char (trim_prefix (s "X-") h) with
  | [] => []
  | p :: r => lower_str p ++ List.concat (map cap_lower r)
  end.
Definition ts_ident_ok (x : str) : bool :=
  match x with
  | [] => false
  | c :: _ => negb (is_digit c) && forallb (fun d => is_ident_char d || Ascii.eqb d "$"%char) x
  end.
(* class members are `async <lowerFirst(Method)>(..)`: reserved words are fine as member names, but a
   member called constructor IS the constructor ("Constructor can't be an async function") *)
Definition ts_member_ok (md : method) : bool := negb (str_eqb (lower_first (md_go md)) (s "constructor")).
Definition ts_client_loads (sc : schema) (fl : file) : bool :=
  forallb (fun md => nodup_strb (ts_client_consts sc md) && ts_member_ok md) (methods_of fl) &&
  forallb (fun sv => forallb (fun h => ts_ident_ok (ts_header_prop (h_name h))) (all_headers sv)) (fl_services fl) &&
  ts_types_ok sc fl.
Definition ts_loads (sc : schema) : bool :=
  forallb (fun fl => ts_server_loads sc fl && ts_client_loads sc fl) (gen_files sc).

(* ================================================================================================ *)
(* the defect classifier — written on the schema shape, independently of the obligations above      *)
(* ================================================================================================ *)

Definition tag_if (b : bool) (t : string) : list str := if b then [s t] else [].

Definition in_real_oneof (f : field) : bool := match f_oneof f with Some _ => true | None => false end.
Definition is_singular_plain (f : field) : bool :=
  match f_card f with Singular => negb (in_real_oneof f) | _ => false end.

(* what the generation-time validators let through (annotations.ValidateNullableAnnotation,
   ValidateEmptyBehaviorAnnotation, ValidateFlattenField, GetUnwrapField): a schema outside this is
   refused by the plugins and is not in C13's domain *)
Definition field_accepted (f : field) : bool :=
  (negb (f_nullable_on f) || (is_optional f && negb (is_msg_kind (f_kind f)))) &&
  (negb (f_empty_on f) || (is_msg_kind (f_kind f) && negb (is_list f) && negb (is_map f))) &&
  (negb (f_flatten_on f) || (is_msg_kind (f_kind f) && is_singular_plain f)) &&
  (negb (f_unwrap f) || is_list f || is_map f).
Definition msg_accepted (m : message) : bool :=
  forallb field_accepted (m_fields m) &&
  (* at most one unwrap field; a map unwrap only as the single field *)
  (Nat.leb (List.length (filter f_unwrap (m_fields m))) 1) &&
  match unwrap_field m with Some f => negb (is_map f) || is_root_unwrap m | None => true end.
(* a header whose helper name is not an identifier makes protogen refuse the client file
   ("unparsable Go source") *)
Definition accepted (sc : schema) : bool :=
  forallb (fun fl => forallb msg_accepted (fl_messages fl) && forallb header_ident_ok (fl_services fl)) sc.

Definition foreign_msg (sc : schema) (fl : file) (k : kind) : bool :=
  match k with KMessage n => negb (same_pkg sc fl n) | _ => false end.
Definition str_key (f : field) : bool := match f_card f with MapOf KString => true | _ => false end.
Definition plain_unwrap_map (sc : schema) (f : field) : bool :=
  match unwrap_map_field sc f with Some _ => true | None => false end.

Definition feature_tags (sc : schema) (fl : file) (m : message) (ft : feature) : list str :=
  let fs := m_fields m in
  match ft with
  | FInt64 =>
      tag_if (existsb (fun f => f_int64num f && is_optional f) fs) "int64-number-on-optional" ++
      tag_if (existsb (fun f => f_int64num f && in_real_oneof f) fs) "annotated-oneof-member"
  | FNullable => []
  | FEmpty => tag_if (existsb (fun f => f_empty_on f && in_real_oneof f) fs) "annotated-oneof-member"
  | FTimestamp =>
      tag_if (existsb (fun f => f_tsfmt_on f && is_list f) fs) "timestamp-format-on-repeated" ++
      tag_if (existsb (fun f => f_tsfmt_on f && in_real_oneof f) fs) "annotated-oneof-member"
  | FBytes =>
      tag_if (existsb (fun f => f_bytesenc_on f && is_list f) fs) "bytes-encoding-on-repeated" ++
      tag_if (existsb (fun f => f_bytesenc_on f && in_real_oneof f) fs) "annotated-oneof-member"
  | FFlatten => tag_if (existsb (fun f => f_flatten_on f && foreign_msg sc fl (f_kind f)) fs) "unqualified-foreign-type"
  | FOneof =>
      tag_if (existsb (fun o => negb (nodup_strb (map variant_value (members m o)))) (disc_oneofs m))
             "oneof-duplicate-discriminator-value" ++
      tag_if (existsb (fun o => existsb (fun f => foreign_msg sc fl (f_kind f)) (members m o)) (disc_oneofs m))
             "unqualified-foreign-type"
  | FUnwrap =>
      if is_root_unwrap m then
        match unwrap_field m with
        | Some f =>
            tag_if (is_map f && is_msg_kind (f_kind f) && negb (str_key f)) "unwrap-non-string-key" ++
            tag_if (is_map f && match value_msg sc f with
                                | Some v => match unwrap_field v with Some u => negb (is_list u) | None => false end
                                | None => false end) "unwrap-of-map-unwrap"
        | None => []
        end
      else if is_unwrap_container sc m then
        tag_if (existsb in_real_oneof fs) "unwrap-container-with-oneof" ++
        tag_if (existsb (fun f => plain_unwrap_map sc f && negb (str_key f)) fs) "unwrap-non-string-key" ++
        tag_if (existsb (fun f => match unwrap_map_field sc f with Some u => negb (is_list u) | None => false end) fs)
               "unwrap-of-map-unwrap" ++
        tag_if (existsb (fun f => is_optional f && match f_kind f with KBytes | KMessage _ => false | _ => true end) fs)
               "unwrap-container-optional-scalar" ++
        tag_if (existsb (fun f => negb (plain_unwrap_map sc f) && negb (is_map f) && negb (is_list f) &&
                                  foreign_msg sc fl (f_kind f)) fs) "unqualified-foreign-type"
      else []
  end.

Definition msg_tags (p : plugin) (sc : schema) (fl : file) (m : message) : list str :=
  tag_if (Nat.ltb 1 (List.length (emitted_features p sc fl m))) "two-marshaljson-features" ++
  tag_if (codec_method_clash p sc fl m) "field-named-like-codec-method" ++
  flat_map (fun ft => if plugin_emits p fl ft then feature_tags sc fl m ft else []) all_features.

Definition enum_tags (p : plugin) (fl : file) (e : enum) : list str :=
  tag_if (enum_has_custom e && match p with PHttp => true | PClient => has_services fl end &&
          negb (nodup_strb (from_json_keys e))) "enum-fromjson-duplicate-key".

(* names for which snakeToUpperCamel and GoCamelCase are proved to agree: [a-z]+(_[a-z]+)*
   (proofs/EmitFacts.v snake_upper_camel_eq_go_camel) *)
Fixpoint plain_snake_aux (prev_us : bool) (x : str) : bool :=
  match x with
  | [] => negb prev_us
  | c :: r => if Ascii.eqb c underscore then negb prev_us && plain_snake_aux true r
              else is_lower c && plain_snake_aux false r
  end.
Definition plain_snake (x : str) : bool := match x with [] => false | _ => plain_snake_aux true x end.

Definition url_scalar (k : kind) : bool :=
  match k with KEnum _ | KBytes | KMessage _ => false | _ => true end.
Definition client_query_tags (f : field) : list str :=
  tag_if (is_map f || negb (url_scalar (f_kind f))) "client-query-on-enum-bytes-message" ++
  tag_if (negb (is_map f) && url_scalar (f_kind f) && negb (is_singular_plain f)) "client-query-on-non-singular".

Definition client_path_tags (m : message) (p : str) : list str :=
  let id := snake_to_upper_camel p in
  tag_if (negb (mem_str id (struct_fields m)) && negb (mem_str id (msg_methods m))) "client-path-ident-mismatch" ++
  tag_if (negb (mem_str id (struct_fields m)) && mem_str id (msg_methods m)) "client-path-ident-is-method".

Definition client_method_tags (sc : schema) (md : method) : list str :=
  match input_msg sc md with
  | None => []
  | Some m =>
      flat_map (client_path_tags m) (path_params md) ++
      (if has_body md then [] else flat_map client_query_tags (query_fields_of m))
  end.

Definition file_tags (p : plugin) (sc : schema) (fl : file) : list str :=
  flat_map (msg_tags p sc fl) (fl_messages fl) ++
  flat_map (enum_tags p fl) (fl_enums fl) ++
  match p with
  | PHttp => flat_map (fun m => tag_if (is_error_msg m && mem_str (s "Error") (go_field_names (m_fields m)))
                                       "error-message-with-error-field") (fl_messages fl)
                       ++ tag_if (negb (unwrap_file_imports_used sc fl)) "unwrap-file-unused-protojson"
                       ++ tag_if (existsb (fun sv => generic_shadows (sv_methods sv)) (fl_services fl)) "method-named-generic"
  | PClient => flat_map (client_method_tags sc) (methods_of fl)
  end ++
  tag_if (negb (file_imports_used fl)) "service-without-methods".

Definition svc_like_method (fl : file) : bool :=
  existsb (fun sv => mem_str (svc_go sv) (map md_go (methods_of fl))) (fl_services fl).

Definition decl_tags (ps : subset) (sc : schema) : list str :=
  if nodup_strb (pkg_decls ps sc) then []
  else
    let http := match ps with OnlyClient => false | _ => true end in
    let two_files := Nat.ltb 1 (List.length (filter has_services (gen_files sc))) in
    let same_md := http && negb (nodup_strb (map md_go (flat_map methods_of (gen_files sc)))) in
    let svc_md := http && existsb svc_like_method (gen_files sc) in
    tag_if two_files "two-service-files-one-package" ++
    tag_if same_md "same-method-name-two-services" ++
    tag_if svc_md "service-named-like-method" ++
    tag_if (negb (two_files || same_md || svc_md)) "package-declaration-clash".

Definition go_tags (ps : subset) (sc : schema) : list str :=
  decl_tags ps sc ++
  flat_map (fun p => flat_map (file_tags p sc) (gen_files sc)) (subset_plugins ps).

(* the route handlers of the TS server never redeclare a const (proofs/EmitFacts.v ts_routes_ok_always); the
   client has two name-driven failures; both print annotation texts as bare property names *)
Definition ts_tags (sc : schema) : list str :=
  tag_if (existsb (fun fl => existsb (fun md => negb (ts_member_ok md)) (methods_of fl)) (gen_files sc)) "ts-client-method-named-constructor" ++
  tag_if (existsb (fun fl => existsb (fun sv => existsb (fun h => negb (ts_ident_ok (ts_header_prop (h_name h)))) (all_headers sv)) (fl_services fl)) (gen_files sc))
         "ts-client-header-property-not-identifier" ++
  tag_if (existsb (fun fl => negb (ts_types_ok sc fl)) (gen_files sc)) "ts-property-name-not-identifier".

Fixpoint dedup (l : list str) : list str :=
  match l with [] => [] | x :: r => if mem_str x r then dedup r else x :: dedup r end.

Definition defects_go (sc : schema) (ps : subset) : list str := dedup (go_tags ps sc).
Definition defects_C13 (sc : schema) : list str :=
  dedup (go_tags OnlyHttp sc ++ go_tags OnlyClient sc ++ go_tags Both sc ++ ts_tags sc).

(* ================================================================================================ *)
(* prediction for the correspondence check                                                          *)
(* ================================================================================================ *)

(* insertion sort on byte strings for a canonical class list *)
Fixpoint str_leb (a b : str) : bool :=
  match a, b with
  | [], _ => true
  | _ :: _, [] => false
  | x :: a', y :: b' => if (code x <? code y)%N then true else if (code y <? code x)%N then false else str_leb a' b'
  end.
Fixpoint insert_str (x : str) (l : list str) : list str :=
  match l with [] => [x] | y :: r => if str_leb x y then x :: l else y :: insert_str x r end.
Definition sort_strs (l : list str) : list str := fold_right insert_str [] l.

Definition failing_classes (sc : schema) (ps : subset) : list str :=
  let cs := pkg_checks ps sc in
  let bad := filter (fun c => negb (ck_ok c)) (build_checks cs) in
  match bad with
  | [] => sort_strs (dedup (map ck_class (filter (fun c => negb (ck_ok c)) (vet_checks cs))))
  | _ =>
      (* after a redeclaration the compiler reports follow-on type / selector errors at the uses of
         the clashing name (and "declared and not used" for values only passed to it): those classes
         are not compared once "redeclared" is present *)
      let cl := dedup (map ck_class bad) in
      sort_strs (if mem_str cls_redeclared cl
                 then filter (fun c => negb (str_eqb c cls_type || str_eqb c cls_selector || str_eqb c cls_unused)) cl else cl)
  end.

Definition subset_json (sc : schema) (ps : subset) : json :=
  JObj [(s "build", JBool (go_builds sc ps)); (s "vet", JBool (go_vets sc ps));
        (s "classes", jstrs (failing_classes sc ps))].

(* requests whose generated files are spread over several Go packages are outside the model *)
Definition one_package (sc : schema) : bool :=
  match gen_files sc with
  | [] => true
  | fl :: r => forallb (fun g => str_eqb (fl_gopkg g) (fl_gopkg fl)) r
  end.

Definition predict_C13 (sc : schema) : json :=
  if negb (one_package sc) then JObj [(s "unmodelled", JStr (s "generated files in several Go packages"))]
  else if negb (accepted sc) then JObj [(s "unmodelled", JStr (s "annotation placement the generation-time validators refuse"))]
  else
    JObj [(s "tags", jstrs (defects_C13 sc));
          (s "http", subset_json sc OnlyHttp);
          (s "client", subset_json sc OnlyClient);
          (s "both", subset_json sc Both);
          (s "ts_server", JObj (map (fun fl => (fl_path fl, JBool (ts_server_loads sc fl))) (filter has_services (gen_files sc))));
          (s "ts_client", JObj (map (fun fl => (fl_path fl, JBool (ts_client_loads sc fl))) (filter has_services (gen_files sc))))].

(* (a)+(d): Go field names and types of every message of the generated files, compared with the
   struct protoc-gen-go wrote *)
Definition predict_struct (m : message) : json :=
  JObj [(s "tags", JArr []);
        (s "go_name", JStr (msg_go_name m));
        (s "fields", JObj (map (fun fn => (f_name (fst fn),
                                            JArr [JStr (snd fn); JStr (show_gotype (go_field_type (fst fn)))]))
                               (named_fields m)))].
