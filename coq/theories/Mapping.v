(* Mapping.v — Spec: the documented JSON mapping of sebuf, written from
     proto/sebuf/http/annotations.proto:60-211 (comments of every annotation),
     CLAUDE.md "JSON Mapping Annotations" and "Unwrap Annotation",
     docs/json-protobuf-compatibility.md (map-value / root / combined unwrap),
   independently of the emitted code (this file does not import Codec.v).
   It is ONE structurally recursive function: a message value has the same JSON form wherever it
   occurs (top level, nested field, list element, map value, oneof variant) — the property C05 demands.
   Everything without an annotation is rendered by ProtoJson's scalar mapping (proto3 JSON).

   int64_encoding = NUMBER        64-bit integers as JSON numbers (singular, repeated, map values)
   enum_value / enum_encoding     custom string instead of the value name; NUMBER: the number
   nullable = true                unset optional field -> null
   empty_behavior                 empty message -> {} (PRESERVE) / null (NULL) / omitted (OMIT)
   timestamp_format               RFC 3339 / Unix seconds / Unix millis / "YYYY-MM-DD"
   bytes_encoding                 base64 std|url x padded|raw, hex (lower case)
   flatten (+ flatten_prefix)     child fields promoted to the parent, prefix prepended
   oneof_config                   discriminator key (oneof_value or the field name); flatten: the
                                  variant's fields are promoted, else the variant stays under its name
   unwrap                         root: a single-field message is just its list / map;
                                  map value: a wrapper used as a map value is just its list *)
From Sebuf Require Export ProtoJson.

Open Scope Z_scope.

Definition mp_unwrap_field (md : message) : option field :=
  match filter (fun f => f_unwrap f) (m_fields md) with
  | [f] => match f_card f with Repeated | MapOf _ => Some f | _ => None end
  | _ => None
  end.
Definition mp_root_unwrap (md : message) : option field :=
  match m_fields md with [_] => mp_unwrap_field md | _ => None end.
Definition mp_value_list (md : message) : option field :=
  match mp_unwrap_field md with
  | Some f => match f_card f with Repeated => Some f | _ => None end
  | None => None
  end.
Definition mp_custom (v : enum_value) : str :=
  match ev_custom v with Some (c :: r) => c :: r | _ => ev_name v end.
Definition mp_disc_value (f : field) : str :=
  match f_oneof_value f with Some (c :: r) => c :: r | _ => f_name f end.
Definition mp_oneof_of (md : message) (f : field) : option oneof :=
  match f_oneof f with
  | Some n => find (fun o => str_eqb (o_name o) n && o_has_cfg o &&
                             match o_discriminator o with [] => false | _ => true end) (m_oneofs md)
  | None => None
  end.

Section Mapping.
Variable E : ExtLib.
Variable sc : schema.

(* scalar with the annotations of the field it belongs to *)
Definition mp_scalar (ctx : option field) (k : kind) (x : sval) : res json :=
  match ctx, k, x with
  | Some f, _, VInt z =>
      if is_int64_kind k && match f_int64 f with Some I64Number => true | _ => false end
      then ROk (JNum z) else pj_scalar E sc k x
  | Some f, KEnum tn, VEnum n =>
      match f_enumenc f with
      | Some EENumber => ROk (JNum n)
      | _ => match find_enum (all_enums sc) tn with
             | None => RUnm (s "unknown enum type")
             | Some e => match ev_by_number (e_values e) n with
                         | Some v => ROk (JStr (mp_custom v))
                         | None => ROk (JNum n)
                         end
             end
      end
  | Some f, KBytes, VBytes b =>
      match f_bytesenc f with
      | Some BEHex => ROk (JStr (hex_enc b))
      | Some BEBase64Raw => ROk (JStr (b64_enc false false b))
      | Some BEBase64Url => ROk (JStr (b64_enc true true b))
      | Some BEBase64UrlRaw => ROk (JStr (b64_enc true false b))
      | _ => pj_scalar E sc k x
      end
  | None, KEnum tn, VEnum n =>
      (* enum_value belongs to the enum, not to the field *)
      match find_enum (all_enums sc) tn with
      | None => RUnm (s "unknown enum type")
      | Some e => match ev_by_number (e_values e) n with
                  | Some v => ROk (JStr (mp_custom v))
                  | None => ROk (JNum n)
                  end
      end
  | _, _, _ => pj_scalar E sc k x
  end.

Definition mp_timestamp (ctx : option field) (m : mval) : res json :=
  let sec := mget_int m (s "seconds") in
  let nanos := mget_int m (s "nanos") in
  if negb (ts_in_range sec nanos) then RErr (s "timestamp out of range") else
  match match ctx with Some f => f_tsfmt f | None => None end with
  | Some TFUnixSeconds => ROk (JNum sec)
  | Some TFUnixMillis => ROk (JNum (sec * 1000 + nanos / 1000000))
  | Some TFDate => ROk (JStr (x_date_text E sec))
  | _ => ROk (JStr (x_ts_text E sec nanos))
  end.

(* what one populated field contributes to its parent object *)
Inductive piece :=
  | PField (k : str) (j : json)
  | PSpread (prefix : str) (kv : list (str * json))
  | PDisc (k : str) (v : str).

Definition spread_of (prefix : str) (j : json) : res piece :=
  match j with
  | JObj kv => ROk (PSpread prefix kv)
  | _ => RUnm (s "flattened child whose JSON form is not an object")
  end.

Fixpoint mp_fval (ctx : option field) (k : kind) (v : fval) {struct v} : res json :=
  match v with
  | FS x => mp_scalar ctx k x
  | FL l =>
      (fix go (l : list fval) : res (list json) :=
         match l with
         | [] => ROk []
         | x :: r => mp_fval ctx k x >>= (fun j => go r >>= (fun t => ROk (j :: t)))
         end) l >>= (fun js => ROk (JArr js))
  | FMap kv =>
      let uw := match k with
                | KMessage vtn => match lookup_message sc vtn with Some vmd => mp_value_list vmd | None => None end
                | _ => None
                end in
      (fix go (kv : list (sval * fval)) : res (list (str * json)) :=
         match kv with
         | [] => ROk []
         | (key, x) :: r =>
             key_text key >>= (fun kt =>
             (match uw, x with
              | Some uf, FM wm =>
                  (* map-value unwrap: the wrapper collapses to the array of its unwrap field *)
                  (fix pick (wm : list (str * fval)) : res json :=
                     match wm with
                     | [] => ROk (JArr [])
                     | (n, y) :: t => if str_eqb n (f_name uf) then mp_fval (Some uf) (f_kind uf) y else pick t
                     end) wm
              | _, _ => mp_fval ctx k x
              end) >>= (fun j => go r >>= (fun t => ROk ((kt, j) :: t))))
         end) kv >>= (fun es => ROk (JObj es))
  | FM m =>
      match k with
      | KMessage tn =>
          if str_eqb tn ts_name then mp_timestamp ctx m
          else if is_wkt_other tn then RUnm (s "well-known type other than Timestamp")
          else
            match find_message (all_messages sc) tn with
            | None => RUnm (s "unknown message type")
            | Some md =>
                (fix go (m : list (str * fval)) : res (list piece) :=
                   match m with
                   | [] => ROk []
                   | (name, x) :: r =>
                       match find_field (m_fields md) name with
                       | None => RUnm (s "value names an undeclared field")
                       | Some f =>
                           (match f_empty f, x with
                            | Some EBNull, FM [] => ROk [PField (json_name name) JNull]
                            | Some EBOmit, FM [] => ROk []
                            | _, _ =>
                                mp_fval (Some f) (f_kind f) x >>= (fun j =>
                                match f_flatten f with
                                | Some true => spread_of (match f_flatten_prefix f with Some p => p | None => [] end) j
                                                 >>= (fun p => ROk [p])
                                | _ =>
                                    match mp_oneof_of md f with
                                    | Some o =>
                                        if o_flatten o && match f_kind f with KMessage _ => true | _ => false end
                                        then spread_of [] j >>= (fun p => ROk [PDisc (o_discriminator o) (mp_disc_value f); p])
                                        else ROk [PDisc (o_discriminator o) (mp_disc_value f); PField (json_name name) j]
                                    | None => ROk [PField (json_name name) j]
                                    end
                                end)
                            end) >>= (fun ps => go r >>= (fun t => ROk (ps ++ t)))
                       end
                   end) m >>= (fun ps =>
                match mp_root_unwrap md with
                | Some f =>
                    (* root unwrap: the message IS the value of its only field *)
                    match ps with
                    | [PField _ j] => ROk j
                    | [] => ROk (match f_card f with Repeated => JArr [] | _ => JObj [] end)
                    | _ => RUnm (s "root unwrap with unexpected content")
                    end
                | None =>
                    let entries := flat_map (fun p => match p with
                                                      | PField k j => [(k, j)]
                                                      | PSpread pre kv => map (fun e => (pre ++ fst e, snd e)) kv
                                                      | PDisc k v => [(k, JStr v)]
                                                      end) ps in
                    let nulls := flat_map (fun f => match f_nullable f, mget m (f_name f) with
                                                    | Some true, None => [(json_name (f_name f), JNull)]
                                                    | _, _ => []
                                                    end) (m_fields md) in
                    ROk (JObj (entries ++ nulls))
                end)
            end
      | _ => RUnm (s "ill-typed value")
      end
  end.

Definition to_json (tn : str) (m : mval) : res json := mp_fval None (KMessage tn) (FM m).

End Mapping.
Close Scope Z_scope.
