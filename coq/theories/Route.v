(* Route.v — the verb, path template and parameter placement of an RPC as computed by each of
   the five generators.  Each function transcribes its own code path:
     go_server : internal/httpgen/generator.go getMethodPath / getHTTPMethod / generateParamConfigs
     go_client : internal/clientgen/generator.go buildRPCMethodConfig / generateURLBuilding
     ts_client : internal/tsclientgen/generator.go buildRPCMethodConfig / generateURLBuilding
     ts_server : internal/tsservergen/generator.go buildRPCRouteConfig / generateQueryParamParsing
     openapi   : internal/openapiv3/generator.go extractMethodHTTPInfo / processMethod
   plus annotations.BuildHTTPPath / EnsureLeadingSlash / HTTPMethodToString. *)
From Sebuf Require Export Text.

Inductive verb := GET | POST | PUT | DELETE | PATCH.
Definition verb_eqb (a b : verb) : bool :=
  match a, b with
  | GET, GET | POST, POST | PUT, PUT | DELETE, DELETE | PATCH, PATCH => true
  | _, _ => false
  end.
Definition verb_has_body (v : verb) : bool :=
  match v with POST | PUT | PATCH => true | _ => false end.

(* What the route functions need to know about a service and one of its RPCs. *)
Record rpc_info := {
  ri_service  : str;          (* proto service name *)
  ri_gopkg    : str;          (* Go package name of the file *)
  ri_base     : str;          (* service_config.base_path, "" when absent *)
  ri_method   : str;          (* method GoName (= proto name for CamelCase names) *)
  ri_has_cfg  : bool;         (* (sebuf.http.config) present *)
  ri_path     : str;          (* config.path, "" when absent *)
  ri_verb     : option verb;  (* config.method, None = UNSPECIFIED/absent *)
  ri_query    : list str      (* query parameter names of the query-annotated input fields, in field order *)
}.

Record route := {
  rt_verb  : verb;
  rt_path  : str;
  rt_pathvars : list str;
  rt_query : list str;
  rt_body  : bool
}.

Definition ensure_leading_slash (p : str) : str :=
  match p with
  | [] => [slash]
  | _ => if has_prefix [slash] p then p else slash :: p
  end.

Definition build_http_path (service_path method_path : str) : str :=
  match service_path, method_path with
  | [], [] => [slash]
  | [], _ => ensure_leading_slash method_path
  | _, [] => ensure_leading_slash service_path
  | _, _ => trim_suffix [slash] (ensure_leading_slash service_path) ++ [slash] ++ trim_prefix [slash] method_path
  end.

(* HTTPMethodToString: UNSPECIFIED -> POST; a config that is absent also gives POST *)
Definition eff_verb (r : rpc_info) : verb :=
  match ri_verb r with Some v => v | None => POST end.

(* path variables: ExtractPathParams(config.path); nil config -> none *)
Definition path_vars (r : rpc_info) : list str :=
  if ri_has_cfg r then extract_path_params (ri_path r) else [].

Definition cfg_path (r : rpc_info) : str := if ri_has_cfg r then ri_path r else [].

(* --- Go server ------------------------------------------------------------------------- *)
Definition go_server_path (r : rpc_info) : str :=
  let custom := cfg_path r in
  let base := ri_base r in
  match base, custom with
  | _ :: _, _ :: _ =>
      trim_suffix [slash] base ++ (if has_prefix [slash] custom then custom else slash :: custom)
  | [], _ :: _ => custom
  | _ :: _, [] => trim_suffix [slash] base ++ [slash] ++ camel_to_snake (ri_method r)
  | [], [] => [slash] ++ ri_gopkg r ++ [slash] ++ camel_to_snake (ri_method r)
  end.

Definition go_server (r : rpc_info) : route :=
  {| rt_verb := eff_verb r; rt_path := go_server_path r; rt_pathvars := path_vars r;
     rt_query := ri_query r;                       (* bound for every verb *)
     rt_body := verb_has_body (eff_verb r) |}.

(* --- Go client, TS client, TS server: same defaulting ----------------------------------- *)
Definition client_path (r : rpc_info) : str :=
  let custom := cfg_path r in
  let http_path := match custom with [] => slash :: lower_first (ri_method r) | _ => custom end in
  build_http_path (ri_base r) http_path.

Definition client_route (r : rpc_info) : route :=
  let v := eff_verb r in
  {| rt_verb := v; rt_path := client_path r; rt_pathvars := path_vars r;
     rt_query := if verb_has_body v then [] else ri_query r;   (* only GET/DELETE carry a query *)
     rt_body := verb_has_body v |}.

Definition go_client := client_route.
Definition ts_client := client_route.
Definition ts_server := client_route.

(* --- OpenAPI ------------------------------------------------------------------------------ *)
Definition openapi_path (r : rpc_info) : str :=
  match ri_base r, ri_has_cfg r with
  | [], false => [slash] ++ ri_service r ++ [slash] ++ ri_method r
  | _, _ => build_http_path (ri_base r) (cfg_path r)
  end.

Definition openapi (r : rpc_info) : route :=
  {| rt_verb := eff_verb r; rt_path := openapi_path r; rt_pathvars := path_vars r;
     rt_query := ri_query r;                       (* declared for every verb *)
     rt_body := verb_has_body (eff_verb r) |}.

(* --- the known ways agreement fails on the current tree ----------------------------------- *)
Inductive c03_defect :=
  | DefaultPath            (* no config path: three different defaults *)
  | BaseNoLeadingSlash     (* base path without leading '/': Go server registers a host pattern *)
  | PathNoLeadingSlashNoBase (* method path without leading '/', no base path: Go server keeps it as is *)
  | QueryOnBodyVerb.       (* query-annotated fields on POST/PUT/PATCH: server+OpenAPI bind/declare, clients do not send *)

Definition defects_C03 (r : rpc_info) : list c03_defect :=
  (match cfg_path r with [] => [DefaultPath] | _ => [] end) ++
  (match ri_base r with [] => [] | _ => if has_prefix [slash] (ri_base r) then [] else [BaseNoLeadingSlash] end) ++
  (match ri_base r, cfg_path r with
   | [], _ :: _ => if has_prefix [slash] (cfg_path r) then [] else [PathNoLeadingSlashNoBase]
   | _, _ => [] end) ++
  (if verb_has_body (eff_verb r) then match ri_query r with [] => [] | _ => [QueryOnBodyVerb] end else []).

(* --- one operation per RPC in the OpenAPI document ---------------------------------------- *)
(* processMethod assigns the operation to PathItems[path].<verb>, overwriting what was there.
   The document therefore holds, per (path, verb), the LAST RPC that computed that key. *)
Definition route_key (rt : route) : str * verb := (rt_path rt, rt_verb rt).
Definition key_eqb (a b : str * verb) : bool := str_eqb (fst a) (fst b) && verb_eqb (snd a) (snd b).

Fixpoint assign_ops (doc : list ((str * verb) * str)) (rs : list rpc_info) : list ((str * verb) * str) :=
  match rs with
  | [] => doc
  | r :: rest =>
      let k := route_key (openapi r) in
      let doc' := if existsb (fun e => key_eqb (fst e) k) doc
                  then map (fun e => if key_eqb (fst e) k then (k, ri_method r) else e) doc
                  else doc ++ [(k, ri_method r)] in
      assign_ops doc' rest
  end.
Definition openapi_ops (rs : list rpc_info) : list ((str * verb) * str) := assign_ops [] rs.

Definition count_ops_for (m : str) (ops : list ((str * verb) * str)) : nat :=
  List.length (filter (fun e => str_eqb (snd e) m) ops).

(* --- rendering for the correspondence check (glue) ---------------------------------------- *)
From Sebuf Require Import Json.
Definition verb_str (v : verb) : str :=
  match v with GET => s "GET" | POST => s "POST" | PUT => s "PUT" | DELETE => s "DELETE" | PATCH => s "PATCH" end.
Definition route_json (rt : route) : json :=
  JObj [(s "verb", JStr (verb_str (rt_verb rt))); (s "path", JStr (rt_path rt));
        (s "pathvars", jstrs (rt_pathvars rt)); (s "query", jstrs (rt_query rt)); (s "body", JBool (rt_body rt))].
Definition c03_defect_str (d : c03_defect) : str :=
  match d with
  | DefaultPath => s "default-path"
  | BaseNoLeadingSlash => s "base-no-leading-slash"
  | PathNoLeadingSlashNoBase => s "path-no-leading-slash-no-base"
  | QueryOnBodyVerb => s "query-on-body-verb"
  end.
(* the operation the document holds for an RPC, if any (a later RPC on the same key replaces it) *)
Definition openapi_in_doc (rs : list rpc_info) (r : rpc_info) : option route :=
  if existsb (fun e => key_eqb (fst e) (route_key (openapi r)) && str_eqb (snd e) (ri_method r)) (openapi_ops rs)
  then Some (openapi r) else None.
Definition key_shared (rs : list rpc_info) (r : rpc_info) : bool :=
  Nat.ltb 1 (List.length (filter (fun q => key_eqb (route_key (openapi q)) (route_key (openapi r))) rs)).
Definition rpc_tags (rs : list rpc_info) (r : rpc_info) : list str :=
  map c03_defect_str (defects_C03 r) ++ (if key_shared rs r then [s "shared-route"] else []).
Definition predict_C03_rpc (rs : list rpc_info) (r : rpc_info) : json :=
  JObj [(s "tags", jstrs (rpc_tags rs r));
        (s "go_server", route_json (go_server r)); (s "go_client", route_json (go_client r));
        (s "ts_client", route_json (ts_client r)); (s "ts_server", route_json (ts_server r));
        (s "openapi", match openapi_in_doc rs r with Some rt => route_json rt | None => JNull end)].
Definition predict_C03_at (p : list rpc_info * nat) : json :=
  match nth_error (fst p) (snd p) with
  | Some r => predict_C03_rpc (fst p) r
  | None => JNull
  end.
(* operations of the document as a finite map "VERB path" -> operationId *)
Definition predict_C03_ops (rs : list rpc_info) : json :=
  JObj [(s "tags", jstrs (if existsb (key_shared rs) rs then [s "shared-route"] else []));
        (s "ops", JObj (map (fun e => (verb_str (snd (fst e)) ++ s " " ++ fst (fst e), JStr (snd e))) (openapi_ops rs)))].
