(* Errors.v — C10: how errors surface from the emitted Go server and what the emitted Go client makes
   of them.

   Sources (pinned tree):
     internal/httpgen/generator.go:333-379   BindingMiddleware: header / path / query / body / rule
                                             failures are *sebufhttp.ValidationError values handed to
                                             writeErrorWithHandler
     internal/httpgen/generator.go:640-653   genericHandler: err.(proto.Message) (direct assertion, not
                                             errors.As) is passed on, anything else becomes Error{err.Error()}
     internal/httpgen/generator.go:750-765   the documented ErrorHandler contract
     internal/httpgen/generator.go:919-957   writeProtoMessageResponse (Content-Type, WriteHeader, body)
     internal/httpgen/generator.go:989-1008  responseCapture (wroteHeader / written)
     internal/httpgen/generator.go:1010-1037,1143-1160 convertProtovalidateError (field path -> dotted name)
     internal/httpgen/generator.go:1039-1071 default response / status
     internal/httpgen/generator.go:1073-1141 writeErrorWithHandler, writeResponseBody
     internal/httpgen/generator.go:1604-1621 Error() of messages named *Error (protojson text)
     http/errors_impl.go                     Error() of ValidationError / Error
     internal/clientgen/generator.go:589-596,680-726 handleErrorResponse / unmarshalResponse *)
From Sebuf Require Export Headers Value.

(* ---- content types --------------------------------------------------------------------------------- *)
Inductive enc := EJson | EBin.
Definition enc_eqb (a b : enc) : bool := match a, b with EJson, EJson | EBin, EBin => true | _, _ => false end.
(* filterFlags: cut at the first ' ' or ';' *)
Fixpoint filter_flags (x : str) : str :=
  match x with
  | [] => []
  | c :: r => if ceq c " " || ceq c ";" then [] else c :: filter_flags r
  end.
(* server: binary for application/octet-stream and application/x-protobuf, JSON otherwise (also when absent) *)
Definition server_enc (ct : str) : enc :=
  let f := filter_flags ct in
  if is_s f "application/octet-stream" || is_s f "application/x-protobuf" then EBin else EJson.
(* Go client (marshalRequest / unmarshalResponse): exact comparison, binary for ContentTypeProto and
   "application/octet-stream" (dea0491), protojson otherwise — so a binary type WITH parameters
   ("application/x-protobuf; charset=utf-8") is still JSON for the client and binary for the server *)
Definition client_enc (ct : str) : enc :=
  if is_s ct "application/x-protobuf" || is_s ct "application/octet-stream" then EBin else EJson.

(* the content type of a call of the generated Go client (internal/clientgen/generator.go:533-536,561,589-596):
   the client-level value (constructor default ContentTypeJSON, With<Svc>ContentType) unless the call
   overrides it (With<Svc>CallContentType, non-empty); this EFFECTIVE value is the request's Content-Type
   header, selects the request encoding and selects the decoder of the response and of error bodies *)
Inductive ctspec :=
  | RawCT (ct : str)                                   (* no client: a raw request with this header ("" = absent) *)
  | CallCT (client_level : option str) (per_call : option str).
Definition client_default (o : option str) : str :=
  match o with Some ((_ :: _) as c) => c | _ => s "application/json" end.
Definition effective_ct (client_level per_call : option str) : str :=
  match per_call with Some ((_ :: _) as c) => c | _ => client_default client_level end.
Definition request_ct (sp : ctspec) : str :=
  match sp with RawCT ct => ct | CallCT cl ca => effective_ct cl ca end.
Definition through_client (sp : ctspec) : bool := match sp with CallCT _ _ => true | RawCT _ => false end.

(* ---- error values ------------------------------------------------------------------------------------ *)
(* fields of a generated message named *Error, in field-number order *)
Inductive cfield :=
  | CStr (num : N) (name : str) (v : str)
  | CInt32 (num : N) (name : str) (v : Z)
  | CInt64 (num : N) (name : str) (as_number : bool) (v : Z).   (* as_number: int64_encoding = NUMBER *)
Record cmsg := { cm_type : str; cm_fields : list cfield }.

Inductive herr :=
  | HPlain (m : str)                       (* errors.New(m) *)
  | HSebuf (m : str)                       (* *sebufhttp.Error *)
  | HValidation (vs : list (str * str))    (* *sebufhttp.ValidationError *)
  | HCustom (c : cmsg)                     (* generated *XxxError *)
  | HWrap (e : herr).                      (* fmt.Errorf("wrapped: %w", e) *)

(* texts: a literal prefix followed, possibly, by the protojson text of a custom message (whose white
   space is randomised by protojson; compared as a JSON value) *)
Record etext := { tx_lit : str; tx_json : option cmsg }.
Definition lit (x : str) : etext := {| tx_lit := x; tx_json := None |}.
Definition prepend (p : str) (t : etext) : etext := {| tx_lit := p ++ tx_lit t; tx_json := tx_json t |}.

Definition violation_text (vs : list (str * str)) : str :=
  match vs with
  | [] => s "validation error: no violations"
  | [(f, d)] => s "validation error: " ++ f ++ s ": " ++ d
  | _ => s "validation error: [" ++ join_with (s ", ") (map (fun fd => fst fd ++ s ": " ++ snd fd) vs) ++ s "]"
  end.
Definition sebuf_error_text (m : str) : str := match m with [] => s "error: empty message" | _ => m end.

Fixpoint herr_text (e : herr) : etext :=
  match e with
  | HPlain m => lit m
  | HSebuf m => lit (sebuf_error_text m)
  | HValidation vs => lit (violation_text vs)
  | HCustom c => {| tx_lit := []; tx_json := Some c |}
  | HWrap e' => prepend (s "wrapped: ") (herr_text e')
  end.

(* what reaches writeErrorWithHandler *)
Inductive pmsg :=
  | PError (m : etext)                      (* sebuf Error{message} *)
  | PValidation (vs : list (str * str))     (* sebuf ValidationError *)
  | PCustom (c : cmsg).

(* convertProtovalidateError: element names joined with '.', "" -> "unknown" *)
Definition violation_field (path : option (list str)) : str :=
  match path with
  | None => s "unknown"
  | Some els => match join_with (s ".") els with [] => s "unknown" | p => p end
  end.

Inductive source :=
  | SViolations (vs : list (str * str))                  (* header / URL binding / body: built by the middleware *)
  | SRule (vs : list (option (list str) * str))          (* protovalidate violations: (field path, message) *)
  | SHandler (e : herr).

(* genericHandler *)
Definition handler_final (e : herr) : pmsg :=
  match e with
  | HSebuf m => PError (lit m)
  | HValidation vs => PValidation vs
  | HCustom c => PCustom c
  | HPlain m => PError (lit m)
  | HWrap _ => PError (herr_text e)
  end.
Definition final_of (src : source) : pmsg :=
  match src with
  | SViolations vs => PValidation vs
  | SRule vs => PValidation (map (fun pv => (violation_field (fst pv), snd pv)) vs)
  | SHandler e => handler_final e
  end.
(* err.Error() of the value the hook receives *)
Definition pmsg_text (p : pmsg) : etext :=
  match p with
  | PError m => match tx_json m, tx_lit m with None, [] => lit (s "error: empty message") | _, _ => m end
  | PValidation vs => lit (violation_text vs)
  | PCustom c => {| tx_lit := []; tx_json := Some c |}
  end.
Definition default_status (p : pmsg) : Z := match p with PValidation _ => 400 | _ => 500 end.
Definition handler_ran (src : source) : bool := match src with SHandler _ => true | _ => false end.

(* ---- which failure surfaces ------------------------------------------------------------------------------ *)
(* BindingMiddleware (internal/httpgen/generator.go:333-384 after 7c13957) stops at the first failing
   stage: required headers, then the body (POST/PUT/PATCH; bound first because unmarshalling resets the
   message), then path and query values, then the protovalidate rules *)
Inductive stage := StHeader | StBody | StUrl | StRule.
Definition stage_rank (st : stage) : nat := match st with StHeader => 0 | StBody => 1 | StUrl => 2 | StRule => 3 end.
Fixpoint first_failure (l : list (stage * source)) : option (stage * source) :=
  match l with
  | [] => None
  | x :: r =>
      match first_failure r with
      | Some y => if Nat.leb (stage_rank (fst x)) (stage_rank (fst y)) then Some x else Some y
      | None => Some x
      end
  end.

(* ---- the hook ------------------------------------------------------------------------------------------ *)
(* a scripted ErrorHandler: set one header, then WriteHeader(status), then Write(bytes), then return a
   message (sebuf Error{"hooked: " + err.Error()}) or nil *)
Record hook := { hk_header : option (str * str); hk_status : option Z; hk_write : option str; hk_ret_msg : bool }.

Inductive ctsent := CtJsonSent | CtProtoSent | CtHook | CtOther.   (* CtOther: absent or sniffed *)
Inductive body := BMsg (p : pmsg) | BRaw (x : str).
Record response := {
  r_status : Z; r_ct : ctsent; r_hook_header : bool;    (* the hook's (non Content-Type) header was sent *)
  r_enc : enc; r_body : body
}.
Definition ct_of_enc (e : enc) : ctsent := match e with EJson => CtJsonSent | EBin => CtProtoSent end.
Definition hook_sets_ct (h : hook) : bool :=
  match hk_header h with Some (k, _) => name_eqb k (s "Content-Type") | None => false end.
Definition hook_other_header (h : hook) : bool :=
  match hk_header h with Some (k, _) => negb (name_eqb k (s "Content-Type")) | None => false end.
Definition hooked_msg (p : pmsg) : pmsg := PError (prepend (s "hooked: ") (pmsg_text p)).

(* writeErrorWithHandler *)
Definition write_error (p : pmsg) (h : option hook) (ct : str) : response :=
  let e := server_enc ct in
  match h with
  | None => {| r_status := default_status p; r_ct := ct_of_enc e; r_hook_header := false; r_enc := e; r_body := BMsg p |}
  | Some h =>
      match hk_write h with
      | Some w =>   (* capture.written: nothing else happens; an implicit 200 when WriteHeader was not called *)
          {| r_status := match hk_status h with Some st => st | None => 200 end;
             r_ct := if hook_sets_ct h then CtHook else CtOther;
             r_hook_header := hook_other_header h; r_enc := e; r_body := BRaw w |}
      | None =>
          let resp := if hk_ret_msg h then hooked_msg p else p in
          match hk_status h with
          | Some st =>  (* writeResponseBody: the Content-Type it sets after WriteHeader never leaves *)
              {| r_status := st; r_ct := if hook_sets_ct h then CtHook else CtOther;
                 r_hook_header := hook_other_header h; r_enc := e; r_body := BMsg resp |}
          | None =>
              {| r_status := default_status p; r_ct := ct_of_enc e;
                 r_hook_header := hook_other_header h; r_enc := e; r_body := BMsg resp |}
          end
      end
  end.
Definition serve_error (src : source) (h : option hook) (ct : str) : response := write_error (final_of src) h ct.

(* ---- what the documentation promises ------------------------------------------------------------------- *)
(* errors.As-style reading: a wrapped message-typed error is still that message *)
Fixpoint documented_msg (e : herr) : pmsg :=
  match e with
  | HPlain m => PError (lit m)
  | HSebuf m => PError (lit m)
  | HValidation vs => PValidation vs
  | HCustom c => PCustom c
  | HWrap e' =>
      match documented_msg e' with
      | PError _ => PError (herr_text e)
      | p => p
      end
  end.
Definition documented_final (src : source) : pmsg :=
  match src with SHandler e => documented_msg e | _ => final_of src end.
(* the ErrorHandler doc comment: headers, status, returned message, nil = default, direct write = complete *)
Definition documented_response (p : pmsg) (h : option hook) (ct : str) : response :=
  let e := server_enc ct in
  match h with
  | None => {| r_status := default_status p; r_ct := ct_of_enc e; r_hook_header := false; r_enc := e; r_body := BMsg p |}
  | Some h =>
      match hk_write h with
      | Some w => {| r_status := match hk_status h with Some st => st | None => 200 end;
                     r_ct := if hook_sets_ct h then CtHook else CtOther;
                     r_hook_header := hook_other_header h; r_enc := e; r_body := BRaw w |}
      | None => {| r_status := match hk_status h with Some st => st | None => default_status p end;
                   r_ct := ct_of_enc e; r_hook_header := hook_other_header h; r_enc := e;
                   r_body := BMsg (if hk_ret_msg h then hooked_msg p else p) |}
      end
  end.

(* ---- JSON and wire renderings of the bodies --------------------------------------------------------------- *)
Definition cf_json_name (f : cfield) : str :=
  json_name match f with CStr _ n _ | CInt32 _ n _ | CInt64 _ n _ _ => n end.
(* protojson: implicit-presence fields are omitted at their default; int64 as a decimal string *)
Definition pj_field (codec : bool) (f : cfield) : list (str * json) :=
  match f with
  | CStr _ _ v => match v with [] => [] | _ => [(cf_json_name f, JStr v)] end
  | CInt32 _ _ v => if (v =? 0)%Z then [] else [(cf_json_name f, JNum v)]
  | CInt64 _ _ num v => if (v =? 0)%Z then [] else [(cf_json_name f, if codec && num then JNum v else JStr (show_int v))]
  end.
(* codec = false: protojson.Marshal (what the error path uses); codec = true: the message's own MarshalJSON *)
Definition custom_json (codec : bool) (c : cmsg) : json := JObj (flat_map (pj_field codec) (cm_fields c)).

Definition etext_json (t : etext) : json :=
  JObj [(s "text", JStr (tx_lit t)); (s "json", match tx_json t with Some c => custom_json false c | None => JNull end)].

Definition cf_value (f : cfield) : list (str * fval) :=
  match f with
  | CStr _ n v => match v with [] => [] | _ => [(n, FS (VStr v))] end
  | CInt32 _ n v => if (v =? 0)%Z then [] else [(n, FS (VInt v))]
  | CInt64 _ n _ v => if (v =? 0)%Z then [] else [(n, FS (VInt v))]
  end.
Definition custom_value (c : cmsg) : mval := flat_map cf_value (cm_fields c).

(* the JSON document of a body as protojson writes it (strings of a custom text are opaque here) *)
Definition etext_string (t : etext) : str :=
  tx_lit t ++ match tx_json t with Some c => render (custom_json false c) | None => [] end.
Definition pmsg_pj (p : pmsg) : json :=
  match p with
  | PError m => JObj (match etext_string m with [] => [] | x => [(s "message", JStr x)] end)
  | PValidation vs =>
      JObj (match vs with [] => [] | _ =>
        [(s "violations", JArr (map (fun fd => JObj ((match fst fd with [] => [] | f => [(s "field", JStr f)] end) ++
                                                      (match snd fd with [] => [] | d => [(s "description", JStr d)] end))) vs))] end)
  | PCustom c => custom_json false c
  end.

(* protobuf wire format, as far as the three body kinds need it *)
Fixpoint varint_fuel (fuel : nat) (n : N) : str :=
  match fuel with
  | O => []
  | S f => if (n <? 128)%N then [ch n] else ch (128 + n mod 128) :: varint_fuel f (n / 128)
  end.
Definition varint (n : N) : str := varint_fuel 10 n.
Definition wire_len (num : N) (x : str) : str := varint (num * 8 + 2) ++ varint (N.of_nat (List.length x)) ++ x.
Definition wire_str (num : N) (x : str) : str := match x with [] => [] | _ => wire_len num x end.
Definition wire_int (num : N) (v : Z) : str :=
  if (v =? 0)%Z then [] else varint (num * 8) ++ varint (Z.to_N (if (v <? 0)%Z then v + 2 ^ 64 else v)).
Definition wire_cfield (f : cfield) : str :=
  match f with
  | CStr n _ v => wire_str n v
  | CInt32 n _ v => wire_int n v
  | CInt64 n _ _ v => wire_int n v
  end.
Definition pmsg_wire (p : pmsg) : str :=
  match p with
  | PError m => wire_str 1 (etext_string m)
  | PValidation vs => flat_map (fun fd => wire_len 1 (wire_str 1 (fst fd) ++ wire_str 2 (snd fd))) vs
  | PCustom c => flat_map wire_cfield (cm_fields c)
  end.

(* reading wire bytes into (field number, wire type, payload) records, as protowire / impl.unmarshal do:
   varints of at most 10 bytes (the tenth at most 1), field numbers 1 .. 2^29-1, groups of unknown
   fields are skipped up to their matching end marker *)
Fixpoint read_varint (fuel : nat) (x : str) (shift : N) (acc : N) : option (N * str) :=
  match fuel, x with
  | S f, c :: r =>
      let b := code c in
      let acc' := (acc + (b mod 128) * 2 ^ shift)%N in
      if (b <? 128)%N then (if (shift =? 63)%N && (1 <? b)%N then None else Some (acc', r))
      else read_varint f r (shift + 7) acc'
  | _, _ => None
  end.
Inductive wrec := WVarint (num : N) (v : N) | WLen (num : N) (x : str) | WFixed (num : N).
Inductive wparse := WOk (l : list wrec) | WBad.
Fixpoint read_records (fuel : nat) (x : str) (open : list N) : wparse :=
  match fuel with
  | O => WBad
  | S f =>
    match x with
    | [] => match open with [] => WOk [] | _ => WBad end
    | _ =>
      match read_varint 10 x 0 0 with
      | None => WBad
      | Some (tag, r) =>
          let num := (tag / 8)%N in let wt := (tag mod 8)%N in
          if (num =? 0)%N || (2 ^ 29 - 1 <? num)%N then WBad else
          let cont (rec : wrec) (rest : str) :=
            match read_records f rest open with
            | WOk l => WOk (match open with [] => rec :: l | _ => l end)
            | o => o end in
          if (wt =? 0)%N then
            match read_varint 10 r 0 0 with Some (v, r') => cont (WVarint num v) r' | None => WBad end
          else if (wt =? 1)%N then
            (if Nat.leb 8 (List.length r) then cont (WFixed num) (skipn 8 r) else WBad)
          else if (wt =? 5)%N then
            (if Nat.leb 4 (List.length r) then cont (WFixed num) (skipn 4 r) else WBad)
          else if (wt =? 2)%N then
            match read_varint 10 r 0 0 with
            | Some (n, r') =>
                if (n <=? N.of_nat (List.length r'))%N
                then cont (WLen num (firstn (N.to_nat n) r')) (skipn (N.to_nat n) r')
                else WBad
            | None => WBad
            end
          else if (wt =? 3)%N then read_records f r (num :: open)
          else if (wt =? 4)%N then
            match open with
            | top :: st => if (top =? num)%N then read_records f r st else WBad
            | [] => WBad
            end
          else WBad
      end
    end
  end.
Inductive wres (A : Type) := WR (a : A) | WRFail | WRUnmodelled.
Arguments WR {A} a. Arguments WRFail {A}. Arguments WRUnmodelled {A}.

(* proto.Unmarshal into sebuf Error: field 1 (string, must be valid UTF-8; last one wins), everything
   else is an unknown field *)
Definition decode_error (x : str) : wres str :=
  match read_records (S (List.length x)) x [] with
  | WOk l =>
      fold_left (fun acc r =>
        match acc, r with
        | WR m, WLen 1%N v => if utf8_valid v then WR v else WRFail
        | _, _ => acc
        end) l (WR [])
  | WBad => WRFail
  end.
Definition decode_violation (x : str) : wres (str * str) :=
  match read_records (S (List.length x)) x [] with
  | WOk l =>
      fold_left (fun acc r =>
        match acc, r with
        | WR (f, d), WLen 1%N v => if utf8_valid v then WR (v, d) else WRFail
        | WR (f, d), WLen 2%N v => if utf8_valid v then WR (f, v) else WRFail
        | _, _ => acc
        end) l (WR ([], []))
  | WBad => WRFail
  end.
(* ... into ValidationError: field 1 repeated FieldViolation *)
Definition decode_validation (x : str) : wres (list (str * str)) :=
  match read_records (S (List.length x)) x [] with
  | WOk l =>
      fold_left (fun acc r =>
        match acc, r with
        | WR vs, WLen 1%N v =>
            match decode_violation v with WR fd => WR (vs ++ [fd]) | WRFail => WRFail | WRUnmodelled => WRUnmodelled end
        | _, _ => acc
        end) l (WR [])
  | WBad => WRFail
  end.

(* protojson.Unmarshal (strict: unknown fields are errors) of a model-rendered document *)
Definition json_as_error (j : json) : option str :=
  match j with
  | JObj [] => Some []
  | JObj [(k, JStr m)] => if is_s k "message" then Some m else None
  | _ => None
  end.
Definition json_as_violation (j : json) : option (str * str) :=
  match j with
  | JObj kv =>
      if forallb (fun e => (is_s (fst e) "field" || is_s (fst e) "description") && match snd e with JStr _ => true | _ => false end) kv
      then Some (match assoc_json (s "field") kv with Some (JStr f) => f | _ => [] end,
                 match assoc_json (s "description") kv with Some (JStr d) => d | _ => [] end)
      else None
  | _ => None
  end.
Fixpoint all_some {A} (l : list (option A)) : option (list A) :=
  match l with
  | [] => Some []
  | Some a :: r => match all_some r with Some t => Some (a :: t) | None => None end
  | None :: _ => None
  end.
Definition json_as_validation (j : json) : option (list (str * str)) :=
  match j with
  | JObj [] => Some []
  | JObj [(k, JArr l)] => if is_s k "violations" then all_some (map json_as_violation l) else None
  | _ => None
  end.

(* ---- the Go client ------------------------------------------------------------------------------------------ *)
Inductive cresult :=
  | CRValidation (vs : list (str * str))   (* *sebufhttp.ValidationError *)
  | CRError (m : str)                      (* *sebufhttp.Error: a message, no status *)
  | CROther (status : Z)                   (* fmt.Errorf("request failed with status %d: %s", status, body) *)
  | CRNotError                             (* status < 400: the success path (outside C10) *)
  | CRUnmodelled.

(* a raw hook-written body: only texts that are no JSON document are modelled on the JSON side *)
Definition raw_not_json (x : str) : bool :=
  match drop_while is_js_ws x with
  | c :: _ => negb (chr_in c "{[""-0123456789tfn")
  | [] => false
  end.

Definition parse_validation (de : enc) (r : response) : wres (list (str * str)) :=
  match r_body r with
  | BMsg p =>
      if enc_eqb de (r_enc r) then
        match de with
        | EJson => match json_as_validation (pmsg_pj p) with Some vs => WR vs | None => WRFail end
        | EBin => match p with PValidation vs => WR vs | _ => decode_validation (pmsg_wire p) end
        end
      else (* the client reads binary bytes as JSON text: only the empty body gets through (len(body) == 0) *)
        match pmsg_wire p with [] => WR [] | _ => WRFail end
  | BRaw x =>
      match x with [] => WR [] | _ =>
        match de with EJson => if raw_not_json x then WRFail else WRUnmodelled | EBin => decode_validation x end end
  end.
Definition parse_error (de : enc) (r : response) : wres str :=
  match r_body r with
  | BMsg p =>
      if enc_eqb de (r_enc r) then
        match de with
        | EJson => match json_as_error (pmsg_pj p) with Some m => WR m | None => WRFail end
        | EBin => match p with PError m => WR (etext_string m) | _ => decode_error (pmsg_wire p) end
        end
      else match pmsg_wire p with [] => WR [] | _ => WRFail end
  | BRaw x =>
      match x with [] => WR [] | _ =>
        match de with EJson => if raw_not_json x then WRFail else WRUnmodelled | EBin => decode_error x end end
  end.
(* handleErrorResponse *)
Definition client_go (ct : str) (r : response) : cresult :=
  if (r_status r <? 400)%Z then CRNotError else
  let de := client_enc ct in
  let generic :=
    match parse_error de r with
    | WR m => CRError m
    | WRFail => CROther (r_status r)
    | WRUnmodelled => CRUnmodelled
    end in
  if (r_status r =? 400)%Z then
    match parse_validation de r with
    | WR vs => CRValidation vs
    | WRFail => generic
    | WRUnmodelled => CRUnmodelled
    end
  else generic.

(* one call: the server answers the request (its Content-Type is the effective one), the client decodes
   the answer with the same effective content type *)
Definition go_call_outcome (src : source) (h : option hook) (client_level per_call : option str) : cresult :=
  let ct := effective_ct client_level per_call in
  client_go ct (serve_error src h ct).

(* ---- defect classes -------------------------------------------------------------------------------------------- *)
Inductive c10_defect :=
  | DHookStatusLosesContentType   (* hook calls WriteHeader and leaves the body to the server: Content-Type set afterwards is lost *)
  | DWrappedCustomFlattened       (* fmt.Errorf("%w", custom) -> 500 Error{text} instead of the message *)
  | DWrappedValidationFlattened   (* fmt.Errorf("%w", validationErr) -> 500 Error{text} instead of 400 + violations *)
  | DCustomBypassesCodec          (* message with JSON-mapping annotations is marshalled with protojson directly *)
  | DClientDropsStatus            (* *sebufhttp.Error has no status field *)
  | DClientMisreadsForeignBody    (* a body that is no sebuf Error / ValidationError is read as one (binary: unknown fields) *)
  | DClientEmpty400IsValidation   (* 400 with an empty / {} body becomes ValidationError{} *)
  | DClientEncodingMismatch.      (* binary content types with parameters: binary for the server (filterFlags), JSON for the client *)
Definition c10_defect_str (d : c10_defect) : str :=
  match d with
  | DHookStatusLosesContentType => s "hook-status-then-body-loses-content-type"
  | DWrappedCustomFlattened => s "wrapped-custom-error-flattened"
  | DWrappedValidationFlattened => s "wrapped-validation-error-flattened"
  | DCustomBypassesCodec => s "error-message-bypasses-json-codec"
  | DClientDropsStatus => s "client-error-drops-status"
  | DClientMisreadsForeignBody => s "client-misreads-foreign-body"
  | DClientEmpty400IsValidation => s "client-empty-400-becomes-validation-error"
  | DClientEncodingMismatch => s "client-server-encoding-mismatch"
  end.

Fixpoint wraps_custom (e : herr) : bool :=
  match e with HWrap (HCustom _) => true | HWrap e' => wraps_custom e' | _ => false end.
Fixpoint wraps_validation (e : herr) : bool :=
  match e with HWrap (HValidation _) => true | HWrap e' => wraps_validation e' | _ => false end.
Definition codec_matters (c : cmsg) : bool :=
  existsb (fun f => match f with CInt64 _ _ true v => negb (v =? 0)%Z | _ => false end) (cm_fields c).
Definition body_codec_matters (b : body) : bool :=
  match b with BMsg (PCustom c) => codec_matters c | _ => false end.

Definition server_defects (src : source) (h : option hook) (ct : str) : list c10_defect :=
  (match src with
   | SHandler e => (if wraps_custom e then [DWrappedCustomFlattened] else []) ++
                   (if wraps_validation e then [DWrappedValidationFlattened] else [])
   | _ => [] end) ++
  (match h with
   | Some hk => match hk_status hk, hk_write hk with Some _, None => [DHookStatusLosesContentType] | _, _ => [] end
   | None => [] end) ++
  (let r := serve_error src h ct in
   match r_enc r with EJson => if body_codec_matters (r_body r) then [DCustomBypassesCodec] else [] | EBin => [] end).

Definition body_is_validation (b : body) : bool := match b with BMsg (PValidation _) => true | _ => false end.
Definition body_is_error (b : body) : bool := match b with BMsg (PError _) => true | _ => false end.
Definition body_is_empty (r : response) : bool :=
  match r_body r with
  | BMsg p => match r_enc r with EJson => match pmsg_pj p with JObj [] => true | _ => false end
                               | EBin => negb (nonempty (pmsg_wire p)) end
  | BRaw x => negb (nonempty x)
  end.
Definition client_defects (ct : str) (r : response) : list c10_defect :=
  if (r_status r <? 400)%Z then [] else
  let res := client_go ct r in
  (if enc_eqb (client_enc ct) (r_enc r) then [] else [DClientEncodingMismatch]) ++
  (match res with CRError _ => [DClientDropsStatus] | _ => [] end) ++
  (match res with
   | CRValidation _ => if body_is_validation (r_body r) then [] else
                       if body_is_empty r then [DClientEmpty400IsValidation] else [DClientMisreadsForeignBody]
   | CRError _ => if body_is_error (r_body r) then [] else
                  if body_is_empty r then [] else [DClientMisreadsForeignBody]
   | _ => [] end).

(* ---- prediction ---------------------------------------------------------------------------------------------------- *)
Definition violations_json (vs : list (str * str)) : json := JArr (map (fun fd => JArr [JStr (fst fd); JStr (snd fd)]) vs).
Definition pmsg_json (e : enc) (p : pmsg) : json :=
  match p with
  | PError m => JObj [(s "type", JStr (s "Error")); (s "message", etext_json m)]
  | PValidation vs => JObj [(s "type", JStr (s "ValidationError")); (s "violations", violations_json vs)]
  | PCustom c => JObj [(s "type", JStr (cm_type c)); (s "value", json_of_mval (custom_value c));
                       (s "json", match e with EJson => custom_json false c | EBin => JNull end)]
  end.
Definition body_json (e : enc) (b : body) : json :=
  match b with BMsg p => pmsg_json e p | BRaw x => JObj [(s "raw", JStr x)] end.
Definition ctsent_str (c : ctsent) : str :=
  match c with CtJsonSent => s "json" | CtProtoSent => s "proto" | CtHook => s "hook" | CtOther => s "other" end.
(* texts cross the client as strings: a custom text inside stays a JSON value for the comparison *)
Definition split_text (m : str) (b : body) : json :=
  match b with
  | BMsg (PError t) => if str_eqb m (etext_string t) then etext_json t else etext_json (lit m)
  | _ => etext_json (lit m)
  end.
Definition cresult_json (r : response) (c : cresult) : json :=
  match c with
  | CRValidation vs => JObj [(s "class", JStr (s "validation")); (s "violations", violations_json vs)]
  | CRError m => JObj [(s "class", JStr (s "error")); (s "message", split_text m (r_body r))]
  | CROther st => JObj [(s "class", JStr (s "other")); (s "status", JNum st)]
  | CRNotError => JObj [(s "class", JStr (s "not-an-error-status"))]
  | CRUnmodelled => JObj [(s "class", JStr (s "unmodelled"))]
  end.

Definition dedup_c10 (l : list str) : list str := dedup_strs l.

(* case = (source, hook, content-type specification: raw header, or client-level + per-call values) *)
Definition c10_case := (source * option hook * ctspec)%type.

Fixpoint herr_strings (e : herr) : list str :=
  match e with
  | HPlain m | HSebuf m => [m]
  | HValidation vs => flat_map (fun fd => [fst fd; snd fd]) vs
  | HCustom c => flat_map (fun f => match f with CStr _ _ v => [v] | _ => [] end) (cm_fields c)
  | HWrap e' => herr_strings e'
  end.
Definition source_strings (src : source) : list str :=
  match src with
  | SViolations vs => flat_map (fun fd => [fst fd; snd fd]) vs
  | SRule vs => flat_map (fun pv => snd pv :: match fst pv with Some l => l | None => [] end) vs
  | SHandler e => herr_strings e
  end.
(* protojson / proto.Marshal refuse invalid UTF-8 (plain-text fallback): outside the model *)
Definition c10_unmodelled (src : source) (h : option hook) : option str :=
  if negb (forallb utf8_valid (source_strings src)) then Some (s "string that is not valid UTF-8 (marshal fails, plain-text fallback)") else
  match h with
  | Some hk => match hk_status hk with
               | Some st => if (st <? 400)%Z || (599 <? st)%Z then Some (s "hook status outside 400..599") else None
               | None => None end
  | None => None
  end.

Definition predict_C10 (c : c10_case) : json :=
  let '(src, h, sp) := c in
  let ct := request_ct sp in
  let with_client := through_client sp in
  match c10_unmodelled src h with
  | Some why => JObj [(s "unmodelled", JStr why)]
  | None =>
      let r := serve_error src h ct in
      let cl := client_go ct r in
      match (if with_client then cl else CRNotError) with
      | CRUnmodelled => JObj [(s "unmodelled", JStr (s "client-side parse of a body with group wire types or raw JSON text"))]
      | _ =>
        JObj [(s "tags", jstrs (dedup_c10 (map c10_defect_str (server_defects src h ct ++ (if with_client then client_defects ct r else [])))));
              (s "status", JNum (r_status r));
              (s "ct", JStr (ctsent_str (r_ct r)));
              (s "hook_header", JBool (r_hook_header r));
              (s "handler", JBool (handler_ran src));
              (s "body", body_json (r_enc r) (r_body r));
              (s "client", if with_client then cresult_json r cl else JNull)]
      end
  end.

(* ---- TypeScript: server catch block and client handleError ------------------------------------------------------ *)
(* internal/tsservergen/generator.go:472-487 *)
Inductive ts_thrown :=
  | TValidation (vs : list (str * str))   (* throw new ValidationError(violations) *)
  | TError (m : str)                      (* any other Error (ApiError included): err.message *)
  | TValue (text : str)                   (* a non-Error value: String(err) *)
  | TBadBody.                             (* req.json() rejects a malformed body: a SyntaxError like any other *)
Record ts_response := { ts_status : Z; ts_body : json; ts_hooked : bool }.
Definition ts_violations_json (vs : list (str * str)) : json :=
  JArr (map (fun fd => JObj [(s "field", JStr (fst fd)); (s "description", JStr (snd fd))]) vs).
(* on_error = Some st: options.onError answers with that status and a body of its own *)
Definition ts_server_error (e : ts_thrown) (on_error : option Z) : ts_response :=
  match e with
  | TValidation vs => {| ts_status := 400; ts_body := JObj [(s "violations", ts_violations_json vs)]; ts_hooked := false |}
  | TError m | TValue m =>
      match on_error with
      | Some st => {| ts_status := st; ts_body := JObj [(s "hooked", JStr m)]; ts_hooked := true |}
      | None => {| ts_status := 500; ts_body := JObj [(s "message", JStr m)]; ts_hooked := false |}
      end
  | TBadBody =>
      match on_error with
      | Some st => {| ts_status := st; ts_body := JObj [(s "hooked", JStr (s "<prose>"))]; ts_hooked := true |}
      | None => {| ts_status := 500; ts_body := JObj [(s "message", JStr (s "<prose>"))]; ts_hooked := false |}
      end
  end.
(* a malformed body is a request validation failure (400 on the Go server) but a 500 here *)
Definition ts_server_defects (e : ts_thrown) : list str :=
  match e with TBadBody => [s "ts-malformed-body-500"] | _ => [] end.

(* internal/tsclientgen/generator.go:398-413: 400 whose JSON body has a truthy `violations` member becomes
   ValidationError(parsed.violations); everything else ApiError(status, "Request failed ...", body) *)
Inductive ts_cresult := TSValidation (violations : json) | TSApi (status : Z) (body : option json).
Definition js_truthy (j : json) : bool :=
  match j with
  | JNull => false | JBool b => b | JNum z => negb (z =? 0)%Z | JStr x => nonempty x | JArr _ | JObj _ => true
  end.
(* body = None: not a JSON document *)
Definition ts_client (status : Z) (body : option json) : ts_cresult :=
  if (status =? 400)%Z then
    match body with
    | Some (JObj kv) =>
        match assoc_json (s "violations") kv with
        | Some v => if js_truthy v then TSValidation v else TSApi status body
        | None => TSApi status body
        end
    | _ => TSApi status body
    end
  else TSApi status body.

(* several failing stages at once: (stage, source) candidates; what is answered, and whether the body
   reader was touched (not for a header failure) *)
Definition predict_C10_order (c : list (stage * source) * str) : json :=
  match first_failure (fst c) with
  | None => JObj [(s "unmodelled", JStr (s "no failing stage"))]
  | Some (st, src) =>
      let r := serve_error src None (snd c) in
      JObj [(s "tags", JArr []); (s "status", JNum (r_status r)); (s "body", body_json (r_enc r) (r_body r));
            (s "handler", JBool (handler_ran src));
            (s "body_read", JBool (match st with StHeader => false | _ => true end))]
  end.

Definition predict_C10_ts (c : ts_thrown * option Z) : json :=
  let r := ts_server_error (fst c) (snd c) in
  JObj [(s "tags", jstrs (ts_server_defects (fst c))); (s "status", JNum (ts_status r)); (s "body", ts_body r); (s "hooked", JBool (ts_hooked r))].

(* ---- size classes (C10 family "error-size") ------------------------------------------------------------------ *)
(* Nothing above depends on how long a message or a violation list is; the correspondence check also runs
   bodies of 5 KiB and 200 KiB and lists of 60 and 600 violations.  Their texts are not written out as
   literals: the case term builds them with the generators below (the harness builds the same bytes), and
   prediction and observation are compared after digest_json, which replaces every string longer than
   long_limit bytes and every array longer than long_array_limit elements by its length and position-
   sensitive sums (short values are left alone, see digest_json_short in ErrorsFacts.v). *)
Fixpoint rep_str (n : nat) (u : str) : str := match n with O => [] | S k => u ++ rep_str k u end.
Definition unit64 : str := s "0123456789abcdefghijklmnopqrstuvwxyzABCDEFGHIJKLMNOPQRSTUVWXYZ-_".
Definition sized_text (n : nat) : str := rep_str n unit64.
Definition nat_text (i : nat) : str := show_int (Z.of_nat i).
Definition gen_viols (n : nat) : list (str * str) :=
  map (fun i => (s "items[" ++ nat_text i ++ s "].name",
                 s "value is required and must be between 1 and 64 characters long (element " ++ nat_text i ++ s ")")) (seq 0 n).
Definition gen_rules (n : nat) : list (option (list str) * str) :=
  map (fun i => (Some [s "items"; s "name"],
                 s "value is required and must be between 1 and 64 characters long (element " ++ nat_text i ++ s ")")) (seq 0 n).

Fixpoint byte_sums (x : str) (a b : N) : N * N :=
  match x with
  | [] => (a, b)
  | c :: r => let a' := (a + code c)%N in byte_sums r a' (b + a')%N
  end.
Definition str_hash (x : str) : N :=
  let '(a, b) := byte_sums x 0 0 in (7 + a + 3 * b + 11 * N.of_nat (List.length x))%N.
Fixpoint json_hash (j : json) : N :=
  match j with
  | JNull => 1
  | JBool true => 2
  | JBool false => 3
  | JNum z => 5 + (if (z <? 0)%Z then 2 * Z.to_N (- z) + 1 else 2 * Z.to_N z)
  | JStr x => str_hash x
  | JArr l =>
      13 + (fix go (l : list json) (i acc : N) : N :=
              match l with
              | [] => acc
              | x :: r => go r (i + 1) (acc + i * json_hash x)
              end) l 1 0
  | JObj kv =>
      17 + (fix go (l : list (str * json)) (acc : N) : N :=
              match l with
              | [] => acc
              | (k, v) :: r => go r (acc + (str_hash k + 1) * (json_hash v + 1))
              end) kv 0
  end%N.
Definition long_limit : nat := 256.
Definition long_array_limit : nat := 32.
Definition long_mark (kind : str) (len : nat) (h : N) : json :=
  JObj [(kind, JArr [JNum (Z.of_nat len); JNum (Z.of_N h)])].
Fixpoint digest_json (j : json) : json :=
  match j with
  | JStr x => if Nat.ltb long_limit (List.length x) then long_mark (s "$long-string") (List.length x) (str_hash x) else j
  | JArr l =>
      if Nat.ltb long_array_limit (List.length l) then long_mark (s "$long-array") (List.length l) (json_hash j)
      else JArr ((fix go (l : list json) : list json :=
                    match l with [] => [] | x :: r => digest_json x :: go r end) l)
  | JObj kv =>
      JObj ((fix go (l : list (str * json)) : list (str * json) :=
               match l with [] => [] | (k, v) :: r => (k, digest_json v) :: go r end) kv)
  | _ => j
  end.

Definition predict_C10_sized (c : c10_case) : json := digest_json (predict_C10 c).

(* ---- the emitted TS client on any failed response (C10 family "ts-client-error") ------------------------------- *)
(* internal/tsclientgen/generator.go:388-414: `if (!resp.ok) return this.handleError(resp)`; handleError reads the
   body ONCE as text, and for status 400 parses that text: a truthy `violations` member -> ValidationError(that
   member); everything else (parse failure, no such member, null, any other status) -> ApiError(status,
   "Request failed with status <n>", the body text).  case = (status, the body as a JSON document when it is
   one); the thrown value's class, and what it carries: the violations, or the status and the unchanged text *)
Definition c10_ts_client_case := (Z * option json)%type.
Definition predict_C10_ts_client (c : c10_ts_client_case) : json :=
  if ((fst c <? 300)%Z || (599 <? fst c)%Z) then JObj [(s "unmodelled", JStr (s "status outside 300..599 (resp.ok, or not a Response status)"))] else
  match ts_client (fst c) (snd c) with
  | TSValidation v => JObj [(s "tags", JArr []); (s "class", JStr (s "ValidationError")); (s "violations", v)]
  | TSApi st _ => JObj [(s "tags", JArr []); (s "class", JStr (s "ApiError")); (s "status", JNum st); (s "body_same", JBool true)]
  end.
