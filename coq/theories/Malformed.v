(* Malformed.v — the logic by which the emitted Go server turns a request body into "dispatch" or
   "400", and by which the emitted Go client turns a response into a value or an error (C11).
     server : internal/httpgen/generator.go:387-467 (content-type dispatch, the two body readers)
              + the custom UnmarshalJSON emitters, which all share one structure
              (encoding.go:259-313, bytes_encoding.go:266-304, timestamp_format.go:235-271):
              per annotated field, convert from the declared format; IF THE CONVERSION FAILS THE
              ERROR IS DROPPED and the raw value is handed to protojson unchanged.
     client : internal/clientgen/generator.go:570-602,680-726.
   Text-level conversions (hex, base64, dates, JSON syntax, wire syntax) are inputs of the model:
   the harness evaluates them with its own decoders; the model is about what the emitted control
   flow does with their outcomes. *)
From Sebuf Require Export GoRt.

Inductive read_result := ReadOk | ReadUnexpectedEOF | ReadOtherErr.

Record body_case := {
  bc_fmt : bfmt;              (* how the server reads the body (from Content-Type) *)
  bc_read : read_result;      (* what io.ReadAll returned *)
  bc_empty : bool;            (* zero bytes were read *)
  bc_syntax_ok : bool;        (* JSON: parses as a JSON value the decoder's first stage accepts; binary: n/a *)
  bc_convs : list bool;       (* custom decoder: per annotated field present in the body, did the declared-format conversion succeed *)
  bc_rest_ok : bool           (* protojson / proto.Unmarshal accepts what it is finally given *)
}.

Inductive body_outcome := BDispatch (faithful : bool) | BReject.

(* the emitted server *)
Definition go_bind_body (b : body_case) : body_outcome :=
  match bc_fmt b with
  | BJson =>
      match bc_read b with
      | ReadOk =>
          if bc_empty b then BDispatch true
          else if negb (bc_syntax_ok b) then BReject
          else if bc_rest_ok b then BDispatch (forallb (fun c => c) (bc_convs b))
          else BReject
      | _ => BReject
      end
  | BBin =>
      (* the zero-length test comes BEFORE the error test; io.ErrUnexpectedEOF is tolerated *)
      if bc_empty b then BDispatch (match bc_read b with ReadOk => true | _ => false end)
      else match bc_read b with
           | ReadOtherErr => BReject
           | r => if bc_rest_ok b then BDispatch (match r with ReadOk => true | _ => false end) else BReject
           end
  end.

(* what the property demands: dispatch only a body that was read completely and decoded completely
   under the declared formats *)
Definition strict_bind_body (b : body_case) : body_outcome :=
  match bc_read b with
  | ReadOk =>
      if bc_empty b then BDispatch true
      else match bc_fmt b with
           | BJson => if bc_syntax_ok b && bc_rest_ok b && forallb (fun c => c) (bc_convs b) then BDispatch true else BReject
           | BBin => if bc_rest_ok b then BDispatch true else BReject
           end
  | _ => BReject
  end.

Inductive c11_defect :=
  | C11SwallowedConversion      (* a declared-format conversion failed, the raw value was accepted by protojson *)
  | C11UnexpectedEOFTolerated   (* binary body cut short by io.ErrUnexpectedEOF is decoded and dispatched *)
  | C11ReadErrorEmptyBody.      (* binary reader failed before delivering a byte: dispatched as an empty message *)

Definition c11_defect_str (d : c11_defect) : str :=
  match d with
  | C11SwallowedConversion => s "swallowed-conversion-error"
  | C11UnexpectedEOFTolerated => s "unexpected-eof-tolerated"
  | C11ReadErrorEmptyBody => s "read-error-empty-body-dispatched"
  end.

Definition defects_C11 (b : body_case) : list c11_defect :=
  match go_bind_body b with
  | BDispatch false =>
      match bc_fmt b, bc_read b with
      | BJson, _ => [C11SwallowedConversion]
      | BBin, _ => if bc_empty b then [C11ReadErrorEmptyBody] else [C11UnexpectedEOFTolerated]
      end
  | _ => []
  end.

(* HTTP status class of the server's answer when the handler succeeds *)
Definition status_of (o : body_outcome) : N := match o with BDispatch _ => 200 | BReject => 400 end.

(* ---- the client ------------------------------------------------------------------------------ *)
Record resp_case := {
  rc_status : N;
  rc_empty : bool;            (* zero-length body *)
  rc_as_result : bool;        (* the body decodes as the RPC's response type under the client's format *)
  rc_as_validation : bool;    (* ... as sebuf.http.ValidationError *)
  rc_as_error : bool          (* ... as sebuf.http.Error *)
}.

Inductive client_result := CResp | CErrValidation | CErrSebuf | CErrOther | CErrDecode.

Definition go_client_parse (r : resp_case) : client_result :=
  if (400 <=? rc_status r)%N then
    (* handleErrorResponse: unmarshalResponse treats an empty body as success *)
    if ((rc_status r =? 400)%N && (rc_empty r || rc_as_validation r)) then CErrValidation
    else if rc_empty r || rc_as_error r then CErrSebuf
    else CErrOther
  else if rc_empty r || rc_as_result r then CResp else CErrDecode.

Definition read_of_nat (n : nat) : read_result := match n with 0 => ReadOk | 1 => ReadUnexpectedEOF | _ => ReadOtherErr end.

Definition outcome_json11 (o : body_outcome) : json :=
  match o with
  | BDispatch _ => JStr (s "dispatched")
  | BReject => JStr (s "rejected")
  end.

(* case = (binary?, read result, empty, syntax_ok, convs, rest_ok) *)
Definition c11_case := (bool * nat * bool * bool * list bool * bool)%type.
Definition predict_C11 (c : c11_case) : json :=
  let '(bin, rd, emp, syn, convs, rest) := c in
  let b := {| bc_fmt := if bin then BBin else BJson; bc_read := read_of_nat rd; bc_empty := emp;
              bc_syntax_ok := syn; bc_convs := convs; bc_rest_ok := rest |} in
  JObj [(s "tags", jstrs (map c11_defect_str (defects_C11 b))); (s "outcome", outcome_json11 (go_bind_body b))].

Definition client_result_str (c : client_result) : str :=
  match c with
  | CResp => s "response" | CErrValidation => s "ValidationError" | CErrSebuf => s "Error"
  | CErrOther => s "other" | CErrDecode => s "decode-error"
  end.
Definition c11_client_case := (Z * bool * bool * bool * bool)%type.
Definition predict_C11_client (c : c11_client_case) : json :=
  let '(st, emp, ar, av, ae) := c in
  JObj [(s "tags", JArr []);
        (s "result", JStr (client_result_str (go_client_parse
           {| rc_status := Z.to_N st; rc_empty := emp; rc_as_result := ar; rc_as_validation := av; rc_as_error := ae |})))].

(* ---- the client behind net/http's framing ---------------------------------------------------- *)
(* What the transport makes of the peer's bytes before the emitted client sees anything
   (internal/clientgen/generator.go:583-602): httpClient.Do fails when the status line or a framing
   header (Content-Length, Transfer-Encoding) cannot be read; otherwise io.ReadAll(resp.Body) runs
   BEFORE the status is looked at and fails when the body ends before its announced length (or a chunk
   is malformed).  Only a body that net/http delivered completely reaches go_client_parse; the
   rc_* booleans of the case then describe the DELIVERED bytes (cut to the announced length when the
   peer sent more). *)
Inductive framing := FrComplete | FrTransportError | FrBodyCutShort.

Inductive framed_result :=
  | FRTransport                 (* "failed to execute request" *)
  | FRRead                      (* "failed to read response body" *)
  | FRParsed (c : client_result).

Definition go_client_framed (f : framing) (r : resp_case) : framed_result :=
  match f with
  | FrTransportError => FRTransport
  | FrBodyCutShort => FRRead
  | FrComplete => FRParsed (go_client_parse r)
  end.

Definition framing_of_nat (n : nat) : framing :=
  match n with 0 => FrComplete | 1 => FrTransportError | _ => FrBodyCutShort end.

Definition framed_result_str (c : framed_result) : str :=
  match c with
  | FRTransport => s "transport-error"
  | FRRead => s "read-error"
  | FRParsed c => client_result_str c
  end.

(* case = (framing, the client case on the delivered bytes) *)
Definition c11_framed_case := (nat * c11_client_case)%type.
Definition predict_C11_client_framed (c : c11_framed_case) : json :=
  let '(fr, (st, emp, ar, av, ae)) := c in
  JObj [(s "tags", JArr []);
        (s "result", JStr (framed_result_str (go_client_framed (framing_of_nat fr)
           {| rc_status := Z.to_N st; rc_empty := emp; rc_as_result := ar; rc_as_validation := av; rc_as_error := ae |})))].
