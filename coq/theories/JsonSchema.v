(* JsonSchema.v — validation semantics of JSON Schema 2020-12 for the keyword subset that
   protoc-gen-openapiv3 emits, as a total function with fuel.

   Public interface (reused by C06, C18, C19):
     dec, dec_compare/dec_eqb/dec_leb/dec_ltb, dec_of_Z, dec_of_N, dec_is_int, json_of_dec
     jv                      JSON instances with exact decimal numbers (Json.json has integers only)
     jv_of_json, json_of_jv, jv_eqb (JSON-Schema equality: numbers by value, objects as maps)
     jtype, has_type
     jschema / keyword       a schema = boolean or list of keywords
     vparams                 regex matcher and format checker (uninterpreted), plain-scalar reader
     vres                    VOk b | VOutOfFuel | VBadRef name | VBadSchema keyword
     validates P cs fuel sch v      cs = components ($ref "#/components/schemas/<name>")
     schema_of_jv            reads a schema from its JSON document form
     validates_doc P cs fuel schema_json instance := validates over schema_of_jv

   `format`, `discriminator`, `description`, `example(s)`, `title`, `deprecated` are annotations;
   format becomes an assertion only through vp_format (pass [fun _ _ => true] for annotation-only
   semantics).  A keyword whose value has the wrong JSON type (e.g. exclusiveMinimum: false) is
   KwInvalid and makes validation answer VBadSchema: such a document is not a 2020-12 schema. *)
From Sebuf Require Export Text Json.

(* ---- decimal rationals: dm * 10^de ----------------------------------------------------------- *)
Record dec := mkdec { dm : Z; de : Z }.
Definition dec_of_Z (z : Z) : dec := mkdec z 0.
Definition dec_of_N (n : N) : dec := mkdec (Z.of_N n) 0.
Definition dec_scale (a : dec) (e : Z) : Z := (dm a * 10 ^ (de a - e))%Z.
Definition dec_compare (a b : dec) : comparison :=
  let e := Z.min (de a) (de b) in Z.compare (dec_scale a e) (dec_scale b e).
Definition dec_eqb (a b : dec) : bool := match dec_compare a b with Eq => true | _ => false end.
Definition dec_leb (a b : dec) : bool := match dec_compare a b with Gt => false | _ => true end.
Definition dec_ltb (a b : dec) : bool := match dec_compare a b with Lt => true | _ => false end.
Definition dec_is_int (a : dec) : bool :=
  (0 <=? de a)%Z || (dm a mod 10 ^ (- de a) =? 0)%Z.
Definition dec_to_Z (a : dec) : Z :=
  if (0 <=? de a)%Z then (dm a * 10 ^ de a)%Z else (dm a / 10 ^ (- de a))%Z.

(* canonical form for printing: no trailing zeros in the mantissa *)
Fixpoint strip10 (fuel : nat) (m e : Z) : Z * Z :=
  match fuel with
  | O => (m, e)
  | S f => if (m =? 0)%Z then (0, 0)%Z
           else if (m mod 10 =? 0)%Z then strip10 f (m / 10)%Z (e + 1)%Z else (m, e)
  end.
Definition dec_norm (a : dec) : dec :=
  let '(m, e) := strip10 (S (Z.to_nat (Z.log2 (Z.abs (dm a))))) (dm a) (de a) in mkdec m e.
(* integers print as JNum, other numbers as {"$dec":[mantissa, exponent]} (the harness prints
   observed numbers the same way) *)
Definition json_of_dec (a : dec) : json :=
  let n := dec_norm a in
  if (0 <=? de n)%Z then JNum (dm n * 10 ^ de n)
  else JObj [(s "$dec", JArr [JNum (dm n); JNum (de n)])].

(* ---- instances ------------------------------------------------------------------------------- *)
Inductive jv :=
  | JVNull
  | JVBool (b : bool)
  | JVNum (d : dec)
  | JVStr (x : str)
  | JVArr (l : list jv)
  | JVObj (kv : list (str * jv)).

Fixpoint jv_of_json (j : json) : jv :=
  match j with
  | JNull => JVNull
  | JBool b => JVBool b
  | JNum z => JVNum (dec_of_Z z)
  | JStr x => JVStr x
  | JArr l => JVArr (map jv_of_json l)
  | JObj kv =>
      match kv with
      | [(k, JArr [JNum m; JNum e])] =>
          if str_eqb k (s "$dec") then JVNum (mkdec m e)
          else JVObj [(k, JVArr [JVNum (dec_of_Z m); JVNum (dec_of_Z e)])]
      | _ => JVObj ((fix go (kv : list (str * json)) : list (str * jv) :=
                       match kv with [] => [] | (k, x) :: r => (k, jv_of_json x) :: go r end) kv)
      end
  end.

Fixpoint json_of_jv (v : jv) : json :=
  match v with
  | JVNull => JNull
  | JVBool b => JBool b
  | JVNum d => json_of_dec d
  | JVStr x => JStr x
  | JVArr l => JArr (map json_of_jv l)
  | JVObj kv => JObj ((fix go (kv : list (str * jv)) : list (str * json) :=
                         match kv with [] => [] | (k, x) :: r => (k, json_of_jv x) :: go r end) kv)
  end.

Fixpoint assoc_jv (k : str) (kv : list (str * jv)) : option jv :=
  match kv with
  | [] => None
  | (k', v) :: r => if str_eqb k k' then Some v else assoc_jv k r
  end.

(* JSON Schema instance equality (2020-12 §4.2.2): numbers by mathematical value, arrays
   item-wise, objects as finite maps *)
Fixpoint jv_eqb (a b : jv) {struct a} : bool :=
  match a, b with
  | JVNull, JVNull => true
  | JVBool x, JVBool y => Bool.eqb x y
  | JVNum x, JVNum y => dec_eqb x y
  | JVStr x, JVStr y => str_eqb x y
  | JVArr x, JVArr y =>
      (fix go (x y : list jv) : bool :=
         match x, y with
         | [], [] => true
         | a :: x', b :: y' => jv_eqb a b && go x' y'
         | _, _ => false
         end) x y
  | JVObj x, JVObj y =>
      Nat.eqb (List.length x) (List.length y) &&
      (fix go (x : list (str * jv)) : bool :=
         match x with
         | [] => true
         | (k, v) :: x' =>
             match assoc_jv k y with
             | Some w => jv_eqb v w && go x'
             | None => false
             end
         end) x
  | _, _ => false
  end.

(* ---- types ------------------------------------------------------------------------------------ *)
Inductive jtype := TNull | TBoolean | TInteger | TNumber | TString | TArray | TObject.

Definition has_type (t : jtype) (v : jv) : bool :=
  match t, v with
  | TNull, JVNull => true
  | TBoolean, JVBool _ => true
  | TNumber, JVNum _ => true
  | TInteger, JVNum d => dec_is_int d        (* 1.0 is an integer in 2020-12 *)
  | TString, JVStr _ => true
  | TArray, JVArr _ => true
  | TObject, JVObj _ => true
  | _, _ => false
  end.

Definition jtype_of_name (x : str) : option jtype :=
  if str_eqb x (s "null") then Some TNull else
  if str_eqb x (s "boolean") then Some TBoolean else
  if str_eqb x (s "integer") then Some TInteger else
  if str_eqb x (s "number") then Some TNumber else
  if str_eqb x (s "string") then Some TString else
  if str_eqb x (s "array") then Some TArray else
  if str_eqb x (s "object") then Some TObject else None.

(* ---- schemas ----------------------------------------------------------------------------------- *)
Inductive jschema :=
  | SBool (b : bool)
  | SObj (kws : list keyword)
with keyword :=
  | KwRef (name : str)                       (* $ref: "#/components/schemas/<name>" *)
  | KwRefOther (target : str)                (* any other $ref target: does not resolve *)
  | KwType (ts : list jtype)
  | KwProperties (ps : list (str * jschema))
  | KwRequired (names : list str)
  | KwAdditional (sch : jschema)
  | KwItems (sch : jschema)
  | KwAllOf (l : list jschema)
  | KwOneOf (l : list jschema)
  | KwEnum (vs : list jv)
  | KwConst (v : jv)
  | KwMinimum (d : dec)
  | KwMaximum (d : dec)
  | KwExclMinimum (d : dec)
  | KwExclMaximum (d : dec)
  | KwMinLength (n : N)
  | KwMaxLength (n : N)
  | KwPattern (re : str)
  | KwFormat (name : str)
  | KwMinItems (n : N)
  | KwMaxItems (n : N)
  | KwUniqueItems (b : bool)
  | KwMinProperties (n : N)
  | KwMaxProperties (n : N)
  | KwAnnot (name : str)                      (* annotation keyword: asserts nothing *)
  | KwInvalid (name : str).                   (* known keyword with a value of the wrong type, or unknown keyword *)

Record vparams := {
  vp_regex : str -> str -> bool;     (* vp_regex pattern subject: ECMA-262 search semantics, uninterpreted *)
  vp_format : str -> str -> bool     (* vp_format name subject: format assertion, uninterpreted *)
}.
Definition annotation_only (re : str -> str -> bool) : vparams :=
  {| vp_regex := re; vp_format := fun _ _ => true |}.

Inductive vres := VOk (b : bool) | VOutOfFuel | VBadRef (name : str) | VBadSchema (kw : str).

(* strict conjunction: an error on either side is an error *)
Definition vand (a b : vres) : vres :=
  match a with
  | VOk x => match b with VOk y => VOk (x && y) | e => e end
  | e => e
  end.
Definition vall (l : list vres) : vres := fold_right vand (VOk true) l.
Definition vcount (l : list vres) : vres + nat :=    (* number of VOk true, or the first error *)
  fold_right (fun r acc => match r, acc with
                           | VOk b, inr n => inr (if b then S n else n)
                           | VOk _, inl e => inl e
                           | e, _ => inl e
                           end) (inr 0) l.

(* string length in Unicode code points of a UTF-8 byte string: bytes that are not continuation
   bytes (10xxxxxx) *)
Definition is_cont_byte (c : ascii) : bool := (128 <=? code c)%N && (code c <? 192)%N.
Definition utf8_len (x : str) : N := N.of_nat (List.length (filter (fun c => negb (is_cont_byte c)) x)).

Fixpoint all_distinct (l : list jv) : bool :=
  match l with
  | [] => true
  | a :: r => negb (existsb (jv_eqb a) r) && all_distinct r
  end.

Definition len_N {A} (l : list A) : N := N.of_nat (List.length l).

Definition declared_props (kws : list keyword) : list str :=
  flat_map (fun kw => match kw with KwProperties ps => map fst ps | _ => [] end) kws.

Definition mem_str (x : str) (l : list str) : bool := existsb (str_eqb x) l.

(* one keyword against one instance; [rec] validates a subschema (one unit of fuel less) *)
Definition check_kw (P : vparams) (cs : list (str * jschema)) (rec : jschema -> jv -> vres)
           (props : list str) (kw : keyword) (v : jv) : vres :=
  match kw with
  | KwRef n =>
      match find (fun e => str_eqb (fst e) n) cs with
      | Some e => rec (snd e) v
      | None => VBadRef n
      end
  | KwRefOther t => VBadRef t
  | KwType ts => VOk (existsb (fun t => has_type t v) ts)
  | KwProperties ps =>
      match v with
      | JVObj kv => vall (map (fun p => match assoc_jv (fst p) kv with
                                        | Some x => rec (snd p) x
                                        | None => VOk true end) ps)
      | _ => VOk true
      end
  | KwRequired names =>
      match v with
      | JVObj kv => VOk (forallb (fun n => match assoc_jv n kv with Some _ => true | None => false end) names)
      | _ => VOk true
      end
  | KwAdditional sch =>
      match v with
      | JVObj kv => vall (map (fun e => if mem_str (fst e) props then VOk true else rec sch (snd e)) kv)
      | _ => VOk true
      end
  | KwItems sch =>
      match v with
      | JVArr l => vall (map (rec sch) l)
      | _ => VOk true
      end
  | KwAllOf l => vall (map (fun sch => rec sch v) l)
  | KwOneOf l =>
      match vcount (map (fun sch => rec sch v) l) with
      | inr n => VOk (Nat.eqb n 1)
      | inl e => e
      end
  | KwEnum vs => VOk (existsb (fun e => jv_eqb e v) vs)
  | KwConst c => VOk (jv_eqb c v)
  | KwMinimum d => match v with JVNum x => VOk (dec_leb d x) | _ => VOk true end
  | KwMaximum d => match v with JVNum x => VOk (dec_leb x d) | _ => VOk true end
  | KwExclMinimum d => match v with JVNum x => VOk (dec_ltb d x) | _ => VOk true end
  | KwExclMaximum d => match v with JVNum x => VOk (dec_ltb x d) | _ => VOk true end
  | KwMinLength n => match v with JVStr x => VOk (n <=? utf8_len x)%N | _ => VOk true end
  | KwMaxLength n => match v with JVStr x => VOk (utf8_len x <=? n)%N | _ => VOk true end
  | KwPattern re => match v with JVStr x => VOk (vp_regex P re x) | _ => VOk true end
  | KwFormat name => match v with JVStr x => VOk (vp_format P name x) | _ => VOk true end
  | KwMinItems n => match v with JVArr l => VOk (n <=? len_N l)%N | _ => VOk true end
  | KwMaxItems n => match v with JVArr l => VOk (len_N l <=? n)%N | _ => VOk true end
  | KwUniqueItems b => match v with JVArr l => VOk (negb b || all_distinct l) | _ => VOk true end
  | KwMinProperties n => match v with JVObj kv => VOk (n <=? len_N kv)%N | _ => VOk true end
  | KwMaxProperties n => match v with JVObj kv => VOk (len_N kv <=? n)%N | _ => VOk true end
  | KwAnnot _ => VOk true
  | KwInvalid name => VBadSchema name
  end.

Fixpoint validates (P : vparams) (cs : list (str * jschema)) (fuel : nat) (sch : jschema) (v : jv) : vres :=
  match fuel with
  | O => VOutOfFuel
  | S f =>
      match sch with
      | SBool b => VOk b
      | SObj kws =>
          let props := declared_props kws in
          vall (map (fun kw => check_kw P cs (validates P cs f) props kw v) kws)
      end
  end.

(* ---- reading a schema from its document form --------------------------------------------------- *)
Definition ref_prefix : str := s "#/components/schemas/".

Definition nat_of_jv (v : jv) : option N :=
  match v with
  | JVNum d => if dec_is_int d && (0 <=? dec_to_Z d)%Z then Some (Z.to_N (dec_to_Z d)) else None
  | _ => None
  end.

Definition strs_of_jv (v : jv) : option (list str) :=
  match v with
  | JVArr l => fold_right (fun e acc => match e, acc with JVStr x, Some r => Some (x :: r) | _, _ => None end) (Some []) l
  | _ => None
  end.

Definition types_of_jv (v : jv) : option (list jtype) :=
  match v with
  | JVStr x => match jtype_of_name x with Some t => Some [t] | None => None end
  | JVArr l => fold_right (fun e acc => match e, acc with
                                        | JVStr x, Some r => match jtype_of_name x with Some t => Some (t :: r) | None => None end
                                        | _, _ => None end) (Some []) l
  | _ => None
  end.

Definition annotation_names : list str :=
  [s "description"; s "example"; s "examples"; s "discriminator"; s "title"; s "deprecated"; s "default";
   s "readOnly"; s "writeOnly"; s "$schema"; s "$id"; s "$comment"; s "externalDocs"; s "xml"].

Definition kw_num (name : str) (mk : dec -> keyword) (v : jv) : keyword :=
  match v with JVNum d => mk d | _ => KwInvalid name end.
Definition kw_nat (name : str) (mk : N -> keyword) (v : jv) : keyword :=
  match nat_of_jv v with Some n => mk n | None => KwInvalid name end.

(* [sub] reads a subschema *)
Definition kw_of_entry (sub : jv -> jschema) (k : str) (v : jv) : keyword :=
  if str_eqb k (s "$ref") then
    match v with
    | JVStr t => if has_prefix ref_prefix t then KwRef (skipn (List.length ref_prefix) t) else KwRefOther t
    | _ => KwInvalid k
    end else
  if str_eqb k (s "type") then match types_of_jv v with Some ts => KwType ts | None => KwInvalid k end else
  if str_eqb k (s "properties") then
    match v with JVObj kv => KwProperties (map (fun e => (fst e, sub (snd e))) kv) | _ => KwInvalid k end else
  if str_eqb k (s "required") then match strs_of_jv v with Some l => KwRequired l | None => KwInvalid k end else
  if str_eqb k (s "additionalProperties") then KwAdditional (sub v) else
  if str_eqb k (s "items") then KwItems (sub v) else
  if str_eqb k (s "allOf") then match v with JVArr l => KwAllOf (map sub l) | _ => KwInvalid k end else
  if str_eqb k (s "oneOf") then match v with JVArr l => KwOneOf (map sub l) | _ => KwInvalid k end else
  if str_eqb k (s "enum") then match v with JVArr l => KwEnum l | _ => KwInvalid k end else
  if str_eqb k (s "const") then KwConst v else
  if str_eqb k (s "minimum") then kw_num k KwMinimum v else
  if str_eqb k (s "maximum") then kw_num k KwMaximum v else
  if str_eqb k (s "exclusiveMinimum") then kw_num k KwExclMinimum v else
  if str_eqb k (s "exclusiveMaximum") then kw_num k KwExclMaximum v else
  if str_eqb k (s "minLength") then kw_nat k KwMinLength v else
  if str_eqb k (s "maxLength") then kw_nat k KwMaxLength v else
  if str_eqb k (s "pattern") then match v with JVStr x => KwPattern x | _ => KwInvalid k end else
  if str_eqb k (s "format") then match v with JVStr x => KwFormat x | _ => KwInvalid k end else
  if str_eqb k (s "minItems") then kw_nat k KwMinItems v else
  if str_eqb k (s "maxItems") then kw_nat k KwMaxItems v else
  if str_eqb k (s "uniqueItems") then match v with JVBool b => KwUniqueItems b | _ => KwInvalid k end else
  if str_eqb k (s "minProperties") then kw_nat k KwMinProperties v else
  if str_eqb k (s "maxProperties") then kw_nat k KwMaxProperties v else
  if mem_str k annotation_names then KwAnnot k else KwInvalid k.

(* depth-bounded reader: a document nested deeper than [fuel] reads as an invalid schema *)
Fixpoint schema_of_jv (fuel : nat) (v : jv) : jschema :=
  match fuel with
  | O => SObj [KwInvalid (s "(schema nested too deeply)")]
  | S f =>
      match v with
      | JVBool b => SBool b
      | JVObj kv => SObj (map (fun e => kw_of_entry (schema_of_jv f) (fst e) (snd e)) kv)
      | _ => SObj [KwInvalid (s "(schema is neither object nor boolean)")]
      end
  end.

Definition components_of_jv (fuel : nat) (v : jv) : list (str * jschema) :=
  match v with
  | JVObj kv => map (fun e => (fst e, schema_of_jv fuel (snd e))) kv
  | _ => []
  end.

(* validate an instance against a schema given in document form; cs_doc = the object under
   components.schemas *)
Definition validates_doc (P : vparams) (cs_doc : jv) (fuel : nat) (schema_doc inst : jv) : vres :=
  validates P (components_of_jv fuel cs_doc) fuel (schema_of_jv fuel schema_doc) inst.

Definition json_of_vres (r : vres) : json :=
  match r with
  | VOk b => JBool b
  | VOutOfFuel => JStr (s "out-of-fuel")
  | VBadRef n => JStr (s "bad-ref")
  | VBadSchema k => JStr (s "bad-schema")
  end.
