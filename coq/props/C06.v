(* C06 — placeholder until JsonSchema.v / Mapping.v are integrated. *)
From Sebuf Require Import Text.
Example C06_placeholder : True. Proof. exact I. Qed.
