(* C06 — wire JSON validates against the generated OpenAPI.
   Model: Codec.encode / ProtoJson.pj_marshal (what the Go server and the Go client put on the wire; C04/C05),
   OpenApi.v (the document protoc-gen-openapiv3 emits, read back under a YAML 1.2 reader), JsonSchema.validates
   (JSON Schema 2020-12), Conform.v (wire_jv: canonical wire JSON -> validator instances; und: the
   "property no schema describes" walk; defects_C06; predict_C06).
   Statements only; proofs in proofs/ConformFacts.v.

   What is theorem-backed: scalars of all 15 kinds and enums (all values), their lift through singular /
   optional / repeated / map fields and through object schemas to whole messages of the PLAIN fragment
   (no sebuf annotation reachable from the value: MappingFacts.plain_top / plain_in; messages without oneof
   members: ProtoJsonFacts.wt), no undescribed property at any depth for the same fragment, the default value,
   the built-in error bodies, URL values.  What is not: messages with annotations (int64 NUMBER, nullable,
   empty_behavior, timestamp_format, bytes_encoding, flatten, discriminated oneof, unwrap) outside the defect
   classes — covered by the correspondence run only (C06_message_valid_full below is not proved).
   P is any regex matcher and any format checker that treats the wire-encoding formats as annotations;
   E is any float/time library whose finite floats print as JSON numbers (Ext.law_fprint_num). *)
From Sebuf Require Import Conform.
From SebufProofs Require Import ProtoJsonFacts CodecExamples MappingFacts ConformFacts.

(* (a) leaves: for each of the 15 scalar kinds and every typed value outside the defect classes (NaN / Inf),
   the proto3 JSON rendering validates against the schema convertScalarField publishes for the kind:
   32-bit integers as JSON integers (unsigned: minimum 0), 64-bit integers as decimal strings, finite
   floats as numbers, bool, string, bytes as base64 text. *)
Theorem C06_scalar_valid : forall (E : ExtLib) (sc : schema) (P : vparams) (cst : list (str * jschema))
    (k : kind) (x : sval) (j : json) (fu n : nat),
  fprint_is_number E -> wire_formats_are_annotations P ->
  is_scalar_kind k = true -> wt_scalar sc k x = true -> scalar_issues sc k x = [] ->
  pj_scalar E sc k x = ROk j ->
  validates P cst (S n) (rd fu (elem_node sc k)) (wire_jv j) = VOk true.
Proof. exact scalar_valid_all. Qed.
Print Assumptions C06_scalar_valid.

(* enums without custom values: a defined number is sent as its name, and the name is one of the listed
   names (provided the name reads back as a string from the untagged YAML scalar) *)
Theorem C06_enum_valid : forall (E : ExtLib) (sc : schema) (P : vparams) (cst : list (str * jschema))
    (tn : str) (n0 : Z) (j : json) (fu n : nat),
  wt_scalar sc (KEnum tn) (VEnum n0) = true -> scalar_issues sc (KEnum tn) (VEnum n0) = [] ->
  plain_enum sc (KEnum tn) = true ->
  pj_scalar E sc (KEnum tn) (VEnum n0) = ROk j ->
  validates P cst (S n) (rd fu (elem_node sc (KEnum tn))) (wire_jv j) = VOk true.
Proof. exact enum_valid. Qed.
Print Assumptions C06_enum_valid.

(* elem_node IS what the generator publishes for the elements of any field without annotations *)
Theorem C06_scalar_valid_field : forall (E : ExtLib) (sc : schema) (P : vparams) (cst : list (str * jschema))
    (mn : str) (f : field) (x : sval) (j : json) (fu n : nat),
  fprint_is_number E -> wire_formats_are_annotations P ->
  MappingFacts.plain_field f = true -> is_msgk (f_kind f) = false ->
  wt_scalar sc (f_kind f) x = true -> scalar_issues sc (f_kind f) x = [] -> plain_enum sc (f_kind f) = true ->
  pj_scalar E sc (f_kind f) x = ROk j ->
  validates P cst (S n) (rd fu (convert_scalar sc no_side mn f)) (wire_jv j) = VOk true.
Proof. exact scalar_valid_field. Qed.
Print Assumptions C06_scalar_valid_field.

(* (b) cardinalities: one populated field — singular, optional, repeated (array + items), map (object +
   additionalProperties) — against convertField's schema; nested messages through their $ref *)
Theorem C06_field_valid : forall (E : ExtLib) (sc : schema) (P : vparams) (cs : list (str * ynode))
    (mn : str) (f : field) (x : fval) (j : json) (fu n : nat),
  fprint_is_number E -> wire_formats_are_annotations P ->
  find_message (all_messages sc) ts_name = None ->
  MappingFacts.plain_field f = true -> need x <= n ->
  wt_entry sc f x = true -> plain_in sc (f_kind f) x = true -> walk sc no_side cs (f_kind f) x = [] ->
  pj_fval E sc (f_kind f) x = ROk j ->
  validates P (doc_components reader12 cs) (S n) (rd (S fu) (convert_field sc no_side mn f)) (wire_jv j) = VOk true.
Proof. exact field_valid. Qed.
Print Assumptions C06_field_valid.

(* (b) whole bodies, plain fragment: the JSON the server / client sends (Codec.encode), which is also the
   documented form (Mapping.to_json), validates against the schema the operation refers to, with the
   components of the document; fuel never runs out from need (FM m) on. *)
Theorem C06_message_valid_partial : forall (E : ExtLib) (sc : schema) (P : vparams) (cs : list (str * ynode))
    (tn : str) (m : mval) (j : json),
  fprint_is_number E -> wire_formats_are_annotations P ->
  find_message (all_messages sc) ts_name = None -> str_eqb tn ts_name = false ->
  plain_top sc tn = true -> plain_in sc (KMessage tn) (FM m) = true ->
  wt sc (KMessage tn) (FM m) = true ->
  defects_C06 sc no_side cs tn m = [] ->
  (encode E sc tn m = ROk j \/ Mapping.to_json E sc tn m = ROk j) ->
  forall fuel, need (FM m) <= fuel ->
  validates P (doc_components reader12 cs) fuel (body_schema tn) (wire_jv j) = VOk true.
Proof. exact message_valid. Qed.
Print Assumptions C06_message_valid_partial.

(* full statement (not proved: messages carrying sebuf annotations are covered by the correspondence run) *)
Definition C06_message_valid_full : Prop := forall E sc sd cs tn m j,
  fprint_is_number E -> wt sc (KMessage tn) (FM m) = true ->
  defects_C06 sc sd cs tn m = [] -> encode E sc tn m = ROk j ->
  validates P06 (doc_components reader12 cs) c06_fuel (body_schema tn) (wire_jv j) = VOk true /\
  und P06 (doc_components reader12 cs) und_fuel c06_fuel (body_schema tn) (wire_jv j) = 0.

(* (c) same fragment: no property, at any depth, that the schema in force there does not describe *)
Theorem C06_no_undeclared_property_partial : forall (E : ExtLib) (sc : schema) (P : vparams) (cs : list (str * ynode))
    (tn : str) (m : mval) (j : json),
  fprint_is_number E ->
  find_message (all_messages sc) ts_name = None -> str_eqb tn ts_name = false ->
  plain_top sc tn = true -> plain_in sc (KMessage tn) (FM m) = true ->
  wt sc (KMessage tn) (FM m) = true ->
  defects_C06 sc no_side cs tn m = [] ->
  (encode E sc tn m = ROk j \/ Mapping.to_json E sc tn m = ROk j) ->
  forall uf vf, und P (doc_components reader12 cs) uf vf (body_schema tn) (wire_jv j) = 0.
Proof. exact message_described. Qed.
Print Assumptions C06_no_undeclared_property_partial.

Theorem C06_keys_declared : forall (E : ExtLib) (sc : schema) (tn : str) (md : message) (m : mval) (es : list (str * json)),
  str_eqb tn ts_name = false -> is_wkt_other tn = false ->
  find_message (all_messages sc) tn = Some md ->
  plain_top sc tn = true -> plain_in sc (KMessage tn) (FM m) = true ->
  encode E sc tn m = ROk (JObj es) ->
  forall key, In key (map fst es) -> In key (component_property_names sc md).
Proof. exact message_keys_declared. Qed.
Print Assumptions C06_keys_declared.

(* (d) satisfiability: the default value of every un-annotated message is sent as {} and validates; a
   fully populated value validates by C06_message_valid_partial whenever one exists outside the defect
   classes (C06_nonvacuous exhibits one with nested, repeated and map fields; existence for every schema —
   recursive types, enums with a single value — is not proved) *)
Theorem C06_satisfiable_partial : forall (E : ExtLib) (sc : schema) (P : vparams) (cs : list (str * ynode)) (tn : str) (md : message),
  fprint_is_number E -> wire_formats_are_annotations P ->
  find_message (all_messages sc) ts_name = None -> str_eqb tn ts_name = false -> is_wkt_other tn = false ->
  find_message (all_messages sc) tn = Some md -> msg_ok md = true ->
  plain_top sc tn = true ->
  defects_C06 sc no_side cs tn [] = [] ->
  encode E sc tn [] = ROk (JObj []) /\
  forall fuel, 3 <= fuel -> validates P (doc_components reader12 cs) fuel (body_schema tn) (wire_jv (JObj [])) = VOk true.
Proof. exact default_valid. Qed.
Print Assumptions C06_satisfiable_partial.

(* (e) error bodies against the built-in components (present in every document unless a message takes
   their name) *)
Theorem C06_builtin_components : forall (sets : list (str * ynode)),
  (forall e, In e sets -> mem_str (fst e) builtin_names = false) ->
  builtin_ok (doc_components reader12 (components_of_sets sets)).
Proof. exact builtin_ok_no_collision. Qed.
Print Assumptions C06_builtin_components.

Theorem C06_error_bodies : forall (P : vparams) (cst : list (str * jschema)), builtin_ok cst ->
  (forall msg fuel, 3 <= fuel ->
     validates P cst fuel (SObj [KwRef (s "Error")]) (wire_jv (error_body msg)) = VOk true) /\
  (forall vs fuel, defects_C06_verr vs = [] -> 6 <= fuel ->
     validates P cst fuel (SObj [KwRef (s "ValidationError")]) (wire_jv (validation_body vs)) = VOk true).
Proof. exact error_bodies_valid. Qed.
Print Assumptions C06_error_bodies.
Theorem C06_refuted_validation_without_violations :
  defects_C06_verr [] = [s "validation-error-without-violations"] /\
  validates P06 (doc_components reader12 (components_of_sets [])) c06_fuel (SObj [KwRef (s "ValidationError")]) (wire_jv (validation_body [])) = VOk false.
Proof. exact refuted_validation_without_violations. Qed.
Theorem C06_refuted_violation_empty_member :
  defects_C06_verr [(s "a", [])] = [s "violation-with-empty-member"] /\
  validates P06 (doc_components reader12 (components_of_sets [])) c06_fuel (SObj [KwRef (s "ValidationError")]) (wire_jv (validation_body [(s "a", [])])) = VOk false.
Proof. exact refuted_violation_empty_member. Qed.

(* URL values (path, query) of every kind the client can format *)
Theorem C06_params_valid : forall (P : vparams) (sc : schema) (k : kind) (v : sval),
  wire_formats_are_annotations P ->
  is_scalar_kind k = true -> k <> KBytes -> wt_scalar sc k v = true -> defects_C06_param k v = [] ->
  forall fuel, 1 <= fuel -> validates P [] fuel (typed (param_schema k)) (param_jv k v) = VOk true.
Proof. exact param_valid. Qed.
Print Assumptions C06_params_valid.

(* the hypotheses on E and P are satisfiable: the library instance and the parameters of the correspondence run *)
Theorem C06_hypotheses_inhabited :
  (forall E, ExtLaws E -> fprint_is_number E) /\ fprint_is_number Ex /\ wire_formats_are_annotations P06.
Proof. exact (conj ext_laws_fprint (conj Ex_fprint_is_number P06_formats)). Qed.
Print Assumptions C06_hypotheses_inhabited.

(* (f) refutations: refuted6 d tag tn m valid und = the case lies in exactly the class [tag], and the
   model's wire JSON fails validation (valid = false) or carries und > 0 undescribed properties *)
Theorem C06_refuted_nan : refuted6 c6doc D6NonFinite (c6q "Full") [(s "ratio", FS (VFloat nan64))] false 0.
Proof. exact refuted_nan. Qed.
Print Assumptions C06_refuted_nan.
Theorem C06_refuted_enum_custom_value : refuted6 c6doc (D6Wire D5EnumValue) (c6q "WithEnum") [(s "status", FS (VEnum 1))] false 0.
Proof. exact refuted_enum_custom_value. Qed.
Theorem C06_refuted_enum_unknown_number : refuted6 c6doc D6EnumUnknownNumber (c6q "Full") [(s "color", FS (VEnum 7))] false 0.
Proof. exact refuted_enum_unknown_number. Qed.
Theorem C06_refuted_enum_name_untagged : refuted6 c6doc D6EnumNameUntagged (c6q "Flag") [(s "t", FS (VEnum 1))] false 0.
Proof. exact refuted_enum_name_untagged. Qed.
Theorem C06_refuted_nested_int64_number : refuted6 c6doc (D6Wire (D5Pj AInt64)) (c6q "NumsHolder") [(s "inner", FM [(s "big", vint 5)])] false 0.
Proof. exact refuted_nested_int64_number. Qed.
(* every instance is valid under each oneOf branch: even the default value fails, the component is unsatisfiable *)
Theorem C06_refuted_nested_oneof_ambiguous : refuted6 c6doc D6NestedOneofAmbiguous (c6q "Event") [] false 0.
Proof. exact refuted_nested_oneof_ambiguous. Qed.
Theorem C06_refuted_nested_oneof_ambiguous_set :
  refuted6 c6doc D6NestedOneofAmbiguous (c6q "Event") [(s "eid", vstr "e"); (s "text", FM [(s "body", vstr "b")])] false 0.
Proof. exact refuted_nested_oneof_ambiguous_set. Qed.
Theorem C06_refuted_flat_oneof_unset : refuted6 c6doc D6FlatOneofUnset (c6q "FlatEvent") [(s "eid", vstr "e")] false 1.
Proof. exact refuted_flat_oneof_unset. Qed.
Theorem C06_refuted_root_unwrap_nil : refuted6 c6doc (D6Wire D5RootNull) (c6q "Strs") [] false 0.
Proof. exact refuted_root_unwrap_nil. Qed.
Theorem C06_refuted_short_name_collision :
  refuted6 c6doc_col D6ShortNameCollision (c6q "Outer") [(s "l", FM [(s "a", vstr "x")])] true 1.
Proof. exact refuted_short_name_collision. Qed.
Print Assumptions C06_refuted_short_name_collision.

(* non-vacuity: a fully populated value with nested, repeated and map fields satisfies every hypothesis
   of C06_message_valid_partial / C06_no_undeclared_property_partial, on the components of a service's document *)
Example C06_nonvacuous :
  hyps6 (c6q "Full") full_value /\
  (exists md, find_message (all_messages c6s) (c6q "Full") = Some md /\ all_populated md full_value = true) /\
  cd_tcs c6doc = doc_components reader12 (cd_cs c6doc) /\
  exists j, encode Ex c6s (c6q "Full") full_value = ROk j /\
            (forall fuel, need (FM full_value) <= fuel ->
               validates P06 (cd_tcs c6doc) fuel (body_schema (c6q "Full")) (wire_jv j) = VOk true) /\
            (forall uf vf, und P06 (cd_tcs c6doc) uf vf (body_schema (c6q "Full")) (wire_jv j) = 0) /\
            need (FM full_value) = 7.
Proof. exact nonvacuous. Qed.
Print Assumptions C06_nonvacuous.

(* ================================================================================================================ *)
(* (g) messages owned by ONE field codec (proofs/ConformCodecs.v).  The plain fragment above stops at the first sebuf
   annotation; here the top-level message carries nullable, int64_encoding = NUMBER, bytes_encoding, timestamp_format
   or empty_behavior fields (children un-annotated, as in the C05 conforms theorems, whose hypotheses are taken over
   unchanged).  For every well-typed value outside the defect classes, the JSON the server sends (Codec.encode, equal
   to the documented form Mapping.to_json by conforms_nullable / _int64 / _bytes / _ts / _empty) validates against the
   component schema of the message and carries no property that schema does not describe.
   Added hypotheses: nullable — ConformCodecs.nullable_shape (nullable = true only on singular / optional fields of
   non-message kinds - enums included since the repair of the finding nullable-enum-null-not-in-enum, see
   C06_nullable_enum_null_validates - and the enum of a nullable enum field declares a value, as protoc demands;
   needed: C06_message_valid_nullable_needs_inhabited / _needs_nonmessage / _needs_singular are corners protoc or the
   generator refuse); bytes / timestamp — ConformCodecs.codec_params P (the formats hex, base64url,
   date, unix-timestamp(-ms) are annotations and the hex pattern matches hex text; P06 satisfies it);
   empty_behavior — the reference walk needs the validation fuel of the value when a field is NULL-annotated
   (C06_message_valid_empty_needs_fuel). *)
From SebufProofs Require NullableFacts NullableConforms Int64Conforms BytesConforms TimestampConforms EmptyConforms ConformCodecs.

(* the documented form itself, for any mix of the five annotations on one message (ConformCodecs.c6_msg_ok: every field
   is un-annotated as far as its own rendering goes, or NUMBER on a non-map 64-bit field, or a non-map bytes field, or
   a singular Timestamp with a format; nullable on singular non-message fields only, ConformCodecs.nullable_enums_inhabited:
   the enum of a nullable enum field is not empty; no flatten, no configured oneof, no root unwrap) *)
Theorem C06_message_valid_documented : forall (E : ExtLib) (sc : schema) (P : vparams) (cs : list (str * ynode))
    (tn : str) (md : message) (m : mval) (j : json),
  fprint_is_number E -> wire_formats_are_annotations P ->
  forallb ConformCodecs.plain_or_i64 (m_fields md) = true \/ ConformCodecs.codec_params P ->
  find_message (all_messages sc) ts_name = None -> str_eqb tn ts_name = false -> is_wkt_other tn = false ->
  find_message (all_messages sc) tn = Some md -> ConformCodecs.c6_msg_ok md = true ->
  ConformCodecs.nullable_enums_inhabited sc md = true ->
  wt sc (KMessage tn) (FM m) = true -> ConformCodecs.kids_plain sc md m = true ->
  defects_C06 sc no_side cs tn m = [] ->
  Mapping.to_json E sc tn m = ROk j ->
  (forall fuel, need (FM m) <= fuel ->
     validates P (doc_components reader12 cs) fuel (body_schema tn) (wire_jv j) = VOk true) /\
  (forall uf vf, existsb ConformCodecs.empty_null (m_fields md) = false \/ need (FM m) <= vf ->
     und P (doc_components reader12 cs) uf vf (body_schema tn) (wire_jv j) = 0).
Proof. exact ConformCodecs.spec_message_conforms. Qed.
Print Assumptions C06_message_valid_documented.

(* nullable: an unset field is sent as null and the property is published as type [T, "null"] (for an enum field
   also enum [names..., null]) *)
Theorem C06_message_valid_nullable : forall (E : ExtLib) (sc : schema) (P : vparams) (cs : list (str * ynode))
    (tn : str) (md : message) (m : mval) (j : json),
  fprint_is_number E -> wire_formats_are_annotations P ->
  find_message (all_messages sc) ts_name = None -> str_eqb tn ts_name = false -> is_wkt_other tn = false ->
  find_message (all_messages sc) tn = Some md -> owner_of sc md = Own FtNullable ->
  NullableFacts.nodup_str (map jn (m_fields md)) = true -> NullableConforms.nulplain_msg md = true ->
  ConformCodecs.nullable_shape sc md = true ->
  wt sc (KMessage tn) (FM m) = true -> ConformCodecs.kids_plain sc md m = true ->
  defects_C06 sc no_side cs tn m = [] ->
  (encode E sc tn m = ROk j \/ Mapping.to_json E sc tn m = ROk j) ->
  (forall fuel, need (FM m) <= fuel ->
     validates P (doc_components reader12 cs) fuel (body_schema tn) (wire_jv j) = VOk true) /\
  (forall uf vf, und P (doc_components reader12 cs) uf vf (body_schema tn) (wire_jv j) = 0).
Proof. exact ConformCodecs.message_conforms_nullable. Qed.
Print Assumptions C06_message_valid_nullable.

(* int64_encoding = NUMBER: JSON integers against type integer (minimum 0 when unsigned), singular and repeated *)
Theorem C06_message_valid_int64 : forall (E : ExtLib) (sc : schema) (P : vparams) (cs : list (str * ynode))
    (tn : str) (md : message) (m : mval) (j : json),
  fprint_is_number E -> wire_formats_are_annotations P ->
  find_message (all_messages sc) ts_name = None -> str_eqb tn ts_name = false -> is_wkt_other tn = false ->
  find_message (all_messages sc) tn = Some md -> owner_of sc md = Own FtInt64 ->
  buildable sc FtInt64 md = true ->
  NullableFacts.nodup_str (map jn (m_fields md)) = true -> Int64Conforms.i64plain_msg md = true ->
  wt sc (KMessage tn) (FM m) = true -> ConformCodecs.kids_plain sc md m = true ->
  defects_C06 sc no_side cs tn m = [] ->
  (encode E sc tn m = ROk j \/ Mapping.to_json E sc tn m = ROk j) ->
  (forall fuel, need (FM m) <= fuel ->
     validates P (doc_components reader12 cs) fuel (body_schema tn) (wire_jv j) = VOk true) /\
  (forall uf vf, und P (doc_components reader12 cs) uf vf (body_schema tn) (wire_jv j) = 0).
Proof. exact ConformCodecs.message_conforms_int64. Qed.
Print Assumptions C06_message_valid_int64.

(* bytes_encoding: text against type string + format (hex also against the published pattern) *)
Theorem C06_message_valid_bytes : forall (E : ExtLib) (sc : schema) (P : vparams) (cs : list (str * ynode))
    (tn : str) (md : message) (m : mval) (j : json),
  fprint_is_number E -> wire_formats_are_annotations P -> ConformCodecs.codec_params P ->
  find_message (all_messages sc) ts_name = None -> str_eqb tn ts_name = false -> is_wkt_other tn = false ->
  find_message (all_messages sc) tn = Some md -> owner_of sc md = Own FtBytes ->
  buildable sc FtBytes md = true ->
  NullableFacts.nodup_str (map jn (m_fields md)) = true -> BytesConforms.bytesplain_msg md = true ->
  wt sc (KMessage tn) (FM m) = true -> forallb (BytesConforms.bytes_value_ok sc md) m = true ->
  defects_C06 sc no_side cs tn m = [] ->
  (encode E sc tn m = ROk j \/ Mapping.to_json E sc tn m = ROk j) ->
  (forall fuel, need (FM m) <= fuel ->
     validates P (doc_components reader12 cs) fuel (body_schema tn) (wire_jv j) = VOk true) /\
  (forall uf vf, und P (doc_components reader12 cs) uf vf (body_schema tn) (wire_jv j) = 0).
Proof. exact ConformCodecs.message_conforms_bytes. Qed.
Print Assumptions C06_message_valid_bytes.

(* timestamp_format: Unix seconds / milliseconds against type integer, the date text against type string *)
Theorem C06_message_valid_timestamp : forall (E : ExtLib) (sc : schema) (P : vparams) (cs : list (str * ynode))
    (tn : str) (md : message) (m : mval) (j : json),
  fprint_is_number E -> wire_formats_are_annotations P -> ConformCodecs.codec_params P ->
  find_message (all_messages sc) ts_name = None -> str_eqb tn ts_name = false -> is_wkt_other tn = false ->
  find_message (all_messages sc) tn = Some md -> owner_of sc md = Own FtTs ->
  buildable sc FtTs md = true ->
  NullableFacts.nodup_str (map jn (m_fields md)) = true -> forallb TimestampConforms.tsplain_field (m_fields md) = true ->
  wt sc (KMessage tn) (FM m) = true -> forallb (TimestampConforms.ts_entry_ok sc md) m = true ->
  defects_C06 sc no_side cs tn m = [] ->
  (encode E sc tn m = ROk j \/ Mapping.to_json E sc tn m = ROk j) ->
  (forall fuel, need (FM m) <= fuel ->
     validates P (doc_components reader12 cs) fuel (body_schema tn) (wire_jv j) = VOk true) /\
  (forall uf vf, und P (doc_components reader12 cs) uf vf (body_schema tn) (wire_jv j) = 0).
Proof. exact ConformCodecs.message_conforms_ts. Qed.
Print Assumptions C06_message_valid_timestamp.

(* empty_behavior: NULL publishes oneOf [T, null] — an empty child is sent as null (second branch only), a non-empty
   one as its object (first branch only); OMIT drops the key; PRESERVE changes nothing *)
Theorem C06_message_valid_empty : forall (E : ExtLib) (sc : schema) (P : vparams) (cs : list (str * ynode))
    (tn : str) (md : message) (m : mval) (j : json),
  fprint_is_number E -> wire_formats_are_annotations P ->
  find_message (all_messages sc) ts_name = None -> str_eqb tn ts_name = false -> is_wkt_other tn = false ->
  find_message (all_messages sc) tn = Some md -> owner_of sc md = Own FtEmpty ->
  buildable sc FtEmpty md = true ->
  NullableFacts.nodup_str (map jn (m_fields md)) = true -> EmptyConforms.empplain_msg md = true ->
  wt sc (KMessage tn) (FM m) = true -> ConformCodecs.kids_plain sc md m = true ->
  defects_C06 sc no_side cs tn m = [] ->
  (encode E sc tn m = ROk j \/ Mapping.to_json E sc tn m = ROk j) ->
  (forall fuel, need (FM m) <= fuel ->
     validates P (doc_components reader12 cs) fuel (body_schema tn) (wire_jv j) = VOk true) /\
  (forall uf vf, existsb ConformCodecs.empty_null (m_fields md) = false \/ need (FM m) <= vf ->
     und P (doc_components reader12 cs) uf vf (body_schema tn) (wire_jv j) = 0).
Proof. exact ConformCodecs.message_conforms_empty. Qed.
Print Assumptions C06_message_valid_empty.

(* the added hypothesis on P is satisfiable: the parameters of the correspondence run *)
Theorem C06_codec_params_inhabited : ConformCodecs.codec_params P06.
Proof. exact ConformCodecs.P06_codec_params. Qed.
Print Assumptions C06_codec_params_inhabited.

(* non-vacuity, one per codec, on the document of a service whose RPCs carry the five messages (ConformCodecs.k6s):
   all hypotheses hold, the annotated fields are populated with non-trivial values, the wire JSON is the one shown,
   and the model's own verdict (what predict_C06 evaluates) agrees with the theorem *)
Example C06_message_valid_nullable_nonvacuous :
  ConformCodecs.k6_common (ConformCodecs.k6q "Nul") ConformCodecs.k6_nul ConformCodecs.nul_value /\
  owner_of ConformCodecs.k6s ConformCodecs.k6_nul = Own FtNullable /\ NullableConforms.nulplain_msg ConformCodecs.k6_nul = true /\
  ConformCodecs.nullable_shape ConformCodecs.k6s ConformCodecs.k6_nul = true /\
  ConformCodecs.kids_plain ConformCodecs.k6s ConformCodecs.k6_nul ConformCodecs.nul_value = true /\
  encode Ex ConformCodecs.k6s (ConformCodecs.k6q "Nul") ConformCodecs.nul_value = ROk ConformCodecs.nul_json /\
  (forall fuel, need (FM ConformCodecs.nul_value) <= fuel ->
     validates P06 (cd_tcs ConformCodecs.k6doc) fuel (body_schema (ConformCodecs.k6q "Nul")) (wire_jv ConformCodecs.nul_json) = VOk true) /\
  (forall uf vf, und P06 (cd_tcs ConformCodecs.k6doc) uf vf (body_schema (ConformCodecs.k6q "Nul")) (wire_jv ConformCodecs.nul_json) = 0) /\
  ConformCodecs.k6_verdict (ConformCodecs.k6q "Nul") ConformCodecs.nul_value = ROk (ConformCodecs.nul_json, VOk true, 0%Z).
Proof. exact ConformCodecs.message_conforms_nullable_nonvacuous. Qed.
Print Assumptions C06_message_valid_nullable_nonvacuous.

Example C06_message_valid_int64_nonvacuous :
  ConformCodecs.k6_common (ConformCodecs.k6q "Nums") ConformCodecs.k6_nums ConformCodecs.nums_value /\
  owner_of ConformCodecs.k6s ConformCodecs.k6_nums = Own FtInt64 /\ buildable ConformCodecs.k6s FtInt64 ConformCodecs.k6_nums = true /\
  Int64Conforms.i64plain_msg ConformCodecs.k6_nums = true /\
  ConformCodecs.kids_plain ConformCodecs.k6s ConformCodecs.k6_nums ConformCodecs.nums_value = true /\
  encode Ex ConformCodecs.k6s (ConformCodecs.k6q "Nums") ConformCodecs.nums_value = ROk ConformCodecs.nums_json /\
  (forall fuel, need (FM ConformCodecs.nums_value) <= fuel ->
     validates P06 (cd_tcs ConformCodecs.k6doc) fuel (body_schema (ConformCodecs.k6q "Nums")) (wire_jv ConformCodecs.nums_json) = VOk true) /\
  (forall uf vf, und P06 (cd_tcs ConformCodecs.k6doc) uf vf (body_schema (ConformCodecs.k6q "Nums")) (wire_jv ConformCodecs.nums_json) = 0) /\
  ConformCodecs.k6_verdict (ConformCodecs.k6q "Nums") ConformCodecs.nums_value = ROk (ConformCodecs.nums_json, VOk true, 0%Z).
Proof. exact ConformCodecs.message_conforms_int64_nonvacuous. Qed.
Print Assumptions C06_message_valid_int64_nonvacuous.

Example C06_message_valid_bytes_nonvacuous :
  ConformCodecs.k6_common (ConformCodecs.k6q "Blob") ConformCodecs.k6_blob ConformCodecs.blob_value /\
  owner_of ConformCodecs.k6s ConformCodecs.k6_blob = Own FtBytes /\ buildable ConformCodecs.k6s FtBytes ConformCodecs.k6_blob = true /\
  BytesConforms.bytesplain_msg ConformCodecs.k6_blob = true /\
  forallb (BytesConforms.bytes_value_ok ConformCodecs.k6s ConformCodecs.k6_blob) ConformCodecs.blob_value = true /\
  encode Ex ConformCodecs.k6s (ConformCodecs.k6q "Blob") ConformCodecs.blob_value = ROk ConformCodecs.blob_json /\
  (forall fuel, need (FM ConformCodecs.blob_value) <= fuel ->
     validates P06 (cd_tcs ConformCodecs.k6doc) fuel (body_schema (ConformCodecs.k6q "Blob")) (wire_jv ConformCodecs.blob_json) = VOk true) /\
  (forall uf vf, und P06 (cd_tcs ConformCodecs.k6doc) uf vf (body_schema (ConformCodecs.k6q "Blob")) (wire_jv ConformCodecs.blob_json) = 0) /\
  ConformCodecs.k6_verdict (ConformCodecs.k6q "Blob") ConformCodecs.blob_value = ROk (ConformCodecs.blob_json, VOk true, 0%Z).
Proof. exact ConformCodecs.message_conforms_bytes_nonvacuous. Qed.
Print Assumptions C06_message_valid_bytes_nonvacuous.

Example C06_message_valid_timestamp_nonvacuous :
  ConformCodecs.k6_common (ConformCodecs.k6q "Times") ConformCodecs.k6_times ConformCodecs.times_value /\
  owner_of ConformCodecs.k6s ConformCodecs.k6_times = Own FtTs /\ buildable ConformCodecs.k6s FtTs ConformCodecs.k6_times = true /\
  forallb TimestampConforms.tsplain_field (m_fields ConformCodecs.k6_times) = true /\
  forallb (TimestampConforms.ts_entry_ok ConformCodecs.k6s ConformCodecs.k6_times) ConformCodecs.times_value = true /\
  encode Ex ConformCodecs.k6s (ConformCodecs.k6q "Times") ConformCodecs.times_value = ROk ConformCodecs.times_json /\
  (forall fuel, need (FM ConformCodecs.times_value) <= fuel ->
     validates P06 (cd_tcs ConformCodecs.k6doc) fuel (body_schema (ConformCodecs.k6q "Times")) (wire_jv ConformCodecs.times_json) = VOk true) /\
  (forall uf vf, und P06 (cd_tcs ConformCodecs.k6doc) uf vf (body_schema (ConformCodecs.k6q "Times")) (wire_jv ConformCodecs.times_json) = 0) /\
  ConformCodecs.k6_verdict (ConformCodecs.k6q "Times") ConformCodecs.times_value = ROk (ConformCodecs.times_json, VOk true, 0%Z).
Proof. exact ConformCodecs.message_conforms_ts_nonvacuous. Qed.
Print Assumptions C06_message_valid_timestamp_nonvacuous.

Example C06_message_valid_empty_nonvacuous :
  ConformCodecs.k6_common (ConformCodecs.k6q "Emp") ConformCodecs.k6_emp ConformCodecs.emp_value /\
  owner_of ConformCodecs.k6s ConformCodecs.k6_emp = Own FtEmpty /\ buildable ConformCodecs.k6s FtEmpty ConformCodecs.k6_emp = true /\
  EmptyConforms.empplain_msg ConformCodecs.k6_emp = true /\
  ConformCodecs.kids_plain ConformCodecs.k6s ConformCodecs.k6_emp ConformCodecs.emp_value = true /\
  encode Ex ConformCodecs.k6s (ConformCodecs.k6q "Emp") ConformCodecs.emp_value = ROk ConformCodecs.emp_json /\
  (forall fuel, need (FM ConformCodecs.emp_value) <= fuel ->
     validates P06 (cd_tcs ConformCodecs.k6doc) fuel (body_schema (ConformCodecs.k6q "Emp")) (wire_jv ConformCodecs.emp_json) = VOk true) /\
  (forall uf vf, need (FM ConformCodecs.emp_value) <= vf ->
     und P06 (cd_tcs ConformCodecs.k6doc) uf vf (body_schema (ConformCodecs.k6q "Emp")) (wire_jv ConformCodecs.emp_json) = 0) /\
  need (FM ConformCodecs.emp_value) = 7 /\
  ConformCodecs.k6_verdict (ConformCodecs.k6q "Emp") ConformCodecs.emp_value = ROk (ConformCodecs.emp_json, VOk true, 0%Z).
Proof. exact ConformCodecs.message_conforms_empty_nonvacuous. Qed.
Print Assumptions C06_message_valid_empty_nonvacuous.

(* REPAIRED FINDING nullable-enum-null-not-in-enum.  `optional Color color = 1 [(sebuf.http.nullable) = true]` is accepted
   by the generator (ValidateNullableAnnotation refuses only non-optional and message fields) and the server sends
   "color": null for the unset field (httpgen/nullable.go:147-156).  Before the repair makeNullableSchema
   (openapiv3/types.go) appended "null" to `type` and left `enum` alone, so the emitted schema REJECTED the server's JSON
   (found by the proof of C06_message_valid_nullable, whose side condition then excluded enum kinds; confirmed on the
   emitted document by the reference validator).  The repaired builder appends a !!null member to a non-empty `enum`:
   the property is {type: [string, null], enum: [COLOR_UNSPECIFIED, COLOR_RED, null]} under both readers, the null and each
   name validate (another string still does not), no defect is tagged, and the message is an instance of
   C06_message_valid_nullable with the field unset and with it set.  The same happens to the enum list of an enum with
   enum_value custom strings and of an enum_encoding = NUMBER field. *)
Example C06_nullable_enum_null_validates :
  let sch := typed (convert_field ConformCodecs.k6s no_side (ConformCodecs.k6q "NulEnum") ConformCodecs.k6_color_field) in
  convert_field ConformCodecs.k6s no_side (ConformCodecs.k6q "NulEnum") ConformCodecs.k6_color_field
    = YMap [(s "type", YSeq [YGoStr (s "string"); YGoStr (s "null")]);
            (s "enum", YSeq [YPlain (s "COLOR_UNSPECIFIED"); YPlain (s "COLOR_RED"); YNull])] /\
  sch = SObj [KwType [TString; TNull]; KwEnum [JVStr (s "COLOR_UNSPECIFIED"); JVStr (s "COLOR_RED"); JVNull]] /\
  schema_of_jv schema_fuel (denote reader11 (convert_field ConformCodecs.k6s no_side (ConformCodecs.k6q "NulEnum") ConformCodecs.k6_color_field)) = sch /\
  validates P06 (cd_tcs ConformCodecs.k6doc) c06_fuel sch JVNull = VOk true /\
  validates P06 (cd_tcs ConformCodecs.k6doc) c06_fuel sch (JVStr (s "COLOR_UNSPECIFIED")) = VOk true /\
  validates P06 (cd_tcs ConformCodecs.k6doc) c06_fuel sch (JVStr (s "COLOR_RED")) = VOk true /\
  validates P06 (cd_tcs ConformCodecs.k6doc) c06_fuel sch (JVStr (s "COLOR_BLUE")) = VOk false /\
  defects_C06 ConformCodecs.k6s no_side (cd_cs ConformCodecs.k6doc) (ConformCodecs.k6q "NulEnum") ConformCodecs.nulenum_unset = [] /\
  validates P06 (cd_tcs ConformCodecs.k6doc) c06_fuel (body_schema (ConformCodecs.k6q "NulEnum")) (wire_jv ConformCodecs.nulenum_unset_json) = VOk true /\
  typed (convert_field ConformCodecs.k6s no_side (ConformCodecs.k6q "NulEnum2") ConformCodecs.k6_shade_field)
    = SObj [KwType [TString; TNull]; KwEnum [JVStr (s "none"); JVStr (s "dark"); JVNull]] /\
  typed (convert_field ConformCodecs.k6s no_side (ConformCodecs.k6q "NulEnum2") ConformCodecs.k6_colornum_field)
    = SObj [KwType [TInteger; TNull]; KwEnum [JVNum (dec_of_Z 0); JVNum (dec_of_Z 1); JVNull]] /\
  ConformCodecs.k6_verdict (ConformCodecs.k6q "NulEnum2") [(s "id", vstr "x")]
    = ROk (JObj [(s "id", JStr (s "x")); (s "shade", JNull); (s "colorNum", JNull)], VOk true, 0%Z).
Proof. exact ConformCodecs.nullable_enum_null_validates. Qed.
Print Assumptions C06_nullable_enum_null_validates.

(* ... and the nullable enum message under the theorem: all hypotheses hold, unset (null on the wire) and set *)
Example C06_message_valid_nullable_enum_nonvacuous :
  owner_of ConformCodecs.k6s ConformCodecs.k6_nulenum = Own FtNullable /\ NullableConforms.nulplain_msg ConformCodecs.k6_nulenum = true /\
  ConformCodecs.nullable_shape ConformCodecs.k6s ConformCodecs.k6_nulenum = true /\
  (ConformCodecs.k6_common (ConformCodecs.k6q "NulEnum") ConformCodecs.k6_nulenum ConformCodecs.nulenum_unset /\
   ConformCodecs.kids_plain ConformCodecs.k6s ConformCodecs.k6_nulenum ConformCodecs.nulenum_unset = true /\
   encode Ex ConformCodecs.k6s (ConformCodecs.k6q "NulEnum") ConformCodecs.nulenum_unset = ROk ConformCodecs.nulenum_unset_json /\
   (forall fuel, need (FM ConformCodecs.nulenum_unset) <= fuel ->
      validates P06 (cd_tcs ConformCodecs.k6doc) fuel (body_schema (ConformCodecs.k6q "NulEnum")) (wire_jv ConformCodecs.nulenum_unset_json) = VOk true) /\
   (forall uf vf, und P06 (cd_tcs ConformCodecs.k6doc) uf vf (body_schema (ConformCodecs.k6q "NulEnum")) (wire_jv ConformCodecs.nulenum_unset_json) = 0) /\
   ConformCodecs.k6_verdict (ConformCodecs.k6q "NulEnum") ConformCodecs.nulenum_unset = ROk (ConformCodecs.nulenum_unset_json, VOk true, 0%Z)) /\
  (ConformCodecs.k6_common (ConformCodecs.k6q "NulEnum") ConformCodecs.k6_nulenum ConformCodecs.nulenum_set /\
   ConformCodecs.kids_plain ConformCodecs.k6s ConformCodecs.k6_nulenum ConformCodecs.nulenum_set = true /\
   encode Ex ConformCodecs.k6s (ConformCodecs.k6q "NulEnum") ConformCodecs.nulenum_set = ROk ConformCodecs.nulenum_set_json /\
   (forall fuel, need (FM ConformCodecs.nulenum_set) <= fuel ->
      validates P06 (cd_tcs ConformCodecs.k6doc) fuel (body_schema (ConformCodecs.k6q "NulEnum")) (wire_jv ConformCodecs.nulenum_set_json) = VOk true) /\
   (forall uf vf, und P06 (cd_tcs ConformCodecs.k6doc) uf vf (body_schema (ConformCodecs.k6q "NulEnum")) (wire_jv ConformCodecs.nulenum_set_json) = 0) /\
   ConformCodecs.k6_verdict (ConformCodecs.k6q "NulEnum") ConformCodecs.nulenum_set = ROk (ConformCodecs.nulenum_set_json, VOk true, 0%Z)).
Proof. exact ConformCodecs.message_conforms_nullable_enum_nonvacuous. Qed.
Print Assumptions C06_message_valid_nullable_enum_nonvacuous.

(* the side condition that remains on enum kinds: an enum WITHOUT values (refused by protoc and by protodesc, so no
   emitted document has one) is published as `enum: []`, which makeNullableSchema leaves empty, and null is rejected *)
Example C06_message_valid_nullable_needs_inhabited :
  let m := [(s "id", vstr "x")] in
  let j := JObj [(s "id", JStr (s "x")); (s "void", JNull)] in
  ConformCodecs.k6_common (ConformCodecs.k6q "NulVoid") ConformCodecs.k6_nulvoid m /\
  owner_of ConformCodecs.k6s ConformCodecs.k6_nulvoid = Own FtNullable /\ NullableConforms.nulplain_msg ConformCodecs.k6_nulvoid = true /\
  ConformCodecs.kids_plain ConformCodecs.k6s ConformCodecs.k6_nulvoid m = true /\
  ConformCodecs.nullable_shape ConformCodecs.k6s ConformCodecs.k6_nulvoid = false /\
  ConformCodecs.nullable_enums_inhabited ConformCodecs.k6s ConformCodecs.k6_nulvoid = false /\
  forallb (fun f => negb (is_nullable f) || (ConformCodecs.singularish f && ConformCodecs.nullable_kind (f_kind f))) (m_fields ConformCodecs.k6_nulvoid) = true /\
  encode Ex ConformCodecs.k6s (ConformCodecs.k6q "NulVoid") m = ROk j /\
  typed (convert_field ConformCodecs.k6s no_side (ConformCodecs.k6q "NulVoid") (set_nullable (fld "void" 1 (KEnum (ConformCodecs.k6q "Void")) Optional)))
    = SObj [KwType [TString; TNull]; KwEnum []] /\
  validates P06 (cd_tcs ConformCodecs.k6doc) c06_fuel (body_schema (ConformCodecs.k6q "NulVoid")) (wire_jv j) = VOk false.
Proof. exact ConformCodecs.message_conforms_nullable_needs_inhabited. Qed.
Print Assumptions C06_message_valid_nullable_needs_inhabited.

(* nullable on a message field / on a repeated field (both refused by the generator): null is rejected *)
Example C06_message_valid_nullable_needs_nonmessage :
  let m := [(s "id", vstr "x")] in
  let j := JObj [(s "id", JStr (s "x")); (s "leaf", JNull)] in
  ConformCodecs.k6_common (ConformCodecs.k6q "NulMsg") ConformCodecs.k6_nulmsg m /\
  owner_of ConformCodecs.k6s ConformCodecs.k6_nulmsg = Own FtNullable /\ NullableConforms.nulplain_msg ConformCodecs.k6_nulmsg = true /\
  ConformCodecs.kids_plain ConformCodecs.k6s ConformCodecs.k6_nulmsg m = true /\
  ConformCodecs.nullable_shape ConformCodecs.k6s ConformCodecs.k6_nulmsg = false /\
  encode Ex ConformCodecs.k6s (ConformCodecs.k6q "NulMsg") m = ROk j /\
  validates P06 (cd_tcs ConformCodecs.k6doc) c06_fuel (body_schema (ConformCodecs.k6q "NulMsg")) (wire_jv j) = VOk false.
Proof. exact ConformCodecs.message_conforms_nullable_needs_nonmessage. Qed.
Example C06_message_valid_nullable_needs_singular :
  let m := [(s "id", vstr "x")] in
  let j := JObj [(s "id", JStr (s "x")); (s "tags", JNull)] in
  ConformCodecs.k6_common (ConformCodecs.k6q "NulRep") ConformCodecs.k6_nulrep m /\
  owner_of ConformCodecs.k6s ConformCodecs.k6_nulrep = Own FtNullable /\ NullableConforms.nulplain_msg ConformCodecs.k6_nulrep = true /\
  ConformCodecs.kids_plain ConformCodecs.k6s ConformCodecs.k6_nulrep m = true /\
  ConformCodecs.nullable_shape ConformCodecs.k6s ConformCodecs.k6_nulrep = false /\
  encode Ex ConformCodecs.k6s (ConformCodecs.k6q "NulRep") m = ROk j /\
  validates P06 (cd_tcs ConformCodecs.k6doc) c06_fuel (body_schema (ConformCodecs.k6q "NulRep")) (wire_jv j) = VOk false.
Proof. exact ConformCodecs.message_conforms_nullable_needs_singular. Qed.
Print Assumptions C06_message_valid_nullable_needs_singular.

(* empty_behavior = NULL: with validation fuel 2 the walk does not enter oneOf [T, null] and reports the key of the
   non-empty child; from fuel 3 on (need = 7 is the bound the theorem gives) nothing is undescribed *)
Example C06_message_valid_empty_needs_fuel :
  und P06 (cd_tcs ConformCodecs.k6doc) und_fuel 2 (body_schema (ConformCodecs.k6q "Emp")) (wire_jv ConformCodecs.emp_json) = 1 /\
  und P06 (cd_tcs ConformCodecs.k6doc) und_fuel 3 (body_schema (ConformCodecs.k6q "Emp")) (wire_jv ConformCodecs.emp_json) = 0 /\
  existsb ConformCodecs.empty_null (m_fields ConformCodecs.k6_emp) = true.
Proof. exact ConformCodecs.message_conforms_empty_needs_fuel. Qed.
Print Assumptions C06_message_valid_empty_needs_fuel.
