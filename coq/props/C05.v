(* C05 — the server's JSON follows the documented mapping wherever an annotated type occurs.
   Codec.v = Impl (what the emitted server does), Mapping.v = Spec (the documented mapping).
   Statements only; proofs in proofs/MappingFacts.v. *)
From Sebuf Require Import CodecCases.
From SebufProofs Require Import ProtoJsonFacts CodecExamples MappingFacts NullableFacts NullableConforms.

(* nothing else changes: where no annotation is reachable from the value (and the top-level message
   has no unwrap-wrapper map), the server's JSON and the documented mapping are both plain protojson *)
Theorem C05_unannotated_is_proto3 : forall E sc tn m,
  plain_top sc tn = true -> plain_in sc (KMessage tn) (FM m) = true ->
  encode E sc tn m = pj_marshal E sc tn m /\ to_json E sc tn m = pj_marshal E sc tn m.
Proof. exact MappingFacts.C05_unannotated_is_proto3. Qed.
Print Assumptions C05_unannotated_is_proto3.

(* the mapping of a message value is one term whatever the context it occurs in *)
Theorem C05_context_free : forall E sc c1 c2 tn m,
  str_eqb tn ts_name = false ->
  mp_fval E sc c1 (KMessage tn) (FM m) = mp_fval E sc c2 (KMessage tn) (FM m).
Proof. exact MappingFacts.C05_context_free. Qed.
Print Assumptions C05_context_free.

(* C05_conforms for one codec in general: a top-level message whose only annotations are nullable
   fields, with un-annotated children, is sent exactly as the documented mapping says *)
Theorem C05_conforms_nullable_partial : forall E sc tn md m,
  str_eqb tn ts_name = false -> is_wkt_other tn = false ->
  find_message (all_messages sc) tn = Some md -> owner_of sc md = Own FtNullable ->
  nodup_str (map jn (m_fields md)) = true ->
  nulplain_msg md = true ->
  forallb (fun e => match find_field (m_fields md) (fst e) with
                    | Some f => plain_in sc (f_kind f) (snd e)
                    | None => false end) m = true ->
  encode E sc tn m = to_json E sc tn m.
Proof. exact conforms_nullable. Qed.
Print Assumptions C05_conforms_nullable_partial.

(* full statement (not yet proved in general; the correspondence check and the witnesses cover it) *)
Definition C05_conforms_full : Prop := forall E sc tn m,
  defects_C05 sc tn m = [] -> encode E sc tn m = to_json E sc tn m.

(* refutations per (annotation x context) class *)
Theorem C05_refuted_nested_int64 : refuted5 (D5Pj AInt64) (q "NumsHolder") [(s "inner", FM [(s "big", vint 5)])].
Proof. exact MappingFacts.C05_refuted_nested_int64. Qed.
Print Assumptions C05_refuted_nested_int64.
Theorem C05_refuted_nested_nullable : refuted5 (D5Pj ANullable) (q "NulHolder") [(s "n", FM [(s "id", vstr "x")])].
Proof. exact MappingFacts.C05_refuted_nested_nullable. Qed.
Print Assumptions C05_refuted_nested_nullable.
Theorem C05_refuted_nested_empty : refuted5 (D5Pj AEmpty) (q "EmpHolder") [(s "e", FM [(s "nul_it", FM [])])].
Proof. exact MappingFacts.C05_refuted_nested_empty. Qed.
Print Assumptions C05_refuted_nested_empty.
Theorem C05_refuted_nested_ts : refuted5 (D5Pj ATs) (q "TimesHolder") [(s "t", FM [(s "secs", tsv 5 0)])].
Proof. exact MappingFacts.C05_refuted_nested_ts. Qed.
Print Assumptions C05_refuted_nested_ts.
Theorem C05_refuted_nested_bytes : refuted5 (D5Pj ABytes) (q "BlobHolder") [(s "b", FM [(s "h", FS (VBytes [ch 105; ch 183]))])].
Proof. exact MappingFacts.C05_refuted_nested_bytes. Qed.
Print Assumptions C05_refuted_nested_bytes.
Theorem C05_refuted_nested_flatten : refuted5 (D5Pj AFlatten) (q "PostHolder") [(s "p", FM [(s "detail", FM [(s "n", vint 1)])])].
Proof. exact MappingFacts.C05_refuted_nested_flatten. Qed.
Print Assumptions C05_refuted_nested_flatten.
Theorem C05_refuted_nested_oneof : refuted5 (D5Pj AOneof) (q "EventHolder") [(s "ev", FM [(s "image", FM [(s "url", vstr "u")])])].
Proof. exact MappingFacts.C05_refuted_nested_oneof. Qed.
Print Assumptions C05_refuted_nested_oneof.
Theorem C05_refuted_nested_unwrap : refuted5 (D5Pj AUnwrap) (q "BarHolder") [(s "bl", FM [(s "bars", FL [FM []])])].
Proof. exact MappingFacts.C05_refuted_nested_unwrap. Qed.
Print Assumptions C05_refuted_nested_unwrap.
Theorem C05_refuted_map_int64 : refuted5 (D5MapSkipped AInt64) (q "NumMap") [(s "by_k", FMap [(VStr (s "k"), vint 5)])].
Proof. exact MappingFacts.C05_refuted_map_int64. Qed.
Print Assumptions C05_refuted_map_int64.
Theorem C05_refuted_enum_value : refuted5 D5EnumValue (q "WithEnum") [(s "status", FS (VEnum 1))].
Proof. exact MappingFacts.C05_refuted_enum_value. Qed.
Print Assumptions C05_refuted_enum_value.
Theorem C05_refuted_enum_number : refuted5 D5EnumNumber (q "WithEnum") [(s "level", FS (VEnum 1))].
Proof. exact MappingFacts.C05_refuted_enum_number. Qed.
Print Assumptions C05_refuted_enum_number.
Theorem C05_refuted_reflected_child : refuted5 D5FlattenChild (q "Post") [(s "detail", FM [(s "body_text", vstr "b")])].
Proof. exact MappingFacts.C05_refuted_reflected_child. Qed.
Print Assumptions C05_refuted_reflected_child.
Theorem C05_refuted_flat_oneof_child :
  defects_C05 xs (q "FlatEvent") [(s "wide", FM [(s "alt_text", vstr "a")])] = [D5FlatOneofChild; D5FlattenChild] /\
  exists j, to_json Ex xs (q "FlatEvent") [(s "wide", FM [(s "alt_text", vstr "a")])] = ROk j /\
            encode Ex xs (q "FlatEvent") [(s "wide", FM [(s "alt_text", vstr "a")])] <> ROk j.
Proof. exact MappingFacts.C05_refuted_flat_oneof_child. Qed.
Print Assumptions C05_refuted_flat_oneof_child.
Theorem C05_refuted_unwrap_sibling : refuted5 D5UnwrapSibling (q "Series") [(s "total_count", vint 4)].
Proof. exact MappingFacts.C05_refuted_unwrap_sibling. Qed.
Print Assumptions C05_refuted_unwrap_sibling.
Theorem C05_refuted_root_null : refuted5 D5RootNull (q "Strs") [].
Proof. exact MappingFacts.C05_refuted_root_null. Qed.
Print Assumptions C05_refuted_root_null.
Theorem C05_refuted_bytes_error_swallowed :
  hex_swallowed xs (q "Blob") (JObj [(s "h", JStr (s "abc"))]) = true /\
  hex_dec (s "abc") = None /\
  decode Ex xs (q "Blob") (JObj [(s "h", JStr (s "abc"))]) = ROk [(s "h", FS (VBytes [ch 105; ch 183]))].
Proof. exact MappingFacts.C05_refuted_bytes_error_swallowed. Qed.
Print Assumptions C05_refuted_bytes_error_swallowed.

Example C05_nonvacuous :
  (let m := [(s "id", vstr "i"); (s "big_num", vint (-5)); (s "tags", FL [vstr "a"]);
             (s "by_key", FMap [(VStr (s "k"), FM [(s "a", vstr "x")])]); (s "leaf", FM []); (s "at", tsv 5 0)] in
   plain_top xs (q "Plain") = true /\ plain_in xs (KMessage (q "Plain")) (FM m) = true /\ defects_C05 xs (q "Plain") m = []) /\
  (let m := [(s "secs", tsv 5 123); (s "day", tsv 90000 0); (s "id", vstr "x")] in
   owns xs (q "Times") = true /\ defects_C05 xs (q "Times") m = [] /\ encode Ex xs (q "Times") m = to_json Ex xs (q "Times") m).
Proof. split; [exact C05_nonvacuous_plain | exact C05_nonvacuous_conforms]. Qed.
Print Assumptions C05_nonvacuous.

Example C05_nullable_nonvacuous :
  exists md,
    find_message (all_messages xs) (q "Nul") = Some md /\ owner_of xs md = Own FtNullable /\
    nodup_str (map jn (m_fields md)) = true /\ nulplain_msg md = true /\
    wt xs (KMessage (q "Nul")) (FM [(s "id", vstr "x")]) = true /\
    encode Ex xs (q "Nul") [(s "id", vstr "x")] = ROk (JObj [(s "id", JStr (s "x")); (s "nick", JNull)]).
Proof. exact nullable_nonvacuous. Qed.

(* ---- appended by P1_int64 ---- *)

(* C05_conforms for the int64 NUMBER codec in general: a top-level message whose only annotations are
   int64_encoding options (NUMBER not on a map), with un-annotated children, is sent exactly as the
   documented mapping says, for all well-typed values *)
From SebufProofs Require Import Int64Facts Int64Conforms.
Theorem C05_conforms_int64_partial : forall E sc tn md m,
  str_eqb tn ts_name = false -> is_wkt_other tn = false ->
  find_message (all_messages sc) tn = Some md -> owner_of sc md = Own FtInt64 ->
  buildable sc FtInt64 md = true ->
  nodup_str (map jn (m_fields md)) = true ->
  i64plain_msg md = true ->
  wt sc (KMessage tn) (FM m) = true ->
  forallb (fun e => match find_field (m_fields md) (fst e) with
                    | Some f => plain_in sc (f_kind f) (snd e)
                    | None => false end) m = true ->
  encode E sc tn m = to_json E sc tn m.
Proof. exact conforms_int64. Qed.
Print Assumptions C05_conforms_int64_partial.

Example C05_int64_nonvacuous :
  exists md,
    find_message (all_messages i64s) (q "Wide") = Some md /\ owner_of i64s md = Own FtInt64 /\
    buildable i64s FtInt64 md = true /\ nodup_str (map jn (m_fields md)) = true /\ i64plain_msg md = true /\
    wt i64s (KMessage (q "Wide")) (FM wide_val) = true /\
    forallb (fun e => match find_field (m_fields md) (fst e) with
                      | Some f => plain_in i64s (f_kind f) (snd e)
                      | None => false end) wide_val = true /\
    encode Ex i64s (q "Wide") wide_val = ROk wide_json /\ to_json Ex i64s (q "Wide") wide_val = ROk wide_json.
Proof. exact conforms_int64_nonvacuous. Qed.

(* each added hypothesis is needed *)
Example C05_int64_needs_wt :
  let m := [(s "big", vint 0)] in
  exists md,
    find_message (all_messages xs) (q "Nums") = Some md /\ owner_of xs md = Own FtInt64 /\
    buildable xs FtInt64 md = true /\ nodup_str (map jn (m_fields md)) = true /\ i64plain_msg md = true /\
    forallb (fun e => match find_field (m_fields md) (fst e) with
                      | Some f => plain_in xs (f_kind f) (snd e)
                      | None => false end) m = true /\
    wt xs (KMessage (q "Nums")) (FM m) = false /\
    encode Ex xs (q "Nums") m = ROk (JObj []) /\ to_json Ex xs (q "Nums") m = ROk (JObj [(s "big", JNum 0)]).
Proof. exact conforms_int64_needs_wt. Qed.
Example C05_int64_needs_nonmap :
  let m := [(s "by_k", FMap [(VStr (s "k"), vint 5)])] in
  exists md,
    find_message (all_messages xs) (q "NumMap") = Some md /\ owner_of xs md = Own FtInt64 /\
    buildable xs FtInt64 md = true /\ nodup_str (map jn (m_fields md)) = true /\
    wt xs (KMessage (q "NumMap")) (FM m) = true /\
    forallb (fun e => match find_field (m_fields md) (fst e) with
                      | Some f => plain_in xs (f_kind f) (snd e)
                      | None => false end) m = true /\
    i64plain_msg md = false /\
    encode Ex xs (q "NumMap") m = ROk (JObj [(s "byK", JObj [(s "k", JStr (s "5"))])]) /\
    to_json Ex xs (q "NumMap") m = ROk (JObj [(s "byK", JObj [(s "k", JNum 5)])]).
Proof. exact conforms_int64_needs_nonmap. Qed.
Example C05_int64_needs_buildable :
  let m := [(s "o", vint 5)] in
  exists md w,
    find_message (all_messages i64s) (q "Opt") = Some md /\ owner_of i64s md = Own FtInt64 /\
    nodup_str (map jn (m_fields md)) = true /\ i64plain_msg md = true /\
    wt i64s (KMessage (q "Opt")) (FM m) = true /\
    buildable i64s FtInt64 md = false /\
    encode Ex i64s (q "Opt") m = RUnm w /\ to_json Ex i64s (q "Opt") m = ROk (JObj [(s "o", JNum 5)]).
Proof. exact conforms_int64_needs_buildable. Qed.

(* ---- appended by P2_bytes ---- *)

(* ---- C05_conforms for the bytes_encoding codec in general: a top-level message whose only annotations
   are bytes_encoding on singular / optional bytes fields, with un-annotated children, is sent exactly
   as the documented mapping says (proofs/BytesConforms.v) ---- *)
From SebufProofs Require Import BytesFacts BytesConforms.
Theorem C05_conforms_bytes_partial : forall E sc tn md m,
  str_eqb tn ts_name = false -> is_wkt_other tn = false ->
  find_message (all_messages sc) tn = Some md -> owner_of sc md = Own FtBytes ->
  buildable sc FtBytes md = true ->
  nodup_str (map jn (m_fields md)) = true ->
  bytesplain_msg md = true ->
  nodup_str (map fst m) = true ->
  forallb (bytes_value_ok sc md) m = true ->
  encode E sc tn m = to_json E sc tn m.
Proof. exact conforms_bytes. Qed.
Print Assumptions C05_conforms_bytes_partial.

Example C05_bytes_nonvacuous :
  exists md,
    str_eqb (q "B") ts_name = false /\ is_wkt_other (q "B") = false /\
    find_message (all_messages bxs) (q "B") = Some md /\ owner_of bxs md = Own FtBytes /\
    buildable bxs FtBytes md = true /\ nodup_str (map jn (m_fields md)) = true /\ bytesplain_msg md = true /\
    wt bxs (KMessage (q "B")) (FM bval) = true /\
    nodup_str (map fst bval) = true /\ forallb (bytes_value_ok bxs md) bval = true /\
    encode Ex bxs (q "B") bval = ROk bjson /\ to_json Ex bxs (q "B") bval = ROk bjson /\
    decode Ex bxs (q "B") bjson = ROk bval.
Proof. exact bytes_nonvacuous. Qed.
Print Assumptions C05_bytes_nonvacuous.
(* the side conditions cannot be dropped *)
Example C05_conforms_bytes_needs_buildable :
  exists md,
    find_message (all_messages bxs) (q "BRep") = Some md /\ owner_of bxs md = Own FtBytes /\
    buildable bxs FtBytes md = false /\
    nodup_str (map jn (m_fields md)) = true /\ bytesplain_msg md = true /\
    nodup_str (map fst (@nil (str * fval))) = true /\ forallb (bytes_value_ok bxs md) [] = true /\
    encode Ex bxs (q "BRep") [] <> to_json Ex bxs (q "BRep") [] /\
    (let m := [(s "hs", FL [FS (VBytes [ch 1])])] in
     wt bxs (KMessage (q "BRep")) (FM m) = true /\
     to_json Ex bxs (q "BRep") m = ROk (JObj [(s "hs", JArr [JStr (s "01")])]) /\
     exists w, encode Ex bxs (q "BRep") m = RUnm w).
Proof. exact conforms_bytes_needs_buildable. Qed.
Print Assumptions C05_conforms_bytes_needs_buildable.
Example C05_conforms_bytes_needs_nonmap :
  let m := [(s "h", FS (VBytes [ch 1])); (s "by_k", FMap [(VStr (s "k"), FS (VBytes [ch 1]))])] in
  exists md,
    find_message (all_messages bxs) (q "BMap") = Some md /\ owner_of bxs md = Own FtBytes /\
    buildable bxs FtBytes md = true /\ nodup_str (map jn (m_fields md)) = true /\
    bytesplain_msg md = false /\
    wt bxs (KMessage (q "BMap")) (FM m) = true /\ nodup_str (map fst m) = true /\
    encode Ex bxs (q "BMap") m = ROk (JObj [(s "h", JStr (s "01")); (s "byK", JObj [(s "k", JStr (s "AQ=="))])]) /\
    to_json Ex bxs (q "BMap") m = ROk (JObj [(s "h", JStr (s "01")); (s "byK", JObj [(s "k", JStr (s "01"))])]).
Proof. exact conforms_bytes_needs_nonmap. Qed.
Print Assumptions C05_conforms_bytes_needs_nonmap.
Example C05_conforms_bytes_needs_distinct_names :
  let m := [(s "h", FS (VBytes [ch 1])); (s "h", FS (VBytes [ch 2]))] in
  exists md,
    find_message (all_messages xs) (q "Blob") = Some md /\ owner_of xs md = Own FtBytes /\
    buildable xs FtBytes md = true /\ nodup_str (map jn (m_fields md)) = true /\ bytesplain_msg md = true /\
    nodup_str (map fst m) = false /\ forallb (bytes_value_ok xs md) m = true /\
    encode Ex xs (q "Blob") m <> to_json Ex xs (q "Blob") m.
Proof. exact conforms_bytes_needs_distinct_names. Qed.
Print Assumptions C05_conforms_bytes_needs_distinct_names.
Example C05_conforms_bytes_needs_bytes_value :
  let m := [(s "h", FL [FS (VBytes [ch 1])])] in
  exists md,
    find_message (all_messages xs) (q "Blob") = Some md /\ owner_of xs md = Own FtBytes /\
    buildable xs FtBytes md = true /\ nodup_str (map jn (m_fields md)) = true /\ bytesplain_msg md = true /\
    nodup_str (map fst m) = true /\ forallb (bytes_value_ok xs md) m = false /\
    encode Ex xs (q "Blob") m <> to_json Ex xs (q "Blob") m.
Proof. exact conforms_bytes_needs_bytes_value. Qed.
Print Assumptions C05_conforms_bytes_needs_bytes_value.

(* ---- appended by P3_ts ---- *)

(* C05_conforms for the timestamp_format codec in general: a top-level message whose codec is the
   timestamp one, every other field un-annotated with un-annotated children, is sent exactly as the
   documented mapping says (every value that names each field at most once; errors included) *)
From SebufProofs Require Import TimestampFacts TimestampConforms.
Theorem C05_conforms_ts_partial : forall E sc tn md m,
  str_eqb tn ts_name = false -> is_wkt_other tn = false ->
  find_message (all_messages sc) tn = Some md -> owner_of sc md = Own FtTs ->
  buildable sc FtTs md = true ->
  nodup_str (map jn (m_fields md)) = true ->
  forallb tsplain_field (m_fields md) = true ->
  nodup_str (map fst m) = true ->
  forallb (ts_entry_ok sc md) m = true ->
  encode E sc tn m = to_json E sc tn m.
Proof. exact conforms_ts. Qed.
Print Assumptions C05_conforms_ts_partial.

(* each added side condition is needed *)
Example C05_conforms_ts_needs_nodup_names :
  let m := [(s "at_secs", tsv 5 0); (s "at_secs", tsv 7 0)] in
  nodup_str (map fst m) = false /\
  encode Ex tss (q "Stamps") m = ROk (JObj [(s "atSecs", JNum 5); (s "atSecs", JNum 5)]) /\
  to_json Ex tss (q "Stamps") m = ROk (JObj [(s "atSecs", JNum 5); (s "atSecs", JNum 7)]).
Proof. exact conforms_ts_needs_nodup_names. Qed.
Print Assumptions C05_conforms_ts_needs_nodup_names.
Example C05_conforms_ts_needs_message_shape :
  let m := [(s "at_secs", FL [tsv 5 0])] in
  encode Ex tss (q "Stamps") m = ROk (JObj [(s "atSecs", JArr [JStr (s "1970-01-01T00:00:05Z")])]) /\
  to_json Ex tss (q "Stamps") m = ROk (JObj [(s "atSecs", JArr [JNum 5])]).
Proof. exact conforms_ts_needs_message_shape. Qed.
Print Assumptions C05_conforms_ts_needs_message_shape.
Example C05_conforms_ts_needs_tsplain :
  let m := [(s "at", tsv 5 0); (s "by_k", FMap [(VStr (s "k"), tsv 7 0)])] in
  (exists md, find_message (all_messages tss) (q "StampMap") = Some md /\ owner_of tss md = Own FtTs /\
              buildable tss FtTs md = true /\ forallb tsplain_field (m_fields md) = false) /\
  encode Ex tss (q "StampMap") m = ROk (JObj [(s "at", JNum 5); (s "byK", JObj [(s "k", JStr (s "1970-01-01T00:00:07Z"))])]) /\
  to_json Ex tss (q "StampMap") m = ROk (JObj [(s "at", JNum 5); (s "byK", JObj [(s "k", JNum 7)])]).
Proof. exact conforms_ts_needs_tsplain. Qed.
Print Assumptions C05_conforms_ts_needs_tsplain.
Example C05_conforms_ts_needs_buildable :
  let m := [(s "ats", FL [tsv 5 0])] in
  (exists md, find_message (all_messages tss) (q "StampList") = Some md /\ owner_of tss md = Own FtTs /\
              buildable tss FtTs md = false) /\
  (exists w, encode Ex tss (q "StampList") m = RUnm w) /\
  to_json Ex tss (q "StampList") m = ROk (JObj [(s "ats", JArr [JNum 5])]).
Proof. exact conforms_ts_needs_buildable. Qed.
Print Assumptions C05_conforms_ts_needs_buildable.

(* ---- C05_conforms for the empty_behavior codec in general: a top-level message whose only annotations are
   empty_behavior fields (PRESERVE / NULL / OMIT), with un-annotated children, is sent exactly as the documented
   mapping says, for every well-typed value *)
From SebufProofs Require Import EmptyFacts EmptyConforms.
Theorem C05_conforms_empty_partial : forall E sc tn md m,
  str_eqb tn ts_name = false -> is_wkt_other tn = false ->
  find_message (all_messages sc) tn = Some md -> owner_of sc md = Own FtEmpty ->
  buildable sc FtEmpty md = true ->
  nodup_str (map jn (m_fields md)) = true ->
  empplain_msg md = true ->
  wt sc (KMessage tn) (FM m) = true ->
  forallb (fun e => match find_field (m_fields md) (fst e) with
                    | Some f => plain_in sc (f_kind f) (snd e)
                    | None => false end) m = true ->
  encode E sc tn m = to_json E sc tn m.
Proof. exact EmptyConforms.conforms_empty. Qed.
Print Assumptions C05_conforms_empty_partial.

(* a list naming a field twice is not a message value (wt excludes it); on it Impl and Spec differ *)
Example C05_conforms_empty_needs_wt :
  let m := [(s "nul_it", FM []); (s "nul_it", FM [(s "a", vstr "z")])] in
  wt xs (KMessage (q "Emp")) (FM m) = false /\
  encode Ex xs (q "Emp") m = ROk (JObj [(s "nulIt", JNull); (s "nulIt", JNull)]) /\
  to_json Ex xs (q "Emp") m = ROk (JObj [(s "nulIt", JNull); (s "nulIt", JObj [(s "a", JStr (s "z"))])]).
Proof. exact EmptyConforms.conforms_empty_needs_wt. Qed.

Example C05_empty_nonvacuous :
  let md := emp3_md in
  let m := [(s "keep_it", FM [(s "a", vstr "k")]); (s "nul_it", FM [(s "n", vint 7)]); (s "omit_it", FM [(s "a", vstr "o")]);
            (s "omit_at", tsv 5 0); (s "plain_leaf", FM [])] in
  let j := JObj [(s "keepIt", JObj [(s "a", JStr (s "k"))]); (s "nulIt", JObj [(s "n", JStr (s "7"))]);
                 (s "omitIt", JObj [(s "a", JStr (s "o"))]); (s "omitAt", JStr (s "1970-01-01T00:00:05Z"));
                 (s "plainLeaf", JObj [])] in
  wt ebs (KMessage (q "Emp3")) (FM m) = true /\ epoch_null_free md m = true /\
  forallb (fun e => match find_field (m_fields md) (fst e) with
                    | Some f => plain_in ebs (f_kind f) (snd e) | None => false end) m = true /\
  norm ebs (q "Emp3") m = m /\
  encode Ex ebs (q "Emp3") m = ROk j /\ to_json Ex ebs (q "Emp3") m = ROk j /\ decode Ex ebs (q "Emp3") j = ROk m.
Proof. exact EmptyConforms.empty_nonvacuous_nonempty. Qed.

(* ---- appended by P7_compose ---- *)

(* ONE Impl = Spec theorem for every top-level message type whose codec is none or exactly one of the five field
   codecs: [CodecCompose.field_codec_plain sc md] (computable; the per-codec predicates nulplain_msg / i64plain_msg /
   bytesplain_msg / tsplain_field / empplain_msg — plain_msg when there is no codec — selected by the owner, together
   with "the emitted codec compiles") and a well-typed value whose children are un-annotated.  Distinct JSON names,
   the not-a-well-known-type conditions, distinct field names of the value and the shape of the annotated values
   (bytes_value_ok, ts_entry_ok) are derived from wt in proofs/CodecCompose.v *)
From SebufProofs Require CodecCompose.
Theorem C05_conforms_field_codecs : forall E sc tn md m,
  lookup_message sc tn = Some md ->
  CodecCompose.field_codec_plain sc md = true ->
  wt sc (KMessage tn) (FM m) = true ->
  forallb (fun e => match find_field (m_fields md) (fst e) with
                    | Some f => plain_in sc (f_kind f) (snd e)
                    | None => false end) m = true ->
  encode E sc tn m = to_json E sc tn m.
Proof. exact CodecCompose.C05_conforms_field_codecs. Qed.
Print Assumptions C05_conforms_field_codecs.

(* non-vacuity on the shared schema xs: one message type per field codec and one without a codec *)
Example C05_field_codecs_nonvacuous :
  CodecCompose.c05_case_ok xs (q "Nums") (Own FtInt64)
    [(s "big", vint 9007199254740993); (s "name", vstr "n")]
    (JObj [(s "big", JNum 9007199254740993); (s "name", JStr (s "n"))]) /\
  CodecCompose.c05_case_ok xs (q "Nul") (Own FtNullable)
    [(s "id", vstr "x")]
    (JObj [(s "id", JStr (s "x")); (s "nick", JNull)]) /\
  CodecCompose.c05_case_ok xs (q "Emp") (Own FtEmpty)
    [(s "nul_it", FM []); (s "omit", FM []); (s "id", vstr "x")]
    (JObj [(s "nulIt", JNull); (s "id", JStr (s "x"))]) /\
  CodecCompose.c05_case_ok xs (q "Times") (Own FtTs)
    [(s "secs", tsv 5 123456789); (s "day", tsv 90000 1); (s "id", vstr "x")]
    (JObj [(s "secs", JNum 5); (s "day", JStr (s "1970-01-02")); (s "id", JStr (s "x"))]) /\
  CodecCompose.c05_case_ok xs (q "Blob") (Own FtBytes)
    [(s "h", FS (VBytes [ch 105; ch 183])); (s "id", vstr "x")]
    (JObj [(s "h", JStr (s "69b7")); (s "id", JStr (s "x"))]) /\
  CodecCompose.c05_case_ok xs (q "Leaf") OwnNone
    [(s "a", vstr "x"); (s "n", vint 3)]
    (JObj [(s "a", JStr (s "x")); (s "n", JStr (s "3"))]).
Proof. exact CodecCompose.conforms_field_codecs_nonvacuous. Qed.
Print Assumptions C05_field_codecs_nonvacuous.

(* a repeated bytes field whose option names the default encoding: covered here, outside C05_conforms_bytes_partial *)
Example C05_field_codecs_default_bytes_list :
  let m := [(s "h", FS (VBytes [ch 105; ch 183])); (s "reps", FL [FS (VBytes [ch 1]); FS (VBytes [])]); (s "id", vstr "x")] in
  CodecCompose.c05_case_ok CodecCompose.fcs (q "BDef") (Own FtBytes) m
    (JObj [(s "h", JStr (s "69b7")); (s "reps", JArr [JStr (s "AQ=="); JStr []]); (s "id", JStr (s "x"))]) /\
  (exists md, lookup_message CodecCompose.fcs (q "BDef") = Some md /\ forallb (bytes_value_ok CodecCompose.fcs md) m = false) /\
  CodecCompose.c04_case_ok CodecCompose.fcs (q "BDef") (Own FtBytes) m
    (JObj [(s "h", JStr (s "69b7")); (s "reps", JArr [JStr (s "AQ=="); JStr []]); (s "id", JStr (s "x"))]) m.
Proof. exact CodecCompose.conforms_field_codecs_default_bytes_list. Qed.

(* each remaining hypothesis is needed *)
Example C05_conforms_field_codecs_needs_plain :
  (let m := [(s "by_k", FMap [(VStr (s "k"), vint 5)])] in
   exists md, lookup_message xs (q "NumMap") = Some md /\ owner_of xs md = Own FtInt64 /\
     buildable xs FtInt64 md = true /\ CodecCompose.field_codec_plain xs md = false /\
     wt xs (KMessage (q "NumMap")) (FM m) = true /\
     forallb (fun e => match find_field (m_fields md) (fst e) with
                       | Some f => plain_in xs (f_kind f) (snd e) | None => false end) m = true /\
     encode Ex xs (q "NumMap") m = ROk (JObj [(s "byK", JObj [(s "k", JStr (s "5"))])]) /\
     to_json Ex xs (q "NumMap") m = ROk (JObj [(s "byK", JObj [(s "k", JNum 5)])])) /\
  (let m := [(s "o", vint 5)] in
   exists md w, lookup_message i64s (q "Opt") = Some md /\ owner_of i64s md = Own FtInt64 /\
     i64plain_msg md = true /\ buildable i64s FtInt64 md = false /\
     CodecCompose.field_codec_plain i64s md = false /\
     wt i64s (KMessage (q "Opt")) (FM m) = true /\
     encode Ex i64s (q "Opt") m = RUnm w /\ to_json Ex i64s (q "Opt") m = ROk (JObj [(s "o", JNum 5)])).
Proof. exact CodecCompose.conforms_field_codecs_needs_plain. Qed.
Example C05_conforms_field_codecs_needs_wt :
  let m := [(s "big", vint 0)] in
  exists md, lookup_message xs (q "Nums") = Some md /\ CodecCompose.field_codec_plain xs md = true /\
    forallb (fun e => match find_field (m_fields md) (fst e) with
                      | Some f => plain_in xs (f_kind f) (snd e) | None => false end) m = true /\
    wt xs (KMessage (q "Nums")) (FM m) = false /\
    encode Ex xs (q "Nums") m = ROk (JObj []) /\ to_json Ex xs (q "Nums") m = ROk (JObj [(s "big", JNum 0)]).
Proof. exact CodecCompose.conforms_field_codecs_needs_wt. Qed.
Example C05_conforms_field_codecs_needs_plain_children :
  let m := [(s "inner", FM [(s "big", vint 5)])] in
  exists md, lookup_message xs (q "NumsHolder") = Some md /\ owner_of xs md = OwnNone /\ CodecCompose.field_codec_plain xs md = true /\
    wt xs (KMessage (q "NumsHolder")) (FM m) = true /\
    forallb (fun e => match find_field (m_fields md) (fst e) with
                      | Some f => plain_in xs (f_kind f) (snd e) | None => false end) m = false /\
    encode Ex xs (q "NumsHolder") m = ROk (JObj [(s "inner", JObj [(s "big", JStr (s "5"))])]) /\
    to_json Ex xs (q "NumsHolder") m = ROk (JObj [(s "inner", JObj [(s "big", JNum 5)])]).
Proof. exact CodecCompose.conforms_field_codecs_needs_plain_children. Qed.

(* ---- C05_conforms for the root-unwrap codec in general: a message whose only field carries (sebuf.http.unwrap),
   with un-annotated element messages (or scalar elements of the kinds encoding/json and protojson write alike), is
   sent exactly as the documented mapping says — the bare array / object of its field, wrappers collapsed to the
   array of their unwrap field — for every well-typed value in [root_conf].  [root_conf] (computable, on the
   message and the value) excludes the nil scalar slice / map written as null (D5RootNull, at the root AND inside
   a wrapper), 64-bit integers / enums / non-finite floats among scalar elements (D5UnwrapSibling) and annotated
   element messages. *)
From SebufProofs Require UnwrapRootFacts UnwrapRootConforms UnwrapRootExamples.
Theorem C05_conforms_unwrap_root_partial : forall E sc tn md m,
  str_eqb tn ts_name = false -> is_wkt_other tn = false ->
  find_message (all_messages sc) tn = Some md -> owner_of sc md = Own FtUnwrapRoot ->
  buildable sc FtUnwrapRoot md = true ->
  wt sc (KMessage tn) (FM m) = true ->
  UnwrapRootConforms.root_conf sc md m = true ->
  encode E sc tn m = to_json E sc tn m.
Proof. exact UnwrapRootConforms.conforms_unwrap_root. Qed.
Print Assumptions C05_conforms_unwrap_root_partial.

(* non-vacuity: [root_hyps] contains owner, buildable, wt and root_conf; encode = to_json = j on each *)
Example C05_unwrap_root_nonvacuous_xs :
  (let m := [(s "bars", FL [UnwrapRootExamples.leaf1; FM []])] in
   let j := JArr [UnwrapRootExamples.leaf1_json; JObj []] in
   UnwrapRootExamples.root_hyps xs (q "BarList") m /\
   encode Ex xs (q "BarList") m = ROk j /\ to_json Ex xs (q "BarList") m = ROk j /\
   decode Ex xs (q "BarList") j = ROk m /\ norm xs (q "BarList") m = m) /\
  (let m := [(s "vals", FL [vstr "a"; vstr "b"])] in
   let j := JArr [JStr (s "a"); JStr (s "b")] in
   UnwrapRootExamples.root_hyps xs (q "Strs") m /\
   encode Ex xs (q "Strs") m = ROk j /\ to_json Ex xs (q "Strs") m = ROk j /\
   decode Ex xs (q "Strs") j = ROk m /\ norm xs (q "Strs") m = m) /\
  encode Ex xs (q "BarList") [] = ROk (JArr []) /\ decode Ex xs (q "BarList") (JArr []) = ROk [] /\
  encode Ex xs (q "Strs") [] = ROk JNull /\ decode Ex xs (q "Strs") JNull = ROk [].
Proof. exact UnwrapRootExamples.unwrap_root_nonvacuous_xs. Qed.

(* refutations *)
(* a map key type other than string: the emitted Go does not compile (C13), the model declines *)
Example C05_conforms_unwrap_root_needs_buildable :
  let m := [(s "by_n", FMap [(VInt 1, UnwrapRootExamples.leaf1)])] in
  (exists md, find_message (all_messages UnwrapRootExamples.uws) (q "IntKeys") = Some md /\ owner_of UnwrapRootExamples.uws md = Own FtUnwrapRoot /\
              buildable UnwrapRootExamples.uws FtUnwrapRoot md = false /\ UnwrapRootConforms.root_conf UnwrapRootExamples.uws md m = true) /\
  wt UnwrapRootExamples.uws (KMessage (q "IntKeys")) (FM m) = true /\
  (exists w, encode Ex UnwrapRootExamples.uws (q "IntKeys") m = RUnm w) /\
  to_json Ex UnwrapRootExamples.uws (q "IntKeys") m = ROk (JObj [(s "1", UnwrapRootExamples.leaf1_json)]).
Proof. exact UnwrapRootExamples.conforms_unwrap_root_needs_buildable. Qed.
(* outside root_conf: the nil scalar list at the root (D5RootNull), 64-bit integers as scalar elements
   (D5UnwrapSibling), and the nil scalar list INSIDE a wrapper — written as null where the mapping says [] — which
   defects_C05 does not tag *)
Example C05_conforms_unwrap_root_needs_root_conf :
  (exists md, find_message (all_messages xs) (q "Strs") = Some md /\ UnwrapRootConforms.root_conf xs md [] = false) /\
  defects_C05 xs (q "Strs") [] = [D5RootNull] /\
  encode Ex xs (q "Strs") [] = ROk JNull /\ to_json Ex xs (q "Strs") [] = ROk (JArr []) /\
  (let m := [(s "bs", FL [vint 5])] in
   (exists md, find_message (all_messages UnwrapRootExamples.uws) (q "Bigs") = Some md /\ UnwrapRootConforms.root_conf UnwrapRootExamples.uws md m = false) /\
   wt UnwrapRootExamples.uws (KMessage (q "Bigs")) (FM m) = true /\ defects_C05 UnwrapRootExamples.uws (q "Bigs") m = [D5UnwrapSibling] /\
   encode Ex UnwrapRootExamples.uws (q "Bigs") m = ROk (JArr [JNum 5]) /\ to_json Ex UnwrapRootExamples.uws (q "Bigs") m = ROk (JArr [JStr (s "5")])) /\
  (let m := [(s "by_k", FMap [(VStr (s "b"), FM [(s "total", vint 3)])])] in
   (exists md, find_message (all_messages UnwrapRootExamples.uws) (q "TagCombo") = Some md /\ owner_of UnwrapRootExamples.uws md = Own FtUnwrapRoot /\
               buildable UnwrapRootExamples.uws FtUnwrapRoot md = true /\ UnwrapRootConforms.root_conf UnwrapRootExamples.uws md m = false) /\
   wt UnwrapRootExamples.uws (KMessage (q "TagCombo")) (FM m) = true /\ defects_C05 UnwrapRootExamples.uws (q "TagCombo") m = [] /\
   encode Ex UnwrapRootExamples.uws (q "TagCombo") m = ROk (JObj [(s "b", JNull)]) /\
   to_json Ex UnwrapRootExamples.uws (q "TagCombo") m = ROk (JObj [(s "b", JArr [])])).
Proof. exact UnwrapRootExamples.conforms_unwrap_root_needs_root_conf. Qed.
(* a list naming the field twice is not a message value (wt excludes it); on it Impl and Spec differ *)
Example C05_conforms_unwrap_root_needs_wt :
  let m := [(s "bars", FL [UnwrapRootExamples.leaf1]); (s "bars", FL [FM []])] in
  (exists md, find_message (all_messages xs) (q "BarList") = Some md /\ UnwrapRootConforms.root_conf xs md m = true) /\
  wt xs (KMessage (q "BarList")) (FM m) = false /\
  encode Ex xs (q "BarList") m = ROk (JArr [UnwrapRootExamples.leaf1_json]) /\
  (exists w, to_json Ex xs (q "BarList") m = RUnm w).
Proof. exact UnwrapRootExamples.conforms_unwrap_root_needs_wt. Qed.

(* ---- appended by P12_repair ---- *)
From SebufProofs Require OneofExamples.

(* response direction, flattened discriminated oneof: NaN / Infinity as an ELEMENT of a repeated float field (or a value of
   a map) of the variant makes json.Marshal(inner) fail, the error is swallowed, and the server sends the discriminator
   only.  defects_C05 covers it (CodecCases.reflect_differs looks inside lists and maps; confirmed on the emitted code,
   catalogue package cxoneofgaps) *)
Example C05_flat_variant_nonfinite_element :
  let m := [(s "fl", FM [(s "xs", FL [FS (VFloat 9221120237041090561)]); (s "name", vstr "n")])] in
  defects_C05 OneofExamples.fs (q "FlatG") m = [D5FlatOneofChild; D5FlattenChild] /\
  encode Ex OneofExamples.fs (q "FlatG") m = ROk (JObj [(s "kind", JStr (s "fl"))]) /\
  to_json Ex OneofExamples.fs (q "FlatG") m
    = ROk (JObj [(s "kind", JStr (s "fl")); (s "xs", JArr [JStr (s "NaN")]); (s "name", JStr (s "n"))]).
Proof. exact OneofExamples.c05_flat_variant_nonfinite_element. Qed.
