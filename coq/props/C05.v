(* C05 — the server's JSON follows the documented mapping wherever an annotated type occurs.
   Codec.v = Impl (what the emitted server does), Mapping.v = Spec (the documented mapping).
   Statements only; proofs in proofs/MappingFacts.v. *)
From Sebuf Require Import CodecCases.
From SebufProofs Require Import ProtoJsonFacts CodecExamples MappingFacts NullableFacts NullableConforms.

(* nothing else changes: where no annotation is reachable from the value (and the top-level message
   has no unwrap-wrapper map), the server's JSON and the documented mapping are both plain protojson *)
Theorem C05_unannotated_is_proto3 : forall E sc tn m,
  plain_top sc tn = true -> plain_in sc (KMessage tn) (FM m) = true ->
  encode E sc tn m = pj_marshal E sc tn m /\ to_json E sc tn m = pj_marshal E sc tn m.
Proof. exact MappingFacts.C05_unannotated_is_proto3. Qed.
Print Assumptions C05_unannotated_is_proto3.

(* the mapping of a message value is one term whatever the context it occurs in *)
Theorem C05_context_free : forall E sc c1 c2 tn m,
  str_eqb tn ts_name = false ->
  mp_fval E sc c1 (KMessage tn) (FM m) = mp_fval E sc c2 (KMessage tn) (FM m).
Proof. exact MappingFacts.C05_context_free. Qed.
Print Assumptions C05_context_free.

(* C05_conforms for one codec in general: a top-level message whose only annotations are nullable
   fields, with un-annotated children, is sent exactly as the documented mapping says *)
Theorem C05_conforms_nullable_partial : forall E sc tn md m,
  str_eqb tn ts_name = false -> is_wkt_other tn = false ->
  find_message (all_messages sc) tn = Some md -> owner_of sc md = Own FtNullable ->
  nodup_str (map jn (m_fields md)) = true ->
  nulplain_msg md = true ->
  forallb (fun e => match find_field (m_fields md) (fst e) with
                    | Some f => plain_in sc (f_kind f) (snd e)
                    | None => false end) m = true ->
  encode E sc tn m = to_json E sc tn m.
Proof. exact conforms_nullable. Qed.
Print Assumptions C05_conforms_nullable_partial.

(* full statement (not yet proved in general; the correspondence check and the witnesses cover it) *)
Definition C05_conforms_full : Prop := forall E sc tn m,
  defects_C05 sc tn m = [] -> encode E sc tn m = to_json E sc tn m.

(* refutations per (annotation x context) class *)
Theorem C05_refuted_nested_int64 : refuted5 (D5Pj AInt64) (q "NumsHolder") [(s "inner", FM [(s "big", vint 5)])].
Proof. exact MappingFacts.C05_refuted_nested_int64. Qed.
Print Assumptions C05_refuted_nested_int64.
Theorem C05_refuted_nested_nullable : refuted5 (D5Pj ANullable) (q "NulHolder") [(s "n", FM [(s "id", vstr "x")])].
Proof. exact MappingFacts.C05_refuted_nested_nullable. Qed.
Print Assumptions C05_refuted_nested_nullable.
Theorem C05_refuted_nested_empty : refuted5 (D5Pj AEmpty) (q "EmpHolder") [(s "e", FM [(s "nul_it", FM [])])].
Proof. exact MappingFacts.C05_refuted_nested_empty. Qed.
Print Assumptions C05_refuted_nested_empty.
Theorem C05_refuted_nested_ts : refuted5 (D5Pj ATs) (q "TimesHolder") [(s "t", FM [(s "secs", tsv 5 0)])].
Proof. exact MappingFacts.C05_refuted_nested_ts. Qed.
Print Assumptions C05_refuted_nested_ts.
Theorem C05_refuted_nested_bytes : refuted5 (D5Pj ABytes) (q "BlobHolder") [(s "b", FM [(s "h", FS (VBytes [ch 105; ch 183]))])].
Proof. exact MappingFacts.C05_refuted_nested_bytes. Qed.
Print Assumptions C05_refuted_nested_bytes.
Theorem C05_refuted_nested_flatten : refuted5 (D5Pj AFlatten) (q "PostHolder") [(s "p", FM [(s "detail", FM [(s "n", vint 1)])])].
Proof. exact MappingFacts.C05_refuted_nested_flatten. Qed.
Print Assumptions C05_refuted_nested_flatten.
Theorem C05_refuted_nested_oneof : refuted5 (D5Pj AOneof) (q "EventHolder") [(s "ev", FM [(s "image", FM [(s "url", vstr "u")])])].
Proof. exact MappingFacts.C05_refuted_nested_oneof. Qed.
Print Assumptions C05_refuted_nested_oneof.
Theorem C05_refuted_nested_unwrap : refuted5 (D5Pj AUnwrap) (q "BarHolder") [(s "bl", FM [(s "bars", FL [FM []])])].
Proof. exact MappingFacts.C05_refuted_nested_unwrap. Qed.
Print Assumptions C05_refuted_nested_unwrap.
Theorem C05_refuted_map_int64 : refuted5 (D5MapSkipped AInt64) (q "NumMap") [(s "by_k", FMap [(VStr (s "k"), vint 5)])].
Proof. exact MappingFacts.C05_refuted_map_int64. Qed.
Print Assumptions C05_refuted_map_int64.
Theorem C05_refuted_enum_value : refuted5 D5EnumValue (q "WithEnum") [(s "status", FS (VEnum 1))].
Proof. exact MappingFacts.C05_refuted_enum_value. Qed.
Print Assumptions C05_refuted_enum_value.
Theorem C05_refuted_enum_number : refuted5 D5EnumNumber (q "WithEnum") [(s "level", FS (VEnum 1))].
Proof. exact MappingFacts.C05_refuted_enum_number. Qed.
Print Assumptions C05_refuted_enum_number.
Theorem C05_refuted_reflected_child : refuted5 D5FlattenChild (q "Post") [(s "detail", FM [(s "body_text", vstr "b")])].
Proof. exact MappingFacts.C05_refuted_reflected_child. Qed.
Print Assumptions C05_refuted_reflected_child.
Theorem C05_refuted_flat_oneof_child :
  defects_C05 xs (q "FlatEvent") [(s "wide", FM [(s "alt_text", vstr "a")])] = [D5FlatOneofChild; D5FlattenChild] /\
  exists j, to_json Ex xs (q "FlatEvent") [(s "wide", FM [(s "alt_text", vstr "a")])] = ROk j /\
            encode Ex xs (q "FlatEvent") [(s "wide", FM [(s "alt_text", vstr "a")])] <> ROk j.
Proof. exact MappingFacts.C05_refuted_flat_oneof_child. Qed.
Print Assumptions C05_refuted_flat_oneof_child.
Theorem C05_refuted_unwrap_sibling : refuted5 D5UnwrapSibling (q "Series") [(s "total_count", vint 4)].
Proof. exact MappingFacts.C05_refuted_unwrap_sibling. Qed.
Print Assumptions C05_refuted_unwrap_sibling.
Theorem C05_refuted_root_null : refuted5 D5RootNull (q "Strs") [].
Proof. exact MappingFacts.C05_refuted_root_null. Qed.
Print Assumptions C05_refuted_root_null.
Theorem C05_refuted_bytes_error_swallowed :
  hex_swallowed xs (q "Blob") (JObj [(s "h", JStr (s "abc"))]) = true /\
  hex_dec (s "abc") = None /\
  decode Ex xs (q "Blob") (JObj [(s "h", JStr (s "abc"))]) = ROk [(s "h", FS (VBytes [ch 105; ch 183]))].
Proof. exact MappingFacts.C05_refuted_bytes_error_swallowed. Qed.
Print Assumptions C05_refuted_bytes_error_swallowed.

Example C05_nonvacuous :
  (let m := [(s "id", vstr "i"); (s "big_num", vint (-5)); (s "tags", FL [vstr "a"]);
             (s "by_key", FMap [(VStr (s "k"), FM [(s "a", vstr "x")])]); (s "leaf", FM []); (s "at", tsv 5 0)] in
   plain_top xs (q "Plain") = true /\ plain_in xs (KMessage (q "Plain")) (FM m) = true /\ defects_C05 xs (q "Plain") m = []) /\
  (let m := [(s "secs", tsv 5 123); (s "day", tsv 90000 0); (s "id", vstr "x")] in
   owns xs (q "Times") = true /\ defects_C05 xs (q "Times") m = [] /\ encode Ex xs (q "Times") m = to_json Ex xs (q "Times") m).
Proof. split; [exact C05_nonvacuous_plain | exact C05_nonvacuous_conforms]. Qed.
Print Assumptions C05_nonvacuous.

Example C05_nullable_nonvacuous :
  exists md,
    find_message (all_messages xs) (q "Nul") = Some md /\ owner_of xs md = Own FtNullable /\
    nodup_str (map jn (m_fields md)) = true /\ nulplain_msg md = true /\
    wt xs (KMessage (q "Nul")) (FM [(s "id", vstr "x")]) = true /\
    encode Ex xs (q "Nul") [(s "id", vstr "x")] = ROk (JObj [(s "id", JStr (s "x")); (s "nick", JNull)]).
Proof. exact nullable_nonvacuous. Qed.
