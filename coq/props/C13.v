(* C13 — everything the generators emit builds: Go compiles and vets, TypeScript loads.
   The model (theories/Emit.v) is a model of the known reasons emitted code fails to build, not a
   Go type checker; [accepted] is what the generation-time validators let through. *)
From Sebuf Require Import Text Json Schema Emit.
From SebufProofs Require Import EmitFacts.

(* For every accepted schema outside the defect classes: for each of the three plugin subsets every
   expression the emitters print meets the requirement it puts on the Go type of the field it
   touches, no method / package-level declaration / literal key is declared twice, every referenced
   identifier exists, every import is used, every printf call has as many verbs as arguments; and
   no TypeScript module fails to load. *)
Theorem C13_builds : forall sc, accepted sc = true -> defects_C13 sc = [] ->
  (forall ps, go_builds sc ps = true /\ go_vets sc ps = true) /\ ts_loads sc = true.
Proof. exact C13_builds_lemma. Qed.
Print Assumptions C13_builds.

(* the same per plugin subset, and at the level of single obligations *)
Theorem C13_every_obligation_met : forall sc ps, accepted sc = true -> go_tags ps sc = [] ->
  all_ok (pkg_checks ps sc) = true.
Proof. exact all_checks_ok. Qed.
Print Assumptions C13_every_obligation_met.

(* clientgen's snakeToUpperCamel is, for every byte string, "drop underscores and upper-case what
   follows" ... *)
Theorem C13_snake_to_upper_camel_char : forall x, snake_to_upper_camel x = json_name_aux true x.
Proof. exact snake_to_upper_camel_char. Qed.
Print Assumptions C13_snake_to_upper_camel_char.

(* ... and agrees with protobuf-go's GoCamelCase on names [a-z]+(_[a-z]+)* *)
Theorem C13_snake_upper_camel_eq_go_camel : forall x, plain_snake x = true -> snake_to_upper_camel x = go_camel x.
Proof. exact snake_upper_camel_eq_go_camel. Qed.
Print Assumptions C13_snake_upper_camel_eq_go_camel.

Theorem C13_snake_ne_go_camel_refuted :
  snake_to_upper_camel (s "field_1") <> go_camel (s "field_1") /\
  snake_to_upper_camel (s "a1b") <> go_camel (s "a1b") /\
  snake_to_upper_camel (s "x__y") <> go_camel (s "x__y") /\
  snake_to_upper_camel (s "tail_") <> go_camel (s "tail_").
Proof. repeat split; vm_compute; discriminate. Qed.

(* After cbe68e9 no route handler of the TS server declares a const twice, for any verb, path
   variables, query parameters and headers; the query parser (which reads url.searchParams) always
   has `url` in scope; hence every emitted TS module of every schema is duplicate-free. *)
Theorem C13_ts_route_never_redeclares : forall sc sv md, nodup_strb (ts_route_consts sc sv md) = true.
Proof. exact ts_route_never_redeclares. Qed.
Print Assumptions C13_ts_route_never_redeclares.
Theorem C13_ts_query_parser_has_url : forall sc sv md,
  mem_str (s "params") (ts_route_consts sc sv md) = true -> mem_str (s "url") (ts_route_consts sc sv md) = true.
Proof. exact ts_query_parser_has_url. Qed.
Print Assumptions C13_ts_query_parser_has_url.
Theorem C13_ts_routes_ok_always : forall sc fl, ts_routes_ok sc fl = true.
Proof. exact ts_routes_ok_always. Qed.
Print Assumptions C13_ts_routes_ok_always.
(* hence the TS server module loads exactly when the annotation texts printed as bare property names
   (discriminators, flatten_prefix ++ child name) are identifier names *)
Theorem C13_ts_server_loads_iff_types : forall sc fl, ts_server_loads sc fl = ts_types_ok sc fl.
Proof. exact ts_server_loads_iff_types. Qed.
Print Assumptions C13_ts_server_loads_iff_types.
Theorem C13_ts_prop_ok_app : forall p n,
  ts_prop_ok p = true -> forallb ts_prop_char n = true -> ts_prop_ok (p ++ n) = true.
Proof. exact ts_prop_ok_app. Qed.
Theorem C13_ts_prop_bad_prefix : forall p n, p <> [] -> ts_prop_ok p = false -> ts_prop_ok (p ++ n) = false.
Proof. exact ts_prop_bad_prefix. Qed.
(* the TS modules are left with three name-driven failures (a method called Constructor, a header whose
   property name is not an identifier, an annotation text printed as a bare property name); without them
   every module loads *)
Theorem C13_ts_loads_of_tags : forall sc, ts_tags sc = [] -> ts_loads sc = true.
Proof. exact ts_loads_of_tags. Qed.
Print Assumptions C13_ts_loads_of_tags.

(* Hostile identifiers.  Field, path-variable and query names that are reserved words of Go or
   ECMAScript, predeclared identifiers, or locals of the emitted functions are harmless on this tree
   (Go capitalises them, TS reaches them by property access), and so are such method, service and
   header names: *)
Example C13_hostile_names_harmless :
  accepted hostile_harmless = true /\ defects_C13 hostile_harmless = [] /\
  go_vets hostile_harmless OnlyHttp = true /\ go_vets hostile_harmless OnlyClient = true /\ go_vets hostile_harmless Both = true /\
  ts_loads hostile_harmless = true.
Proof. exact hostile_harmless_builds. Qed.
(* ... the names that do break the emitted code: *)
Theorem C13_refuted_ts_client_method_named_constructor :
  let sc := verbs_schema ["Get"; "Constructor"]%string in
  accepted sc = true /\ defects_C13 sc = [s "ts-client-method-named-constructor"] /\ ts_loads sc = false /\
  ts_server_loads sc (hd (file_of "" [] [] []) sc) = true /\ go_vets sc Both = true.
Proof. exact w_ts_constructor. Qed.
Theorem C13_refuted_ts_client_header_property_not_identifier :
  let sc := hdr_schema [] ["X-1st"]%string [] in
  accepted sc = true /\ defects_C13 sc = [s "ts-client-header-property-not-identifier"] /\ ts_loads sc = false /\ go_vets sc Both = true.
Proof. exact w_ts_header_prop. Qed.
Theorem C13_refuted_ts_property_name_not_identifier :
  let sc := ts_disc_schema "@type"%string in
  accepted sc = true /\ defects_C13 sc = [s "ts-property-name-not-identifier"] /\ ts_loads sc = false /\
  ts_server_loads sc (hd (file_of "" [] [] []) sc) = false /\ go_vets sc Both = true.
Proof. exact w_ts_discriminator_prop. Qed.
Theorem C13_refuted_ts_property_name_not_identifier_prefix :
  let sc := ts_prefix_schema "home-"%string in
  accepted sc = true /\ defects_C13 sc = [s "ts-property-name-not-identifier"] /\ ts_loads sc = false /\ go_vets sc Both = true.
Proof. exact w_ts_prefix_prop. Qed.
Example C13_ts_identifier_texts_load :
  (let sc := ts_disc_schema "$kind_of"%string in accepted sc = true /\ defects_C13 sc = [] /\ ts_loads sc = true) /\
  (let sc := ts_prefix_schema "home_"%string in accepted sc = true /\ defects_C13 sc = [] /\ ts_loads sc = true).
Proof. split; [exact (proj1 ts_identifier_texts_load)|exact (proj1 (proj2 ts_identifier_texts_load))]. Qed.
Theorem C13_refuted_method_named_generic : exists sc, refuted sc ["method-named-generic"%string] OnlyHttp ["type"%string].
Proof. eexists. exact w_method_generic. Qed.
Example C13_method_named_generic_last_builds :
  let sc := verbs_schema ["Other"; "Generic"]%string in defects_C13 sc = [] /\ go_vets sc Both = true.
Proof. exact method_generic_last_builds. Qed.
Theorem C13_refuted_package_declaration_clash_method_bind : exists sc, refuted sc ["package-declaration-clash"%string] OnlyHttp ["redeclared"%string].
Proof. eexists. exact w_method_bind. Qed.
Theorem C13_refuted_package_declaration_clash_message_named_like_helper : exists sc, refuted sc ["package-declaration-clash"%string] OnlyHttp ["redeclared"%string].
Proof. eexists. exact w_message_named_like_helper. Qed.
Theorem C13_refuted_field_named_like_codec_method : exists sc, refuted sc ["field-named-like-codec-method"%string] OnlyClient ["redeclared"%string].
Proof. eexists. exact w_field_named_marshaljson. Qed.

(* positive examples for the three repaired classes (ffb4b75, e425100, cbe68e9) *)
Example C13_discriminated_oneof_vets :
  accepted disc_schema = true /\ defects_C13 disc_schema = [] /\
  go_vets disc_schema OnlyHttp = true /\ go_vets disc_schema OnlyClient = true /\ go_vets disc_schema Both = true.
Proof. exact discriminated_oneof_vets. Qed.
Example C13_header_declared_twice_builds :
  let sc := hdr_schema ["X-Trace"; "X-Tenant"]%string ["X-Tenant"; "Trace"]%string ["X-Tenant"; "X-Req"]%string in
  accepted sc = true /\ defects_C13 sc = [] /\ go_vets sc OnlyClient = true /\ go_vets sc Both = true.
Proof. pose proof header_declared_twice_builds as H. cbv zeta in *. tauto. Qed.
Example C13_ts_get_with_path_and_query_loads :
  let sc := get_schema (msg "Q" [fld "id" KString Singular None []; fld "v" KString Singular None [AQuery]] []) "/x/{id}" in
  accepted sc = true /\ defects_C13 sc = [] /\ ts_loads sc = true /\ go_vets sc Both = true.
Proof. pose proof ts_get_with_path_and_query_loads as H. cbv zeta in *. tauto. Qed.

Example C13_nonvacuous :
  accepted good_schema = true /\ defects_C13 good_schema = [] /\
  go_builds good_schema Both = true /\ go_vets good_schema OnlyHttp = true /\ ts_loads good_schema = true.
Proof. exact good_schema_builds. Qed.

(* refutations: for each defect class an accepted schema on which the model's verdict is negative *)
Theorem C13_refuted_int64_number_on_optional : exists sc, refuted sc ["int64-number-on-optional"%string] OnlyHttp ["type"%string].
Proof. eexists. exact w_int64_optional. Qed.
Theorem C13_refuted_annotated_oneof_member : exists sc, refuted sc ["annotated-oneof-member"%string] OnlyClient ["selector"%string].
Proof. eexists. exact w_oneof_member. Qed.
Theorem C13_refuted_timestamp_format_on_repeated : exists sc, refuted sc ["timestamp-format-on-repeated"%string] Both ["selector"%string].
Proof. eexists. exact w_ts_repeated. Qed.
Theorem C13_refuted_bytes_encoding_on_repeated : exists sc, refuted sc ["bytes-encoding-on-repeated"%string] OnlyHttp ["type"%string].
Proof. eexists. exact w_bytes_repeated. Qed.
Theorem C13_refuted_two_marshaljson_features : exists sc, refuted sc ["two-marshaljson-features"%string] OnlyHttp ["redeclared"%string].
Proof. eexists. exact w_two_features. Qed.
Theorem C13_refuted_flatten_field_with_empty_behavior : exists sc, refuted sc ["two-marshaljson-features"%string] OnlyClient ["redeclared"%string].
Proof. eexists. exact w_flatten_plus_empty. Qed.
Theorem C13_refuted_oneof_duplicate_discriminator_value :
  exists sc, refuted sc ["oneof-duplicate-discriminator-value"%string] OnlyHttp ["duplicate"%string].
Proof. eexists. exact w_dup_discriminator. Qed.
Theorem C13_refuted_unqualified_foreign_type : exists sc, refuted sc ["unqualified-foreign-type"%string] OnlyHttp ["undefined"%string].
Proof. eexists. exact w_foreign_flatten. Qed.
Theorem C13_refuted_unwrap_container_with_oneof : exists sc, refuted sc ["unwrap-container-with-oneof"%string] OnlyHttp ["selector"%string].
Proof. eexists. exact w_unwrap_oneof. Qed.
Theorem C13_refuted_unwrap_non_string_key : exists sc, refuted sc ["unwrap-non-string-key"%string] OnlyHttp ["type"%string].
Proof. eexists. exact w_unwrap_key. Qed.
Theorem C13_refuted_unwrap_container_optional_scalar : exists sc, refuted sc ["unwrap-container-optional-scalar"%string] Both ["type"%string].
Proof. eexists. exact w_unwrap_optional. Qed.
Theorem C13_refuted_unwrap_of_map_unwrap : exists sc, refuted sc ["unwrap-of-map-unwrap"%string] OnlyHttp ["type"%string].
Proof. eexists. exact w_unwrap_of_map. Qed.
Theorem C13_refuted_unwrap_file_unused_protojson : exists sc, refuted sc ["unwrap-file-unused-protojson"%string] OnlyHttp ["unused"%string].
Proof. eexists. exact w_unwrap_protojson. Qed.
Theorem C13_refuted_enum_fromjson_duplicate_key : exists sc, refuted sc ["enum-fromjson-duplicate-key"%string] OnlyHttp ["duplicate"%string].
Proof. eexists. exact w_enum_dup. Qed.
Theorem C13_refuted_error_message_with_error_field : exists sc, refuted sc ["error-message-with-error-field"%string] OnlyHttp ["redeclared"%string].
Proof. eexists. exact w_error_field. Qed.
Theorem C13_refuted_client_path_ident_mismatch : exists sc, refuted sc ["client-path-ident-mismatch"%string] OnlyClient ["selector"%string].
Proof. eexists. exact w_path_ident. Qed.
Theorem C13_refuted_client_path_ident_is_method : exists sc, refuted sc ["client-path-ident-is-method"%string] OnlyClient ["vet-printf"%string].
Proof. eexists. exact w_path_method. Qed.
Theorem C13_refuted_client_query_on_non_singular : exists sc, refuted sc ["client-query-on-non-singular"%string] OnlyClient ["type"%string].
Proof. eexists. exact w_query_optional. Qed.
Theorem C13_refuted_client_query_on_enum_bytes_message : exists sc, refuted sc ["client-query-on-enum-bytes-message"%string] Both ["type"%string].
Proof. eexists. exact w_query_bytes. Qed.
Theorem C13_refuted_package_declaration_clash_call_prefix : exists sc, refuted sc ["package-declaration-clash"%string] OnlyClient ["redeclared"%string].
Proof. eexists. exact w_header_call_prefix. Qed.
Theorem C13_refuted_package_declaration_clash : exists sc, refuted sc ["package-declaration-clash"%string] OnlyClient ["redeclared"%string].
Proof. eexists. exact w_header_builtin. Qed.
Theorem C13_refuted_same_method_name_two_services : exists sc, refuted sc ["same-method-name-two-services"%string] OnlyHttp ["redeclared"%string].
Proof. eexists. exact w_same_method. Qed.
Theorem C13_refuted_service_named_like_method : exists sc, refuted sc ["service-named-like-method"%string] OnlyHttp ["redeclared"%string].
Proof. eexists. exact w_service_like_method. Qed.
Theorem C13_refuted_two_service_files_one_package : exists sc, refuted sc ["two-service-files-one-package"%string] OnlyClient ["redeclared"%string].
Proof. eexists. exact w_two_files. Qed.
Theorem C13_refuted_service_without_methods : exists sc, refuted sc ["service-without-methods"%string] OnlyHttp ["unused"%string].
Proof. eexists. exact w_no_methods. Qed.

(* ---- several annotated things of one kind in one scope ------------------------------------------ *)
(* The emitters print one block per discriminated oneof into ONE MarshalJSON / UnmarshalJSON body.  In
   the model no obligation couples two blocks: a message with k discriminated oneofs meets its
   obligations iff each oneof does alone ... *)
Theorem C13_discriminated_oneofs_independent : forall sc fl m,
  all_ok (feature_checks sc fl m FOneof) = forallb (fun o => all_ok (oneof_checks sc fl m o)) (disc_oneofs m).
Proof. exact discriminated_oneofs_independent. Qed.
Print Assumptions C13_discriminated_oneofs_independent.
(* ... and every feature contributes at most one MarshalJSON to a message, however many oneofs / fields
   of the message carry it *)
Theorem C13_one_marshaljson_per_feature : forall p sc fl m ft,
  count_occ feature_dec (emitted_features p sc fl m) ft <= 1.
Proof. exact one_marshaljson_per_feature. Qed.
Print Assumptions C13_one_marshaljson_per_feature.
Example C13_several_discriminated_oneofs_vet :
  accepted multi_oneof_schema = true /\ defects_C13 multi_oneof_schema = [] /\
  go_vets multi_oneof_schema OnlyHttp = true /\ go_vets multi_oneof_schema OnlyClient = true /\ go_vets multi_oneof_schema Both = true /\
  ts_loads multi_oneof_schema = true.
Proof. exact multi_oneof_vets. Qed.
(* several services in one file sharing request / response messages and header names (service and method
   level), several methods of one service sharing them: builds, vets, loads *)
Example C13_services_sharing_messages_and_headers_build :
  let sc := shared_services ["GetUser"; "FindUser"; "PutUser"]%string ["GetOrder"; "PutOrder"]%string in
  accepted sc = true /\ defects_C13 sc = [] /\ go_vets sc OnlyHttp = true /\ go_vets sc OnlyClient = true /\ go_vets sc Both = true /\ ts_loads sc = true.
Proof. exact shared_services_build. Qed.
(* with equal rpc names the Go server's package-level per-method declarations clash (known class) and
   nothing else: the Go client vets and both TypeScript modules load *)
Example C13_same_rpc_names_only_go_server_clashes :
  let sc := shared_services ["Get"; "Find"; "Put"]%string ["Get"; "Put"]%string in
  accepted sc = true /\ defects_C13 sc = [s "same-method-name-two-services"] /\
  go_vets sc OnlyHttp = false /\ failing_classes sc OnlyHttp = [s "redeclared"] /\
  go_vets sc OnlyClient = true /\ ts_loads sc = true.
Proof. exact same_rpc_names_only_go_server_clashes. Qed.
