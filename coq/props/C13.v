(* C13 — everything the generators emit builds: Go compiles and vets, TypeScript loads.
   The model (theories/Emit.v) is a model of the known reasons emitted code fails to build, not a
   Go type checker; [accepted] is what the generation-time validators let through. *)
From Sebuf Require Import Text Json Schema Emit.
From SebufProofs Require Import EmitFacts.

(* For every accepted schema outside the defect classes: for each of the three plugin subsets every
   expression the emitters print meets the requirement it puts on the Go type of the field it
   touches, no method / package-level declaration / literal key is declared twice, every referenced
   identifier exists, every import is used, every printf call has as many verbs as arguments; and
   no TypeScript block declares a const twice. *)
Theorem C13_builds : forall sc, accepted sc = true -> defects_C13 sc = [] ->
  (forall ps, go_builds sc ps = true /\ go_vets sc ps = true) /\ ts_loads sc = true.
Proof. exact C13_builds_lemma. Qed.
Print Assumptions C13_builds.

(* the same per plugin subset, and at the level of single obligations *)
Theorem C13_every_obligation_met : forall sc ps, accepted sc = true -> go_tags ps sc = [] ->
  all_ok (pkg_checks ps sc) = true.
Proof. exact all_checks_ok. Qed.
Print Assumptions C13_every_obligation_met.

(* clientgen's snakeToUpperCamel is, for every byte string, "drop underscores and upper-case what
   follows" ... *)
Theorem C13_snake_to_upper_camel_char : forall x, snake_to_upper_camel x = json_name_aux true x.
Proof. exact snake_to_upper_camel_char. Qed.
Print Assumptions C13_snake_to_upper_camel_char.

(* ... and agrees with protobuf-go's GoCamelCase on names [a-z]+(_[a-z]+)* *)
Theorem C13_snake_upper_camel_eq_go_camel : forall x, plain_snake x = true -> snake_to_upper_camel x = go_camel x.
Proof. exact snake_upper_camel_eq_go_camel. Qed.
Print Assumptions C13_snake_upper_camel_eq_go_camel.

Theorem C13_snake_ne_go_camel_refuted :
  snake_to_upper_camel (s "field_1") <> go_camel (s "field_1") /\
  snake_to_upper_camel (s "a1b") <> go_camel (s "a1b") /\
  snake_to_upper_camel (s "x__y") <> go_camel (s "x__y") /\
  snake_to_upper_camel (s "tail_") <> go_camel (s "tail_").
Proof. repeat split; vm_compute; discriminate. Qed.

(* the TS server redeclares `url` exactly for body-less verbs with path variables and query parameters *)
Theorem C13_ts_route_redeclares_iff : forall sc sv md,
  nodup_strb (ts_route_consts sc sv md) = false <->
  (path_params md <> [] /\ has_body md = false /\ exists m, input_msg sc md = Some m /\ query_fields_of m <> []).
Proof. exact ts_route_redeclares_iff. Qed.
Print Assumptions C13_ts_route_redeclares_iff.

Example C13_nonvacuous :
  accepted good_schema = true /\ defects_C13 good_schema = [] /\
  go_builds good_schema Both = true /\ go_vets good_schema OnlyHttp = true /\ ts_loads good_schema = true.
Proof. exact good_schema_builds. Qed.

(* refutations: for each defect class an accepted schema on which the model's verdict is negative *)
Theorem C13_refuted_int64_number_on_optional : exists sc, refuted sc ["int64-number-on-optional"%string] OnlyHttp ["type"%string].
Proof. eexists. exact w_int64_optional. Qed.
Theorem C13_refuted_annotated_oneof_member : exists sc, refuted sc ["annotated-oneof-member"%string] OnlyClient ["selector"%string].
Proof. eexists. exact w_oneof_member. Qed.
Theorem C13_refuted_timestamp_format_on_repeated : exists sc, refuted sc ["timestamp-format-on-repeated"%string] Both ["selector"%string].
Proof. eexists. exact w_ts_repeated. Qed.
Theorem C13_refuted_bytes_encoding_on_repeated : exists sc, refuted sc ["bytes-encoding-on-repeated"%string] OnlyHttp ["type"%string].
Proof. eexists. exact w_bytes_repeated. Qed.
Theorem C13_refuted_two_marshaljson_features : exists sc, refuted sc ["two-marshaljson-features"%string] OnlyHttp ["redeclared"%string].
Proof. eexists. exact w_two_features. Qed.
Theorem C13_refuted_flatten_field_with_empty_behavior : exists sc, refuted sc ["two-marshaljson-features"%string] OnlyClient ["redeclared"%string].
Proof. eexists. exact w_flatten_plus_empty. Qed.
Theorem C13_refuted_oneof_errorf_escaped_verb : exists sc, refuted sc ["oneof-errorf-escaped-verb"%string] OnlyHttp ["vet-printf"%string].
Proof. eexists. exact w_errorf. Qed.
Theorem C13_refuted_oneof_duplicate_discriminator_value :
  exists sc, refuted sc ["oneof-errorf-escaped-verb"%string; "oneof-duplicate-discriminator-value"%string] OnlyHttp ["duplicate"%string].
Proof. eexists. exact w_dup_discriminator. Qed.
Theorem C13_refuted_unqualified_foreign_type : exists sc, refuted sc ["unqualified-foreign-type"%string] OnlyHttp ["undefined"%string].
Proof. eexists. exact w_foreign_flatten. Qed.
Theorem C13_refuted_unwrap_container_with_oneof : exists sc, refuted sc ["unwrap-container-with-oneof"%string] OnlyHttp ["selector"%string].
Proof. eexists. exact w_unwrap_oneof. Qed.
Theorem C13_refuted_unwrap_non_string_key : exists sc, refuted sc ["unwrap-non-string-key"%string] OnlyHttp ["type"%string].
Proof. eexists. exact w_unwrap_key. Qed.
Theorem C13_refuted_unwrap_container_optional_scalar : exists sc, refuted sc ["unwrap-container-optional-scalar"%string] Both ["type"%string].
Proof. eexists. exact w_unwrap_optional. Qed.
Theorem C13_refuted_unwrap_of_map_unwrap : exists sc, refuted sc ["unwrap-of-map-unwrap"%string] OnlyHttp ["type"%string].
Proof. eexists. exact w_unwrap_of_map. Qed.
Theorem C13_refuted_unwrap_file_unused_protojson : exists sc, refuted sc ["unwrap-file-unused-protojson"%string] OnlyHttp ["unused"%string].
Proof. eexists. exact w_unwrap_protojson. Qed.
Theorem C13_refuted_enum_fromjson_duplicate_key : exists sc, refuted sc ["enum-fromjson-duplicate-key"%string] OnlyHttp ["duplicate"%string].
Proof. eexists. exact w_enum_dup. Qed.
Theorem C13_refuted_error_message_with_error_field : exists sc, refuted sc ["error-message-with-error-field"%string] OnlyHttp ["redeclared"%string].
Proof. eexists. exact w_error_field. Qed.
Theorem C13_refuted_client_path_ident_mismatch : exists sc, refuted sc ["client-path-ident-mismatch"%string] OnlyClient ["selector"%string].
Proof. eexists. exact w_path_ident. Qed.
Theorem C13_refuted_client_path_ident_is_method : exists sc, refuted sc ["client-path-ident-is-method"%string] OnlyClient ["vet-printf"%string].
Proof. eexists. exact w_path_method. Qed.
Theorem C13_refuted_client_query_on_non_singular : exists sc, refuted sc ["client-query-on-non-singular"%string] OnlyClient ["type"%string].
Proof. eexists. exact w_query_optional. Qed.
Theorem C13_refuted_client_query_on_enum_bytes_message : exists sc, refuted sc ["client-query-on-enum-bytes-message"%string] Both ["type"%string].
Proof. eexists. exact w_query_bytes. Qed.
Theorem C13_refuted_client_duplicate_header_option : exists sc, refuted sc ["client-duplicate-header-option"%string] OnlyClient ["redeclared"%string].
Proof. eexists. exact w_header_twice. Qed.
Theorem C13_refuted_package_declaration_clash : exists sc, refuted sc ["package-declaration-clash"%string] OnlyClient ["redeclared"%string].
Proof. eexists. exact w_header_builtin. Qed.
Theorem C13_refuted_same_method_name_two_services : exists sc, refuted sc ["same-method-name-two-services"%string] OnlyHttp ["redeclared"%string].
Proof. eexists. exact w_same_method. Qed.
Theorem C13_refuted_service_named_like_method : exists sc, refuted sc ["service-named-like-method"%string] OnlyHttp ["redeclared"%string].
Proof. eexists. exact w_service_like_method. Qed.
Theorem C13_refuted_two_service_files_one_package : exists sc, refuted sc ["two-service-files-one-package"%string] OnlyClient ["redeclared"%string].
Proof. eexists. exact w_two_files. Qed.
Theorem C13_refuted_service_without_methods : exists sc, refuted sc ["service-without-methods"%string] OnlyHttp ["unused"%string].
Proof. eexists. exact w_no_methods. Qed.
Theorem C13_refuted_ts_server_url_redeclared : exists sc,
  accepted sc = true /\ defects_C13 sc = [s "ts-server-url-redeclared"] /\ ts_loads sc = false /\ go_vets sc Both = true.
Proof. eexists. exact w_ts_url. Qed.
