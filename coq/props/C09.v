(* C09 — requests are dispatched only when every required header is present and valid.
   Model: theories/Headers.v (Go gate, TS validation, published contract); lemmas: proofs/HeadersFacts.v.
   The Go side of the model is tied to the compiled server by harness/lib/c09.go on every run. *)
From Sebuf Require Import Text Num Schema Json Headers.
From SebufProofs Require Import HeadersFacts.

(* the handler runs only if every effective required header (Go merge) is present with a non-empty
   value the emitted validator accepts *)
Theorem C09_gate : forall svc mth rq body_verb body_ok,
  o_handler (go_serve svc mth rq body_verb body_ok) = true ->
  forall h, In h (go_effective svc mth) ->
    nonempty (go_value_of rq (h_name h)) = true /\
    go_value_ok (h_type h) (h_format h) (go_value_of rq (h_name h)) = true.
Proof. exact gate_go. Qed.
Print Assumptions C09_gate.

(* ... and, outside the accept-side defect classes, each such header is well-formed for its declared
   type and format (RFC 4122 / RFC 3339 / decimal literals; see Headers.wf_value) *)
Theorem C09_gate_wellformed : forall svc mth rq body_verb body_ok,
  o_handler (go_serve svc mth rq body_verb body_ok) = true -> accept_defects_C09 svc mth rq = [] ->
  forall h, In h (go_effective svc mth) ->
    exists v, hdr_get rq (h_name h) = Some v /\ nonempty v = true /\ wf_value (h_type h) (h_format h) v = true.
Proof. exact gate_wellformed. Qed.
Print Assumptions C09_gate_wellformed.

(* otherwise: 400, the violations are the offending effective headers (pairwise different names, so
   exactly one violation per offending header), the handler does not run, the body is not read *)
Theorem C09_400 : forall svc mth rq body_verb body_ok,
  go_offending svc mth rq <> [] ->
  let o := go_serve svc mth rq body_verb body_ok in
  o_status o = 400%Z /\ o_violations o = map h_name (go_offending svc mth rq) /\
  o_handler o = false /\ o_body_read o = false /\ distinct (go_offending svc mth rq) /\
  (forall h, In h (go_offending svc mth rq) <->
             In h (go_effective svc mth) /\
             (nonempty (go_value_of rq (h_name h)) = false \/
              go_value_ok (h_type h) (h_format h) (go_value_of rq (h_name h)) = false)).
Proof. exact reject_400. Qed.
Print Assumptions C09_400.

(* merge: per case-insensitive name the entry is the last required method-level declaration, else the
   last required service-level one; every effective entry is a required declaration *)
Theorem C09_override : forall n svc mth m,
  last_required n mth = Some m -> eff_find n (go_effective svc mth) = Some m.
Proof. exact override_method_wins. Qed.
Print Assumptions C09_override.
Theorem C09_service_kept : forall n svc mth,
  last_required n mth = None -> eff_find n (go_effective svc mth) = last_required n svc.
Proof. exact override_service_kept. Qed.
Print Assumptions C09_service_kept.
Theorem C09_effective_required : forall h svc mth,
  In h (go_effective svc mth) -> In h (svc ++ mth) /\ h_required h = true.
Proof. exact in_effective. Qed.
Print Assumptions C09_effective_required.

(* a request that satisfies the published parameter list is not rejected for its headers by the Go
   server, outside the reject-side defect classes ... *)
Theorem C09_published_never_rejected : forall svc mth rq,
  forallb (fun h => nonempty (h_name h)) (svc ++ mth) = true ->
  reject_defects_C09 svc mth rq = [] -> published_request_ok svc mth rq = true ->
  go_offending svc mth rq = [].
Proof. exact published_passes_go. Qed.
Print Assumptions C09_published_never_rejected.
(* ... nor by the TS server, outside the TS classes *)
Theorem C09_published_never_rejected_ts : forall svc mth rq,
  defects_C09_ts svc mth rq = [] -> published_request_ok svc mth rq = true -> ts_violations svc mth rq = [].
Proof. exact published_passes_ts. Qed.
Print Assumptions C09_published_never_rejected_ts.
(* value level: the published grammars are inside the Go acceptors up to the reject classes, and the Go
   acceptors inside well-formedness up to the accept classes *)
Theorem C09_value_published_accepted : forall ty fmt v,
  published_ok ty fmt v = true -> value_reject_defects ty fmt v = [] ->
  nonempty v = true /\ go_value_ok ty fmt v = true.
Proof. exact reject_sound. Qed.
Print Assumptions C09_value_published_accepted.
Theorem C09_value_accepted_wellformed : forall ty fmt v,
  go_value_ok ty fmt v = true -> value_accept_defects ty fmt v = [] -> wf_value ty fmt v = true.
Proof. exact accept_sound. Qed.
Print Assumptions C09_value_accepted_wellformed.

(* ---- examples ------------------------------------------------------------------------------------------- *)
Definition H (n t f : string) (r : bool) : header := {| h_name := s n; h_type := s t; h_required := r; h_format := s f |}.
Definition ex_svc := [H "X-Tenant" "string" "uuid" true; H "X-Opt" "integer" "" false; H "X-Both" "integer" "" true].
Definition ex_rq : hreq := [(s "x-tenant", s "123e4567-e89b-12d3-a456-426614174000"); (s "X-BOTH", s " 2024-02-29 ")].

(* hypotheses and conclusions of the theorems are inhabited by a non-trivial case: a method-level date
   replaces the service-level integer; the request satisfies the published list and is dispatched *)
Example C09_nonvacuous :
  let mth := [H "x-both" "string" "date" true] in
  c09_unmodelled ex_svc mth ex_rq = None /\ defects_C09 ex_svc mth ex_rq = [] /\ ts_violations ex_svc mth ex_rq = [s "X-Both"] /\
  published_request_ok ex_svc [H "X-Both" "string" "date" true] ex_rq = true /\
  o_handler (go_serve ex_svc mth ex_rq true true) = true /\
  map h_name (go_effective ex_svc mth) = [s "X-Tenant"; s "x-both"] /\
  o_violations (go_serve ex_svc mth [(s "X-Both", s "12")] true true) = [s "X-Tenant"; s "x-both"] /\
  o_body_read (go_serve ex_svc mth [(s "X-Both", s "12")] true true) = false.
Proof. vm_compute. repeat split; try reflexivity; let E := fresh in intros E; discriminate E. Qed.

(* refutations: published-conforming requests the Go server answers with 400 *)
Definition refutes_reject (tag : c09_defect) (svc mth : list header) (rq : hreq) : Prop :=
  c09_unmodelled svc mth rq = None /\ reject_defects_C09 svc mth rq = [tag] /\
  published_request_ok svc mth rq = true /\ o_status (go_serve svc mth rq true true) = 400%Z.
Example C09_refuted_time_offset :
  refutes_reject DTimeOffset [] [H "X-At" "string" "time" true] [(s "X-At", s "12:00:00Z")].
Proof. vm_compute. repeat split; reflexivity. Qed.
Example C09_refuted_datetime_lowercase :
  refutes_reject DDatetimeLowerTZ [] [H "X-At" "" "date-time" true] [(s "X-At", s "2024-02-29t10:20:30z")].
Proof. vm_compute. repeat split; reflexivity. Qed.
Example C09_refuted_leap_second :
  refutes_reject DLeapSecond [] [H "X-At" "string" "date-time" true] [(s "X-At", s "2016-12-31T23:59:60Z")].
Proof. vm_compute. repeat split; reflexivity. Qed.
Example C09_refuted_integer_beyond_int64 :
  refutes_reject DIntegerBeyondInt64 [H "X-N" "integer" "" true] [] [(s "X-N", s "9223372036854775808")].
Proof. vm_compute. repeat split; reflexivity. Qed.
Example C09_refuted_number_overflow :
  refutes_reject DNumberOverflow [H "X-N" "number" "" true] [] [(s "X-N", s "1e400")].
Proof. vm_compute. repeat split; reflexivity. Qed.
Example C09_refuted_empty_value :
  refutes_reject DEmptyValue [H "X-K" "string" "" true] [] [(s "X-K", [])].
Proof. vm_compute. repeat split; reflexivity. Qed.
Example C09_refuted_array_blank :
  refutes_reject DArrayBlank [H "X-L" "array" "" true] [] [(s "X-L", [ch 194; ch 160])].
Proof. vm_compute. repeat split; reflexivity. Qed.
Example C09_refuted_optional_override :
  refutes_reject DOptionalOverride ex_svc [H "X-Both" "string" "" false]
    [(s "X-Tenant", s "123e4567-e89b-12d3-a456-426614174000")].
Proof. vm_compute. repeat split; reflexivity. Qed.

(* refutations: malformed values with which the handler is reached *)
Definition refutes_accept (tag : c09_defect) (h : header) (v : str) : Prop :=
  c09_unmodelled [h] [] [(h_name h, v)] = None /\ accept_defects_C09 [h] [] [(h_name h, v)] = [tag] /\
  o_handler (go_serve [h] [] [(h_name h, v)] true true) = true /\ wf_value (h_type h) (h_format h) v = false.
Example C09_refuted_uuid_non_hex :
  refutes_accept GUuidNonHex (H "X-Id" "string" "uuid" true) (s "zzzzzzzz-zzzz-zzzz-zzzz-zzzzzzzzzzzz").
Proof. vm_compute. repeat split; reflexivity. Qed.
Example C09_refuted_datetime_lenient :
  refutes_accept GDatetimeLenient (H "X-At" "string" "date-time" true) (s "2024-02-29T1:20:30,5+24:60").
Proof. vm_compute. repeat split; reflexivity. Qed.
Example C09_refuted_time_lenient :
  refutes_accept GTimeLenient (H "X-At" "string" "time" true) (s "1:20:30,5").
Proof. vm_compute. repeat split; reflexivity. Qed.
Example C09_refuted_number_go_literal :
  refutes_accept GNumberGoLiteral (H "X-N" "number" "" true) (s "-Infinity").
Proof. vm_compute. repeat split; reflexivity. Qed.

(* refutations on the TS side (model of the emitted validators) *)
Definition refutes_ts (tag : c09_ts_defect) (svc mth : list header) (rq : hreq) : Prop :=
  defects_C09_ts svc mth rq = [tag] /\ published_request_ok svc mth rq = true /\ ts_violations svc mth rq <> [].
Example C09_refuted_ts_time_offset :
  refutes_ts TSTimeOffset [] [H "X-At" "string" "time" true] [(s "X-At", s "12:00:00Z")].
Proof. vm_compute. repeat split; try reflexivity; let E := fresh in intros E; discriminate E. Qed.
Example C09_refuted_ts_datetime_lowercase :
  refutes_ts TSDatetimeLowerTZ [] [H "X-At" "string" "date-time" true] [(s "X-At", s "2024-02-29t10:20:30Z")].
Proof. vm_compute. repeat split; try reflexivity; let E := fresh in intros E; discriminate E. Qed.
Example C09_refuted_ts_email_needs_dot :
  refutes_ts TSEmailNeedsDot [] [H "X-Mail" "string" "email" true] [(s "X-Mail", s "user@localhost")].
Proof. vm_compute. repeat split; try reflexivity; let E := fresh in intros E; discriminate E. Qed.
Example C09_refuted_ts_format_on_non_string :
  refutes_ts TSFormatOnNonString [] [H "X-N" "integer" "date" true] [(s "X-N", s "5")].
Proof. vm_compute. repeat split; try reflexivity; let E := fresh in intros E; discriminate E. Qed.
Example C09_refuted_ts_no_override :
  refutes_ts TSNoOverride [H "X-Both" "integer" "" true] [H "X-Both" "string" "date" true] [(s "X-Both", s "2024-02-29")].
Proof. vm_compute. repeat split; try reflexivity; let E := fresh in intros E; discriminate E. Qed.
